// ===== paths under the served directory (property C01) =====
pub open spec fn dotdot() -> Seq<char> { seq!['.', '.'] }
pub open spec fn slash() -> Seq<char> { seq!['/'] }

// a path that starts with '/' and has no ".." anywhere cannot leave the directory it is appended to
pub proof fn lemma_inside_root(p: Seq<char>)
    requires has_prefix(p, slash()), !has_sub(p, dotdot()),
    ensures rel_inside(p),
{
    assert(p.subrange(0, 1) == slash());
    assert(p[0] == p.subrange(0, 1)[0]);
    if has_dotdot_seg(p) {
        let i = choose|i: int| dotdot_at(p, i);
        assert(p.subrange(i, i + 2) =~= dotdot());
        assert(has_sub(p, dotdot()));
    }
}

// appending a suffix that holds no ".." and cannot complete one keeps the path inside
pub open spec fn harmless_suffix(suf: Seq<char>) -> bool {
    &&& suf.len() >= 2
    &&& (forall|j: int| 0 <= j && j + 1 < suf.len() ==> !(#[trigger] suf[j] == '.' && suf[j + 1] == '.'))
    &&& !(suf[0] == '.' && is_sep(suf[1]))
    &&& suf.last() != '.'
}

pub proof fn lemma_append_inside(p: Seq<char>, suf: Seq<char>)
    requires rel_inside(p), harmless_suffix(suf),
    ensures rel_inside(p + suf),
{
    let q = p + suf;
    assert(q[0] == p[0]);
    if has_dotdot_seg(q) {
        let i = choose|i: int| dotdot_at(q, i);
        if i + 2 <= p.len() {
            // both dots inside p
            assert(q[i] == p[i] && q[i + 1] == p[i + 1]);
            if i > 0 { assert(q[i - 1] == p[i - 1]); }
            if i + 2 < p.len() { assert(q[i + 2] == p[i + 2]); }
            if i + 2 == p.len() {
                // in q the pair is followed by suf[0], in p it ends the path: a ".." segment of p either way
            }
            assert(dotdot_at(p, i));
        } else if i + 1 == p.len() {
            // straddles the boundary: p ends with '.', suf starts with '.', and the next character would have to be a separator
            assert(q[i + 1] == suf[0]);
            assert(q[i + 2] == suf[1]);
            assert(false);
        } else {
            // both dots inside suf
            let j = i - p.len();
            assert(q[i] == suf[j] && q[i + 1] == suf[j + 1]);
            assert(false);
        }
    }
}

pub proof fn lemma_under_root(rel: Seq<char>)
    requires rel_inside(rel),
    ensures under_root(cwd() + rel), fs_allowed(cwd() + rel),
{
}

pub open spec fn s_index_html() -> Seq<char> { seq!['i', 'n', 'd', 'e', 'x', '.', 'h', 't', 'm', 'l'] }
pub open spec fn s_slash_index_html() -> Seq<char> { seq!['/', 'i', 'n', 'd', 'e', 'x', '.', 'h', 't', 'm', 'l'] }
pub open spec fn s_dot_html() -> Seq<char> { seq!['.', 'h', 't', 'm', 'l'] }

pub proof fn lemma_suffixes()
    ensures harmless_suffix(s_index_html()), harmless_suffix(s_slash_index_html()), harmless_suffix(s_dot_html()),
{
}

// URL::parse is a pure function of its argument (deterministic); nothing else is known about it
pub uninterp spec fn url_path_spec(url: Seq<char>) -> Option<Seq<char>>;

// ===== the documented lookup (properties C02, C09) =====
pub open spec fn method_serves(m: Seq<char>) -> bool { m == METHOD.get@ || m == METHOD.head@ || m == METHOD.options@ }

pub open spec fn dir_index(path: Seq<char>) -> Seq<char> { if path.last() == '/' { s_index_html() } else { s_slash_index_html() } }

// the file itself, else index.html inside the named directory, else the file with .html appended
pub open spec fn lookup_selects(path: Seq<char>) -> bool {
    let sf = cwd() + path;
    if fs_is_dir(sf) { fs_openable(sf + dir_index(path)) }
    else { fs_openable(sf) || (!has_suffix(sf, s_dot_html()) && fs_openable(sf + s_dot_html())) }
}

pub open spec fn request_url(uri: Seq<char>) -> Seq<char> { seq!['h', 't', 't', 'p', ':', '/', '/'] + seq!['l', 'o', 'c', 'a', 'l', 'h', 'o', 's', 't'] + uri }

pub open spec fn static_match(method: Seq<char>, uri: Seq<char>) -> bool {
    let p = url_path_spec(request_url(uri));
    method_serves(method) && uri != slash() && p.is_some() && has_prefix(p.unwrap(), slash()) && !has_sub(p.unwrap(), dotdot())
        && lookup_selects(p.unwrap())
}

// C09: whether a target is served does not depend on which of GET / HEAD / OPTIONS asks
pub proof fn lemma_match_is_method_independent(m1: Seq<char>, m2: Seq<char>, uri: Seq<char>)
    requires method_serves(m1), method_serves(m2),
    ensures static_match(m1, uri) == static_match(m2, uri),
{
}
