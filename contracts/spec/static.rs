// ===== paths under the served directory (property C01) =====
pub open spec fn dotdot() -> Seq<char> { seq!['.', '.'] }
pub open spec fn slash() -> Seq<char> { seq!['/'] }

// a path that starts with '/' and has no ".." anywhere cannot leave the directory it is appended to
pub proof fn lemma_inside_root(p: Seq<char>)
    requires has_prefix(p, slash()), !has_sub(p, dotdot()),
    ensures rel_inside(p),
{
    assert(p.subrange(0, 1) == slash());
    assert(p[0] == p.subrange(0, 1)[0]);
    if has_dotdot_seg(p) {
        let i = choose|i: int| dotdot_at(p, i);
        assert(p.subrange(i, i + 2) =~= dotdot());
        assert(has_sub(p, dotdot()));
    }
}

// appending a suffix that holds no ".." and cannot complete one keeps the path inside
pub open spec fn harmless_suffix(suf: Seq<char>) -> bool {
    &&& suf.len() >= 2
    &&& (forall|j: int| 0 <= j && j + 1 < suf.len() ==> !(#[trigger] suf[j] == '.' && suf[j + 1] == '.'))
    &&& !(suf[0] == '.' && is_sep(suf[1]))
    &&& suf.last() != '.'
}

pub proof fn lemma_append_inside(p: Seq<char>, suf: Seq<char>)
    requires rel_inside(p), harmless_suffix(suf),
    ensures rel_inside(p + suf),
{
    let q = p + suf;
    assert(q[0] == p[0]);
    if has_dotdot_seg(q) {
        let i = choose|i: int| dotdot_at(q, i);
        if i + 2 <= p.len() {
            // both dots inside p
            assert(q[i] == p[i] && q[i + 1] == p[i + 1]);
            if i > 0 { assert(q[i - 1] == p[i - 1]); }
            if i + 2 < p.len() { assert(q[i + 2] == p[i + 2]); }
            if i + 2 == p.len() {
                // in q the pair is followed by suf[0], in p it ends the path: a ".." segment of p either way
            }
            assert(dotdot_at(p, i));
        } else if i + 1 == p.len() {
            // straddles the boundary: p ends with '.', suf starts with '.', and the next character would have to be a separator
            assert(q[i + 1] == suf[0]);
            assert(q[i + 2] == suf[1]);
            assert(false);
        } else {
            // both dots inside suf
            let j = i - p.len();
            assert(q[i] == suf[j] && q[i + 1] == suf[j + 1]);
            assert(false);
        }
    }
}

pub proof fn lemma_under_root(rel: Seq<char>)
    requires rel_inside(rel),
    ensures under_root(cwd() + rel), fs_allowed(cwd() + rel),
{
}

pub open spec fn s_index_html() -> Seq<char> { seq!['i', 'n', 'd', 'e', 'x', '.', 'h', 't', 'm', 'l'] }
pub open spec fn s_slash_index_html() -> Seq<char> { seq!['/', 'i', 'n', 'd', 'e', 'x', '.', 'h', 't', 'm', 'l'] }
pub open spec fn s_dot_html() -> Seq<char> { seq!['.', 'h', 't', 'm', 'l'] }

pub proof fn lemma_suffixes()
    ensures harmless_suffix(s_index_html()), harmless_suffix(s_slash_index_html()), harmless_suffix(s_dot_html()),
{
}

// URL::parse is a pure function of its argument (deterministic); nothing else is known about it
pub uninterp spec fn url_path_spec(url: Seq<char>) -> Option<Seq<char>>;

// ===== the documented lookup (properties C02, C09) =====
pub open spec fn method_serves(m: Seq<char>) -> bool { m == METHOD.get@ || m == METHOD.head@ || m == METHOD.options@ }

pub open spec fn dir_index(path: Seq<char>) -> Seq<char> { if path.last() == '/' { s_index_html() } else { s_slash_index_html() } }

// the file itself, else index.html inside the named directory, else the file with .html appended
pub open spec fn lookup_selects(path: Seq<char>) -> bool {
    let sf = cwd() + path;
    if fs_is_dir(sf) { fs_openable(sf + dir_index(path)) }
    else { fs_openable(sf) || (!has_suffix(sf, s_dot_html()) && fs_openable(sf + s_dot_html())) }
}

pub open spec fn request_url(uri: Seq<char>) -> Seq<char> { seq!['h', 't', 't', 'p', ':', '/', '/'] + seq!['l', 'o', 'c', 'a', 'l', 'h', 'o', 's', 't'] + uri }

pub open spec fn static_match(method: Seq<char>, uri: Seq<char>) -> bool {
    let p = url_path_spec(request_url(uri));
    method_serves(method) && uri != slash() && p.is_some() && has_prefix(p.unwrap(), slash()) && !has_sub(p.unwrap(), dotdot())
        && lookup_selects(p.unwrap())
}

// C09: whether a target is served does not depend on which of GET / HEAD / OPTIONS asks
pub proof fn lemma_match_is_method_independent(m1: Seq<char>, m2: Seq<char>, uri: Seq<char>)
    requires method_serves(m1), method_serves(m2),
    ensures static_match(m1, uri) == static_match(m2, uri),
{
}

// ===== which file is read, and what is served for it (property C02) =====
// the file Range::get_content_range_list reads for a target: served directory ++ path of the parsed target
pub open spec fn target_file(uri: Seq<char>) -> Option<Seq<char>> {
    let p = url_path_spec(request_url(uri));
    if p.is_some() && has_prefix(p.unwrap(), slash()) && !has_sub(p.unwrap(), dotdot()) { Some(cwd() + p.unwrap()) } else { None }
}
// the single part that answers a request without a Range header for the regular file f: all of its bytes, its media type
pub open spec fn whole_file_part(f: Seq<char>, p: ContentRange) -> bool {
    p.range.start == 0 && p.body@ == file_content(f) && p.size@ == dec(file_content(f).len()) && p.unit@ == "bytes"@
    && (mime_listed(f) ==> p.content_type@ == mime_of(f))
}
pub proof fn lemma_whole_slice(c: Seq<u8>, end: int)
    requires end + 1 >= c.len(),
    ensures file_slice(c, 0, end) == c,
{
    assert(file_slice(c, 0, end) =~= c);
}

// ASSUMED about the url-build-parse dependency (read off its source: no percent-decoding; the path ends at the first '?', or at
// the first '#' when there is no '?'; conformance-tested in the thorough tier): a target that starts with '/' and holds neither
// '?' nor '#' is its own path.  The static controller RE-PARSES "path ++ suffix" when it reads index.html / .html files.
pub open spec fn plain_path(q: Seq<char>) -> bool { forall|i: int| 0 <= i < q.len() ==> #[trigger] q[i] != '?' && q[i] != '#' }
#[verifier::external_body]
pub proof fn axiom_url_plain_path(q: Seq<char>)
    requires q.len() > 0, q[0] == '/', plain_path(q),
    ensures url_path_spec(request_url(q)) == Some(q),
{
}
// the file the documented lookup selects for the path p of the target (when lookup_selects(p))
pub open spec fn selected(p: Seq<char>) -> Seq<char> {
    let sf = cwd() + p;
    if fs_is_dir(sf) { sf + dir_index(p) } else if fs_openable(sf) { sf } else { sf + s_dot_html() }
}
// a regular, readable file that is not itself a symbolic link
pub open spec fn regular(f: Seq<char>) -> bool { fs_is_file(f) && fs_openable(f) && !fs_is_symlink(f) }
pub open spec fn s_range() -> Seq<char> { seq!['R', 'a', 'n', 'g', 'e'] }
// the served representation of a target when the request carries no Range header
pub open spec fn serves_whole(uri: Seq<char>, parts: Seq<ContentRange>) -> bool {
    let p = url_path_spec(request_url(uri)).unwrap();
    parts.len() == 1 && whole_file_part(selected(p), parts[0])
}
// domain of the C02 statement for a target: it parses, lies under the root, is selected by the lookup, the selected file is a regular
// file; the path holds no '#' (a '#' before the first '?' stays in the path and is cut off when the path is re-parsed) and does not end
// in '.' (path ++ ".html" would then hold "..", which the containment guard refuses)
pub open spec fn c02_domain(uri: Seq<char>) -> bool {
    let po = url_path_spec(request_url(uri));
    po.is_some() && has_prefix(po.unwrap(), slash()) && !has_sub(po.unwrap(), dotdot()) && plain_path(po.unwrap())
        && po.unwrap().last() != '.'
        && lookup_selects(po.unwrap()) && regular(selected(po.unwrap()))
}

pub proof fn lemma_no_dotdot_append(p: Seq<char>, suf: Seq<char>)
    requires !has_sub(p, dotdot()), !has_sub(suf, dotdot()), p.len() == 0 || suf.len() == 0 || p.last() != '.' || suf[0] != '.',
    ensures !has_sub(p + suf, dotdot()),
{
    let q = p + suf;
    if has_sub(q, dotdot()) {
        let k = choose|k: int| 0 <= k && k + 2 <= q.len() && #[trigger] q.subrange(k, k + 2) == dotdot();
        assert(q.subrange(k, k + 2)[0] == '.' && q.subrange(k, k + 2)[1] == '.');
        assert(q[k] == '.' && q[k + 1] == '.');
        if k + 2 <= p.len() {
            assert(p.subrange(k, k + 2) =~= dotdot());
        } else if k >= p.len() {
            assert(suf.subrange(k - p.len(), k - p.len() + 2) =~= dotdot());
        } else {
            assert(q[k] == p.last() && q[k + 1] == suf[0]);
        }
    }
}
// the file read when the controller asks for  path ++ suffix  (index.html / .html): served directory ++ path ++ suffix
pub proof fn lemma_target_of_suffix(p: Seq<char>, suf: Seq<char>)
    requires has_prefix(p, slash()), !has_sub(p, dotdot()), plain_path(p), plain_path(suf), !has_sub(suf, dotdot()),
        suf.len() == 0 || p.last() != '.' || suf[0] != '.',
    ensures target_file(p + suf) == Some(cwd() + p + suf),
{
    let q = p + suf;
    assert(p.subrange(0, 1) == slash());
    assert(p[0] == p.subrange(0, 1)[0]);
    assert(q[0] == '/');
    assert(plain_path(q)) by { assert forall|i: int| 0 <= i < q.len() implies #[trigger] q[i] != '?' && q[i] != '#' by { if i < p.len() { assert(q[i] == p[i]); } else { assert(q[i] == suf[i - p.len()]); } } }
    axiom_url_plain_path(q);
    lemma_no_dotdot_append(p, suf);
    assert(q.subrange(0, 1) =~= slash());
    assert(cwd() + q =~= cwd() + p + suf);
}
pub proof fn lemma_suffix_facts()
    ensures
        plain_path(s_index_html()), plain_path(s_slash_index_html()), plain_path(s_dot_html()),
        !has_sub(s_index_html(), dotdot()), !has_sub(s_slash_index_html(), dotdot()), !has_sub(s_dot_html(), dotdot()),
        s_index_html()[0] != '.', s_slash_index_html()[0] != '.',
{
    assert forall|k: int| 0 <= k && k + 2 <= s_index_html().len() implies #[trigger] s_index_html().subrange(k, k + 2) != dotdot() by {
        let t = s_index_html().subrange(k, k + 2); assert(t[0] == s_index_html()[k] && t[1] == s_index_html()[k + 1]); }
    assert forall|k: int| 0 <= k && k + 2 <= s_slash_index_html().len() implies #[trigger] s_slash_index_html().subrange(k, k + 2) != dotdot() by {
        let t = s_slash_index_html().subrange(k, k + 2); assert(t[0] == s_slash_index_html()[k] && t[1] == s_slash_index_html()[k + 1]); }
    assert forall|k: int| 0 <= k && k + 2 <= s_dot_html().len() implies #[trigger] s_dot_html().subrange(k, k + 2) != dotdot() by {
        let t = s_dot_html().subrange(k, k + 2); assert(t[0] == s_dot_html()[k] && t[1] == s_dot_html()[k + 1]); }
}
