// ===== paths under the served directory (property C01) =====
pub open spec fn dotdot() -> Seq<char> { seq!['.', '.'] }
pub open spec fn slash() -> Seq<char> { seq!['/'] }

// a path that can be appended to the served directory without leaving it: it starts with '/' and none of its segments is ".."
// (URL::is_path_inside_root; two dots inside a name, like a..b, are fine)
pub open spec fn inside(p: Seq<char>) -> bool { has_prefix(p, slash()) && !has_dotdot_seg(p) }
pub proof fn lemma_inside(p: Seq<char>)
    ensures inside(p) == rel_inside(p), has_prefix(p, slash()) == (p.len() > 0 && p[0] == '/'),
{
    if p.len() > 0 {
        assert(p.subrange(0, 1)[0] == p[0]);
        if p[0] == '/' { assert(p.subrange(0, 1) =~= slash()); }
    }
}

// appending a suffix that holds no ".." and cannot complete one keeps the path inside
pub open spec fn harmless_suffix(suf: Seq<char>) -> bool {
    &&& suf.len() >= 2
    &&& (forall|j: int| 0 <= j && j + 1 < suf.len() ==> !(#[trigger] suf[j] == '.' && suf[j + 1] == '.'))
    &&& !(suf[0] == '.' && is_sep(suf[1]))
    &&& suf.last() != '.'
}

pub proof fn lemma_append_inside(p: Seq<char>, suf: Seq<char>)
    requires rel_inside(p), harmless_suffix(suf),
    ensures rel_inside(p + suf),
{
    let q = p + suf;
    assert(q[0] == p[0]);
    if has_dotdot_seg(q) {
        let i = choose|i: int| dotdot_at(q, i);
        if i + 2 <= p.len() {
            // both dots inside p
            assert(q[i] == p[i] && q[i + 1] == p[i + 1]);
            if i > 0 { assert(q[i - 1] == p[i - 1]); }
            if i + 2 < p.len() { assert(q[i + 2] == p[i + 2]); }
            if i + 2 == p.len() {
                // in q the pair is followed by suf[0], in p it ends the path: a ".." segment of p either way
            }
            assert(dotdot_at(p, i));
        } else if i + 1 == p.len() {
            // straddles the boundary: p ends with '.', suf starts with '.', and the next character would have to be a separator
            assert(q[i + 1] == suf[0]);
            assert(q[i + 2] == suf[1]);
            assert(false);
        } else {
            // both dots inside suf
            let j = i - p.len();
            assert(q[i] == suf[j] && q[i + 1] == suf[j + 1]);
            assert(false);
        }
    }
}

pub proof fn lemma_under_root(rel: Seq<char>)
    requires rel_inside(rel),
    ensures under_root(cwd() + rel), fs_allowed(cwd() + rel),
{
}

pub open spec fn s_index_html() -> Seq<char> { seq!['i', 'n', 'd', 'e', 'x', '.', 'h', 't', 'm', 'l'] }
pub open spec fn s_slash_index_html() -> Seq<char> { seq!['/', 'i', 'n', 'd', 'e', 'x', '.', 'h', 't', 'm', 'l'] }
pub open spec fn s_dot_html() -> Seq<char> { seq!['.', 'h', 't', 'm', 'l'] }

pub proof fn lemma_suffixes()
    ensures harmless_suffix(s_index_html()), harmless_suffix(s_slash_index_html()), harmless_suffix(s_dot_html()),
{
}

// URL::parse is a pure function of its argument (deterministic); nothing else is known about the components it returns
pub uninterp spec fn url_path_spec(url: Seq<char>) -> Option<Seq<char>>;

// ----- the url-build-parse dependency is NOT total -----
// Read off its source (parse_authority: `port = extract_port(..).unwrap()`): behind "http://localhost" whatever precedes the
// first '/' of the target is read as part of the authority, and a ':' there starts a port that must be a number - otherwise
// parse_url PANICS.  The precondition below is the sufficient condition the callers in /repo establish
// (URL::parse_request_target); conformance-tested: no panic for targets that satisfy it, panic for ":x/", "http://h/".
pub open spec fn leading_of(t: Seq<char>) -> Seq<char> {
    match split_once_spec(t, slash()) { Some(ab) => ab.0, None => t }
}
pub open spec fn colon_s() -> Seq<char> { seq![':'] }
pub open spec fn target_ok(t: Seq<char>) -> bool { !has_sub(leading_of(t), colon_s()) }
pub open spec fn dep_url_safe(url: Seq<char>) -> bool { exists|t: Seq<char>| #[trigger] request_url(t) == url && target_ok(t) }
#[verifier::external_body]
pub fn parse_url(url: &str) -> (res: Result<UrlComponents, String>)
    requires dep_url_safe(url@),
    ensures
        res.is_ok() <==> url_path_spec(url@).is_some(),
        res.is_ok() ==> res.unwrap().path@ == url_path_spec(url@).unwrap(),
{ unimplemented!() }
// the path of a request target as URL::parse_request_target reports it
pub open spec fn target_path(t: Seq<char>) -> Option<Seq<char>> {
    if target_ok(t) { url_path_spec(request_url(t)) } else { None }
}
// a target in origin form has an empty leading part
pub proof fn lemma_origin_form_ok(q: Seq<char>)
    requires q.len() > 0, q[0] == '/',
    ensures target_ok(q), target_path(q) == url_path_spec(request_url(q)),
{
    axiom_split_once(q, slash());
    assert(q.subrange(0, 1) =~= slash());
    assert(has_sub(q, slash()));
    let ab = split_once_spec(q, slash()).unwrap();
    if ab.0.len() > 0 {
        assert(ab.0[0] == q[0]);
        assert(ab.0.subrange(0, 1) =~= slash());
        assert(has_sub(ab.0, slash()));
    }
    assert(leading_of(q).len() == 0);
}

// ===== the documented lookup (properties C02, C09) =====
pub open spec fn method_serves(m: Seq<char>) -> bool { m == METHOD.get@ || m == METHOD.head@ || m == METHOD.options@ }

pub open spec fn dir_index(path: Seq<char>) -> Seq<char> { if path.last() == '/' { s_index_html() } else { s_slash_index_html() } }

// the file itself, else index.html inside the named directory, else the file with .html appended
pub open spec fn lookup_selects(path: Seq<char>) -> bool {
    let sf = cwd() + path;
    if fs_is_dir(sf) { fs_openable(sf + dir_index(path)) }
    else { fs_openable(sf) || (!has_suffix(sf, s_dot_html()) && fs_openable(sf + s_dot_html())) }
}

pub open spec fn request_url(uri: Seq<char>) -> Seq<char> { seq!['h', 't', 't', 'p', ':', '/', '/'] + seq!['l', 'o', 'c', 'a', 'l', 'h', 'o', 's', 't'] + uri }

pub open spec fn static_match(method: Seq<char>, uri: Seq<char>) -> bool {
    let p = target_path(uri);
    method_serves(method) && uri != slash() && p.is_some() && inside(p.unwrap()) && lookup_selects(p.unwrap())
}

// C09: whether a target is served does not depend on which of GET / HEAD / OPTIONS asks
pub proof fn lemma_match_is_method_independent(m1: Seq<char>, m2: Seq<char>, uri: Seq<char>)
    requires method_serves(m1), method_serves(m2),
    ensures static_match(m1, uri) == static_match(m2, uri),
{
}

// ===== which file is read, and what is served for it (property C02) =====
// the file Range::get_content_range_list reads for a target: served directory ++ path of the parsed target
pub open spec fn target_file(uri: Seq<char>) -> Option<Seq<char>> {
    let p = target_path(uri);
    if p.is_some() && inside(p.unwrap()) { Some(cwd() + p.unwrap()) } else { None }
}
// the single part that answers a request without a Range header for the regular file f: all of its bytes, its media type
pub open spec fn whole_file_part(f: Seq<char>, p: ContentRange) -> bool {
    p.range.start == 0 && p.body@ == file_content(f) && p.size@ == dec(file_content(f).len()) && p.unit@ == "bytes"@
    && (mime_listed(f) ==> p.content_type@ == mime_of(f))
}
pub proof fn lemma_whole_slice(c: Seq<u8>, end: int)
    requires end + 1 >= c.len(),
    ensures file_slice(c, 0, end) == c,
{
    assert(file_slice(c, 0, end) =~= c);
}

// ASSUMED about the url-build-parse dependency (read off its source: no percent-decoding; the path ends at the first '?', or at
// the first '#' when there is no '?'; conformance-tested in the thorough tier): a target that starts with '/' and holds neither
// '?' nor '#' is its own path.  The static controller RE-PARSES "path ++ suffix" when it reads index.html / .html files.
pub open spec fn plain_path(q: Seq<char>) -> bool { forall|i: int| 0 <= i < q.len() ==> #[trigger] q[i] != '?' && q[i] != '#' }
#[verifier::external_body]
pub proof fn axiom_url_plain_path(q: Seq<char>)
    requires q.len() > 0, q[0] == '/', plain_path(q),
    ensures url_path_spec(request_url(q)) == Some(q),
{
}
pub proof fn lemma_target_plain_path(q: Seq<char>)
    requires q.len() > 0, q[0] == '/', plain_path(q),
    ensures target_path(q) == Some(q),
{
    axiom_url_plain_path(q);
    lemma_origin_form_ok(q);
}
// the file the documented lookup selects for the path p of the target (when lookup_selects(p))
pub open spec fn selected(p: Seq<char>) -> Seq<char> {
    let sf = cwd() + p;
    if fs_is_dir(sf) { sf + dir_index(p) } else if fs_openable(sf) { sf } else { sf + s_dot_html() }
}
// a regular, readable file that is not itself a symbolic link
pub open spec fn regular(f: Seq<char>) -> bool { fs_is_file(f) && fs_openable(f) && !fs_is_symlink(f) }
pub open spec fn s_range() -> Seq<char> { seq!['R', 'a', 'n', 'g', 'e'] }
// the served representation of a target when the request carries no Range header
pub open spec fn serves_whole(uri: Seq<char>, parts: Seq<ContentRange>) -> bool {
    let p = target_path(uri).unwrap();
    parts.len() == 1 && whole_file_part(selected(p), parts[0])
}
// domain of the C02 statement for a target: it parses, lies under the root, is selected by the lookup, the selected file is a regular
// file; the path holds no '#' (a '#' before the first '?' stays in the path and is cut off when the path is re-parsed)
pub open spec fn c02_domain(uri: Seq<char>) -> bool {
    let po = target_path(uri);
    po.is_some() && inside(po.unwrap()) && plain_path(po.unwrap())
        && lookup_selects(po.unwrap()) && regular(selected(po.unwrap()))
}

// the file read when the controller asks for  path ++ suffix  (index.html / .html): served directory ++ path ++ suffix
pub proof fn lemma_target_of_suffix(p: Seq<char>, suf: Seq<char>)
    requires inside(p), plain_path(p), plain_path(suf), harmless_suffix(suf),
    ensures target_file(p + suf) == Some(cwd() + p + suf),
{
    let q = p + suf;
    lemma_inside(p);
    assert(q[0] == p[0]);
    assert(plain_path(q)) by { assert forall|i: int| 0 <= i < q.len() implies #[trigger] q[i] != '?' && q[i] != '#' by { if i < p.len() { assert(q[i] == p[i]); } else { assert(q[i] == suf[i - p.len()]); } } }
    lemma_target_plain_path(q);
    lemma_append_inside(p, suf);
    lemma_inside(q);
    assert(cwd() + q =~= cwd() + p + suf);
}
pub proof fn lemma_suffix_facts()
    ensures plain_path(s_index_html()), plain_path(s_slash_index_html()), plain_path(s_dot_html()),
{
}

// ===== the directory a symbolic link lives in (Range::get_content_range_list reverses the path and splits at the first '/') =====
pub proof fn lemma_last_sl_after(a: Seq<char>, c: Seq<char>)
    requires forall|i: int| 0 <= i < c.len() ==> #[trigger] c[i] != '/',
    ensures last_sl(a + slash() + c) == a.len(),
    decreases c.len()
{
    let s = a + slash() + c;
    if c.len() == 0 {
        assert(s.last() == '/');
    } else {
        assert(s.last() == c.last());
        assert(s.drop_last() =~= a + slash() + c.drop_last());
        assert forall|i: int| 0 <= i < c.drop_last().len() implies #[trigger] c.drop_last()[i] != '/' by { assert(c.drop_last()[i] == c[i]); }
        lemma_last_sl_after(a, c.drop_last());
    }
}
pub proof fn lemma_last_sl_none(c: Seq<char>)
    requires forall|i: int| 0 <= i < c.len() ==> #[trigger] c[i] != '/',
    ensures last_sl(c) == -1,
    decreases c.len()
{
    if c.len() > 0 {
        assert forall|i: int| 0 <= i < c.drop_last().len() implies #[trigger] c.drop_last()[i] != '/' by { assert(c.drop_last()[i] == c[i]); }
        lemma_last_sl_none(c.drop_last());
    }
}
// the path reversed, split at its first '/', second piece reversed again: the directory part
pub proof fn lemma_dir_by_reversal(s: Seq<char>)
    ensures ({
        let sp = split_once_spec(s.reverse(), slash());
        (sp.is_none() ==> dir_part(s) == Seq::<char>::empty()) && (sp.is_some() ==> dir_part(s) == sp.unwrap().1.reverse())
    }),
{
    let rv = s.reverse();
    axiom_split_once(rv, slash());
    let sp = split_once_spec(rv, slash());
    assert(rv.len() == s.len());
    assert(forall|i: int| 0 <= i < s.len() ==> rv[i] == s[s.len() - 1 - i]);
    if sp.is_none() {
        assert forall|i: int| 0 <= i < s.len() implies #[trigger] s[i] != '/' by {
            if s[i] == '/' { let k = s.len() - 1 - i; assert(rv[k] == '/'); assert(rv.subrange(k, k + 1) =~= slash()); assert(has_sub(rv, slash())); }
        }
        lemma_last_sl_none(s);
    } else {
        let f = sp.unwrap().0;
        let pr = sp.unwrap().1;
        assert(rv == f + slash() + pr);
        let a = pr.reverse();
        let c = f.reverse();
        assert forall|i: int| 0 <= i < c.len() implies #[trigger] c[i] != '/' by {
            let k = f.len() - 1 - i;
            if f[k] == '/' { assert(f.subrange(k, k + 1) =~= slash()); assert(has_sub(f, slash())); }
        }
        assert(s =~= a + slash() + c) by {
            assert(s.len() == a.len() + 1 + c.len());
            assert forall|i: int| 0 <= i < s.len() implies s[i] == (a + slash() + c)[i] by {
                let j = s.len() - 1 - i;      // position in rv
                assert(s[i] == rv[j]);
                if i < a.len() { assert(rv[j] == pr[j - f.len() - 1]); assert(a[i] == pr[pr.len() - 1 - i]); }
                else if i == a.len() { assert(j == f.len()); assert(rv[j] == slash()[0]); }
                else { assert(rv[j] == f[j]); assert(c[i - a.len() - 1] == f[f.len() - 1 - (i - a.len() - 1)]); }
            }
        }
        lemma_last_sl_after(a, c);
        assert(s.subrange(0, a.len() as int) =~= a);
    }
}

// the status of a successful static answer depends on the method and on the presence of a Range header only
pub open spec fn static_status(method: Seq<char>, has_range: bool) -> int {
    if method == METHOD.options@ { 204 } else if has_range { 206 } else { 200 }
}

// the legacy matcher (Application::execute): the target itself names a regular file inside the root; no index.html / .html lookup;
// OPTIONS on "/" is excluded (the code's `a || b || c && d`)
pub open spec fn static_match_legacy(method: Seq<char>, uri: Seq<char>) -> bool {
    inside(uri) && fs_is_file(cwd() + uri) && !fs_is_dir(cwd() + uri) && fs_openable(cwd() + uri)
    && (method == METHOD.get@ || method == METHOD.head@ || (method == METHOD.options@ && uri != slash()))
}

// ASSUMED about the url-build-parse dependency (read off its source, conformance-tested): a URL of the form
// "http://localhost/" ++ x always parses - the authority is the constant "localhost", the remainder starts with '/', so none of
// parse_url's error branches can be taken
#[verifier::external_body]
pub proof fn axiom_url_slash_ok(x: Seq<char>)
    ensures url_path_spec(request_url(slash() + x)).is_some(),
{
}

// when process_static_resources reported an error (code e), the response carries that code
pub open spec fn error_status_kept(e: int, status: int) -> bool { e != -1 ==> status == e }
// the lookup returns Ok only if no call of the range pipeline it made reported an error (the 416 of a bad Range is not swallowed)
pub open spec fn range_error_kept(failed: bool) -> bool { !failed }

// the Range value the static controller hands to the range pipeline
pub open spec fn effective_range(hs: Seq<Header>) -> Seq<char> {
    let h = req_header(hs, Header::_RANGE@);
    if h.is_some() { h.unwrap().value@ } else { seq!['b', 'y', 't', 'e', 's', '=', '0', '-'] }
}
