// ===== contracts/spec/settings.rs — property C12: command line over configuration file over environment over defaults =====
// The table of settings (s_var, s_short, s_long, s_default; settings_tbl.rs) is the documentation's.  Everything here is
// stated per setting i, so that "supplying one setting never changes another" is part of the statement.
pub type Env = Map<Seq<char>, Seq<char>>;
pub open spec fn in_tbl(i: int) -> bool { 0 <= i < 11 }
pub open spec fn eqs() -> Seq<char> { seq!['='] }

// a command line word `p=v` names setting i when p is one of the two documented spellings
pub open spec fn is_spelling(p: Seq<char>, i: int) -> bool { p == s_short(i) || p == s_long(i) }

// ----- the code's table is the documentation's -----
pub open spec fn entry_is(a: CommandLineArgument, i: int) -> bool {
    seq!['-'] + a.short_form@ == s_short(i) && seq!['-', '-'] + a.long_form@ == s_long(i) && a.environment_variable@ == s_var(i)
}
pub open spec fn table_is(l: Seq<CommandLineArgument>) -> bool {
    l.len() == 11 && forall|i: int| 0 <= i < 11 ==> entry_is(#[trigger] l[i], i)
}

// ----- what a list of `spelling=value` words does to the environment (CommandLineArgument::_parse) -----
pub open spec fn first_match(p: Seq<char>, k: int) -> Option<int>
    decreases 11 - k
{
    if k < 0 || k >= 11 { None } else if is_spelling(p, k) { Some(k) } else { first_match(p, k + 1) }
}
pub open spec fn apply_arg(env: Env, a: Seq<char>) -> Env {
    let so = split_once_spec(a, eqs());
    if so.is_none() { env } else {
        let m = first_match(so.unwrap().0, 0);
        if m.is_none() { env } else { env.insert(s_var(m.unwrap()), so.unwrap().1) }
    }
}
pub open spec fn apply_args(env: Env, args: Seq<Seq<char>>) -> Env
    decreases args.len()
{
    if args.len() == 0 { env } else { apply_arg(apply_args(env, args.drop_last()), args.last()) }
}

// the value a list of words gives setting i: the LAST word `p=v` (split at the first '=') whose p is a spelling of i
pub open spec fn cli_value(args: Seq<Seq<char>>, i: int) -> Option<Seq<char>>
    decreases args.len()
{
    if args.len() == 0 { None } else {
        let so = split_once_spec(args.last(), eqs());
        if so.is_some() && is_spelling(so.unwrap().0, i) { Some(so.unwrap().1) } else { cli_value(args.drop_last(), i) }
    }
}

pub proof fn lemma_first_match_skip(p: Seq<char>, k: int, n: int)
    requires 0 <= k <= n <= 11, forall|j: int| k <= j < n ==> !is_spelling(p, j),
    ensures first_match(p, k) == first_match(p, n),
    decreases n - k
{
    if k < n { lemma_first_match_skip(p, k + 1, n); }
}
pub proof fn lemma_first_match_sound(p: Seq<char>, k: int)
    requires 0 <= k <= 11,
    ensures
        first_match(p, k).is_some() ==> k <= first_match(p, k).unwrap() < 11 && is_spelling(p, first_match(p, k).unwrap()),
        first_match(p, k).is_none() ==> forall|j: int| k <= j < 11 ==> !is_spelling(p, j),
    decreases 11 - k
{
    if k < 11 && !is_spelling(p, k) { lemma_first_match_sound(p, k + 1); }
}
// the spellings are pairwise different, so "first match" is "the match"
pub proof fn lemma_first_match_is(p: Seq<char>, i: int)
    requires in_tbl(i),
    ensures is_spelling(p, i) <==> first_match(p, 0) == Some(i),
{
    lemma_tbl_distinct();
    lemma_first_match_sound(p, 0);
    if is_spelling(p, i) {
        assert forall|j: int| 0 <= j < i implies !is_spelling(p, j) by { }
        lemma_first_match_skip(p, 0, i);
    }
}

pub proof fn lemma_first_match_all(p: Seq<char>)
    ensures forall|i: int| 0 <= i < 11 ==> (#[trigger] is_spelling(p, i) <==> first_match(p, 0) == Some(i)),
{
    assert forall|i: int| 0 <= i < 11 implies (#[trigger] is_spelling(p, i) <==> first_match(p, 0) == Some(i)) by { lemma_first_match_is(p, i); }
}

// setting i after a list of words: the list's value if it has one, otherwise what was there; other variables untouched
pub proof fn lemma_apply_args(env: Env, args: Seq<Seq<char>>, i: int)
    requires in_tbl(i),
    ensures
        apply_args(env, args).contains_key(s_var(i)) <==> (cli_value(args, i).is_some() || env.contains_key(s_var(i))),
        cli_value(args, i).is_some() ==> apply_args(env, args)[s_var(i)] == cli_value(args, i).unwrap(),
        cli_value(args, i).is_none() && env.contains_key(s_var(i)) ==> apply_args(env, args)[s_var(i)] == env[s_var(i)],
    decreases args.len()
{
    if args.len() > 0 {
        lemma_apply_args(env, args.drop_last(), i);
        let so = split_once_spec(args.last(), eqs());
        if so.is_some() {
            let p = so.unwrap().0;
            lemma_first_match_is(p, i);
            lemma_first_match_sound(p, 0);
            lemma_tbl_distinct();
            let m = first_match(p, 0);
            if m.is_some() && m.unwrap() != i { assert(s_var(m.unwrap()) != s_var(i)); }
        }
    }
}
pub open spec fn not_a_setting(k: Seq<char>) -> bool { forall|i: int| 0 <= i < 11 ==> k != #[trigger] s_var(i) }
pub proof fn lemma_apply_args_frame(env: Env, args: Seq<Seq<char>>, k: Seq<char>)
    requires not_a_setting(k),
    ensures
        apply_args(env, args).contains_key(k) <==> env.contains_key(k),
        env.contains_key(k) ==> apply_args(env, args)[k] == env[k],
    decreases args.len()
{
    if args.len() > 0 {
        lemma_apply_args_frame(env, args.drop_last(), k);
        let so = split_once_spec(args.last(), eqs());
        if so.is_some() {
            lemma_first_match_sound(so.unwrap().0, 0);
            let m = first_match(so.unwrap().0, 0);
            if m.is_some() { assert(k != s_var(m.unwrap())); }
        }
    }
}
pub proof fn lemma_apply_args_push(env: Env, args: Seq<Seq<char>>, a: Seq<char>)
    ensures apply_args(env, args.push(a)) == apply_arg(apply_args(env, args), a),
{
    assert(args.push(a).drop_last() =~= args);
}

// ----- defaults (set_default_values): a setting that is not in the environment gets its documented default -----
pub open spec fn defaults_applied(e0: Env, e1: Env) -> bool {
    &&& forall|i: int| 0 <= i < 11 ==> e1.contains_key(#[trigger] s_var(i)) && e1[s_var(i)] == (if e0.contains_key(s_var(i)) { e0[s_var(i)] } else { s_default(i) })
    &&& forall|k: Seq<char>| not_a_setting(k) ==> (#[trigger] e1.contains_key(k) <==> e0.contains_key(k)) && (e0.contains_key(k) ==> e1[k] == e0[k])
}
// the same, part of the way through (holds before and after every step of set_default_values, whatever their order)
#[verifier::opaque]
pub open spec fn partial_defaults(e0: Env, e1: Env) -> bool {
    &&& forall|i: int| 0 <= i < 11 && e1.contains_key(#[trigger] s_var(i)) ==> e1[s_var(i)] == (if e0.contains_key(s_var(i)) { e0[s_var(i)] } else { s_default(i) })
    &&& forall|k: Seq<char>| e0.contains_key(k) ==> #[trigger] e1.contains_key(k)
    &&& forall|k: Seq<char>| not_a_setting(k) ==> (#[trigger] e1.contains_key(k) <==> e0.contains_key(k)) && (e0.contains_key(k) ==> e1[k] == e0[k])
}
pub open spec fn dom_grows(a: Env, b: Env) -> bool { forall|k: Seq<char>| a.contains_key(k) ==> #[trigger] b.contains_key(k) }
pub proof fn lemma_partial_init(e0: Env)
    ensures partial_defaults(e0, e0),
{
    reveal(partial_defaults);
}
// one step of set_default_values: some setting that is not in the environment gets ITS default
pub proof fn lemma_default_step(e0: Env, e: Env, e2: Env)
    requires
        partial_defaults(e0, e),
        exists|i: int| 0 <= i < 11 && !e.contains_key(#[trigger] s_var(i)) && e2 == e.insert(s_var(i), s_default(i)),
    ensures partial_defaults(e0, e2), dom_grows(e, e2),
{
    reveal(partial_defaults);
    lemma_tbl_distinct();
    let i = choose|i: int| 0 <= i < 11 && !e.contains_key(#[trigger] s_var(i)) && e2 == e.insert(s_var(i), s_default(i));
    assert forall|j: int| 0 <= j < 11 && e2.contains_key(#[trigger] s_var(j)) implies e2[s_var(j)] == (if e0.contains_key(s_var(j)) { e0[s_var(j)] } else { s_default(j) }) by {
        if j != i { assert(s_var(j) != s_var(i)); }
    }
    assert forall|k: Seq<char>| not_a_setting(k) implies (#[trigger] e2.contains_key(k) <==> e0.contains_key(k)) && (e0.contains_key(k) ==> e2[k] == e0[k]) by {
        assert(k != s_var(i));
        assert(e2.contains_key(k) <==> e.contains_key(k));
        assert(e.contains_key(k) ==> e2[k] == e[k]);
    }
    assert forall|k: Seq<char>| e0.contains_key(k) implies #[trigger] e2.contains_key(k) by { assert(e.contains_key(k)); }
    assert forall|k: Seq<char>| e.contains_key(k) implies #[trigger] e2.contains_key(k) by { }
    assert(dom_grows(e, e2));
    assert(partial_defaults(e0, e2));
}
pub proof fn lemma_partial_final(e0: Env, e: Env)
    requires partial_defaults(e0, e), forall|i: int| 0 <= i < 11 ==> e.contains_key(#[trigger] s_var(i)),
    ensures defaults_applied(e0, e),
{
    reveal(partial_defaults);
}
pub open spec fn with_default(e: Env, i: int) -> Env { if e.contains_key(s_var(i)) { e } else { e.insert(s_var(i), s_default(i)) } }

// ----- the configuration file (read_config_file): lines -> words -----
pub open spec fn squeeze(line: Seq<char>) -> Seq<char> {      // strip_comment, then strip_whitespaces
    let so = split_once_spec(line, seq!['#']);
    without_char(without_char(if so.is_none() { line } else { trim_spec(so.unwrap().0) }, ' '), '\t')     // TOML white space: space and tab
}
pub open spec fn table_of(ww: Seq<char>) -> Seq<char> { without_char(without_char(ww, '['), ']') }
pub open spec fn clean_value(v: Seq<char>) -> Seq<char> { without_char(without_char(without_char(without_char(v, '\''), '"'), ']'), '[') }
pub open spec fn line_arg(prefix: Seq<char>, k: Seq<char>, v: Seq<char>) -> Seq<char> {
    if prefix.len() == 0 { seq!['-', '-'] + subst_char(k, '_', '-') + eqs() + clean_value(v) }
    else { seq!['-', '-'] + prefix + seq!['-'] + subst_char(k, '_', '-') + eqs() + clean_value(v) }
}
// one line: (current table, words so far) -> (table, words)
pub open spec fn file_step(st: (Seq<char>, Seq<Seq<char>>), line: Seq<char>) -> (Seq<char>, Seq<Seq<char>>) {
    let ww = squeeze(line);
    let p2 = if has_prefix(ww, seq!['[']) { table_of(ww) } else { st.0 };
    let so = split_once_spec(ww, eqs());
    if so.is_none() { (p2, st.1) } else { (p2, st.1.push(line_arg(p2, so.unwrap().0, so.unwrap().1))) }
}
pub open spec fn file_state(lines: Seq<Seq<char>>, prefix: Seq<char>) -> (Seq<char>, Seq<Seq<char>>)
    decreases lines.len()
{
    if lines.len() == 0 { (prefix, Seq::empty()) } else { file_step(file_state(lines.drop_last(), prefix), lines.last()) }
}
pub open spec fn file_args(lines: Seq<Seq<char>>, prefix: Seq<char>) -> Seq<Seq<char>> { file_state(lines, prefix).1 }

pub open spec fn line_ok(r: Result<String, std::io::Error>) -> bool { r.is_ok() && nn(r.unwrap()@) }
pub open spec fn file_ok(l: Seq<Result<String, std::io::Error>>) -> bool { forall|j: int| 0 <= j < l.len() ==> line_ok(#[trigger] l[j]) }
pub open spec fn texts(l: Seq<Result<String, std::io::Error>>) -> Seq<Seq<char>> { Seq::new(l.len(), |j: int| l[j].unwrap()@) }

// the words the configuration file at `path` contributes: none when it cannot be read or holds a line the reader refuses
pub open spec fn cfg_args(path: Seq<char>) -> Seq<Seq<char>> {
    if fs_text(path).is_none() { Seq::empty() } else {
        let l = lines_of(utf8_bytes(fs_text(path).unwrap()));
        if file_ok(l) { file_args(texts(l), Seq::empty()) } else { Seq::empty() }
    }
}
pub open spec fn default_cfg_path() -> Seq<char> { cwd() + "/rws.config.toml"@ }

// ----- THE PROPERTY: the value setting i has when start-up is over -----
pub open spec fn effective(env0: Env, i: int) -> Seq<char> {
    let c = cli_value(process_args(), i);
    let f = cli_value(cfg_args(default_cfg_path()), i);
    if c.is_some() { c.unwrap() } else if f.is_some() { f.unwrap() } else if env0.contains_key(s_var(i)) { env0[s_var(i)] } else { s_default(i) }
}
// start-up = defaults, then the file's words, then the command line's words
pub open spec fn started(e0: Env, e3: Env) -> bool {
    exists|e1: Env| #[trigger] defaults_applied(e0, e1) && e3 == apply_args(apply_args(e1, cfg_args(default_cfg_path())), process_args())
}
pub proof fn theorem_c12(e0: Env, e3: Env, i: int)
    requires started(e0, e3), in_tbl(i),
    ensures e3.contains_key(s_var(i)) && e3[s_var(i)] == effective(e0, i),
{
    let e1 = choose|e1: Env| #[trigger] defaults_applied(e0, e1) && e3 == apply_args(apply_args(e1, cfg_args(default_cfg_path())), process_args());
    let e2 = apply_args(e1, cfg_args(default_cfg_path()));
    lemma_apply_args(e1, cfg_args(default_cfg_path()), i);
    lemma_apply_args(e2, process_args(), i);
    assert(e1.contains_key(s_var(i)));
}
// variables that are not settings keep what the environment gave them
pub proof fn theorem_c12_frame(e0: Env, e3: Env, k: Seq<char>)
    requires started(e0, e3), not_a_setting(k),
    ensures e3.contains_key(k) <==> e0.contains_key(k), e0.contains_key(k) ==> e3[k] == e0[k],
{
    let e1 = choose|e1: Env| #[trigger] defaults_applied(e0, e1) && e3 == apply_args(apply_args(e1, cfg_args(default_cfg_path())), process_args());
    let e2 = apply_args(e1, cfg_args(default_cfg_path()));
    lemma_apply_args_frame(e1, cfg_args(default_cfg_path()), k);
    lemma_apply_args_frame(e2, process_args(), k);
}

// ----- the readers -----
pub open spec fn env_or(e: Env, k: Seq<char>, d: Seq<char>) -> Seq<char> { if e.contains_key(k) { e[k] } else { d } }
// a numeric setting: the variable's text when it parses as T, the built-in number otherwise
pub open spec fn int_setting<T: RwsFromStr>(e: Env, k: Seq<char>, d: T) -> T {
    if e.contains_key(k) && T::parses(e[k]) { T::val(e[k]) } else { d }
}

// ----- start-up as a whole (Server::setup): what the listener and the pool are made from -----
pub open spec fn settings_effective(e0: Env, e: Env) -> bool {
    forall|i: int| 0 <= i < 11 ==> e.contains_key(#[trigger] s_var(i)) && e[s_var(i)] == effective(e0, i)
}
// the two calls commute: bootstrap() before set_default_values() gives the same settings
pub open spec fn started_rev(e0: Env, e3: Env) -> bool {
    defaults_applied(apply_args(apply_args(e0, cfg_args(default_cfg_path())), process_args()), e3)
}
pub proof fn theorem_c12_all(e0: Env, e3: Env)
    requires started(e0, e3) || started_rev(e0, e3),
    ensures settings_effective(e0, e3),
{
    assert forall|i: int| 0 <= i < 11 implies e3.contains_key(#[trigger] s_var(i)) && e3[s_var(i)] == effective(e0, i) by {
        if started(e0, e3) { theorem_c12(e0, e3, i); } else {
            let e1 = apply_args(e0, cfg_args(default_cfg_path()));
            lemma_apply_args(e0, cfg_args(default_cfg_path()), i);
            lemma_apply_args(e1, process_args(), i);
        }
    }
}
pub open spec fn eff_ip(e0: Env) -> Seq<char> { effective(e0, 1) }
pub open spec fn eff_port(e0: Env) -> i32 { if <i32 as RwsFromStr>::parses(effective(e0, 0)) { <i32 as RwsFromStr>::val(effective(e0, 0)) } else { 7878 } }
pub open spec fn eff_threads(e0: Env) -> i32 { if <i32 as RwsFromStr>::parses(effective(e0, 2)) { <i32 as RwsFromStr>::val(effective(e0, 2)) } else { 200 } }
// host:port, an IPv6 literal in brackets
pub open spec fn bind_text(ip: Seq<char>, port: i32) -> Seq<char> {
    (if has_sub(ip, seq![':']) { seq!['['] + ip + seq![']'] } else { ip }) + seq![':'] + dec_i(port as int)
}
