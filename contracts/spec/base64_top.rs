// ===== C18 top level: the round trip as a lemma over the two contracts (callers see contracts only) =====
// @@FN C18::roundtrip_over_contracts
fn c18_roundtrip_over_contracts(x: &[u8]) -> (r: Result<Vec<u8>, String>)
    ensures r.is_ok() && r.unwrap()@ == x@,
{
    let e = Base64::encode(x);
    let s = e.unwrap();
    proof { lemma_b64_inverse(x@); }
    Base64::decode(s)
}

// "Decoding text that contains a character outside the Base64 alphabet reports an error"
// @@FN C18::foreign_character_is_error
fn c18_foreign_character_is_error(text: String, Ghost(i): Ghost<int>) -> (r: Result<Vec<u8>, String>)
    requires 0 <= i < text@.len(), !in_alphabet(text@[i]), text@[i] != '=',
    ensures r.is_err(),
{
    proof { lemma_in_alpha_is_in_alphabet(text@[i]); }
    Base64::decode(text)
}
