// ===== request header lookup =====
pub open spec fn first_idx(hs: Seq<Header>, name: Seq<char>, from: int) -> int
    decreases hs.len() - from
{
    if from < 0 || from >= hs.len() { -1 }
    else if lower_spec(hs[from].name@) == lower_spec(name) { from }
    else { first_idx(hs, name, from + 1) }
}

// the first header whose name equals `name` up to letter case
pub open spec fn req_header(hs: Seq<Header>, name: Seq<char>) -> Option<Header> {
    if first_idx(hs, name, 0) >= 0 { Some(hs[first_idx(hs, name, 0)]) } else { None }
}

