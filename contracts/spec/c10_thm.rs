// ===== contracts/spec/c10_thm.rs — property C10 as stated: in every header list of the shape the contracts prove (std_headers: CORS
// grants ++ the eight fixed headers ++ at most the Last-Modified extension) each hardening / no-cache / client-hint / Vary header
// occurs EXACTLY ONCE.  Needs the wire names (names_hardening, names_cors) to tell the names apart. =====
pub open spec fn count_name(hs: Seq<HV>, n: Seq<char>) -> nat
    decreases hs.len()
{
    if hs.len() == 0 { 0 } else { count_name(hs.drop_last(), n) + if hs.last().0 == n { 1nat } else { 0nat } }
}
pub proof fn lemma_count_cat(a: Seq<HV>, b: Seq<HV>, n: Seq<char>)
    ensures count_name(a + b, n) == count_name(a, n) + count_name(b, n),
    decreases b.len()
{
    if b.len() == 0 { assert(a + b =~= a); } else {
        assert((a + b).drop_last() =~= a + b.drop_last());
        assert((a + b).last() == b.last());
        lemma_count_cat(a, b.drop_last(), n);
    }
}
pub proof fn lemma_count_none(a: Seq<HV>, n: Seq<char>)
    requires forall|i: int| 0 <= i < a.len() ==> (#[trigger] a[i]).0 != n,
    ensures count_name(a, n) == 0,
    decreases a.len()
{
    if a.len() > 0 {
        assert forall|i: int| 0 <= i < a.drop_last().len() implies (#[trigger] a.drop_last()[i]).0 != n by { assert(a.drop_last()[i] == a[i]); }
        lemma_count_none(a.drop_last(), n);
        assert(a.last() == a[a.len() - 1]);
    }
}
// a name that is none of the six Access-Control-* response header names
pub open spec fn not_a_grant_name(n: Seq<char>) -> bool {
    n != Header::_ACCESS_CONTROL_ALLOW_ORIGIN@ && n != Header::_ACCESS_CONTROL_ALLOW_CREDENTIALS@ && n != Header::_ACCESS_CONTROL_ALLOW_METHODS@
    && n != Header::_ACCESS_CONTROL_ALLOW_HEADERS@ && n != Header::_ACCESS_CONTROL_EXPOSE_HEADERS@ && n != Header::_ACCESS_CONTROL_MAX_AGE@
}
pub proof fn lemma_grants_names(origin: Seq<char>, creds: bool, options: bool, m: Option<Seq<char>>, h: Option<Seq<char>>, e: Option<Seq<char>>, a: Option<Seq<char>>, n: Seq<char>)
    requires not_a_grant_name(n),
    ensures count_name(grants(origin, creds, options, m, h, e, a), n) == 0,
{
    let g = grants(origin, creds, options, m, h, e, a);
    assert forall|i: int| 0 <= i < g.len() implies (#[trigger] g[i]).0 != n by {
        let x = g[i].0;
        assert(x == Header::_ACCESS_CONTROL_ALLOW_ORIGIN@ || x == Header::_ACCESS_CONTROL_ALLOW_CREDENTIALS@ || x == Header::_ACCESS_CONTROL_ALLOW_METHODS@
            || x == Header::_ACCESS_CONTROL_ALLOW_HEADERS@ || x == Header::_ACCESS_CONTROL_EXPOSE_HEADERS@ || x == Header::_ACCESS_CONTROL_MAX_AGE@);
    }
    lemma_count_none(g, n);
}
pub proof fn lemma_cors_names(req: Request, n: Seq<char>)
    requires not_a_grant_name(n),
    ensures count_name(cors_headers_expected(req), n) == 0,
{
    let c = cors_headers_expected(req);
    if c.len() > 0 {
        let o = req_header(req.headers@, Header::_ORIGIN@);
        if switch_off() {
            lemma_grants_names(o.unwrap().value@, env_creds(), is_options(req), env_value(Config::RWS_CONFIG_CORS_ALLOW_METHODS@), env_value(Config::RWS_CONFIG_CORS_ALLOW_HEADERS@),
                env_value(Config::RWS_CONFIG_CORS_EXPOSE_HEADERS@), env_value(Config::RWS_CONFIG_CORS_MAX_AGE@), n);
        } else {
            let m = req_header(req.headers@, Header::_ACCESS_CONTROL_REQUEST_METHOD@);
            let h = req_header(req.headers@, Header::_ACCESS_CONTROL_REQUEST_HEADERS@);
            lemma_grants_names(o.unwrap().value@, true, is_options(req), if m.is_some() { Some(m.unwrap().value@) } else { None },
                if h.is_some() { Some(h.unwrap().value@) } else { None }, if h.is_some() { Some(h.unwrap().value@) } else { None }, Some(Cors::MAX_AGE@), n);
        }
    }
}
// the texts, with what tells them apart (length, or a character)
pub proof fn lemma_wire_texts()
    ensures
        ClientHint::ACCEPT_CLIENT_HINTS@.len() == 9, ClientHint::CRITICAL_CLIENT_HINTS@.len() == 11, Header::_VARY@.len() == 4,
        Header::_X_CONTENT_TYPE_OPTIONS@.len() == 22, Header::_ACCEPT_RANGES@.len() == 13, Header::_X_FRAME_OPTIONS@.len() == 15,
        Header::_DATE_UNIX_EPOCH_NANOS@.len() == 21, Header::_CACHE_CONTROL@.len() == 13, Header::_LAST_MODIFIED_UNIX_EPOCH_NANOS@.len() == 30,
        Header::_ACCEPT_RANGES@[0] == 'A', Header::_CACHE_CONTROL@[0] == 'C', Header::_X_CONTENT_TYPE_OPTIONS@[0] == 'X',
        Header::_ACCESS_CONTROL_ALLOW_ORIGIN@.len() == 27, Header::_ACCESS_CONTROL_ALLOW_CREDENTIALS@.len() == 32, Header::_ACCESS_CONTROL_ALLOW_METHODS@.len() == 28,
        Header::_ACCESS_CONTROL_ALLOW_HEADERS@.len() == 28, Header::_ACCESS_CONTROL_EXPOSE_HEADERS@.len() == 29, Header::_ACCESS_CONTROL_MAX_AGE@.len() == 22,
        Header::_ACCESS_CONTROL_MAX_AGE@[0] == 'A',
{
    reveal_strlit("Accept-CH"); reveal_strlit("Critical-CH"); reveal_strlit("Vary"); reveal_strlit("X-Content-Type-Options"); reveal_strlit("Accept-Ranges");
    reveal_strlit("X-Frame-Options"); reveal_strlit("Date-Unix-Epoch-Nanos"); reveal_strlit("Cache-Control"); reveal_strlit("Last-Modified-Unix-Epoch-Nanos");
    reveal_strlit("Access-Control-Allow-Origin"); reveal_strlit("Access-Control-Allow-Credentials"); reveal_strlit("Access-Control-Allow-Methods");
    reveal_strlit("Access-Control-Allow-Headers"); reveal_strlit("Access-Control-Expose-Headers"); reveal_strlit("Access-Control-Max-Age");
}
pub open spec fn c10_names() -> Seq<Seq<char>> {
    seq![Header::_X_CONTENT_TYPE_OPTIONS@, Header::_X_FRAME_OPTIONS@, Header::_CACHE_CONTROL@, Header::_ACCEPT_RANGES@, ClientHint::ACCEPT_CLIENT_HINTS@,
         ClientHint::CRITICAL_CLIENT_HINTS@, Header::_VARY@]
}
pub proof fn lemma_fixed_once(now: u128, n: Seq<char>)
    requires c10_names().contains(n),
    ensures count_name(fixed_headers(now), n) == 1, not_a_grant_name(n), n != Header::_LAST_MODIFIED_UNIX_EPOCH_NANOS@,
{
    lemma_wire_texts();
    let f = fixed_headers(now);
    let k = choose|k: int| 0 <= k < c10_names().len() && c10_names()[k] == n;
    reveal_with_fuel(count_name, 9);
    assert(f.len() == 8);
    assert(f.drop_last().len() == 7);
}
// THE PROPERTY: each of the seven headers exactly once
pub proof fn theorem_c10_exactly_once(hs: Seq<HV>, req: Request, n: Seq<char>)
    requires std_headers(hs, req), c10_names().contains(n),
    ensures count_name(hs, n) == 1,
{
    let (now, extra) = choose|now: u128, extra: Seq<HV>| #![auto] hs == cors_headers_expected(req) + fixed_headers(now) + extra
        && extra.len() <= 1 && (extra.len() == 1 ==> extra[0].0 == Header::_LAST_MODIFIED_UNIX_EPOCH_NANOS@);
    lemma_fixed_once(now, n);
    lemma_cors_names(req, n);
    lemma_count_cat(cors_headers_expected(req) + fixed_headers(now), extra, n);
    lemma_count_cat(cors_headers_expected(req), fixed_headers(now), n);
    assert forall|i: int| 0 <= i < extra.len() implies (#[trigger] extra[i]).0 != n by { }
    lemma_count_none(extra, n);
}
