// ===== application-level frames (properties C10, C05 status line) =====
pub open spec fn status_table() -> Seq<(i16, Seq<char>)> {
    seq![
        (*STATUS_CODE_REASON_PHRASE.n100_continue.status_code, STATUS_CODE_REASON_PHRASE.n100_continue.reason_phrase@),
        (*STATUS_CODE_REASON_PHRASE.n101_switching_protocols.status_code, STATUS_CODE_REASON_PHRASE.n101_switching_protocols.reason_phrase@),
        (*STATUS_CODE_REASON_PHRASE.n102_processing.status_code, STATUS_CODE_REASON_PHRASE.n102_processing.reason_phrase@),
        (*STATUS_CODE_REASON_PHRASE.n103_early_hints.status_code, STATUS_CODE_REASON_PHRASE.n103_early_hints.reason_phrase@),
        (*STATUS_CODE_REASON_PHRASE.n200_ok.status_code, STATUS_CODE_REASON_PHRASE.n200_ok.reason_phrase@),
        (*STATUS_CODE_REASON_PHRASE.n201_created.status_code, STATUS_CODE_REASON_PHRASE.n201_created.reason_phrase@),
        (*STATUS_CODE_REASON_PHRASE.n202_accepted.status_code, STATUS_CODE_REASON_PHRASE.n202_accepted.reason_phrase@),
        (*STATUS_CODE_REASON_PHRASE.n203_non_authoritative_information.status_code, STATUS_CODE_REASON_PHRASE.n203_non_authoritative_information.reason_phrase@),
        (*STATUS_CODE_REASON_PHRASE.n204_no_content.status_code, STATUS_CODE_REASON_PHRASE.n204_no_content.reason_phrase@),
        (*STATUS_CODE_REASON_PHRASE.n205_reset_content.status_code, STATUS_CODE_REASON_PHRASE.n205_reset_content.reason_phrase@),
        (*STATUS_CODE_REASON_PHRASE.n206_partial_content.status_code, STATUS_CODE_REASON_PHRASE.n206_partial_content.reason_phrase@),
        (*STATUS_CODE_REASON_PHRASE.n207_multi_status.status_code, STATUS_CODE_REASON_PHRASE.n207_multi_status.reason_phrase@),
        (*STATUS_CODE_REASON_PHRASE.n208_already_reported.status_code, STATUS_CODE_REASON_PHRASE.n208_already_reported.reason_phrase@),
        (*STATUS_CODE_REASON_PHRASE.n226_im_used.status_code, STATUS_CODE_REASON_PHRASE.n226_im_used.reason_phrase@),
        (*STATUS_CODE_REASON_PHRASE.n300_multiple_choices.status_code, STATUS_CODE_REASON_PHRASE.n300_multiple_choices.reason_phrase@),
        (*STATUS_CODE_REASON_PHRASE.n301_moved_permanently.status_code, STATUS_CODE_REASON_PHRASE.n301_moved_permanently.reason_phrase@),
        (*STATUS_CODE_REASON_PHRASE.n302_found.status_code, STATUS_CODE_REASON_PHRASE.n302_found.reason_phrase@),
        (*STATUS_CODE_REASON_PHRASE.n303_see_other.status_code, STATUS_CODE_REASON_PHRASE.n303_see_other.reason_phrase@),
        (*STATUS_CODE_REASON_PHRASE.n304_not_modified.status_code, STATUS_CODE_REASON_PHRASE.n304_not_modified.reason_phrase@),
        (*STATUS_CODE_REASON_PHRASE.n307_temporary_redirect.status_code, STATUS_CODE_REASON_PHRASE.n307_temporary_redirect.reason_phrase@),
        (*STATUS_CODE_REASON_PHRASE.n308_permanent_redirect.status_code, STATUS_CODE_REASON_PHRASE.n308_permanent_redirect.reason_phrase@),
        (*STATUS_CODE_REASON_PHRASE.n400_bad_request.status_code, STATUS_CODE_REASON_PHRASE.n400_bad_request.reason_phrase@),
        (*STATUS_CODE_REASON_PHRASE.n401_unauthorized.status_code, STATUS_CODE_REASON_PHRASE.n401_unauthorized.reason_phrase@),
        (*STATUS_CODE_REASON_PHRASE.n402_payment_required.status_code, STATUS_CODE_REASON_PHRASE.n402_payment_required.reason_phrase@),
        (*STATUS_CODE_REASON_PHRASE.n403_forbidden.status_code, STATUS_CODE_REASON_PHRASE.n403_forbidden.reason_phrase@),
        (*STATUS_CODE_REASON_PHRASE.n404_not_found.status_code, STATUS_CODE_REASON_PHRASE.n404_not_found.reason_phrase@),
        (*STATUS_CODE_REASON_PHRASE.n405_method_not_allowed.status_code, STATUS_CODE_REASON_PHRASE.n405_method_not_allowed.reason_phrase@),
        (*STATUS_CODE_REASON_PHRASE.n406_not_acceptable.status_code, STATUS_CODE_REASON_PHRASE.n406_not_acceptable.reason_phrase@),
        (*STATUS_CODE_REASON_PHRASE.n407_proxy_authentication_required.status_code, STATUS_CODE_REASON_PHRASE.n407_proxy_authentication_required.reason_phrase@),
        (*STATUS_CODE_REASON_PHRASE.n408_request_timeout.status_code, STATUS_CODE_REASON_PHRASE.n408_request_timeout.reason_phrase@),
        (*STATUS_CODE_REASON_PHRASE.n409_conflict.status_code, STATUS_CODE_REASON_PHRASE.n409_conflict.reason_phrase@),
        (*STATUS_CODE_REASON_PHRASE.n410_gone.status_code, STATUS_CODE_REASON_PHRASE.n410_gone.reason_phrase@),
        (*STATUS_CODE_REASON_PHRASE.n411_length_required.status_code, STATUS_CODE_REASON_PHRASE.n411_length_required.reason_phrase@),
        (*STATUS_CODE_REASON_PHRASE.n412_precondition_failed.status_code, STATUS_CODE_REASON_PHRASE.n412_precondition_failed.reason_phrase@),
        (*STATUS_CODE_REASON_PHRASE.n413_payload_too_large.status_code, STATUS_CODE_REASON_PHRASE.n413_payload_too_large.reason_phrase@),
        (*STATUS_CODE_REASON_PHRASE.n414_uri_too_long.status_code, STATUS_CODE_REASON_PHRASE.n414_uri_too_long.reason_phrase@),
        (*STATUS_CODE_REASON_PHRASE.n415_unsupported_media_type.status_code, STATUS_CODE_REASON_PHRASE.n415_unsupported_media_type.reason_phrase@),
        (*STATUS_CODE_REASON_PHRASE.n416_range_not_satisfiable.status_code, STATUS_CODE_REASON_PHRASE.n416_range_not_satisfiable.reason_phrase@),
        (*STATUS_CODE_REASON_PHRASE.n417_expectation_failed.status_code, STATUS_CODE_REASON_PHRASE.n417_expectation_failed.reason_phrase@),
        (*STATUS_CODE_REASON_PHRASE.n418_im_a_teapot.status_code, STATUS_CODE_REASON_PHRASE.n418_im_a_teapot.reason_phrase@),
        (*STATUS_CODE_REASON_PHRASE.n421_misdirected_request.status_code, STATUS_CODE_REASON_PHRASE.n421_misdirected_request.reason_phrase@),
        (*STATUS_CODE_REASON_PHRASE.n422_unprocessable_entity.status_code, STATUS_CODE_REASON_PHRASE.n422_unprocessable_entity.reason_phrase@),
        (*STATUS_CODE_REASON_PHRASE.n423_locked.status_code, STATUS_CODE_REASON_PHRASE.n423_locked.reason_phrase@),
        (*STATUS_CODE_REASON_PHRASE.n424_failed_dependency.status_code, STATUS_CODE_REASON_PHRASE.n424_failed_dependency.reason_phrase@),
        (*STATUS_CODE_REASON_PHRASE.n425_too_early.status_code, STATUS_CODE_REASON_PHRASE.n425_too_early.reason_phrase@),
        (*STATUS_CODE_REASON_PHRASE.n426_upgrade_required.status_code, STATUS_CODE_REASON_PHRASE.n426_upgrade_required.reason_phrase@),
        (*STATUS_CODE_REASON_PHRASE.n428_precondition_required.status_code, STATUS_CODE_REASON_PHRASE.n428_precondition_required.reason_phrase@),
        (*STATUS_CODE_REASON_PHRASE.n429_too_many_requests.status_code, STATUS_CODE_REASON_PHRASE.n429_too_many_requests.reason_phrase@),
        (*STATUS_CODE_REASON_PHRASE.n431_request_header_fields_too_large.status_code, STATUS_CODE_REASON_PHRASE.n431_request_header_fields_too_large.reason_phrase@),
        (*STATUS_CODE_REASON_PHRASE.n451_unavailable_for_legal_reasons.status_code, STATUS_CODE_REASON_PHRASE.n451_unavailable_for_legal_reasons.reason_phrase@),
        (*STATUS_CODE_REASON_PHRASE.n500_internal_server_error.status_code, STATUS_CODE_REASON_PHRASE.n500_internal_server_error.reason_phrase@),
        (*STATUS_CODE_REASON_PHRASE.n501_not_implemented.status_code, STATUS_CODE_REASON_PHRASE.n501_not_implemented.reason_phrase@),
        (*STATUS_CODE_REASON_PHRASE.n502_bad_gateway.status_code, STATUS_CODE_REASON_PHRASE.n502_bad_gateway.reason_phrase@),
        (*STATUS_CODE_REASON_PHRASE.n503_service_unavailable.status_code, STATUS_CODE_REASON_PHRASE.n503_service_unavailable.reason_phrase@),
        (*STATUS_CODE_REASON_PHRASE.n504_gateway_timeout.status_code, STATUS_CODE_REASON_PHRASE.n504_gateway_timeout.reason_phrase@),
        (*STATUS_CODE_REASON_PHRASE.n505_http_version_not_supported.status_code, STATUS_CODE_REASON_PHRASE.n505_http_version_not_supported.reason_phrase@),
        (*STATUS_CODE_REASON_PHRASE.n506_variant_also_negotiates.status_code, STATUS_CODE_REASON_PHRASE.n506_variant_also_negotiates.reason_phrase@),
        (*STATUS_CODE_REASON_PHRASE.n507_insufficient_storage.status_code, STATUS_CODE_REASON_PHRASE.n507_insufficient_storage.reason_phrase@),
        (*STATUS_CODE_REASON_PHRASE.n508_loop_detected.status_code, STATUS_CODE_REASON_PHRASE.n508_loop_detected.reason_phrase@),
        (*STATUS_CODE_REASON_PHRASE.n510_not_extended.status_code, STATUS_CODE_REASON_PHRASE.n510_not_extended.reason_phrase@),
        (*STATUS_CODE_REASON_PHRASE.n511_network_authentication_required.status_code, STATUS_CODE_REASON_PHRASE.n511_network_authentication_required.reason_phrase@),
    ]
}
// (code, phrase) is one row of the status table
pub open spec fn registered(code: i16, phrase: Seq<char>) -> bool {
    exists|i: int| 0 <= i < status_table().len() && #[trigger] status_table()[i] == (code, phrase)
}
pub proof fn lemma_registered(i: int)
    requires 0 <= i < status_table().len(),
    ensures registered(status_table()[i].0, status_table()[i].1),
{
}

// what a controller may do to the response it is given: choose a registered status, replace the content, keep the headers
pub open spec fn frame_ok(old: Response, new: Response) -> bool {
    new.http_version@ == old.http_version@ && hvs(new.headers@) == hvs(old.headers@) && registered(new.status_code, new.reason_phrase@)
}
pub open spec fn frame_ok_static(old: Response, new: Response) -> bool {
    new.http_version@ == old.http_version@ && registered(new.status_code, new.reason_phrase@)
    && (hvs(new.headers@) == hvs(old.headers@)
        || exists|v: Seq<char>| #![auto] hvs(new.headers@) == hvs(old.headers@).push((Header::_LAST_MODIFIED_UNIX_EPOCH_NANOS@, v)))
}


pub open spec fn err_registered(e: Error) -> bool { registered(*e.status_code_reason_phrase.status_code, e.status_code_reason_phrase.reason_phrase@) }
