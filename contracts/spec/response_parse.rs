// ===== response parsing =====
// exact-name lookup (Response::get_header compares names literally)
pub open spec fn first_exact_idx(hs: Seq<Header>, name: Seq<char>, from: int) -> int
    decreases hs.len() - from
{
    if from < 0 || from >= hs.len() { -1 }
    else if hs[from].name@ == name { from }
    else { first_exact_idx(hs, name, from + 1) }
}
pub open spec fn resp_header(hs: Seq<Header>, name: Seq<char>) -> Option<Header> {
    if first_exact_idx(hs, name, 0) >= 0 { Some(hs[first_exact_idx(hs, name, 0)]) } else { None }
}

// HTTP-version SP status-code SP reason-phrase, read off at the first and second space (CR/LF removed first)
pub open spec fn status_line_parts(line: Seq<char>) -> Option<(Seq<char>, Seq<char>, Seq<char>)> {
    let t = strip_crlf(line);
    let s1 = split_once_spec(t, sp1());
    if s1.is_none() { None } else {
        let s2 = split_once_spec(s1.unwrap().1, sp1());
        if s2.is_none() { None } else { Some((s1.unwrap().0, s2.unwrap().0, s2.unwrap().1)) }
    }
}
// the first row of the status table with this code
pub open spec fn status_row(code: int, from: int) -> int
    decreases status_table().len() - from
{
    if from < 0 || from >= status_table().len() { -1 }
    else if status_table()[from].0 == code { from }
    else { status_row(code, from + 1) }
}
// accepted: supported version, a status code of the table, and the table's reason phrase for it up to letter case
pub open spec fn status_line_ok(line: Seq<char>) -> bool {
    let p = status_line_parts(line);
    p.is_some() && member(versions(), upper_spec(p.unwrap().0)) && parses_signed(p.unwrap().1, i16::MIN as int, i16::MAX as int)
    && status_row(signed_val(p.unwrap().1), 0) >= 0
    && upper_spec(status_table()[status_row(signed_val(p.unwrap().1), 0)].1) == upper_spec(p.unwrap().2)
}

pub proof fn lemma_status_row(code: int, from: int)
    requires 0 <= from,
    ensures status_row(code, from) == -1 || (from <= status_row(code, from) < status_table().len() && status_table()[status_row(code, from)].0 == code),
    decreases status_table().len() - from
{
    if from < status_table().len() && status_table()[from].0 != code {
        lemma_status_row(code, from + 1);
    }
}
