// ===== which requests reach the static-file lookup (C02) =====
// a GET / HEAD request whose target none of the built-in endpoints (index page, embedded style / script / icon, form demos) claims
pub open spec fn not_builtin(r: Request) -> bool {
    (r.method@ == METHOD.get@ || r.method@ == METHOD.head@)
    && r.request_uri@ != slash() && r.request_uri@ != "/style.css"@ && r.request_uri@ != "/script.js"@ && r.request_uri@ != "/favicon.svg"@
    && target_path(r.request_uri@) != Some("/form-get-method"@)
}
