// ===== CR / LF removal (StringExt::truncate_new_line_carriage_return) =====
pub open spec fn no_crlf(s: Seq<char>) -> bool { forall|i: int| 0 <= i < s.len() ==> #[trigger] s[i] != '\r' && s[i] != '\n' }
pub open spec fn strip_crlf(s: Seq<char>) -> Seq<char> { without_char(without_char(s, '\r'), '\n') }

pub proof fn lemma_strip_crlf(s: Seq<char>)
    ensures no_crlf(strip_crlf(s)), no_crlf(s) ==> strip_crlf(s) == s,
{
    lemma_without_char(s, '\r', '\n');
    lemma_without_char(without_char(s, '\r'), '\n', '\r');
}

