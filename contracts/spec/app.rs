// ===== the standard header list of every application response (property C10) =====
// the header list every response starts from, plus at most the Last-Modified extension header
pub open spec fn std_headers(hs: Seq<HV>, req: Request) -> bool {
    exists|now: u128, extra: Seq<HV>| #![auto]
        hs == cors_headers_expected(req) + fixed_headers(now) + extra
        && extra.len() <= 1 && (extra.len() == 1 ==> extra[0].0 == Header::_LAST_MODIFIED_UNIX_EPOCH_NANOS@)
}

pub open spec fn base_headers(hs: Seq<HV>, req: Request) -> bool {
    exists|now: u128| #![auto] hs == cors_headers_expected(req) + fixed_headers(now)
}

pub proof fn lemma_std_frame(old: Response, new: Response, req: Request)
    requires base_headers(hvs(old.headers@), req), frame_ok(old, new) || frame_ok_static(old, new) || new == old,
    ensures std_headers(hvs(new.headers@), req),
{
    let now = choose|now: u128| #![auto] hvs(old.headers@) == cors_headers_expected(req) + fixed_headers(now);
    let base = cors_headers_expected(req) + fixed_headers(now);
    if hvs(new.headers@) == hvs(old.headers@) {
        assert(base =~= base + Seq::<HV>::empty());
    } else {
        let v = choose|v: Seq<char>| #![auto] hvs(new.headers@) == hvs(old.headers@).push((Header::_LAST_MODIFIED_UNIX_EPOCH_NANOS@, v));
        let extra = seq![(Header::_LAST_MODIFIED_UNIX_EPOCH_NANOS@, v)];
        assert(base.push((Header::_LAST_MODIFIED_UNIX_EPOCH_NANOS@, v)) =~= base + extra);
    }
}

