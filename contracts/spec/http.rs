// ===== HTTP/1.1 message text as mathematics (RFC 9112 section 2.1, RFC 9110 14.4 / 14.6) =====
pub open spec fn crlf() -> Seq<char> { seq!['\r', '\n'] }
pub open spec fn colon_sp() -> Seq<char> { seq![':', ' '] }
pub open spec fn sp() -> Seq<char> { seq![' '] }

// field-name ":" SP field-value CRLF   (left-nested in emission order)
pub open spec fn header_line(h: HV) -> Seq<char> {
    SYMBOL.empty_string@ + h.0 + Header::NAME_VALUE_SEPARATOR@ + h.1 + SYMBOL.new_line_carriage_return@
}

pub open spec fn render_acc(acc: Seq<char>, hs: Seq<HV>) -> Seq<char>
    decreases hs.len()
{
    if hs.len() == 0 { acc } else { render_acc(acc, hs.drop_last()) + header_line(hs.last()) }
}

pub open spec fn status_line(version: Seq<char>, code: i16, reason: Seq<char>) -> Seq<char> {
    version + SYMBOL.whitespace@ + dec_i(code as int) + SYMBOL.whitespace@ + reason
}

// status-line CRLF *( field-line CRLF ) CRLF
pub open spec fn head_text(version: Seq<char>, code: i16, reason: Seq<char>, hs: Seq<HV>) -> Seq<char> {
    status_line(version, code, reason) + render_acc(SYMBOL.new_line_carriage_return@, hs) + SYMBOL.new_line_carriage_return@
}

// "bytes first-last/size"
pub open spec fn content_range_value(p: ContentRange) -> Seq<char> {
    Range::BYTES@ + SYMBOL.whitespace@ + dec(p.range.start as nat) + SYMBOL.hyphen@ + dec(p.range.end as nat) + SYMBOL.slash@ + p.size@
}

pub open spec fn multipart_content_type() -> Seq<char> {
    Range::MULTIPART@ + SYMBOL.slash@ + Range::BYTERANGES@ + SYMBOL.semicolon@ + SYMBOL.whitespace@ + Range::BOUNDARY@ + SYMBOL.equals@ + Range::STRING_SEPARATOR@
}

// the framing headers the serialiser appends
pub open spec fn framing(list: Seq<ContentRange>) -> Seq<HV> {
    if list.len() == 1 {
        seq![
            (Header::_CONTENT_TYPE@, list[0].content_type@),
            (Header::_CONTENT_RANGE@, content_range_value(list[0])),
            (Header::_CONTENT_LENGTH@, dec(list[0].body@.len())),
        ]
    } else if list.len() > 1 {
        seq![(Header::_CONTENT_TYPE@, multipart_content_type())]
    } else {
        Seq::empty()
    }
}

// one part of a multipart/byteranges body (RFC 9110 14.6): delimiter line, two part headers, blank line.
// (The sums are written left-nested in emission order so that they coincide syntactically with what push_str builds.)
pub open spec fn mp_ct_line(p: ContentRange) -> Seq<char> {
    Header::_CONTENT_TYPE@ + Header::NAME_VALUE_SEPARATOR@ + SYMBOL.whitespace@ + p.content_type@
}
pub open spec fn mp_cr_line(p: ContentRange) -> Seq<char> {
    Header::_CONTENT_RANGE@ + Header::NAME_VALUE_SEPARATOR@ + SYMBOL.whitespace@ + Range::BYTES@ + SYMBOL.whitespace@
        + dec(p.range.start as nat) + SYMBOL.hyphen@ + dec(p.range.end as nat) + SYMBOL.slash@ + p.size@
}
pub open spec fn part_head(p: ContentRange, first: bool) -> Seq<char> {
    let p0 = SYMBOL.empty_string@;
    let p1 = if first { p0 } else { p0 + SYMBOL.new_line_carriage_return@ };
    p1 + SYMBOL.hyphen@ + SYMBOL.hyphen@ + Range::STRING_SEPARATOR@ + SYMBOL.new_line_carriage_return@
        + mp_ct_line(p) + SYMBOL.new_line_carriage_return@
        + mp_cr_line(p) + SYMBOL.new_line_carriage_return@
        + SYMBOL.new_line_carriage_return@
}
// the same, read as HTTP: "Content-Range: " OWS "bytes first-last/size"
pub proof fn lemma_mp_cr_line(p: ContentRange)
    ensures mp_cr_line(p) == Header::_CONTENT_RANGE@ + colon_sp() + sp() + content_range_value(p),
{
    reveal_strlit(": "); reveal_strlit(" ");
    assert(Header::NAME_VALUE_SEPARATOR@ =~= colon_sp());
    assert(SYMBOL.whitespace@ =~= sp());
    assert(mp_cr_line(p) =~= Header::_CONTENT_RANGE@ + colon_sp() + sp() + content_range_value(p));
}

pub open spec fn mp_parts(list: Seq<ContentRange>) -> Seq<u8>
    decreases list.len()
{
    if list.len() == 0 { Seq::empty() }
    else { mp_parts(list.drop_last()) + utf8_bytes(part_head(list.last(), list.len() == 1)) + list.last().body@ }
}

pub open spec fn closing_delimiter() -> Seq<char> {
    SYMBOL.empty_string@ + SYMBOL.new_line_carriage_return@ + SYMBOL.hyphen@ + SYMBOL.hyphen@ + Range::STRING_SEPARATOR@
}

pub open spec fn body_bytes(list: Seq<ContentRange>) -> Seq<u8> {
    if list.len() == 1 { list[0].body@ }
    else if list.len() > 1 { mp_parts(list) + utf8_bytes(closing_delimiter()) }
    else { Seq::empty() }
}

pub open spec fn bodiless(method: Seq<char>) -> bool { method == METHOD.head@ || method == METHOD.options@ }

// the whole message
pub open spec fn response_bytes(version: Seq<char>, code: i16, reason: Seq<char>, headers: Seq<HV>, list: Seq<ContentRange>, method: Seq<char>) -> Seq<u8> {
    let head = utf8_bytes(head_text(version, code, reason, headers + framing(list)));
    if bodiless(method) { head } else { head + body_bytes(list) }
}

pub proof fn lemma_render_acc_snoc(acc: Seq<char>, hs: Seq<HV>, k: int)
    requires 0 <= k < hs.len(),
    ensures render_acc(acc, hs.subrange(0, k + 1)) == render_acc(acc, hs.subrange(0, k)) + header_line(hs[k]),
{
    let a = hs.subrange(0, k + 1);
    assert(a.drop_last() =~= hs.subrange(0, k));
    assert(a.last() == hs[k]);
}

pub proof fn lemma_cat_views_n(v: Seq<Seq<char>>)
    ensures join_spec(v, Seq::<char>::empty()) == cat(v),
{
    lemma_join_empty_sep(v);
}

// What Response::generate emits TODAY (known finding F10: the Content-Type of a single part is pushed onto `self`, not onto the
// serialised copy).  Kept as a separate, weaker obligation so that a further change to generate() is still noticed.
pub open spec fn framing_generate_as_is(list: Seq<ContentRange>) -> Seq<HV> {
    if list.len() == 1 {
        seq![
            (Header::_CONTENT_RANGE@, content_range_value(list[0])),
            (Header::_CONTENT_LENGTH@, dec(list[0].body@.len())),
        ]
    } else if list.len() > 1 {
        seq![(Header::_CONTENT_TYPE@, multipart_content_type())]
    } else {
        Seq::empty()
    }
}
