// ===== contracts/spec/urlpath.rs — what UrlPath::is_matching / extract / build rely on: the parts of a pattern alternate =====
pub open spec fn part_ok(p: Part) -> bool {
    if p.is_static { p.static_pattern.is_some() && p.static_pattern.unwrap()@.len() > 0 } else { p.name.is_some() }
}
// every part is well formed, and a static text and a token always take turns (no two tokens, no two static texts in a row)
pub open spec fn parts_ok(l: Seq<Part>) -> bool {
    (forall|i: int| 0 <= i < l.len() ==> part_ok(#[trigger] l[i]))
    && (forall|i: int| 0 <= i < l.len() - 1 ==> (#[trigger] l[i]).is_static != l[i + 1].is_static)
}
pub proof fn lemma_parts_push(l: Seq<Part>, p: Part)
    requires parts_ok(l), part_ok(p), l.len() == 0 || l.last().is_static != p.is_static,
    ensures parts_ok(l.push(p)),
{
    let m = l.push(p);
    assert forall|i: int| 0 <= i < m.len() implies part_ok(#[trigger] m[i]) by { if i < l.len() { assert(m[i] == l[i]); } }
    assert forall|i: int| 0 <= i < m.len() - 1 implies (#[trigger] m[i]).is_static != m[i + 1].is_static by {
        assert(m[i] == l[i]);
        if i + 1 < l.len() { assert(m[i + 1] == l[i + 1]); } else { assert(m[i + 1] == p); assert(l[i] == l.last()); }
    }
}

// the parts UrlPath::extract collects for its result: each has a name and a value
pub open spec fn rparts_ok(l: Seq<Part>) -> bool { forall|i: int| 0 <= i < l.len() ==> (#[trigger] l[i]).name.is_some() && l[i].value.is_some() }
pub proof fn lemma_rparts_push(l: Seq<Part>, p: Part)
    requires rparts_ok(l), p.name.is_some(), p.value.is_some(),
    ensures rparts_ok(l.push(p)),
{
    assert forall|i: int| 0 <= i < l.push(p).len() implies (#[trigger] l.push(p)[i]).name.is_some() && l.push(p)[i].value.is_some() by { if i < l.len() { assert(l.push(p)[i] == l[i]); } }
}
