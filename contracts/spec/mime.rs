// ===== contracts/spec/mime.rs - the media-type registry as a table (property C02) =====
// FIXED text, written once from the project's list of supported types and checked against the IANA / MDN names.
//   mime_of(name)            the table: which row applies to a file name, row by row, over the NAMES of the suffix / type constants
//   lemma_mime_registry_*    the VALUE every constant must have (".txt", "text/plain", ...): proved, so a changed constant fails here
// A change of the decision order, of a suffix list or of a returned constant in MimeType::detect_mime_type that changes the answer
// for some file name fails the postcondition  res@ == mime_of(name).
// All suffixes start with '.', and an extension row (the text after the last '.' of the file name) implies the corresponding
// suffix, so at most one row can apply to a name: the order of the rows is immaterial.

// std::path::Path::extension() of a path that does not end in '/': the text after the last '.' of the last segment, unless
// there is no '.', the only '.' is the first character, or the segment is "..".
pub open spec fn last_slash(p: Seq<char>) -> int
    decreases p.len()
{
    if p.len() == 0 { -1 } else if p.last() == '/' { p.len() - 1 } else { last_slash(p.drop_last()) }
}
pub open spec fn last_dot(p: Seq<char>) -> int
    decreases p.len()
{
    if p.len() == 0 { -1 } else if p.last() == '.' { p.len() - 1 } else { last_dot(p.drop_last()) }
}
pub open spec fn ext_of(p: Seq<char>) -> Option<Seq<char>> {
    let name = p.subrange(last_slash(p) + 1, p.len() as int);
    let k = last_dot(name);
    if k <= 0 || name == seq!['.', '.'] { None } else { Some(name.subrange(k + 1, name.len() as int)) }
}
// "." ++ extension is one of the listed suffixes
pub open spec fn dot_ext_in(p: Seq<char>, list: Seq<Seq<char>>) -> bool {
    ext_of(p).is_some() && member(list, seq!['.'] + ext_of(p).unwrap())
}

// ASSUMED about std::path::Path::extension (conformance-tested in the thorough tier)
#[verifier::external_body]
pub fn rws_path_extension<'a>(p: &'a str) -> (r: Option<&'a str>)
    ensures
        p@.len() > 0 && p@.last() != '/' ==> (r.is_some() == ext_of(p@).is_some()) && (r.is_some() ==> r.unwrap()@ == ext_of(p@).unwrap()),
{
    std::path::Path::new(p).extension().and_then(std::ffi::OsStr::to_str)
}

pub open spec fn mime_of(p: Seq<char>) -> Seq<char> {
    if has_suffix(p, MimeType::TXT_SUFFIX@) { MimeType::TEXT_PLAIN@ }  // .txt -> text/plain
    else if has_suffix(p, MimeType::CSS_SUFFIX@) { MimeType::TEXT_CSS@ }  // .css -> text/css
    else if dot_ext_in(p, seq![MimeType::HTML_SUFFIX@, MimeType::HTM_SUFFIX@]) { MimeType::TEXT_HTML@ }  // .html .htm -> text/html
    else if dot_ext_in(p, seq![MimeType::MJS_SUFFIX@, MimeType::JS_SUFFIX@]) { MimeType::TEXT_JAVASCRIPT@ }  // .mjs .js -> text/javascript
    else if has_suffix(p, MimeType::APNG_SUFFIX@) { MimeType::IMAGE_APNG@ }  // .apng -> image/apng
    else if has_suffix(p, MimeType::AVIF_SUFFIX@) { MimeType::IMAGE_AVIF@ }  // .avif -> image/avif
    else if has_suffix(p, MimeType::GIF_SUFFIX@) { MimeType::IMAGE_GIF@ }  // .gif -> image/gif
    else if has_suffix(p, MimeType::SVG_SUFFIX@) { MimeType::IMAGE_SVG@ }  // .svg -> image/svg+xml
    else if dot_ext_in(p, seq![MimeType::JPG_SUFFIX@, MimeType::JPEG_SUFFIX@, MimeType::JPE_SUFFIX@, MimeType::JIF_SUFFIX@, MimeType::JFIF_SUFFIX@]) { MimeType::IMAGE_JPEG@ }  // .jpg .jpeg .jpe .jif .jfif -> image/jpeg
    else if has_suffix(p, MimeType::PNG_SUFFIX@) { MimeType::IMAGE_PNG@ }  // .png -> image/png
    else if has_suffix(p, MimeType::WEBP_SUFFIX@) { MimeType::IMAGE_WEBP@ }  // .webp -> image/webp
    else if has_suffix(p, MimeType::BMP_SUFFIX@) { MimeType::IMAGE_BMP@ }  // .bmp -> image/bmp
    else if dot_ext_in(p, seq![MimeType::ICO_SUFFIX@, MimeType::CUR_SUFFIX@]) { MimeType::IMAGE_ICO@ }  // .ico .cur -> image/x-icon
    else if dot_ext_in(p, seq![MimeType::TIF_SUFFIX@, MimeType::TIFF_SUFFIX@]) { MimeType::IMAGE_TIFF@ }  // .tif .tiff -> image/tiff
    else if has_suffix(p, MimeType::AAC_SUFFIX@) { MimeType::AUDIO_AAC@ }  // .aac -> audio/aac
    else if has_suffix(p, MimeType::FLAC_SUFFIX@) { MimeType::AUDIO_FLAC@ }  // .flac -> audio/flac
    else if has_suffix(p, MimeType::WAV_SUFFIX@) { MimeType::AUDIO_WAV@ }  // .wav -> audio/wav
    else if has_suffix(p, MimeType::M4A_SUFFIX@) { MimeType::AUDIO_MP4@ }  // .m4a -> audio/mp4
    else if has_suffix(p, MimeType::OGA_SUFFIX@) { MimeType::AUDIO_OGG@ }  // .oga -> audio/ogg
    else if has_suffix(p, MimeType::N3GP_SUFFIX@) { MimeType::VIDEO_3GP@ }  // .3gp -> video/3gpp
    else if dot_ext_in(p, seq![MimeType::MPG_SUFFIX@, MimeType::MPEG_SUFFIX@]) { MimeType::VIDEO_MPEG@ }  // .mpg .mpeg -> video/mpeg
    else if dot_ext_in(p, seq![MimeType::MP4_SUFFIX@, MimeType::M4V_SUFFIX@, MimeType::M4P_SUFFIX@]) { MimeType::VIDEO_MP4@ }  // .mp4 .m4v .m4p -> video/mp4
    else if dot_ext_in(p, seq![MimeType::OGG_SUFFIX@, MimeType::OGV_SUFFIX@]) { MimeType::VIDEO_OGG@ }  // .ogg .ogv -> video/ogg
    else if has_suffix(p, MimeType::MOV_SUFFIX@) { MimeType::VIDEO_QUICKTIME@ }  // .mov -> video/quicktime
    else if has_suffix(p, MimeType::WEBM_SUFFIX@) { MimeType::VIDEO_WEBM@ }  // .webm -> video/webm
    else if has_suffix(p, MimeType::ABW_SUFFIX@) { MimeType::APPLICATION_ABIWORD@ }  // .abw -> application/x-abiword
    else if has_suffix(p, MimeType::AVI_SUFFIX@) { MimeType::VIDEO_X_MSVIDEO@ }  // .avi -> video/x-msvideo
    else if has_suffix(p, MimeType::AZV_SUFFIX@) { MimeType::APPLICATION_VND_AMAZON_EBOOK@ }  // .azw -> application/vnd.amazon.ebook
    else if has_suffix(p, MimeType::BIN_SUFFIX@) { MimeType::APPLICATION_OCTET_STREAM@ }  // .bin -> application/octet-stream
    else if has_suffix(p, MimeType::BZ_SUFFIX@) { MimeType::APPLICATION_X_BZIP@ }  // .bz -> application/x-bzip
    else if has_suffix(p, MimeType::BZ2_SUFFIX@) { MimeType::APPLICATION_X_BZIP2@ }  // .bz2 -> application/x-bzip2
    else if has_suffix(p, MimeType::CDA_SUFFIX@) { MimeType::APPLICATION_X_CDF@ }  // .cda -> application/x-cdf
    else if has_suffix(p, MimeType::CSH_SUFFIX@) { MimeType::APPLICATION_X_CSH@ }  // .csh -> application/x-csh
    else if has_suffix(p, MimeType::CSV_SUFFIX@) { MimeType::TEXT_CSV@ }  // .csv -> text/csv
    else if has_suffix(p, MimeType::DOC_SUFFIX@) { MimeType::APPLICATION_MSWORD@ }  // .doc -> application/msword
    else if has_suffix(p, MimeType::DOCX_SUFFIX@) { MimeType::APPLICATION_VND_OPENXMLFORMATS_OFFICEDOCUMENTS_WORDPROCESSINGIMPL_DOCUMENT@ }  // .docx -> application/vnd.openxmlformats-officedocument.wordprocessingml.document
    else if has_suffix(p, MimeType::EOT_SUFFIX@) { MimeType::APPLICATION_VND_MS_FONTOBJECT@ }  // .eot -> application/vnd.ms-fontobject
    else if has_suffix(p, MimeType::EPUB_SUFFIX@) { MimeType::APPLICATION_EPUB_ZIP@ }  // .epub -> application/epub+zip
    else if has_suffix(p, MimeType::GZ_SUFFIX@) { MimeType::APPLICATION_GZIP@ }  // .gz -> application/gzip
    else if has_suffix(p, MimeType::ICS_SUFFIX@) { MimeType::TEXT_CALENDAR@ }  // .ics -> text/calendar
    else if has_suffix(p, MimeType::JAR_SUFFIX@) { MimeType::APPLICATION_JAVA_ARCHIVE@ }  // .jar -> application/java-archive
    else if has_suffix(p, MimeType::JSON_SUFFIX@) { MimeType::APPLICATION_JSON@ }  // .json -> application/json
    else if has_suffix(p, MimeType::JSONLD_SUFFIX@) { MimeType::APPLICATION_JSONLD@ }  // .jsonld -> application/ld+json
    else if dot_ext_in(p, seq![MimeType::MIDI_SUFFIX@, MimeType::MID_SUFFIX@]) { MimeType::AUDIO_MIDI@ }  // .midi .mid -> audio/midi
    else if has_suffix(p, MimeType::MP3_SUFFIX@) { MimeType::AUDIO_MPEG@ }  // .mp3 -> audio/mpeg
    else if has_suffix(p, MimeType::MPKG_SUFFIX@) { MimeType::APPLICATION_VND_APPLE_INSTALLER_XML@ }  // .mpkg -> application/vnd.apple.installer+xml
    else if has_suffix(p, MimeType::ODP_SUFFIX@) { MimeType::APPLICATION_VND_OASIS_OPENDOCUMENT_PRESENTATION@ }  // .odp -> application/vnd.oasis.opendocument.presentation
    else if has_suffix(p, MimeType::ODS_SUFFIX@) { MimeType::APPLICATION_VND_OASIS_OPENDOCUMENT_SPREADSHEET@ }  // .ods -> application/vnd.oasis.opendocument.spreadsheet
    else if has_suffix(p, MimeType::ODT_SUFFIX@) { MimeType::APPLICATION_VND_OASIS_OPENDOCUMENT_TEXT@ }  // .odt -> application/vnd.oasis.opendocument.text
    else if has_suffix(p, MimeType::OGX_SUFFIX@) { MimeType::APPLICATION_OGG@ }  // .ogx -> application/ogg
    else if has_suffix(p, MimeType::OPUS_SUFFIX@) { MimeType::AUDIO_OPUS@ }  // .opus -> audio/opus
    else if has_suffix(p, MimeType::OTF_SUFFIX@) { MimeType::FONT_OTF@ }  // .otf -> font/otf
    else if has_suffix(p, MimeType::PDF_SUFFIX@) { MimeType::APPLICATION_PDF@ }  // .pdf -> application/pdf
    else if has_suffix(p, MimeType::PHP_SUFFIX@) { MimeType::APPLICATION_X_HTTPD_PHP@ }  // .php -> application/x-httpd-php
    else if has_suffix(p, MimeType::PPT_SUFFIX@) { MimeType::APPLICATION_VND_MS_POWERPOINT@ }  // .ppt -> application/vnd.ms-powerpoint
    else if has_suffix(p, MimeType::PPTX_SUFFIX@) { MimeType::APPLICATION_VND_OPENXMLFORMATS_OFFICEDOCUMENT_PRESENTATIONML_PRESENTATION@ }  // .pptx -> application/vnd.openxmlformats-officedocument.presentationml.presentation
    else if has_suffix(p, MimeType::RAR_SUFFIX@) { MimeType::APPLICATION_VND_RAR@ }  // .rar -> application/vnd.rar
    else if has_suffix(p, MimeType::RTF_SUFFIX@) { MimeType::APPLICATION_RTF@ }  // .rtf -> application/rtf
    else if has_suffix(p, MimeType::SH_SUFFIX@) { MimeType::APPLICATION_X_SH@ }  // .sh -> application/x-sh
    else if has_suffix(p, MimeType::SWF_SUFFIX@) { MimeType::APPLICATION_X_SHOCKWAVE_FLASH@ }  // .swf -> application/x-shockwave-flash
    else if has_suffix(p, MimeType::TAR_SUFFIX@) { MimeType::APPLICATION_X_TAR@ }  // .tar -> application/x-tar
    else if has_suffix(p, MimeType::TS_SUFFIX@) { MimeType::VIDEO_MP2T@ }  // .ts -> video/mp2t
    else if has_suffix(p, MimeType::TTF_SUFFIX@) { MimeType::FONT_TTF@ }  // .ttf -> font/ttf
    else if has_suffix(p, MimeType::VSD_SUFFIX@) { MimeType::APPLICATION_VND_VISIO@ }  // .vsd -> application/vnd.visio
    else if has_suffix(p, MimeType::WEBA_SUFFIX@) { MimeType::AUDIO_WEBM@ }  // .weba -> audio/webm
    else if has_suffix(p, MimeType::WOFF_SUFFIX@) { MimeType::FONT_WOFF@ }  // .woff -> font/woff
    else if has_suffix(p, MimeType::WOFF2_SUFFIX@) { MimeType::FONT_WOFF2@ }  // .woff2 -> font/woff2
    else if has_suffix(p, MimeType::XHTML_SUFFIX@) { MimeType::APPLICATION_XHTML_XML@ }  // .xhtml -> application/xhtml+xml
    else if has_suffix(p, MimeType::XLS_SUFFIX@) { MimeType::APPLICATION_VND_MS_EXCEL@ }  // .xls -> application/vnd.ms-excel
    else if has_suffix(p, MimeType::XLSX_SUFFIX@) { MimeType::APPLICATION_VND_OPENXMLFORMATS_OFFICEDOCUMENT_SPREADSHEETML_SHEET@ }  // .xlsx -> application/vnd.openxmlformats-officedocument.spreadsheetml.sheet
    else if has_suffix(p, MimeType::XML_SUFFIX@) { MimeType::APPLICATION_XML@ }  // .xml -> application/xml
    else if has_suffix(p, MimeType::XUL_SUFFIX@) { MimeType::APPLICATION_VND_MOZILLA_XUL_XML@ }  // .xul -> application/vnd.mozilla.xul+xml
    else if has_suffix(p, MimeType::ZIP_SUFFIX@) { MimeType::APPLICATION_ZIP@ }  // .zip -> application/zip
    else if has_suffix(p, MimeType::N7Z_SUFFIX@) { MimeType::APPLICATION_X_7Z_COMPRESSED@ }  // .7z -> application/x-7z-compressed
    else if has_suffix(p, MimeType::N3G2_SUFFIX@) { MimeType::VIDEO_3GPP2@ }  // .3g2 -> video/3gpp2
    else if has_suffix(p, MimeType::CRT_SUFFIX@) { MimeType::APPLICATION_X_X509_CA_CERT@ }  // .crt -> application/x-x509-ca-cert
    else { MimeType::APPLICATION_OCTET_STREAM@ }
}
// the names the table speaks about: one of its 76 rows applies.  For any other name (an extension the registry does not list,
// or no extension) the label is NOT constrained by the contract: appending a new, correct row to MimeType::detect_mime_type
// is not a violation (the documented default application/octet-stream is checked by the statics falsifier only).
pub open spec fn mime_listed(p: Seq<char>) -> bool {
    has_suffix(p, MimeType::TXT_SUFFIX@)
    || has_suffix(p, MimeType::CSS_SUFFIX@)
    || dot_ext_in(p, seq![MimeType::HTML_SUFFIX@, MimeType::HTM_SUFFIX@])
    || dot_ext_in(p, seq![MimeType::MJS_SUFFIX@, MimeType::JS_SUFFIX@])
    || has_suffix(p, MimeType::APNG_SUFFIX@)
    || has_suffix(p, MimeType::AVIF_SUFFIX@)
    || has_suffix(p, MimeType::GIF_SUFFIX@)
    || has_suffix(p, MimeType::SVG_SUFFIX@)
    || dot_ext_in(p, seq![MimeType::JPG_SUFFIX@, MimeType::JPEG_SUFFIX@, MimeType::JPE_SUFFIX@, MimeType::JIF_SUFFIX@, MimeType::JFIF_SUFFIX@])
    || has_suffix(p, MimeType::PNG_SUFFIX@)
    || has_suffix(p, MimeType::WEBP_SUFFIX@)
    || has_suffix(p, MimeType::BMP_SUFFIX@)
    || dot_ext_in(p, seq![MimeType::ICO_SUFFIX@, MimeType::CUR_SUFFIX@])
    || dot_ext_in(p, seq![MimeType::TIF_SUFFIX@, MimeType::TIFF_SUFFIX@])
    || has_suffix(p, MimeType::AAC_SUFFIX@)
    || has_suffix(p, MimeType::FLAC_SUFFIX@)
    || has_suffix(p, MimeType::WAV_SUFFIX@)
    || has_suffix(p, MimeType::M4A_SUFFIX@)
    || has_suffix(p, MimeType::OGA_SUFFIX@)
    || has_suffix(p, MimeType::N3GP_SUFFIX@)
    || dot_ext_in(p, seq![MimeType::MPG_SUFFIX@, MimeType::MPEG_SUFFIX@])
    || dot_ext_in(p, seq![MimeType::MP4_SUFFIX@, MimeType::M4V_SUFFIX@, MimeType::M4P_SUFFIX@])
    || dot_ext_in(p, seq![MimeType::OGG_SUFFIX@, MimeType::OGV_SUFFIX@])
    || has_suffix(p, MimeType::MOV_SUFFIX@)
    || has_suffix(p, MimeType::WEBM_SUFFIX@)
    || has_suffix(p, MimeType::ABW_SUFFIX@)
    || has_suffix(p, MimeType::AVI_SUFFIX@)
    || has_suffix(p, MimeType::AZV_SUFFIX@)
    || has_suffix(p, MimeType::BIN_SUFFIX@)
    || has_suffix(p, MimeType::BZ_SUFFIX@)
    || has_suffix(p, MimeType::BZ2_SUFFIX@)
    || has_suffix(p, MimeType::CDA_SUFFIX@)
    || has_suffix(p, MimeType::CSH_SUFFIX@)
    || has_suffix(p, MimeType::CSV_SUFFIX@)
    || has_suffix(p, MimeType::DOC_SUFFIX@)
    || has_suffix(p, MimeType::DOCX_SUFFIX@)
    || has_suffix(p, MimeType::EOT_SUFFIX@)
    || has_suffix(p, MimeType::EPUB_SUFFIX@)
    || has_suffix(p, MimeType::GZ_SUFFIX@)
    || has_suffix(p, MimeType::ICS_SUFFIX@)
    || has_suffix(p, MimeType::JAR_SUFFIX@)
    || has_suffix(p, MimeType::JSON_SUFFIX@)
    || has_suffix(p, MimeType::JSONLD_SUFFIX@)
    || dot_ext_in(p, seq![MimeType::MIDI_SUFFIX@, MimeType::MID_SUFFIX@])
    || has_suffix(p, MimeType::MP3_SUFFIX@)
    || has_suffix(p, MimeType::MPKG_SUFFIX@)
    || has_suffix(p, MimeType::ODP_SUFFIX@)
    || has_suffix(p, MimeType::ODS_SUFFIX@)
    || has_suffix(p, MimeType::ODT_SUFFIX@)
    || has_suffix(p, MimeType::OGX_SUFFIX@)
    || has_suffix(p, MimeType::OPUS_SUFFIX@)
    || has_suffix(p, MimeType::OTF_SUFFIX@)
    || has_suffix(p, MimeType::PDF_SUFFIX@)
    || has_suffix(p, MimeType::PHP_SUFFIX@)
    || has_suffix(p, MimeType::PPT_SUFFIX@)
    || has_suffix(p, MimeType::PPTX_SUFFIX@)
    || has_suffix(p, MimeType::RAR_SUFFIX@)
    || has_suffix(p, MimeType::RTF_SUFFIX@)
    || has_suffix(p, MimeType::SH_SUFFIX@)
    || has_suffix(p, MimeType::SWF_SUFFIX@)
    || has_suffix(p, MimeType::TAR_SUFFIX@)
    || has_suffix(p, MimeType::TS_SUFFIX@)
    || has_suffix(p, MimeType::TTF_SUFFIX@)
    || has_suffix(p, MimeType::VSD_SUFFIX@)
    || has_suffix(p, MimeType::WEBA_SUFFIX@)
    || has_suffix(p, MimeType::WOFF_SUFFIX@)
    || has_suffix(p, MimeType::WOFF2_SUFFIX@)
    || has_suffix(p, MimeType::XHTML_SUFFIX@)
    || has_suffix(p, MimeType::XLS_SUFFIX@)
    || has_suffix(p, MimeType::XLSX_SUFFIX@)
    || has_suffix(p, MimeType::XML_SUFFIX@)
    || has_suffix(p, MimeType::XUL_SUFFIX@)
    || has_suffix(p, MimeType::ZIP_SUFFIX@)
    || has_suffix(p, MimeType::N7Z_SUFFIX@)
    || has_suffix(p, MimeType::N3G2_SUFFIX@)
    || has_suffix(p, MimeType::CRT_SUFFIX@)
}
pub proof fn lemma_mime_registry_1()
    ensures
        MimeType::TXT_SUFFIX@ == seq!['.', 't', 'x', 't'],   // .txt
        MimeType::TEXT_PLAIN@ == seq!['t', 'e', 'x', 't', '/', 'p', 'l', 'a', 'i', 'n'],   // text/plain
        MimeType::CSS_SUFFIX@ == seq!['.', 'c', 's', 's'],   // .css
        MimeType::TEXT_CSS@ == seq!['t', 'e', 'x', 't', '/', 'c', 's', 's'],   // text/css
        MimeType::HTML_SUFFIX@ == seq!['.', 'h', 't', 'm', 'l'],   // .html
        MimeType::HTM_SUFFIX@ == seq!['.', 'h', 't', 'm'],   // .htm
        MimeType::TEXT_HTML@ == seq!['t', 'e', 'x', 't', '/', 'h', 't', 'm', 'l'],   // text/html
        MimeType::MJS_SUFFIX@ == seq!['.', 'm', 'j', 's'],   // .mjs
        MimeType::JS_SUFFIX@ == seq!['.', 'j', 's'],   // .js
        MimeType::TEXT_JAVASCRIPT@ == seq!['t', 'e', 'x', 't', '/', 'j', 'a', 'v', 'a', 's', 'c', 'r', 'i', 'p', 't'],   // text/javascript
        MimeType::APNG_SUFFIX@ == seq!['.', 'a', 'p', 'n', 'g'],   // .apng
        MimeType::IMAGE_APNG@ == seq!['i', 'm', 'a', 'g', 'e', '/', 'a', 'p', 'n', 'g'],   // image/apng
        MimeType::AVIF_SUFFIX@ == seq!['.', 'a', 'v', 'i', 'f'],   // .avif
        MimeType::IMAGE_AVIF@ == seq!['i', 'm', 'a', 'g', 'e', '/', 'a', 'v', 'i', 'f'],   // image/avif
        MimeType::GIF_SUFFIX@ == seq!['.', 'g', 'i', 'f'],   // .gif
        MimeType::IMAGE_GIF@ == seq!['i', 'm', 'a', 'g', 'e', '/', 'g', 'i', 'f'],   // image/gif
        MimeType::SVG_SUFFIX@ == seq!['.', 's', 'v', 'g'],   // .svg
        MimeType::IMAGE_SVG@ == seq!['i', 'm', 'a', 'g', 'e', '/', 's', 'v', 'g', '+', 'x', 'm', 'l'],   // image/svg+xml
        MimeType::JPG_SUFFIX@ == seq!['.', 'j', 'p', 'g'],   // .jpg
        MimeType::JPEG_SUFFIX@ == seq!['.', 'j', 'p', 'e', 'g'],   // .jpeg
{
    reveal_strlit(".txt"); assert(MimeType::TXT_SUFFIX@ =~= seq!['.', 't', 'x', 't']);
    reveal_strlit("text/plain"); assert(MimeType::TEXT_PLAIN@ =~= seq!['t', 'e', 'x', 't', '/', 'p', 'l', 'a', 'i', 'n']);
    reveal_strlit(".css"); assert(MimeType::CSS_SUFFIX@ =~= seq!['.', 'c', 's', 's']);
    reveal_strlit("text/css"); assert(MimeType::TEXT_CSS@ =~= seq!['t', 'e', 'x', 't', '/', 'c', 's', 's']);
    reveal_strlit(".html"); assert(MimeType::HTML_SUFFIX@ =~= seq!['.', 'h', 't', 'm', 'l']);
    reveal_strlit(".htm"); assert(MimeType::HTM_SUFFIX@ =~= seq!['.', 'h', 't', 'm']);
    reveal_strlit("text/html"); assert(MimeType::TEXT_HTML@ =~= seq!['t', 'e', 'x', 't', '/', 'h', 't', 'm', 'l']);
    reveal_strlit(".mjs"); assert(MimeType::MJS_SUFFIX@ =~= seq!['.', 'm', 'j', 's']);
    reveal_strlit(".js"); assert(MimeType::JS_SUFFIX@ =~= seq!['.', 'j', 's']);
    reveal_strlit("text/javascript"); assert(MimeType::TEXT_JAVASCRIPT@ =~= seq!['t', 'e', 'x', 't', '/', 'j', 'a', 'v', 'a', 's', 'c', 'r', 'i', 'p', 't']);
    reveal_strlit(".apng"); assert(MimeType::APNG_SUFFIX@ =~= seq!['.', 'a', 'p', 'n', 'g']);
    reveal_strlit("image/apng"); assert(MimeType::IMAGE_APNG@ =~= seq!['i', 'm', 'a', 'g', 'e', '/', 'a', 'p', 'n', 'g']);
    reveal_strlit(".avif"); assert(MimeType::AVIF_SUFFIX@ =~= seq!['.', 'a', 'v', 'i', 'f']);
    reveal_strlit("image/avif"); assert(MimeType::IMAGE_AVIF@ =~= seq!['i', 'm', 'a', 'g', 'e', '/', 'a', 'v', 'i', 'f']);
    reveal_strlit(".gif"); assert(MimeType::GIF_SUFFIX@ =~= seq!['.', 'g', 'i', 'f']);
    reveal_strlit("image/gif"); assert(MimeType::IMAGE_GIF@ =~= seq!['i', 'm', 'a', 'g', 'e', '/', 'g', 'i', 'f']);
    reveal_strlit(".svg"); assert(MimeType::SVG_SUFFIX@ =~= seq!['.', 's', 'v', 'g']);
    reveal_strlit("image/svg+xml"); assert(MimeType::IMAGE_SVG@ =~= seq!['i', 'm', 'a', 'g', 'e', '/', 's', 'v', 'g', '+', 'x', 'm', 'l']);
    reveal_strlit(".jpg"); assert(MimeType::JPG_SUFFIX@ =~= seq!['.', 'j', 'p', 'g']);
    reveal_strlit(".jpeg"); assert(MimeType::JPEG_SUFFIX@ =~= seq!['.', 'j', 'p', 'e', 'g']);
}
pub proof fn lemma_mime_registry_2()
    ensures
        MimeType::JPE_SUFFIX@ == seq!['.', 'j', 'p', 'e'],   // .jpe
        MimeType::JIF_SUFFIX@ == seq!['.', 'j', 'i', 'f'],   // .jif
        MimeType::JFIF_SUFFIX@ == seq!['.', 'j', 'f', 'i', 'f'],   // .jfif
        MimeType::IMAGE_JPEG@ == seq!['i', 'm', 'a', 'g', 'e', '/', 'j', 'p', 'e', 'g'],   // image/jpeg
        MimeType::PNG_SUFFIX@ == seq!['.', 'p', 'n', 'g'],   // .png
        MimeType::IMAGE_PNG@ == seq!['i', 'm', 'a', 'g', 'e', '/', 'p', 'n', 'g'],   // image/png
        MimeType::WEBP_SUFFIX@ == seq!['.', 'w', 'e', 'b', 'p'],   // .webp
        MimeType::IMAGE_WEBP@ == seq!['i', 'm', 'a', 'g', 'e', '/', 'w', 'e', 'b', 'p'],   // image/webp
        MimeType::BMP_SUFFIX@ == seq!['.', 'b', 'm', 'p'],   // .bmp
        MimeType::IMAGE_BMP@ == seq!['i', 'm', 'a', 'g', 'e', '/', 'b', 'm', 'p'],   // image/bmp
        MimeType::ICO_SUFFIX@ == seq!['.', 'i', 'c', 'o'],   // .ico
        MimeType::CUR_SUFFIX@ == seq!['.', 'c', 'u', 'r'],   // .cur
        MimeType::IMAGE_ICO@ == seq!['i', 'm', 'a', 'g', 'e', '/', 'x', '-', 'i', 'c', 'o', 'n'],   // image/x-icon
        MimeType::TIF_SUFFIX@ == seq!['.', 't', 'i', 'f'],   // .tif
        MimeType::TIFF_SUFFIX@ == seq!['.', 't', 'i', 'f', 'f'],   // .tiff
        MimeType::IMAGE_TIFF@ == seq!['i', 'm', 'a', 'g', 'e', '/', 't', 'i', 'f', 'f'],   // image/tiff
        MimeType::AAC_SUFFIX@ == seq!['.', 'a', 'a', 'c'],   // .aac
        MimeType::AUDIO_AAC@ == seq!['a', 'u', 'd', 'i', 'o', '/', 'a', 'a', 'c'],   // audio/aac
        MimeType::FLAC_SUFFIX@ == seq!['.', 'f', 'l', 'a', 'c'],   // .flac
        MimeType::AUDIO_FLAC@ == seq!['a', 'u', 'd', 'i', 'o', '/', 'f', 'l', 'a', 'c'],   // audio/flac
{
    reveal_strlit(".jpe"); assert(MimeType::JPE_SUFFIX@ =~= seq!['.', 'j', 'p', 'e']);
    reveal_strlit(".jif"); assert(MimeType::JIF_SUFFIX@ =~= seq!['.', 'j', 'i', 'f']);
    reveal_strlit(".jfif"); assert(MimeType::JFIF_SUFFIX@ =~= seq!['.', 'j', 'f', 'i', 'f']);
    reveal_strlit("image/jpeg"); assert(MimeType::IMAGE_JPEG@ =~= seq!['i', 'm', 'a', 'g', 'e', '/', 'j', 'p', 'e', 'g']);
    reveal_strlit(".png"); assert(MimeType::PNG_SUFFIX@ =~= seq!['.', 'p', 'n', 'g']);
    reveal_strlit("image/png"); assert(MimeType::IMAGE_PNG@ =~= seq!['i', 'm', 'a', 'g', 'e', '/', 'p', 'n', 'g']);
    reveal_strlit(".webp"); assert(MimeType::WEBP_SUFFIX@ =~= seq!['.', 'w', 'e', 'b', 'p']);
    reveal_strlit("image/webp"); assert(MimeType::IMAGE_WEBP@ =~= seq!['i', 'm', 'a', 'g', 'e', '/', 'w', 'e', 'b', 'p']);
    reveal_strlit(".bmp"); assert(MimeType::BMP_SUFFIX@ =~= seq!['.', 'b', 'm', 'p']);
    reveal_strlit("image/bmp"); assert(MimeType::IMAGE_BMP@ =~= seq!['i', 'm', 'a', 'g', 'e', '/', 'b', 'm', 'p']);
    reveal_strlit(".ico"); assert(MimeType::ICO_SUFFIX@ =~= seq!['.', 'i', 'c', 'o']);
    reveal_strlit(".cur"); assert(MimeType::CUR_SUFFIX@ =~= seq!['.', 'c', 'u', 'r']);
    reveal_strlit("image/x-icon"); assert(MimeType::IMAGE_ICO@ =~= seq!['i', 'm', 'a', 'g', 'e', '/', 'x', '-', 'i', 'c', 'o', 'n']);
    reveal_strlit(".tif"); assert(MimeType::TIF_SUFFIX@ =~= seq!['.', 't', 'i', 'f']);
    reveal_strlit(".tiff"); assert(MimeType::TIFF_SUFFIX@ =~= seq!['.', 't', 'i', 'f', 'f']);
    reveal_strlit("image/tiff"); assert(MimeType::IMAGE_TIFF@ =~= seq!['i', 'm', 'a', 'g', 'e', '/', 't', 'i', 'f', 'f']);
    reveal_strlit(".aac"); assert(MimeType::AAC_SUFFIX@ =~= seq!['.', 'a', 'a', 'c']);
    reveal_strlit("audio/aac"); assert(MimeType::AUDIO_AAC@ =~= seq!['a', 'u', 'd', 'i', 'o', '/', 'a', 'a', 'c']);
    reveal_strlit(".flac"); assert(MimeType::FLAC_SUFFIX@ =~= seq!['.', 'f', 'l', 'a', 'c']);
    reveal_strlit("audio/flac"); assert(MimeType::AUDIO_FLAC@ =~= seq!['a', 'u', 'd', 'i', 'o', '/', 'f', 'l', 'a', 'c']);
}
pub proof fn lemma_mime_registry_3()
    ensures
        MimeType::WAV_SUFFIX@ == seq!['.', 'w', 'a', 'v'],   // .wav
        MimeType::AUDIO_WAV@ == seq!['a', 'u', 'd', 'i', 'o', '/', 'w', 'a', 'v'],   // audio/wav
        MimeType::M4A_SUFFIX@ == seq!['.', 'm', '4', 'a'],   // .m4a
        MimeType::AUDIO_MP4@ == seq!['a', 'u', 'd', 'i', 'o', '/', 'm', 'p', '4'],   // audio/mp4
        MimeType::OGA_SUFFIX@ == seq!['.', 'o', 'g', 'a'],   // .oga
        MimeType::AUDIO_OGG@ == seq!['a', 'u', 'd', 'i', 'o', '/', 'o', 'g', 'g'],   // audio/ogg
        MimeType::N3GP_SUFFIX@ == seq!['.', '3', 'g', 'p'],   // .3gp
        MimeType::VIDEO_3GP@ == seq!['v', 'i', 'd', 'e', 'o', '/', '3', 'g', 'p', 'p'],   // video/3gpp
        MimeType::MPG_SUFFIX@ == seq!['.', 'm', 'p', 'g'],   // .mpg
        MimeType::MPEG_SUFFIX@ == seq!['.', 'm', 'p', 'e', 'g'],   // .mpeg
        MimeType::VIDEO_MPEG@ == seq!['v', 'i', 'd', 'e', 'o', '/', 'm', 'p', 'e', 'g'],   // video/mpeg
        MimeType::MP4_SUFFIX@ == seq!['.', 'm', 'p', '4'],   // .mp4
        MimeType::M4V_SUFFIX@ == seq!['.', 'm', '4', 'v'],   // .m4v
        MimeType::M4P_SUFFIX@ == seq!['.', 'm', '4', 'p'],   // .m4p
        MimeType::VIDEO_MP4@ == seq!['v', 'i', 'd', 'e', 'o', '/', 'm', 'p', '4'],   // video/mp4
        MimeType::OGG_SUFFIX@ == seq!['.', 'o', 'g', 'g'],   // .ogg
        MimeType::OGV_SUFFIX@ == seq!['.', 'o', 'g', 'v'],   // .ogv
        MimeType::VIDEO_OGG@ == seq!['v', 'i', 'd', 'e', 'o', '/', 'o', 'g', 'g'],   // video/ogg
        MimeType::MOV_SUFFIX@ == seq!['.', 'm', 'o', 'v'],   // .mov
        MimeType::VIDEO_QUICKTIME@ == seq!['v', 'i', 'd', 'e', 'o', '/', 'q', 'u', 'i', 'c', 'k', 't', 'i', 'm', 'e'],   // video/quicktime
{
    reveal_strlit(".wav"); assert(MimeType::WAV_SUFFIX@ =~= seq!['.', 'w', 'a', 'v']);
    reveal_strlit("audio/wav"); assert(MimeType::AUDIO_WAV@ =~= seq!['a', 'u', 'd', 'i', 'o', '/', 'w', 'a', 'v']);
    reveal_strlit(".m4a"); assert(MimeType::M4A_SUFFIX@ =~= seq!['.', 'm', '4', 'a']);
    reveal_strlit("audio/mp4"); assert(MimeType::AUDIO_MP4@ =~= seq!['a', 'u', 'd', 'i', 'o', '/', 'm', 'p', '4']);
    reveal_strlit(".oga"); assert(MimeType::OGA_SUFFIX@ =~= seq!['.', 'o', 'g', 'a']);
    reveal_strlit("audio/ogg"); assert(MimeType::AUDIO_OGG@ =~= seq!['a', 'u', 'd', 'i', 'o', '/', 'o', 'g', 'g']);
    reveal_strlit(".3gp"); assert(MimeType::N3GP_SUFFIX@ =~= seq!['.', '3', 'g', 'p']);
    reveal_strlit("video/3gpp"); assert(MimeType::VIDEO_3GP@ =~= seq!['v', 'i', 'd', 'e', 'o', '/', '3', 'g', 'p', 'p']);
    reveal_strlit(".mpg"); assert(MimeType::MPG_SUFFIX@ =~= seq!['.', 'm', 'p', 'g']);
    reveal_strlit(".mpeg"); assert(MimeType::MPEG_SUFFIX@ =~= seq!['.', 'm', 'p', 'e', 'g']);
    reveal_strlit("video/mpeg"); assert(MimeType::VIDEO_MPEG@ =~= seq!['v', 'i', 'd', 'e', 'o', '/', 'm', 'p', 'e', 'g']);
    reveal_strlit(".mp4"); assert(MimeType::MP4_SUFFIX@ =~= seq!['.', 'm', 'p', '4']);
    reveal_strlit(".m4v"); assert(MimeType::M4V_SUFFIX@ =~= seq!['.', 'm', '4', 'v']);
    reveal_strlit(".m4p"); assert(MimeType::M4P_SUFFIX@ =~= seq!['.', 'm', '4', 'p']);
    reveal_strlit("video/mp4"); assert(MimeType::VIDEO_MP4@ =~= seq!['v', 'i', 'd', 'e', 'o', '/', 'm', 'p', '4']);
    reveal_strlit(".ogg"); assert(MimeType::OGG_SUFFIX@ =~= seq!['.', 'o', 'g', 'g']);
    reveal_strlit(".ogv"); assert(MimeType::OGV_SUFFIX@ =~= seq!['.', 'o', 'g', 'v']);
    reveal_strlit("video/ogg"); assert(MimeType::VIDEO_OGG@ =~= seq!['v', 'i', 'd', 'e', 'o', '/', 'o', 'g', 'g']);
    reveal_strlit(".mov"); assert(MimeType::MOV_SUFFIX@ =~= seq!['.', 'm', 'o', 'v']);
    reveal_strlit("video/quicktime"); assert(MimeType::VIDEO_QUICKTIME@ =~= seq!['v', 'i', 'd', 'e', 'o', '/', 'q', 'u', 'i', 'c', 'k', 't', 'i', 'm', 'e']);
}
pub proof fn lemma_mime_registry_4()
    ensures
        MimeType::WEBM_SUFFIX@ == seq!['.', 'w', 'e', 'b', 'm'],   // .webm
        MimeType::VIDEO_WEBM@ == seq!['v', 'i', 'd', 'e', 'o', '/', 'w', 'e', 'b', 'm'],   // video/webm
        MimeType::ABW_SUFFIX@ == seq!['.', 'a', 'b', 'w'],   // .abw
        MimeType::APPLICATION_ABIWORD@ == seq!['a', 'p', 'p', 'l', 'i', 'c', 'a', 't', 'i', 'o', 'n', '/', 'x', '-', 'a', 'b', 'i', 'w', 'o', 'r', 'd'],   // application/x-abiword
        MimeType::AVI_SUFFIX@ == seq!['.', 'a', 'v', 'i'],   // .avi
        MimeType::VIDEO_X_MSVIDEO@ == seq!['v', 'i', 'd', 'e', 'o', '/', 'x', '-', 'm', 's', 'v', 'i', 'd', 'e', 'o'],   // video/x-msvideo
        MimeType::AZV_SUFFIX@ == seq!['.', 'a', 'z', 'w'],   // .azw
        MimeType::APPLICATION_VND_AMAZON_EBOOK@ == seq!['a', 'p', 'p', 'l', 'i', 'c', 'a', 't', 'i', 'o', 'n', '/', 'v', 'n', 'd', '.', 'a', 'm', 'a', 'z', 'o', 'n', '.', 'e', 'b', 'o', 'o', 'k'],   // application/vnd.amazon.ebook
        MimeType::BIN_SUFFIX@ == seq!['.', 'b', 'i', 'n'],   // .bin
        MimeType::APPLICATION_OCTET_STREAM@ == seq!['a', 'p', 'p', 'l', 'i', 'c', 'a', 't', 'i', 'o', 'n', '/', 'o', 'c', 't', 'e', 't', '-', 's', 't', 'r', 'e', 'a', 'm'],   // application/octet-stream
        MimeType::BZ_SUFFIX@ == seq!['.', 'b', 'z'],   // .bz
        MimeType::APPLICATION_X_BZIP@ == seq!['a', 'p', 'p', 'l', 'i', 'c', 'a', 't', 'i', 'o', 'n', '/', 'x', '-', 'b', 'z', 'i', 'p'],   // application/x-bzip
        MimeType::BZ2_SUFFIX@ == seq!['.', 'b', 'z', '2'],   // .bz2
        MimeType::APPLICATION_X_BZIP2@ == seq!['a', 'p', 'p', 'l', 'i', 'c', 'a', 't', 'i', 'o', 'n', '/', 'x', '-', 'b', 'z', 'i', 'p', '2'],   // application/x-bzip2
        MimeType::CDA_SUFFIX@ == seq!['.', 'c', 'd', 'a'],   // .cda
        MimeType::APPLICATION_X_CDF@ == seq!['a', 'p', 'p', 'l', 'i', 'c', 'a', 't', 'i', 'o', 'n', '/', 'x', '-', 'c', 'd', 'f'],   // application/x-cdf
        MimeType::CSH_SUFFIX@ == seq!['.', 'c', 's', 'h'],   // .csh
        MimeType::APPLICATION_X_CSH@ == seq!['a', 'p', 'p', 'l', 'i', 'c', 'a', 't', 'i', 'o', 'n', '/', 'x', '-', 'c', 's', 'h'],   // application/x-csh
        MimeType::CSV_SUFFIX@ == seq!['.', 'c', 's', 'v'],   // .csv
        MimeType::TEXT_CSV@ == seq!['t', 'e', 'x', 't', '/', 'c', 's', 'v'],   // text/csv
{
    reveal_strlit(".webm"); assert(MimeType::WEBM_SUFFIX@ =~= seq!['.', 'w', 'e', 'b', 'm']);
    reveal_strlit("video/webm"); assert(MimeType::VIDEO_WEBM@ =~= seq!['v', 'i', 'd', 'e', 'o', '/', 'w', 'e', 'b', 'm']);
    reveal_strlit(".abw"); assert(MimeType::ABW_SUFFIX@ =~= seq!['.', 'a', 'b', 'w']);
    reveal_strlit("application/x-abiword"); assert(MimeType::APPLICATION_ABIWORD@ =~= seq!['a', 'p', 'p', 'l', 'i', 'c', 'a', 't', 'i', 'o', 'n', '/', 'x', '-', 'a', 'b', 'i', 'w', 'o', 'r', 'd']);
    reveal_strlit(".avi"); assert(MimeType::AVI_SUFFIX@ =~= seq!['.', 'a', 'v', 'i']);
    reveal_strlit("video/x-msvideo"); assert(MimeType::VIDEO_X_MSVIDEO@ =~= seq!['v', 'i', 'd', 'e', 'o', '/', 'x', '-', 'm', 's', 'v', 'i', 'd', 'e', 'o']);
    reveal_strlit(".azw"); assert(MimeType::AZV_SUFFIX@ =~= seq!['.', 'a', 'z', 'w']);
    reveal_strlit("application/vnd.amazon.ebook"); assert(MimeType::APPLICATION_VND_AMAZON_EBOOK@ =~= seq!['a', 'p', 'p', 'l', 'i', 'c', 'a', 't', 'i', 'o', 'n', '/', 'v', 'n', 'd', '.', 'a', 'm', 'a', 'z', 'o', 'n', '.', 'e', 'b', 'o', 'o', 'k']);
    reveal_strlit(".bin"); assert(MimeType::BIN_SUFFIX@ =~= seq!['.', 'b', 'i', 'n']);
    reveal_strlit("application/octet-stream"); assert(MimeType::APPLICATION_OCTET_STREAM@ =~= seq!['a', 'p', 'p', 'l', 'i', 'c', 'a', 't', 'i', 'o', 'n', '/', 'o', 'c', 't', 'e', 't', '-', 's', 't', 'r', 'e', 'a', 'm']);
    reveal_strlit(".bz"); assert(MimeType::BZ_SUFFIX@ =~= seq!['.', 'b', 'z']);
    reveal_strlit("application/x-bzip"); assert(MimeType::APPLICATION_X_BZIP@ =~= seq!['a', 'p', 'p', 'l', 'i', 'c', 'a', 't', 'i', 'o', 'n', '/', 'x', '-', 'b', 'z', 'i', 'p']);
    reveal_strlit(".bz2"); assert(MimeType::BZ2_SUFFIX@ =~= seq!['.', 'b', 'z', '2']);
    reveal_strlit("application/x-bzip2"); assert(MimeType::APPLICATION_X_BZIP2@ =~= seq!['a', 'p', 'p', 'l', 'i', 'c', 'a', 't', 'i', 'o', 'n', '/', 'x', '-', 'b', 'z', 'i', 'p', '2']);
    reveal_strlit(".cda"); assert(MimeType::CDA_SUFFIX@ =~= seq!['.', 'c', 'd', 'a']);
    reveal_strlit("application/x-cdf"); assert(MimeType::APPLICATION_X_CDF@ =~= seq!['a', 'p', 'p', 'l', 'i', 'c', 'a', 't', 'i', 'o', 'n', '/', 'x', '-', 'c', 'd', 'f']);
    reveal_strlit(".csh"); assert(MimeType::CSH_SUFFIX@ =~= seq!['.', 'c', 's', 'h']);
    reveal_strlit("application/x-csh"); assert(MimeType::APPLICATION_X_CSH@ =~= seq!['a', 'p', 'p', 'l', 'i', 'c', 'a', 't', 'i', 'o', 'n', '/', 'x', '-', 'c', 's', 'h']);
    reveal_strlit(".csv"); assert(MimeType::CSV_SUFFIX@ =~= seq!['.', 'c', 's', 'v']);
    reveal_strlit("text/csv"); assert(MimeType::TEXT_CSV@ =~= seq!['t', 'e', 'x', 't', '/', 'c', 's', 'v']);
}
pub proof fn lemma_mime_registry_5()
    ensures
        MimeType::DOC_SUFFIX@ == seq!['.', 'd', 'o', 'c'],   // .doc
        MimeType::APPLICATION_MSWORD@ == seq!['a', 'p', 'p', 'l', 'i', 'c', 'a', 't', 'i', 'o', 'n', '/', 'm', 's', 'w', 'o', 'r', 'd'],   // application/msword
        MimeType::DOCX_SUFFIX@ == seq!['.', 'd', 'o', 'c', 'x'],   // .docx
        MimeType::APPLICATION_VND_OPENXMLFORMATS_OFFICEDOCUMENTS_WORDPROCESSINGIMPL_DOCUMENT@ == seq!['a', 'p', 'p', 'l', 'i', 'c', 'a', 't', 'i', 'o', 'n', '/', 'v', 'n', 'd', '.', 'o', 'p', 'e', 'n', 'x', 'm', 'l', 'f', 'o', 'r', 'm', 'a', 't', 's', '-', 'o', 'f', 'f', 'i', 'c', 'e', 'd', 'o', 'c', 'u', 'm', 'e', 'n', 't', '.', 'w', 'o', 'r', 'd', 'p', 'r', 'o', 'c', 'e', 's', 's', 'i', 'n', 'g', 'm', 'l', '.', 'd', 'o', 'c', 'u', 'm', 'e', 'n', 't'],   // application/vnd.openxmlformats-officedocument.wordprocessingml.document
        MimeType::EOT_SUFFIX@ == seq!['.', 'e', 'o', 't'],   // .eot
        MimeType::APPLICATION_VND_MS_FONTOBJECT@ == seq!['a', 'p', 'p', 'l', 'i', 'c', 'a', 't', 'i', 'o', 'n', '/', 'v', 'n', 'd', '.', 'm', 's', '-', 'f', 'o', 'n', 't', 'o', 'b', 'j', 'e', 'c', 't'],   // application/vnd.ms-fontobject
        MimeType::EPUB_SUFFIX@ == seq!['.', 'e', 'p', 'u', 'b'],   // .epub
        MimeType::APPLICATION_EPUB_ZIP@ == seq!['a', 'p', 'p', 'l', 'i', 'c', 'a', 't', 'i', 'o', 'n', '/', 'e', 'p', 'u', 'b', '+', 'z', 'i', 'p'],   // application/epub+zip
        MimeType::GZ_SUFFIX@ == seq!['.', 'g', 'z'],   // .gz
        MimeType::APPLICATION_GZIP@ == seq!['a', 'p', 'p', 'l', 'i', 'c', 'a', 't', 'i', 'o', 'n', '/', 'g', 'z', 'i', 'p'],   // application/gzip
        MimeType::ICS_SUFFIX@ == seq!['.', 'i', 'c', 's'],   // .ics
        MimeType::TEXT_CALENDAR@ == seq!['t', 'e', 'x', 't', '/', 'c', 'a', 'l', 'e', 'n', 'd', 'a', 'r'],   // text/calendar
        MimeType::JAR_SUFFIX@ == seq!['.', 'j', 'a', 'r'],   // .jar
        MimeType::APPLICATION_JAVA_ARCHIVE@ == seq!['a', 'p', 'p', 'l', 'i', 'c', 'a', 't', 'i', 'o', 'n', '/', 'j', 'a', 'v', 'a', '-', 'a', 'r', 'c', 'h', 'i', 'v', 'e'],   // application/java-archive
        MimeType::JSON_SUFFIX@ == seq!['.', 'j', 's', 'o', 'n'],   // .json
        MimeType::APPLICATION_JSON@ == seq!['a', 'p', 'p', 'l', 'i', 'c', 'a', 't', 'i', 'o', 'n', '/', 'j', 's', 'o', 'n'],   // application/json
        MimeType::JSONLD_SUFFIX@ == seq!['.', 'j', 's', 'o', 'n', 'l', 'd'],   // .jsonld
        MimeType::APPLICATION_JSONLD@ == seq!['a', 'p', 'p', 'l', 'i', 'c', 'a', 't', 'i', 'o', 'n', '/', 'l', 'd', '+', 'j', 's', 'o', 'n'],   // application/ld+json
        MimeType::MIDI_SUFFIX@ == seq!['.', 'm', 'i', 'd', 'i'],   // .midi
        MimeType::MID_SUFFIX@ == seq!['.', 'm', 'i', 'd'],   // .mid
{
    reveal_strlit(".doc"); assert(MimeType::DOC_SUFFIX@ =~= seq!['.', 'd', 'o', 'c']);
    reveal_strlit("application/msword"); assert(MimeType::APPLICATION_MSWORD@ =~= seq!['a', 'p', 'p', 'l', 'i', 'c', 'a', 't', 'i', 'o', 'n', '/', 'm', 's', 'w', 'o', 'r', 'd']);
    reveal_strlit(".docx"); assert(MimeType::DOCX_SUFFIX@ =~= seq!['.', 'd', 'o', 'c', 'x']);
    reveal_strlit("application/vnd.openxmlformats-officedocument.wordprocessingml.document"); assert(MimeType::APPLICATION_VND_OPENXMLFORMATS_OFFICEDOCUMENTS_WORDPROCESSINGIMPL_DOCUMENT@ =~= seq!['a', 'p', 'p', 'l', 'i', 'c', 'a', 't', 'i', 'o', 'n', '/', 'v', 'n', 'd', '.', 'o', 'p', 'e', 'n', 'x', 'm', 'l', 'f', 'o', 'r', 'm', 'a', 't', 's', '-', 'o', 'f', 'f', 'i', 'c', 'e', 'd', 'o', 'c', 'u', 'm', 'e', 'n', 't', '.', 'w', 'o', 'r', 'd', 'p', 'r', 'o', 'c', 'e', 's', 's', 'i', 'n', 'g', 'm', 'l', '.', 'd', 'o', 'c', 'u', 'm', 'e', 'n', 't']);
    reveal_strlit(".eot"); assert(MimeType::EOT_SUFFIX@ =~= seq!['.', 'e', 'o', 't']);
    reveal_strlit("application/vnd.ms-fontobject"); assert(MimeType::APPLICATION_VND_MS_FONTOBJECT@ =~= seq!['a', 'p', 'p', 'l', 'i', 'c', 'a', 't', 'i', 'o', 'n', '/', 'v', 'n', 'd', '.', 'm', 's', '-', 'f', 'o', 'n', 't', 'o', 'b', 'j', 'e', 'c', 't']);
    reveal_strlit(".epub"); assert(MimeType::EPUB_SUFFIX@ =~= seq!['.', 'e', 'p', 'u', 'b']);
    reveal_strlit("application/epub+zip"); assert(MimeType::APPLICATION_EPUB_ZIP@ =~= seq!['a', 'p', 'p', 'l', 'i', 'c', 'a', 't', 'i', 'o', 'n', '/', 'e', 'p', 'u', 'b', '+', 'z', 'i', 'p']);
    reveal_strlit(".gz"); assert(MimeType::GZ_SUFFIX@ =~= seq!['.', 'g', 'z']);
    reveal_strlit("application/gzip"); assert(MimeType::APPLICATION_GZIP@ =~= seq!['a', 'p', 'p', 'l', 'i', 'c', 'a', 't', 'i', 'o', 'n', '/', 'g', 'z', 'i', 'p']);
    reveal_strlit(".ics"); assert(MimeType::ICS_SUFFIX@ =~= seq!['.', 'i', 'c', 's']);
    reveal_strlit("text/calendar"); assert(MimeType::TEXT_CALENDAR@ =~= seq!['t', 'e', 'x', 't', '/', 'c', 'a', 'l', 'e', 'n', 'd', 'a', 'r']);
    reveal_strlit(".jar"); assert(MimeType::JAR_SUFFIX@ =~= seq!['.', 'j', 'a', 'r']);
    reveal_strlit("application/java-archive"); assert(MimeType::APPLICATION_JAVA_ARCHIVE@ =~= seq!['a', 'p', 'p', 'l', 'i', 'c', 'a', 't', 'i', 'o', 'n', '/', 'j', 'a', 'v', 'a', '-', 'a', 'r', 'c', 'h', 'i', 'v', 'e']);
    reveal_strlit(".json"); assert(MimeType::JSON_SUFFIX@ =~= seq!['.', 'j', 's', 'o', 'n']);
    reveal_strlit("application/json"); assert(MimeType::APPLICATION_JSON@ =~= seq!['a', 'p', 'p', 'l', 'i', 'c', 'a', 't', 'i', 'o', 'n', '/', 'j', 's', 'o', 'n']);
    reveal_strlit(".jsonld"); assert(MimeType::JSONLD_SUFFIX@ =~= seq!['.', 'j', 's', 'o', 'n', 'l', 'd']);
    reveal_strlit("application/ld+json"); assert(MimeType::APPLICATION_JSONLD@ =~= seq!['a', 'p', 'p', 'l', 'i', 'c', 'a', 't', 'i', 'o', 'n', '/', 'l', 'd', '+', 'j', 's', 'o', 'n']);
    reveal_strlit(".midi"); assert(MimeType::MIDI_SUFFIX@ =~= seq!['.', 'm', 'i', 'd', 'i']);
    reveal_strlit(".mid"); assert(MimeType::MID_SUFFIX@ =~= seq!['.', 'm', 'i', 'd']);
}
pub proof fn lemma_mime_registry_6()
    ensures
        MimeType::AUDIO_MIDI@ == seq!['a', 'u', 'd', 'i', 'o', '/', 'm', 'i', 'd', 'i'],   // audio/midi
        MimeType::MP3_SUFFIX@ == seq!['.', 'm', 'p', '3'],   // .mp3
        MimeType::AUDIO_MPEG@ == seq!['a', 'u', 'd', 'i', 'o', '/', 'm', 'p', 'e', 'g'],   // audio/mpeg
        MimeType::MPKG_SUFFIX@ == seq!['.', 'm', 'p', 'k', 'g'],   // .mpkg
        MimeType::APPLICATION_VND_APPLE_INSTALLER_XML@ == seq!['a', 'p', 'p', 'l', 'i', 'c', 'a', 't', 'i', 'o', 'n', '/', 'v', 'n', 'd', '.', 'a', 'p', 'p', 'l', 'e', '.', 'i', 'n', 's', 't', 'a', 'l', 'l', 'e', 'r', '+', 'x', 'm', 'l'],   // application/vnd.apple.installer+xml
        MimeType::ODP_SUFFIX@ == seq!['.', 'o', 'd', 'p'],   // .odp
        MimeType::APPLICATION_VND_OASIS_OPENDOCUMENT_PRESENTATION@ == seq!['a', 'p', 'p', 'l', 'i', 'c', 'a', 't', 'i', 'o', 'n', '/', 'v', 'n', 'd', '.', 'o', 'a', 's', 'i', 's', '.', 'o', 'p', 'e', 'n', 'd', 'o', 'c', 'u', 'm', 'e', 'n', 't', '.', 'p', 'r', 'e', 's', 'e', 'n', 't', 'a', 't', 'i', 'o', 'n'],   // application/vnd.oasis.opendocument.presentation
        MimeType::ODS_SUFFIX@ == seq!['.', 'o', 'd', 's'],   // .ods
        MimeType::APPLICATION_VND_OASIS_OPENDOCUMENT_SPREADSHEET@ == seq!['a', 'p', 'p', 'l', 'i', 'c', 'a', 't', 'i', 'o', 'n', '/', 'v', 'n', 'd', '.', 'o', 'a', 's', 'i', 's', '.', 'o', 'p', 'e', 'n', 'd', 'o', 'c', 'u', 'm', 'e', 'n', 't', '.', 's', 'p', 'r', 'e', 'a', 'd', 's', 'h', 'e', 'e', 't'],   // application/vnd.oasis.opendocument.spreadsheet
        MimeType::ODT_SUFFIX@ == seq!['.', 'o', 'd', 't'],   // .odt
        MimeType::APPLICATION_VND_OASIS_OPENDOCUMENT_TEXT@ == seq!['a', 'p', 'p', 'l', 'i', 'c', 'a', 't', 'i', 'o', 'n', '/', 'v', 'n', 'd', '.', 'o', 'a', 's', 'i', 's', '.', 'o', 'p', 'e', 'n', 'd', 'o', 'c', 'u', 'm', 'e', 'n', 't', '.', 't', 'e', 'x', 't'],   // application/vnd.oasis.opendocument.text
        MimeType::OGX_SUFFIX@ == seq!['.', 'o', 'g', 'x'],   // .ogx
        MimeType::APPLICATION_OGG@ == seq!['a', 'p', 'p', 'l', 'i', 'c', 'a', 't', 'i', 'o', 'n', '/', 'o', 'g', 'g'],   // application/ogg
        MimeType::OPUS_SUFFIX@ == seq!['.', 'o', 'p', 'u', 's'],   // .opus
        MimeType::AUDIO_OPUS@ == seq!['a', 'u', 'd', 'i', 'o', '/', 'o', 'p', 'u', 's'],   // audio/opus
        MimeType::OTF_SUFFIX@ == seq!['.', 'o', 't', 'f'],   // .otf
        MimeType::FONT_OTF@ == seq!['f', 'o', 'n', 't', '/', 'o', 't', 'f'],   // font/otf
        MimeType::PDF_SUFFIX@ == seq!['.', 'p', 'd', 'f'],   // .pdf
        MimeType::APPLICATION_PDF@ == seq!['a', 'p', 'p', 'l', 'i', 'c', 'a', 't', 'i', 'o', 'n', '/', 'p', 'd', 'f'],   // application/pdf
        MimeType::PHP_SUFFIX@ == seq!['.', 'p', 'h', 'p'],   // .php
{
    reveal_strlit("audio/midi"); assert(MimeType::AUDIO_MIDI@ =~= seq!['a', 'u', 'd', 'i', 'o', '/', 'm', 'i', 'd', 'i']);
    reveal_strlit(".mp3"); assert(MimeType::MP3_SUFFIX@ =~= seq!['.', 'm', 'p', '3']);
    reveal_strlit("audio/mpeg"); assert(MimeType::AUDIO_MPEG@ =~= seq!['a', 'u', 'd', 'i', 'o', '/', 'm', 'p', 'e', 'g']);
    reveal_strlit(".mpkg"); assert(MimeType::MPKG_SUFFIX@ =~= seq!['.', 'm', 'p', 'k', 'g']);
    reveal_strlit("application/vnd.apple.installer+xml"); assert(MimeType::APPLICATION_VND_APPLE_INSTALLER_XML@ =~= seq!['a', 'p', 'p', 'l', 'i', 'c', 'a', 't', 'i', 'o', 'n', '/', 'v', 'n', 'd', '.', 'a', 'p', 'p', 'l', 'e', '.', 'i', 'n', 's', 't', 'a', 'l', 'l', 'e', 'r', '+', 'x', 'm', 'l']);
    reveal_strlit(".odp"); assert(MimeType::ODP_SUFFIX@ =~= seq!['.', 'o', 'd', 'p']);
    reveal_strlit("application/vnd.oasis.opendocument.presentation"); assert(MimeType::APPLICATION_VND_OASIS_OPENDOCUMENT_PRESENTATION@ =~= seq!['a', 'p', 'p', 'l', 'i', 'c', 'a', 't', 'i', 'o', 'n', '/', 'v', 'n', 'd', '.', 'o', 'a', 's', 'i', 's', '.', 'o', 'p', 'e', 'n', 'd', 'o', 'c', 'u', 'm', 'e', 'n', 't', '.', 'p', 'r', 'e', 's', 'e', 'n', 't', 'a', 't', 'i', 'o', 'n']);
    reveal_strlit(".ods"); assert(MimeType::ODS_SUFFIX@ =~= seq!['.', 'o', 'd', 's']);
    reveal_strlit("application/vnd.oasis.opendocument.spreadsheet"); assert(MimeType::APPLICATION_VND_OASIS_OPENDOCUMENT_SPREADSHEET@ =~= seq!['a', 'p', 'p', 'l', 'i', 'c', 'a', 't', 'i', 'o', 'n', '/', 'v', 'n', 'd', '.', 'o', 'a', 's', 'i', 's', '.', 'o', 'p', 'e', 'n', 'd', 'o', 'c', 'u', 'm', 'e', 'n', 't', '.', 's', 'p', 'r', 'e', 'a', 'd', 's', 'h', 'e', 'e', 't']);
    reveal_strlit(".odt"); assert(MimeType::ODT_SUFFIX@ =~= seq!['.', 'o', 'd', 't']);
    reveal_strlit("application/vnd.oasis.opendocument.text"); assert(MimeType::APPLICATION_VND_OASIS_OPENDOCUMENT_TEXT@ =~= seq!['a', 'p', 'p', 'l', 'i', 'c', 'a', 't', 'i', 'o', 'n', '/', 'v', 'n', 'd', '.', 'o', 'a', 's', 'i', 's', '.', 'o', 'p', 'e', 'n', 'd', 'o', 'c', 'u', 'm', 'e', 'n', 't', '.', 't', 'e', 'x', 't']);
    reveal_strlit(".ogx"); assert(MimeType::OGX_SUFFIX@ =~= seq!['.', 'o', 'g', 'x']);
    reveal_strlit("application/ogg"); assert(MimeType::APPLICATION_OGG@ =~= seq!['a', 'p', 'p', 'l', 'i', 'c', 'a', 't', 'i', 'o', 'n', '/', 'o', 'g', 'g']);
    reveal_strlit(".opus"); assert(MimeType::OPUS_SUFFIX@ =~= seq!['.', 'o', 'p', 'u', 's']);
    reveal_strlit("audio/opus"); assert(MimeType::AUDIO_OPUS@ =~= seq!['a', 'u', 'd', 'i', 'o', '/', 'o', 'p', 'u', 's']);
    reveal_strlit(".otf"); assert(MimeType::OTF_SUFFIX@ =~= seq!['.', 'o', 't', 'f']);
    reveal_strlit("font/otf"); assert(MimeType::FONT_OTF@ =~= seq!['f', 'o', 'n', 't', '/', 'o', 't', 'f']);
    reveal_strlit(".pdf"); assert(MimeType::PDF_SUFFIX@ =~= seq!['.', 'p', 'd', 'f']);
    reveal_strlit("application/pdf"); assert(MimeType::APPLICATION_PDF@ =~= seq!['a', 'p', 'p', 'l', 'i', 'c', 'a', 't', 'i', 'o', 'n', '/', 'p', 'd', 'f']);
    reveal_strlit(".php"); assert(MimeType::PHP_SUFFIX@ =~= seq!['.', 'p', 'h', 'p']);
}
pub proof fn lemma_mime_registry_7()
    ensures
        MimeType::APPLICATION_X_HTTPD_PHP@ == seq!['a', 'p', 'p', 'l', 'i', 'c', 'a', 't', 'i', 'o', 'n', '/', 'x', '-', 'h', 't', 't', 'p', 'd', '-', 'p', 'h', 'p'],   // application/x-httpd-php
        MimeType::PPT_SUFFIX@ == seq!['.', 'p', 'p', 't'],   // .ppt
        MimeType::APPLICATION_VND_MS_POWERPOINT@ == seq!['a', 'p', 'p', 'l', 'i', 'c', 'a', 't', 'i', 'o', 'n', '/', 'v', 'n', 'd', '.', 'm', 's', '-', 'p', 'o', 'w', 'e', 'r', 'p', 'o', 'i', 'n', 't'],   // application/vnd.ms-powerpoint
        MimeType::PPTX_SUFFIX@ == seq!['.', 'p', 'p', 't', 'x'],   // .pptx
        MimeType::APPLICATION_VND_OPENXMLFORMATS_OFFICEDOCUMENT_PRESENTATIONML_PRESENTATION@ == seq!['a', 'p', 'p', 'l', 'i', 'c', 'a', 't', 'i', 'o', 'n', '/', 'v', 'n', 'd', '.', 'o', 'p', 'e', 'n', 'x', 'm', 'l', 'f', 'o', 'r', 'm', 'a', 't', 's', '-', 'o', 'f', 'f', 'i', 'c', 'e', 'd', 'o', 'c', 'u', 'm', 'e', 'n', 't', '.', 'p', 'r', 'e', 's', 'e', 'n', 't', 'a', 't', 'i', 'o', 'n', 'm', 'l', '.', 'p', 'r', 'e', 's', 'e', 'n', 't', 'a', 't', 'i', 'o', 'n'],   // application/vnd.openxmlformats-officedocument.presentationml.presentation
        MimeType::RAR_SUFFIX@ == seq!['.', 'r', 'a', 'r'],   // .rar
        MimeType::APPLICATION_VND_RAR@ == seq!['a', 'p', 'p', 'l', 'i', 'c', 'a', 't', 'i', 'o', 'n', '/', 'v', 'n', 'd', '.', 'r', 'a', 'r'],   // application/vnd.rar
        MimeType::RTF_SUFFIX@ == seq!['.', 'r', 't', 'f'],   // .rtf
        MimeType::APPLICATION_RTF@ == seq!['a', 'p', 'p', 'l', 'i', 'c', 'a', 't', 'i', 'o', 'n', '/', 'r', 't', 'f'],   // application/rtf
        MimeType::SH_SUFFIX@ == seq!['.', 's', 'h'],   // .sh
        MimeType::APPLICATION_X_SH@ == seq!['a', 'p', 'p', 'l', 'i', 'c', 'a', 't', 'i', 'o', 'n', '/', 'x', '-', 's', 'h'],   // application/x-sh
        MimeType::SWF_SUFFIX@ == seq!['.', 's', 'w', 'f'],   // .swf
        MimeType::APPLICATION_X_SHOCKWAVE_FLASH@ == seq!['a', 'p', 'p', 'l', 'i', 'c', 'a', 't', 'i', 'o', 'n', '/', 'x', '-', 's', 'h', 'o', 'c', 'k', 'w', 'a', 'v', 'e', '-', 'f', 'l', 'a', 's', 'h'],   // application/x-shockwave-flash
        MimeType::TAR_SUFFIX@ == seq!['.', 't', 'a', 'r'],   // .tar
        MimeType::APPLICATION_X_TAR@ == seq!['a', 'p', 'p', 'l', 'i', 'c', 'a', 't', 'i', 'o', 'n', '/', 'x', '-', 't', 'a', 'r'],   // application/x-tar
        MimeType::TS_SUFFIX@ == seq!['.', 't', 's'],   // .ts
        MimeType::VIDEO_MP2T@ == seq!['v', 'i', 'd', 'e', 'o', '/', 'm', 'p', '2', 't'],   // video/mp2t
        MimeType::TTF_SUFFIX@ == seq!['.', 't', 't', 'f'],   // .ttf
        MimeType::FONT_TTF@ == seq!['f', 'o', 'n', 't', '/', 't', 't', 'f'],   // font/ttf
        MimeType::VSD_SUFFIX@ == seq!['.', 'v', 's', 'd'],   // .vsd
{
    reveal_strlit("application/x-httpd-php"); assert(MimeType::APPLICATION_X_HTTPD_PHP@ =~= seq!['a', 'p', 'p', 'l', 'i', 'c', 'a', 't', 'i', 'o', 'n', '/', 'x', '-', 'h', 't', 't', 'p', 'd', '-', 'p', 'h', 'p']);
    reveal_strlit(".ppt"); assert(MimeType::PPT_SUFFIX@ =~= seq!['.', 'p', 'p', 't']);
    reveal_strlit("application/vnd.ms-powerpoint"); assert(MimeType::APPLICATION_VND_MS_POWERPOINT@ =~= seq!['a', 'p', 'p', 'l', 'i', 'c', 'a', 't', 'i', 'o', 'n', '/', 'v', 'n', 'd', '.', 'm', 's', '-', 'p', 'o', 'w', 'e', 'r', 'p', 'o', 'i', 'n', 't']);
    reveal_strlit(".pptx"); assert(MimeType::PPTX_SUFFIX@ =~= seq!['.', 'p', 'p', 't', 'x']);
    reveal_strlit("application/vnd.openxmlformats-officedocument.presentationml.presentation"); assert(MimeType::APPLICATION_VND_OPENXMLFORMATS_OFFICEDOCUMENT_PRESENTATIONML_PRESENTATION@ =~= seq!['a', 'p', 'p', 'l', 'i', 'c', 'a', 't', 'i', 'o', 'n', '/', 'v', 'n', 'd', '.', 'o', 'p', 'e', 'n', 'x', 'm', 'l', 'f', 'o', 'r', 'm', 'a', 't', 's', '-', 'o', 'f', 'f', 'i', 'c', 'e', 'd', 'o', 'c', 'u', 'm', 'e', 'n', 't', '.', 'p', 'r', 'e', 's', 'e', 'n', 't', 'a', 't', 'i', 'o', 'n', 'm', 'l', '.', 'p', 'r', 'e', 's', 'e', 'n', 't', 'a', 't', 'i', 'o', 'n']);
    reveal_strlit(".rar"); assert(MimeType::RAR_SUFFIX@ =~= seq!['.', 'r', 'a', 'r']);
    reveal_strlit("application/vnd.rar"); assert(MimeType::APPLICATION_VND_RAR@ =~= seq!['a', 'p', 'p', 'l', 'i', 'c', 'a', 't', 'i', 'o', 'n', '/', 'v', 'n', 'd', '.', 'r', 'a', 'r']);
    reveal_strlit(".rtf"); assert(MimeType::RTF_SUFFIX@ =~= seq!['.', 'r', 't', 'f']);
    reveal_strlit("application/rtf"); assert(MimeType::APPLICATION_RTF@ =~= seq!['a', 'p', 'p', 'l', 'i', 'c', 'a', 't', 'i', 'o', 'n', '/', 'r', 't', 'f']);
    reveal_strlit(".sh"); assert(MimeType::SH_SUFFIX@ =~= seq!['.', 's', 'h']);
    reveal_strlit("application/x-sh"); assert(MimeType::APPLICATION_X_SH@ =~= seq!['a', 'p', 'p', 'l', 'i', 'c', 'a', 't', 'i', 'o', 'n', '/', 'x', '-', 's', 'h']);
    reveal_strlit(".swf"); assert(MimeType::SWF_SUFFIX@ =~= seq!['.', 's', 'w', 'f']);
    reveal_strlit("application/x-shockwave-flash"); assert(MimeType::APPLICATION_X_SHOCKWAVE_FLASH@ =~= seq!['a', 'p', 'p', 'l', 'i', 'c', 'a', 't', 'i', 'o', 'n', '/', 'x', '-', 's', 'h', 'o', 'c', 'k', 'w', 'a', 'v', 'e', '-', 'f', 'l', 'a', 's', 'h']);
    reveal_strlit(".tar"); assert(MimeType::TAR_SUFFIX@ =~= seq!['.', 't', 'a', 'r']);
    reveal_strlit("application/x-tar"); assert(MimeType::APPLICATION_X_TAR@ =~= seq!['a', 'p', 'p', 'l', 'i', 'c', 'a', 't', 'i', 'o', 'n', '/', 'x', '-', 't', 'a', 'r']);
    reveal_strlit(".ts"); assert(MimeType::TS_SUFFIX@ =~= seq!['.', 't', 's']);
    reveal_strlit("video/mp2t"); assert(MimeType::VIDEO_MP2T@ =~= seq!['v', 'i', 'd', 'e', 'o', '/', 'm', 'p', '2', 't']);
    reveal_strlit(".ttf"); assert(MimeType::TTF_SUFFIX@ =~= seq!['.', 't', 't', 'f']);
    reveal_strlit("font/ttf"); assert(MimeType::FONT_TTF@ =~= seq!['f', 'o', 'n', 't', '/', 't', 't', 'f']);
    reveal_strlit(".vsd"); assert(MimeType::VSD_SUFFIX@ =~= seq!['.', 'v', 's', 'd']);
}
pub proof fn lemma_mime_registry_8()
    ensures
        MimeType::APPLICATION_VND_VISIO@ == seq!['a', 'p', 'p', 'l', 'i', 'c', 'a', 't', 'i', 'o', 'n', '/', 'v', 'n', 'd', '.', 'v', 'i', 's', 'i', 'o'],   // application/vnd.visio
        MimeType::WEBA_SUFFIX@ == seq!['.', 'w', 'e', 'b', 'a'],   // .weba
        MimeType::AUDIO_WEBM@ == seq!['a', 'u', 'd', 'i', 'o', '/', 'w', 'e', 'b', 'm'],   // audio/webm
        MimeType::WOFF_SUFFIX@ == seq!['.', 'w', 'o', 'f', 'f'],   // .woff
        MimeType::FONT_WOFF@ == seq!['f', 'o', 'n', 't', '/', 'w', 'o', 'f', 'f'],   // font/woff
        MimeType::WOFF2_SUFFIX@ == seq!['.', 'w', 'o', 'f', 'f', '2'],   // .woff2
        MimeType::FONT_WOFF2@ == seq!['f', 'o', 'n', 't', '/', 'w', 'o', 'f', 'f', '2'],   // font/woff2
        MimeType::XHTML_SUFFIX@ == seq!['.', 'x', 'h', 't', 'm', 'l'],   // .xhtml
        MimeType::APPLICATION_XHTML_XML@ == seq!['a', 'p', 'p', 'l', 'i', 'c', 'a', 't', 'i', 'o', 'n', '/', 'x', 'h', 't', 'm', 'l', '+', 'x', 'm', 'l'],   // application/xhtml+xml
        MimeType::XLS_SUFFIX@ == seq!['.', 'x', 'l', 's'],   // .xls
        MimeType::APPLICATION_VND_MS_EXCEL@ == seq!['a', 'p', 'p', 'l', 'i', 'c', 'a', 't', 'i', 'o', 'n', '/', 'v', 'n', 'd', '.', 'm', 's', '-', 'e', 'x', 'c', 'e', 'l'],   // application/vnd.ms-excel
        MimeType::XLSX_SUFFIX@ == seq!['.', 'x', 'l', 's', 'x'],   // .xlsx
        MimeType::APPLICATION_VND_OPENXMLFORMATS_OFFICEDOCUMENT_SPREADSHEETML_SHEET@ == seq!['a', 'p', 'p', 'l', 'i', 'c', 'a', 't', 'i', 'o', 'n', '/', 'v', 'n', 'd', '.', 'o', 'p', 'e', 'n', 'x', 'm', 'l', 'f', 'o', 'r', 'm', 'a', 't', 's', '-', 'o', 'f', 'f', 'i', 'c', 'e', 'd', 'o', 'c', 'u', 'm', 'e', 'n', 't', '.', 's', 'p', 'r', 'e', 'a', 'd', 's', 'h', 'e', 'e', 't', 'm', 'l', '.', 's', 'h', 'e', 'e', 't'],   // application/vnd.openxmlformats-officedocument.spreadsheetml.sheet
        MimeType::XML_SUFFIX@ == seq!['.', 'x', 'm', 'l'],   // .xml
        MimeType::APPLICATION_XML@ == seq!['a', 'p', 'p', 'l', 'i', 'c', 'a', 't', 'i', 'o', 'n', '/', 'x', 'm', 'l'],   // application/xml
        MimeType::XUL_SUFFIX@ == seq!['.', 'x', 'u', 'l'],   // .xul
        MimeType::APPLICATION_VND_MOZILLA_XUL_XML@ == seq!['a', 'p', 'p', 'l', 'i', 'c', 'a', 't', 'i', 'o', 'n', '/', 'v', 'n', 'd', '.', 'm', 'o', 'z', 'i', 'l', 'l', 'a', '.', 'x', 'u', 'l', '+', 'x', 'm', 'l'],   // application/vnd.mozilla.xul+xml
        MimeType::ZIP_SUFFIX@ == seq!['.', 'z', 'i', 'p'],   // .zip
        MimeType::APPLICATION_ZIP@ == seq!['a', 'p', 'p', 'l', 'i', 'c', 'a', 't', 'i', 'o', 'n', '/', 'z', 'i', 'p'],   // application/zip
        MimeType::N7Z_SUFFIX@ == seq!['.', '7', 'z'],   // .7z
{
    reveal_strlit("application/vnd.visio"); assert(MimeType::APPLICATION_VND_VISIO@ =~= seq!['a', 'p', 'p', 'l', 'i', 'c', 'a', 't', 'i', 'o', 'n', '/', 'v', 'n', 'd', '.', 'v', 'i', 's', 'i', 'o']);
    reveal_strlit(".weba"); assert(MimeType::WEBA_SUFFIX@ =~= seq!['.', 'w', 'e', 'b', 'a']);
    reveal_strlit("audio/webm"); assert(MimeType::AUDIO_WEBM@ =~= seq!['a', 'u', 'd', 'i', 'o', '/', 'w', 'e', 'b', 'm']);
    reveal_strlit(".woff"); assert(MimeType::WOFF_SUFFIX@ =~= seq!['.', 'w', 'o', 'f', 'f']);
    reveal_strlit("font/woff"); assert(MimeType::FONT_WOFF@ =~= seq!['f', 'o', 'n', 't', '/', 'w', 'o', 'f', 'f']);
    reveal_strlit(".woff2"); assert(MimeType::WOFF2_SUFFIX@ =~= seq!['.', 'w', 'o', 'f', 'f', '2']);
    reveal_strlit("font/woff2"); assert(MimeType::FONT_WOFF2@ =~= seq!['f', 'o', 'n', 't', '/', 'w', 'o', 'f', 'f', '2']);
    reveal_strlit(".xhtml"); assert(MimeType::XHTML_SUFFIX@ =~= seq!['.', 'x', 'h', 't', 'm', 'l']);
    reveal_strlit("application/xhtml+xml"); assert(MimeType::APPLICATION_XHTML_XML@ =~= seq!['a', 'p', 'p', 'l', 'i', 'c', 'a', 't', 'i', 'o', 'n', '/', 'x', 'h', 't', 'm', 'l', '+', 'x', 'm', 'l']);
    reveal_strlit(".xls"); assert(MimeType::XLS_SUFFIX@ =~= seq!['.', 'x', 'l', 's']);
    reveal_strlit("application/vnd.ms-excel"); assert(MimeType::APPLICATION_VND_MS_EXCEL@ =~= seq!['a', 'p', 'p', 'l', 'i', 'c', 'a', 't', 'i', 'o', 'n', '/', 'v', 'n', 'd', '.', 'm', 's', '-', 'e', 'x', 'c', 'e', 'l']);
    reveal_strlit(".xlsx"); assert(MimeType::XLSX_SUFFIX@ =~= seq!['.', 'x', 'l', 's', 'x']);
    reveal_strlit("application/vnd.openxmlformats-officedocument.spreadsheetml.sheet"); assert(MimeType::APPLICATION_VND_OPENXMLFORMATS_OFFICEDOCUMENT_SPREADSHEETML_SHEET@ =~= seq!['a', 'p', 'p', 'l', 'i', 'c', 'a', 't', 'i', 'o', 'n', '/', 'v', 'n', 'd', '.', 'o', 'p', 'e', 'n', 'x', 'm', 'l', 'f', 'o', 'r', 'm', 'a', 't', 's', '-', 'o', 'f', 'f', 'i', 'c', 'e', 'd', 'o', 'c', 'u', 'm', 'e', 'n', 't', '.', 's', 'p', 'r', 'e', 'a', 'd', 's', 'h', 'e', 'e', 't', 'm', 'l', '.', 's', 'h', 'e', 'e', 't']);
    reveal_strlit(".xml"); assert(MimeType::XML_SUFFIX@ =~= seq!['.', 'x', 'm', 'l']);
    reveal_strlit("application/xml"); assert(MimeType::APPLICATION_XML@ =~= seq!['a', 'p', 'p', 'l', 'i', 'c', 'a', 't', 'i', 'o', 'n', '/', 'x', 'm', 'l']);
    reveal_strlit(".xul"); assert(MimeType::XUL_SUFFIX@ =~= seq!['.', 'x', 'u', 'l']);
    reveal_strlit("application/vnd.mozilla.xul+xml"); assert(MimeType::APPLICATION_VND_MOZILLA_XUL_XML@ =~= seq!['a', 'p', 'p', 'l', 'i', 'c', 'a', 't', 'i', 'o', 'n', '/', 'v', 'n', 'd', '.', 'm', 'o', 'z', 'i', 'l', 'l', 'a', '.', 'x', 'u', 'l', '+', 'x', 'm', 'l']);
    reveal_strlit(".zip"); assert(MimeType::ZIP_SUFFIX@ =~= seq!['.', 'z', 'i', 'p']);
    reveal_strlit("application/zip"); assert(MimeType::APPLICATION_ZIP@ =~= seq!['a', 'p', 'p', 'l', 'i', 'c', 'a', 't', 'i', 'o', 'n', '/', 'z', 'i', 'p']);
    reveal_strlit(".7z"); assert(MimeType::N7Z_SUFFIX@ =~= seq!['.', '7', 'z']);
}
pub proof fn lemma_mime_registry_9()
    ensures
        MimeType::APPLICATION_X_7Z_COMPRESSED@ == seq!['a', 'p', 'p', 'l', 'i', 'c', 'a', 't', 'i', 'o', 'n', '/', 'x', '-', '7', 'z', '-', 'c', 'o', 'm', 'p', 'r', 'e', 's', 's', 'e', 'd'],   // application/x-7z-compressed
        MimeType::N3G2_SUFFIX@ == seq!['.', '3', 'g', '2'],   // .3g2
        MimeType::VIDEO_3GPP2@ == seq!['v', 'i', 'd', 'e', 'o', '/', '3', 'g', 'p', 'p', '2'],   // video/3gpp2
        MimeType::CRT_SUFFIX@ == seq!['.', 'c', 'r', 't'],   // .crt
        MimeType::APPLICATION_X_X509_CA_CERT@ == seq!['a', 'p', 'p', 'l', 'i', 'c', 'a', 't', 'i', 'o', 'n', '/', 'x', '-', 'x', '5', '0', '9', '-', 'c', 'a', '-', 'c', 'e', 'r', 't'],   // application/x-x509-ca-cert
{
    reveal_strlit("application/x-7z-compressed"); assert(MimeType::APPLICATION_X_7Z_COMPRESSED@ =~= seq!['a', 'p', 'p', 'l', 'i', 'c', 'a', 't', 'i', 'o', 'n', '/', 'x', '-', '7', 'z', '-', 'c', 'o', 'm', 'p', 'r', 'e', 's', 's', 'e', 'd']);
    reveal_strlit(".3g2"); assert(MimeType::N3G2_SUFFIX@ =~= seq!['.', '3', 'g', '2']);
    reveal_strlit("video/3gpp2"); assert(MimeType::VIDEO_3GPP2@ =~= seq!['v', 'i', 'd', 'e', 'o', '/', '3', 'g', 'p', 'p', '2']);
    reveal_strlit(".crt"); assert(MimeType::CRT_SUFFIX@ =~= seq!['.', 'c', 'r', 't']);
    reveal_strlit("application/x-x509-ca-cert"); assert(MimeType::APPLICATION_X_X509_CA_CERT@ =~= seq!['a', 'p', 'p', 'l', 'i', 'c', 'a', 't', 'i', 'o', 'n', '/', 'x', '-', 'x', '5', '0', '9', '-', 'c', 'a', '-', 'c', 'e', 'r', 't']);
}
