// ===== contracts/spec/request_thm.rs — theorems over the request reader / writer specifications (C14) =====
// Request::parse is proved equal to parse_request_spec (req_read) and Request::generate to utf8(request_head(..)) ++ body;
// the statements of C14 are proved here over those spec functions.

// ---------- accept / reject ----------
// THEOREM (C14): parsing succeeds exactly when the first line is valid UTF-8 and a well-formed request line
pub proof fn theorem_request_accept_iff(data: Seq<u8>)
    ensures parse_request_spec(data).is_some() <==> (valid_utf8(first_line(data)) && request_line_ok(vstd::utf8::decode_utf8(first_line(data)))),
{
    lemma_line_len(data);
}

// ---------- the round trip ----------
// a request the serialiser can write and the reader can read back
pub open spec fn wf_word(s: Seq<char>) -> bool { s.len() > 0 && no_sp(s) && no_crlf(s) && !is_ws(s[0]) && !is_ws(s.last()) }
pub open spec fn wf_header_rt(h: HV) -> bool {
    no_crlf(h.0) && no_crlf(h.1) && !has_sub(h.0, colon_sp1()) && (h.0.len() == 0 || h.0.last() != ':')
    && no_lf_b(utf8_bytes(h.0 + colon_sp1() + h.1))      // implied by no_crlf for real UTF-8; stated on the bytes
}
pub open spec fn wf_request_rt(m: Seq<char>, u: Seq<char>, v: Seq<char>, hs: Seq<HV>) -> bool {
    wf_word(m) && wf_word(u) && wf_word(v)
    && member(methods(), upper_spec(m)) && member(versions(), upper_spec(v))
    && no_lf_b(utf8_bytes(m + sp1() + u + sp1() + v + sp1()))
    && forall|i: int| 0 <= i < hs.len() ==> wf_header_rt(#[trigger] hs[i])
}
// the header block front to back
pub open spec fn req_block_f(hs: Seq<HV>) -> Seq<char>
    decreases hs.len()
{
    if hs.len() == 0 { Seq::empty() } else { (hs[0].0 + colon_sp1() + hs[0].1 + crlf_c()) + req_block_f(hs.drop_first()) }
}
pub proof fn lemma_req_block_f_push(hs: Seq<HV>, h: HV)
    ensures req_block_f(hs.push(h)) == req_block_f(hs) + (h.0 + colon_sp1() + h.1 + crlf_c()),
    decreases hs.len()
{
    if hs.len() == 0 {
        assert(hs.push(h).drop_first() =~= Seq::<HV>::empty());
        assert(req_block_f(hs.push(h)) =~= (h.0 + colon_sp1() + h.1 + crlf_c()) + req_block_f(Seq::<HV>::empty()));
        assert(req_block_f(hs.push(h)) =~= req_block_f(hs) + (h.0 + colon_sp1() + h.1 + crlf_c()));
    } else {
        assert(hs.push(h).drop_first() =~= hs.drop_first().push(h));
        assert(hs.push(h)[0] == hs[0]);
        lemma_req_block_f_push(hs.drop_first(), h);
        assert(req_block_f(hs.push(h)) =~= req_block_f(hs) + (h.0 + colon_sp1() + h.1 + crlf_c()));
    }
}
pub proof fn lemma_req_block_front(hs: Seq<HV>)
    ensures req_render_acc(Seq::<char>::empty(), hs) == req_block_f(hs),
    decreases hs.len()
{
    reveal_strlit(""); reveal_strlit(": "); reveal_strlit("\r\n");
    assert(SYMBOL.empty_string@ =~= Seq::<char>::empty());
    assert(Header::NAME_VALUE_SEPARATOR@ =~= colon_sp1());
    assert(SYMBOL.new_line_carriage_return@ =~= crlf_c());
    if hs.len() > 0 {
        lemma_req_block_front(hs.drop_last());
        lemma_req_block_f_push(hs.drop_last(), hs.last());
        assert(hs.drop_last().push(hs.last()) =~= hs);
        let h = hs.last();
        assert(req_header_line(h) =~= h.0 + colon_sp1() + h.1 + crlf_c());
    }
}
// the blank line ends the call and leaves the body in the cursor
pub proof fn lemma_read_blank(body: Seq<u8>, iter: nat, st: RS)
    requires iter > 0,
    ensures req_read(crlf_b() + body, iter, st) == (true, st, body),
{
    let e = Seq::<u8>::empty();
    let ec = Seq::<char>::empty();
    assert(crlf_b() + body =~= e + crlf_b() + body);
    assert(no_lf_b(e));
    lemma_crlf_line(e, body);
    lemma_utf8_text_line(ec);
    vstd::utf8::is_ascii_chars_encode_utf8(ec);
    assert(utf8_bytes(ec) =~= e);
    assert(e + crlf_b() =~= crlf_b());
    assert(ec + crlf_c() =~= crlf_c());
    assert(all_ws(crlf_c())) by { axiom_trim(crlf_c()); }
    lemma_trim_all_ws(crlf_c());
}
// header lines, then the blank line, then the body
pub proof fn lemma_read_headers(todo: Seq<HV>, body: Seq<u8>, iter: nat, st: RS)
    requires iter > 0, todo.len() > 0, forall|i: int| 0 <= i < todo.len() ==> wf_header_rt(#[trigger] todo[i]),
    ensures req_read(utf8_bytes(req_block_f(todo)) + crlf_b() + body, iter, st)
        == (true, RS { method: st.method, uri: st.uri, version: st.version, headers: st.headers + todo, body: st.body + body }, Seq::<u8>::empty()),
    decreases todo.len()
{
    let h = todo[0];
    let rest = todo.drop_first();
    let l = h.0 + colon_sp1() + h.1;
    let u = utf8_bytes(l);
    assert(wf_header_rt(h));
    lemma_utf8_text_line(l);
    vstd::utf8::encode_utf8_concat(l + crlf_c(), req_block_f(rest));
    let x2 = utf8_bytes(req_block_f(rest)) + crlf_b() + body;
    let r = utf8_bytes(req_block_f(todo)) + crlf_b() + body;
    assert(r =~= u + crlf_b() + x2);
    lemma_crlf_line(u, x2);
    let line = u + crlf_b();
    assert(first_line(r) == line && after_line(r) == x2);
    let s = l + crlf_c();
    // not blank: it holds a ':'
    axiom_trim(s);
    assert(s[h.0.len() as int] == ':');
    lemma_trim_nonblank(s, h.0.len() as int);
    // the header read from the line
    assert(s =~= h.0 + colon_sp1() + (h.1 + crlf_c()));
    assert(colon_sp1()[0] == ':' && colon_sp1()[1] == ' ');
    lemma_split_once_at(h.0, colon_sp1(), h.1 + crlf_c());
    lemma_strip_crlf(h.0);
    lemma_strip_crlf_line(h.1);
    assert(header_of_line(s) == h);
    let st2 = RS { method: st.method, uri: st.uri, version: st.version, headers: st.headers.push(h), body: st.body };
    if rest.len() == 0 {
        vstd::utf8::is_ascii_chars_encode_utf8(Seq::<char>::empty());
        assert(utf8_bytes(req_block_f(rest)) =~= Seq::<u8>::empty());
        assert(x2 =~= crlf_b() + body);
        lemma_read_blank(body, iter + 1, st2);
        assert(st.headers.push(h) =~= st.headers + todo);
    } else {
        assert(forall|i: int| 0 <= i < rest.len() ==> wf_header_rt(#[trigger] rest[i])) by { assert forall|i: int| 0 <= i < rest.len() implies wf_header_rt(#[trigger] rest[i]) by { assert(rest[i] == todo[i + 1]); } }
        lemma_read_headers(rest, body, iter + 1, st2);
        assert(st.headers.push(h) + rest =~= st.headers + todo);
        assert(st.body + body + Seq::<u8>::empty() =~= st.body + body);
    }
    assert(line.len() != 0);
}

// THEOREM (C14, round trip): for every well-formed request, reading what the writer produced returns the same method, target,
// version, headers (names and values, in order) and body bytes.
pub proof fn theorem_request_roundtrip(m: Seq<char>, u: Seq<char>, v: Seq<char>, hs: Seq<HV>, body: Seq<u8>)
    requires wf_request_rt(m, u, v, hs),
    ensures parse_request_spec(utf8_bytes(request_head(m, u, v, hs)) + body)
        == Some(RS { method: m, uri: u, version: v, headers: hs, body: body }),
{
    reveal_strlit(" "); reveal_strlit("\r\n"); reveal_strlit("");
    assert(SYMBOL.whitespace@ =~= sp1());
    assert(SYMBOL.new_line_carriage_return@ =~= crlf_c());
    assert(SYMBOL.empty_string@ =~= Seq::<char>::empty());
    let rl = m + sp1() + u + sp1() + v + sp1();       // the request line without its CRLF
    let block = req_block_f(hs);
    lemma_req_block_front(hs);
    let head = request_head(m, u, v, hs);
    assert(head =~= (rl + crlf_c()) + block + crlf_c());
    vstd::utf8::encode_utf8_concat((rl + crlf_c()) + block, crlf_c());
    vstd::utf8::encode_utf8_concat(rl + crlf_c(), block);
    lemma_utf8_text_line(rl);
    lemma_utf8_text_line(Seq::<char>::empty());
    vstd::utf8::is_ascii_chars_encode_utf8(Seq::<char>::empty());
    assert(utf8_bytes(Seq::<char>::empty()) =~= Seq::<u8>::empty());
    assert(Seq::<char>::empty() + crlf_c() =~= crlf_c());
    assert(utf8_bytes(crlf_c()) =~= crlf_b());
    let data = utf8_bytes(head) + body;
    let x1 = utf8_bytes(block) + crlf_b() + body;
    assert(data =~= utf8_bytes(rl) + crlf_b() + x1);
    lemma_crlf_line(utf8_bytes(rl), x1);
    let s = rl + crlf_c();
    assert(first_line(data) == utf8_bytes(rl) + crlf_b() && after_line(data) == x1);
    // the request line: trim, split at the first and the second space
    let w = sp1() + crlf_c();
    let t = m + sp1() + u + sp1() + v;
    assert(s =~= t + w);
    assert(all_ws(w)) by { axiom_trim(w); }
    assert(t[0] == m[0] && t.last() == v.last());
    lemma_trim_tail(t, w);
    assert(t =~= m + sp1() + (u + sp1() + v));
    lemma_no_sp_no_sub(m);
    lemma_no_sp_no_sub(u);
    lemma_split_once_at(m, sp1(), u + sp1() + v);
    lemma_split_once_at(u, sp1(), v);
    assert(request_line_parts(s) == Some((m, u, v)));
    assert(request_line_ok(s));
    lemma_trim_nonblank(s, 0);
    let st1 = RS { method: m, uri: u, version: v, headers: Seq::<HV>::empty(), body: Seq::<u8>::empty() };
    if hs.len() == 0 {
        assert(utf8_bytes(block) =~= Seq::<u8>::empty());
        assert(x1 =~= crlf_b() + body);
        lemma_read_blank(body, 1, st1);
    } else {
        lemma_read_headers(hs, body, 1, st1);
        assert(Seq::<HV>::empty() + hs =~= hs);
    }
    assert(Seq::<u8>::empty() + body =~= body);
    assert((utf8_bytes(rl) + crlf_b()).len() != 0);
}
