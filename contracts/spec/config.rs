// ===== contracts/spec/config.rs — a setting's text never holds a NUL character on its way into the environment =====
pub open spec fn nn(s: Seq<char>) -> bool { no_char(s, '\0') }
pub open spec fn all_nn(l: Seq<String>) -> bool { forall|i: int| 0 <= i < l.len() ==> nn(#[trigger] l[i]@) }
pub open spec fn keys_ok(l: Seq<CommandLineArgument>) -> bool { forall|i: int| 0 <= i < l.len() ==> valid_env_key((#[trigger] l[i]).environment_variable@) }

pub proof fn lemma_nn_cat(a: Seq<char>, b: Seq<char>)
    ensures nn(a + b) <==> (nn(a) && nn(b)),
{
    if nn(a + b) {
        assert forall|i: int| 0 <= i < a.len() implies #[trigger] a[i] != '\0' by { assert((a + b)[i] == a[i]); }
        assert forall|i: int| 0 <= i < b.len() implies #[trigger] b[i] != '\0' by { assert((a + b)[a.len() + i] == b[i]); }
    }
    if nn(a) && nn(b) {
        assert forall|i: int| 0 <= i < (a + b).len() implies #[trigger] (a + b)[i] != '\0' by { if i < a.len() { assert((a + b)[i] == a[i]); } else { assert((a + b)[i] == b[i - a.len()]); } }
    }
}
pub proof fn lemma_nn_trim(s: Seq<char>)
    requires nn(s),
    ensures nn(trim_spec(s)),
{
    axiom_trim(s);
    let (a, b) = choose|a: int, b: int| 0 <= a <= b <= s.len() && trim_spec(s) == s.subrange(a, b)
        && (forall|i: int| 0 <= i < a ==> is_ws(#[trigger] s[i])) && (forall|i: int| b <= i < s.len() ==> is_ws(#[trigger] s[i]));
    assert forall|i: int| 0 <= i < trim_spec(s).len() implies #[trigger] trim_spec(s)[i] != '\0' by { assert(trim_spec(s)[i] == s[a + i]); }
}
pub proof fn lemma_nn_without(s: Seq<char>, c: char)
    requires nn(s),
    ensures nn(without_char(s, c)),
{
    lemma_without_char(s, c, '\0');
}
pub proof fn lemma_nn_subst(s: Seq<char>, a: char, b: char)
    requires nn(s), b != '\0',
    ensures nn(subst_char(s, a, b)),
{
}
pub proof fn lemma_all_nn_push(l: Seq<String>, x: String)
    requires all_nn(l), nn(x@),
    ensures all_nn(l.push(x)),
{
    assert forall|i: int| 0 <= i < l.push(x).len() implies nn(#[trigger] l.push(x)[i]@) by { if i < l.len() { assert(l.push(x)[i] == l[i]); } }
}

// removing two characters: the order does not matter
pub proof fn lemma_without_commute(s: Seq<char>, a: char, b: char)
    ensures without_char(without_char(s, a), b) == without_char(without_char(s, b), a),
    decreases s.len()
{
    if s.len() > 0 {
        lemma_without_commute(s.drop_last(), a, b);
        let t = s.drop_last(); let l = s.last();
        if l == a || l == b {
            if l == a && l != b { assert(without_char(t, b).push(l).drop_last() =~= without_char(t, b)); }
            if l == b && l != a { assert(without_char(t, a).push(l).drop_last() =~= without_char(t, a)); }
        } else {
            assert(without_char(t, a).push(l).drop_last() =~= without_char(t, a));
            assert(without_char(t, b).push(l).drop_last() =~= without_char(t, b));
        }
    }
}
