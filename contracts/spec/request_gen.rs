// ===== serialised request (left-nested in emission order) =====
pub open spec fn req_header_line(h: HV) -> Seq<char> {
    SYMBOL.empty_string@ + h.0 + Header::NAME_VALUE_SEPARATOR@ + h.1 + SYMBOL.new_line_carriage_return@
}
pub open spec fn req_render_acc(acc: Seq<char>, hs: Seq<HV>) -> Seq<char>
    decreases hs.len()
{
    if hs.len() == 0 { acc } else { req_render_acc(acc, hs.drop_last()) + req_header_line(hs.last()) }
}
// method SP target SP version SP CRLF   (the serialiser joins four pieces with a space; the parser trims the line)
pub open spec fn request_line(method: Seq<char>, uri: Seq<char>, version: Seq<char>) -> Seq<char> {
    method + SYMBOL.whitespace@ + uri + SYMBOL.whitespace@ + version + SYMBOL.whitespace@ + SYMBOL.new_line_carriage_return@
}
pub open spec fn request_head(method: Seq<char>, uri: Seq<char>, version: Seq<char>, hs: Seq<HV>) -> Seq<char> {
    request_line(method, uri, version) + req_render_acc(SYMBOL.empty_string@, hs) + SYMBOL.new_line_carriage_return@
}
pub proof fn lemma_req_render_snoc(acc: Seq<char>, hs: Seq<HV>, k: int)
    requires 0 <= k < hs.len(),
    ensures req_render_acc(acc, hs.subrange(0, k + 1)) == req_render_acc(acc, hs.subrange(0, k)) + req_header_line(hs[k]),
{
    let a = hs.subrange(0, k + 1);
    assert(a.drop_last() =~= hs.subrange(0, k));
    assert(a.last() == hs[k]);
}
pub broadcast proof fn lemma_bjoin4_sep(ss: Seq<Seq<char>>, sep: Seq<char>)
    requires ss.len() == 4,
    ensures #[trigger] join_spec(ss, sep) == ss[0] + sep + ss[1] + sep + ss[2] + sep + ss[3],
{
    reveal_with_fuel(join_spec, 5);
    let d3 = ss.drop_last();
    let d2 = d3.drop_last();
    let d1 = d2.drop_last();
    assert(d3.len() == 3 && d2.len() == 2 && d1.len() == 1);
    assert(d3[0] == ss[0] && d3[1] == ss[1] && d3[2] == ss[2] && d2[0] == ss[0] && d2[1] == ss[1] && d1[0] == ss[0]);
}
