// ===== contracts/spec/json.rs — what the typed list readers need from the JSON array splitter =====
// an item, once trimmed, is not empty, and if it opens with a quotation mark it has at least two characters
// (JSONArrayOfStrings::parse_as_list_string takes the first and the last character and cuts both off)
pub open spec fn item_ok(t: Seq<char>) -> bool {
    trim_spec(t).len() > 0 && (trim_spec(t)[0] == '"' ==> trim_spec(t).len() >= 2)
}
pub open spec fn items_ok(l: Seq<String>) -> bool {
    forall|i: int| 0 <= i < l.len() ==> item_ok(#[trigger] l[i]@)
}

pub proof fn lemma_item_ok_plain(t: Seq<char>)
    requires t.len() > 0, !is_ws(t[0]), t[0] != '"',
    ensures item_ok(t),
{
    axiom_trim(t);
    let (a, b) = choose|a: int, b: int| 0 <= a <= b <= t.len() && trim_spec(t) == t.subrange(a, b)
        && (forall|i: int| 0 <= i < a ==> is_ws(#[trigger] t[i])) && (forall|i: int| b <= i < t.len() ==> is_ws(#[trigger] t[i]));
    if a > 0 { assert(is_ws(t[0])); }
    if b == 0 { assert(is_ws(t[0])); }
    assert(trim_spec(t)[0] == t[0]);
}

pub proof fn lemma_item_ok_string(t: Seq<char>)
    requires t.len() >= 2, t[0] == '"', t.last() == '"' || t[t.len() - 2] == '\\',
    ensures item_ok(t),
{
    axiom_trim(t);
    let (a, b) = choose|a: int, b: int| 0 <= a <= b <= t.len() && trim_spec(t) == t.subrange(a, b)
        && (forall|i: int| 0 <= i < a ==> is_ws(#[trigger] t[i])) && (forall|i: int| b <= i < t.len() ==> is_ws(#[trigger] t[i]));
    assert(!is_ws('"') && !is_ws('\\'));
    if a > 0 { assert(is_ws(t[0])); }
    if t.last() == '"' {
        if b < t.len() { assert(is_ws(t[t.len() - 1])); }
    } else {
        if b <= t.len() - 2 { assert(is_ws(t[t.len() - 2])); }
        assert(t.len() - 2 != 0);
    }
    assert(trim_spec(t).len() >= 2);
}

pub proof fn lemma_items_ok_push(l: Seq<String>, s: String)
    requires items_ok(l), item_ok(s@),
    ensures items_ok(l.push(s)),
{
    assert forall|i: int| 0 <= i < l.push(s).len() implies item_ok(#[trigger] l.push(s)[i]@) by {
        if i < l.len() { assert(l.push(s)[i] == l[i]); }
    }
}

// one ASCII character takes one byte
pub proof fn lemma_utf8_len_ascii1(s: Seq<char>)
    requires s.len() == 1, (s[0] as u32) < 128,
    ensures utf8_len(s) == 1,
{
    axiom_utf8_len(s);
    assert(is_ascii_seq(s));
}

pub proof fn lemma_utf8_len_add(a: Seq<char>, b: Seq<char>)
    ensures utf8_len(a + b) == utf8_len(a) + utf8_len(b),
{
    axiom_utf8_bytes(a, b);
    axiom_utf8_bytes(b, a);
    axiom_utf8_bytes(a + b, a);
}
