// ===== header lists as (name, value) pairs of character sequences =====
pub type HV = (Seq<char>, Seq<char>);

pub open spec fn hv(h: Header) -> HV { (h.name@, h.value@) }
pub open spec fn hvs(hs: Seq<Header>) -> Seq<HV> { Seq::new(hs.len(), |i: int| hv(hs[i])) }

pub proof fn lemma_hvs_push(hs: Seq<Header>, h: Header)
    ensures hvs(hs.push(h)) == hvs(hs).push(hv(h)),
{
    assert(hvs(hs.push(h)) =~= hvs(hs).push(hv(h)));
}

