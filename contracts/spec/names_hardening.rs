// ===== contracts/spec/names_hardening.rs — the hardening / no-cache headers as they must read on the wire (C10) =====
pub proof fn names_hardening()
    ensures
        Header::_X_CONTENT_TYPE_OPTIONS@ == "X-Content-Type-Options"@,
        Header::_X_CONTENT_TYPE_OPTIONS_VALUE_NOSNIFF@ == "nosniff"@,
        Header::_X_FRAME_OPTIONS@ == "X-Frame-Options"@,
        Header::_X_FRAME_OPTIONS_VALUE_SAME_ORIGIN@ == "SAMEORIGIN"@,
        Header::_CACHE_CONTROL@ == "Cache-Control"@,
        Header::_DO_NOT_STORE_CACHE@ == "no-store, no-cache, private, max-age=0, must-revalidate, proxy-revalidate"@,
        Header::_ACCEPT_RANGES@ == "Accept-Ranges"@,
        Range::BYTES@ == "bytes"@,
        Header::_DATE_UNIX_EPOCH_NANOS@ == "Date-Unix-Epoch-Nanos"@,
        Header::_VARY@ == "Vary"@,
        ClientHint::ACCEPT_CLIENT_HINTS@ == "Accept-CH"@,
        ClientHint::CRITICAL_CLIENT_HINTS@ == "Critical-CH"@,
{
}
