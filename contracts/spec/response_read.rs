// ===== contracts/spec/response_read.rs — Response::parse_raw_response_via_cursor as a recursive function over lines (C15) =====
pub struct CRV {
    pub unit: Seq<char>,
    pub start: int,
    pub end: int,
    pub size: Seq<char>,
    pub body: Seq<u8>,
    pub ctype: Seq<char>,
}
pub open spec fn crv(p: ContentRange) -> CRV {
    CRV { unit: p.unit@, start: p.range.start as int, end: p.range.end as int, size: p.size@, body: p.body@, ctype: p.content_type@ }
}
pub open spec fn crvs(l: Seq<ContentRange>) -> Seq<CRV> { Seq::new(l.len(), |i: int| crv(l[i])) }
pub struct RespS {
    pub version: Seq<char>,
    pub code: int,
    pub reason: Seq<char>,
    pub headers: Seq<HV>,
    pub parts: Seq<CRV>,
}
pub open spec fn resps(r: Response) -> RespS {
    RespS { version: r.http_version@, code: r.status_code as int, reason: r.reason_phrase@, headers: hvs(r.headers@), parts: crvs(r.content_range_list@) }
}

// exact-name lookup on (name, value) pairs
pub open spec fn first_exact_idx_hv(hs: Seq<HV>, name: Seq<char>, from: int) -> int
    decreases hs.len() - from
{
    if from < 0 || from >= hs.len() { -1 }
    else if hs[from].0 == name { from }
    else { first_exact_idx_hv(hs, name, from + 1) }
}
pub proof fn lemma_exact_idx_hv(hs: Seq<Header>, name: Seq<char>, from: int)
    ensures first_exact_idx(hs, name, from) == first_exact_idx_hv(hvs(hs), name, from),
    decreases hs.len() - from
{
    if 0 <= from < hs.len() && hs[from].name@ != name { lemma_exact_idx_hv(hs, name, from + 1); }
}
pub proof fn lemma_first_exact_idx(hs: Seq<Header>, name: Seq<char>, from: int)
    requires 0 <= from,
    ensures first_exact_idx(hs, name, from) == -1 || (from <= first_exact_idx(hs, name, from) < hs.len() && hs[first_exact_idx(hs, name, from)].name@ == name),
    decreases hs.len() - from
{
    if from < hs.len() && hs[from].name@ != name { lemma_first_exact_idx(hs, name, from + 1); }
}
pub open spec fn s_content_type() -> Seq<char> { seq!['C', 'o', 'n', 't', 'e', 'n', 't', '-', 'T', 'y', 'p', 'e'] }
pub open spec fn s_octet_stream() -> Seq<char> { seq!['a', 'p', 'p', 'l', 'i', 'c', 'a', 't', 'i', 'o', 'n', '/', 'o', 'c', 't', 'e', 't', '-', 's', 't', 'r', 'e', 'a', 'm'] }
pub open spec fn s_multipart_byteranges() -> Seq<char> { seq!['m', 'u', 'l', 't', 'i', 'p', 'a', 'r', 't', '/', 'b', 'y', 't', 'e', 'r', 'a', 'n', 'g', 'e', 's'] }
pub open spec fn s_bytes() -> Seq<char> { seq!['b', 'y', 't', 'e', 's'] }
// the value of the first header named exactly Content-Type
pub open spec fn ctype_of(hs: Seq<HV>) -> Option<Seq<char>> {
    let k = first_exact_idx_hv(hs, s_content_type(), 0);
    if k >= 0 { Some(hs[k].1) } else { None }
}
// a header line of a response: name up to the first ": ", value with CR / LF removed; no ": " is an error
pub open spec fn resp_header_line(s: Seq<char>) -> Option<HV> {
    let sp = split_once_spec(s, colon_sp1());
    if sp.is_none() { None } else { Some((sp.unwrap().0, strip_crlf(sp.unwrap().1))) }
}

// (Ok?, response afterwards, bytes left in the cursor); when the first component is false the other two are not meaningful
pub enum RespRead {
    Done(bool, RespS, Seq<u8>),
}
pub open spec fn s_boundary_eq2() -> Seq<char> { seq!['b', 'o', 'u', 'n', 'd', 'a', 'r', 'y', '='] }
pub open spec fn resp_read(r: Seq<u8>, iter: nat, st: RespS, br: int, total: int) -> RespRead
    decreases r.len() via resp_read_dec
{
    let line = first_line(r);
    let r2 = after_line(r);
    let br2 = br + line.len();
    if !valid_utf8(line) { RespRead::Done(false, st, r2) } else {
        let s = vstd::utf8::decode_utf8(line);
        let first = iter == 0;
        let blank = trim_spec(s).len() == 0;
        if first && !status_line_ok(s) { RespRead::Done(false, st, r2) } else {
            let st1 = if first {
                let p = status_line_parts(s).unwrap();
                RespS { version: p.0, code: signed_val(p.1), reason: p.2, headers: st.headers, parts: st.parts }
            } else { st };
            if blank {
                let ct = ctype_of(st1.headers);
                if ct.is_some() && has_prefix(ct.unwrap(), s_multipart_byteranges()) {
                    // multipart/byteranges: the boundary is everything after the first "boundary=" of the Content-Type value
                    let bsp = split_once_spec(ct.unwrap(), s_boundary_eq2());
                    if bsp.is_none() { RespRead::Done(false, st1, r2) } else {
                        let mp = mp_read(r2, Seq::<CRV>::empty(), bsp.unwrap().1, false, br2, total);
                        if mp.is_none() { RespRead::Done(false, st1, r2) }
                        else { RespRead::Done(true, RespS { version: st1.version, code: st1.code, reason: st1.reason, headers: st1.headers, parts: mp.unwrap() }, Seq::<u8>::empty()) }
                    }
                } else {
                    let part = CRV { unit: s_bytes(), start: 0, end: r2.len() as int, size: dec(r2.len()), body: r2, ctype: if ct.is_some() { ct.unwrap() } else { s_octet_stream() } };
                    RespRead::Done(true, RespS { version: st1.version, code: st1.code, reason: st1.reason, headers: st1.headers, parts: seq![part] }, Seq::<u8>::empty())
                }
            } else if line.len() != 0 {
                if !first {
                    match resp_header_line(s) {
                        None => RespRead::Done(false, st1, r2),
                        Some(h) => resp_read(r2, iter + 1, RespS { version: st1.version, code: st1.code, reason: st1.reason, headers: st1.headers.push(h), parts: st1.parts }, br2, total),
                    }
                } else { resp_read(r2, iter + 1, st1, br2, total) }
            } else { RespRead::Done(false, st1, r2) }
        }
    }
}
#[via_fn]
proof fn resp_read_dec(r: Seq<u8>, iter: nat, st: RespS, br: int, total: int) {
    lemma_line_len(r);
}
pub open spec fn resp_read_matches(want: RespRead, ok: bool, after: Response, rest: Seq<u8>) -> bool {
    match want {
        RespRead::Done(o, st, rm) => ok == o && (o ==> resps(after) == st && rest == rm),
    }
}
pub open spec fn empty_resps() -> RespS { RespS { version: Seq::empty(), code: 0, reason: Seq::empty(), headers: Seq::empty(), parts: Seq::empty() } }
// Response::parse
pub open spec fn resp_parse_matches(want: RespRead, res: Result<Response, String>) -> bool {
    match want {
        RespRead::Done(o, st, _rm) => res.is_ok() == o && (o ==> resps(res.unwrap()) == st),
    }
}

// ---------- "bytes first-last/size" (Range::_parse_raw_content_range_header_value / _parse_content_range_header_value) ----------
pub open spec fn hyphen1() -> Seq<char> { seq!['-'] }
pub open spec fn slash1() -> Seq<char> { seq!['/'] }
pub open spec fn i64_ok(t: Seq<char>) -> bool { parses_signed(t, i64::MIN as int, i64::MAX as int) }
// the raw triple: trim, lower-case, "bytes" SP first "-" last "/" size, each number as Rust's i64 parser reads it
pub open spec fn cr_raw(v: Seq<char>) -> Option<(int, int, int)> {
    let t = lower_spec(trim_spec(v));
    let s1 = split_once_spec(t, sp1());
    if s1.is_none() || s1.unwrap().0 != s_bytes() { None } else {
        let s2 = split_once_spec(s1.unwrap().1, hyphen1());
        if s2.is_none() || !i64_ok(s2.unwrap().0) { None } else {
            let s3 = split_once_spec(s2.unwrap().1, slash1());
            if s3.is_none() || !i64_ok(s3.unwrap().0) || !i64_ok(s3.unwrap().1) { None }
            else { Some((signed_val(s2.unwrap().0), signed_val(s3.unwrap().0), signed_val(s3.unwrap().1))) }
        }
    }
}
// accepted only when first <= last <= size
pub open spec fn cr_value(v: Seq<char>) -> Option<(int, int, int)> {
    let r = cr_raw(v);
    if r.is_none() || r.unwrap().0 > r.unwrap().1 || r.unwrap().0 > r.unwrap().2 || r.unwrap().1 > r.unwrap().2 { None } else { r }
}

// Response::_parse_http_response_header_string: pieces of the split at EVERY ": "; the first is the name, the second (if any) the value
pub open spec fn resp_header_line_lax(s: Seq<char>) -> HV {
    let ps = split_spec(s, colon_sp1());
    (ps[0], strip_crlf(if ps.len() > 1 { ps[1] } else { Seq::<char>::empty() }))
}

// ---------- the multipart/byteranges body (Range::parse_multipart_body_with_boundary) ----------
pub open spec fn s_content_range() -> Seq<char> { seq!['C', 'o', 'n', 't', 'e', 'n', 't', '-', 'R', 'a', 'n', 'g', 'e'] }
// the body loop: lines are collected until one holds the boundary text; a line that is not UTF-8 is body; reaching the end of
// the input (as the byte counter sees it, or a read of 0 bytes) without a boundary line is an error
pub open spec fn mp_body(r: Seq<u8>, b: Seq<char>, acc: Seq<u8>, br: int, total: int) -> Option<(Seq<u8>, Seq<u8>, int)>
    decreases r.len() via mp_body_dec
{
    let line = first_line(r);
    let r2 = after_line(r);
    let br2 = br + line.len();
    if !valid_utf8(line) { mp_body(r2, b, acc + line, br2, total) }
    else if has_sub(vstd::utf8::decode_utf8(line), b) { Some((acc, r2, br2)) }
    else if br2 == total || line.len() == 0 { None }
    else { mp_body(r2, b, acc + line, br2, total) }
}
#[via_fn]
proof fn mp_body_dec(r: Seq<u8>, b: Seq<char>, acc: Seq<u8>, br: int, total: int) {
    lemma_line_len(r);
    // a line that is not valid UTF-8 is not empty
    vstd::utf8::encode_utf8_valid_utf8(Seq::<char>::empty());
    vstd::utf8::is_ascii_chars_encode_utf8(Seq::<char>::empty());
    assert(vstd::utf8::encode_utf8(Seq::<char>::empty()) =~= Seq::<u8>::empty());
    if first_line(r).len() == 0 { assert(first_line(r) =~= Seq::<u8>::empty()); }
}
pub proof fn lemma_mp_body_shrinks(r: Seq<u8>, b: Seq<char>, acc: Seq<u8>, br: int, total: int)
    ensures mp_body(r, b, acc, br, total).is_some() ==> mp_body(r, b, acc, br, total).unwrap().1.len() <= r.len(),
    decreases r.len()
{
    lemma_line_len(r);
    vstd::utf8::encode_utf8_valid_utf8(Seq::<char>::empty());
    vstd::utf8::is_ascii_chars_encode_utf8(Seq::<char>::empty());
    assert(vstd::utf8::encode_utf8(Seq::<char>::empty()) =~= Seq::<u8>::empty());
    let line = first_line(r);
    if line.len() == 0 { assert(line =~= Seq::<u8>::empty()); }
    let r2 = after_line(r);
    if !valid_utf8(line) { lemma_mp_body_shrinks(r2, b, acc + line, br + line.len(), total); }
    else if !has_sub(vstd::utf8::decode_utf8(line), b) && !(br + line.len() == total || line.len() == 0) { lemma_mp_body_shrinks(r2, b, acc + line, br + line.len(), total); }
}
// Vec::pop twice
pub open spec fn pop2(x: Seq<u8>) -> Seq<u8> { if x.len() >= 2 { x.subrange(0, x.len() - 2) } else { Seq::empty() } }

// the text of the line to look at next, after optionally skipping a line: (text, rest) or None when the skipped-to line is not UTF-8
pub open spec fn next_text(r: Seq<u8>) -> Option<(Seq<char>, Seq<u8>)> {
    if valid_utf8(first_line(r)) { Some((vstd::utf8::decode_utf8(first_line(r)), after_line(r))) } else { None }
}
// one call, as a step: either the call ends (Stop: Some(parts) / None = error) or it goes on with another call (Next)
pub enum MpStep {
    Stop(Option<Seq<CRV>>),
    Next(Seq<u8>, Seq<CRV>, bool, int),      // rest of the input, parts so far, opening boundary read, byte counter
}
pub open spec fn mp_step(r: Seq<u8>, parts: Seq<CRV>, b: Seq<char>, opening: bool, br: int, total: int) -> MpStep {
    let l1 = first_line(r);
    let r1 = after_line(r);
    let br1 = br + l1.len();
    if !valid_utf8(l1) { MpStep::Stop(None) }
    else if l1.len() == 0 { MpStep::Stop(Some(parts)) }
    else {
        let s1 = vstd::utf8::decode_utf8(l1);
        if trim_spec(s1).len() != 0 && !opening && !has_sub(s1, b) { MpStep::Stop(None) } else {
            // a boundary line: go on to the line after it
            let at_boundary = has_sub(s1, b);
            let opening2 = opening || at_boundary;
            let n2 = if at_boundary { next_text(r1) } else { Some((s1, r1)) };
            if n2.is_none() { MpStep::Stop(None) } else {
                let s2 = n2.unwrap().0;
                let r2 = n2.unwrap().1;
                // Content-Type line
                let has_ct = has_prefix(s2, s_content_type());
                let h_ct = resp_header_line(s2);
                if has_ct && h_ct.is_none() { MpStep::Stop(None) } else {
                    let ctype = if has_ct { trim_spec(h_ct.unwrap().1) } else { Seq::<char>::empty() };
                    let n3 = if has_ct { next_text(r2) } else { Some((s2, r2)) };
                    if n3.is_none() { MpStep::Stop(None) } else {
                        let s3 = n3.unwrap().0;
                        let r3 = n3.unwrap().1;
                        // Content-Range line, then the blank line
                        let has_cr = has_prefix(s3, s_content_range());
                        let cr = cr_value(resp_header_line_lax(s3).1);
                        if has_cr && cr.is_none() { MpStep::Stop(None) } else {
                            let n4 = if has_cr { next_text(r3) } else { Some((s3, r3)) };
                            if n4.is_none() { MpStep::Stop(None) }
                            else if has_cr && trim_spec(n4.unwrap().0).len() > 0 { MpStep::Stop(None) }
                            else {
                                let r4 = n4.unwrap().1;
                                if has_cr && ctype.len() != 0 {
                                    let bd = mp_body(r4, b, Seq::<u8>::empty(), br1, total);
                                    if bd.is_none() { MpStep::Stop(None) } else {
                                        let part = CRV { unit: s_bytes(), start: (cr.unwrap().0 as u64) as int, end: (cr.unwrap().1 as u64) as int, size: dec_i(cr.unwrap().2),
                                                         body: pop2(bd.unwrap().0), ctype: ctype };
                                        MpStep::Next(bd.unwrap().1, parts.push(part), opening2, bd.unwrap().2)
                                    }
                                } else {
                                    MpStep::Next(r4, parts, opening2, br1)
                                }
                            }
                        }
                    }
                }
            }
        }
    }
}
pub proof fn lemma_mp_step_shrinks(r: Seq<u8>, parts: Seq<CRV>, b: Seq<char>, opening: bool, br: int, total: int)
    ensures mp_step(r, parts, b, opening, br, total) is Next ==> mp_step(r, parts, b, opening, br, total)->Next_0.len() < r.len(),
{
    lemma_line_len(r);
    let r1 = after_line(r);
    lemma_line_len(r1);
    let s1 = vstd::utf8::decode_utf8(first_line(r));
    let at_boundary = has_sub(s1, b);
    let n2 = if at_boundary { next_text(r1) } else { Some((s1, r1)) };
    if n2.is_some() {
        let r2 = n2.unwrap().1;
        lemma_line_len(r2);
        let s2 = n2.unwrap().0;
        let has_ct = has_prefix(s2, s_content_type());
        let n3 = if has_ct { next_text(r2) } else { Some((s2, r2)) };
        if n3.is_some() {
            let r3 = n3.unwrap().1;
            lemma_line_len(r3);
            let s3 = n3.unwrap().0;
            let has_cr = has_prefix(s3, s_content_range());
            let n4 = if has_cr { next_text(r3) } else { Some((s3, r3)) };
            if n4.is_some() {
                let r4 = n4.unwrap().1;
                lemma_mp_body_shrinks(r4, b, Seq::<u8>::empty(), br + first_line(r).len(), total);
            }
        }
    }
}
// the whole reader: steps until one stops.  Opaque: proofs use lemma_mp_read_unfold for exactly one unfolding.
#[verifier::opaque]
pub open spec fn mp_read(r: Seq<u8>, parts: Seq<CRV>, b: Seq<char>, opening: bool, br: int, total: int) -> Option<Seq<CRV>>
    decreases r.len() via mp_read_dec
{
    match mp_step(r, parts, b, opening, br, total) {
        MpStep::Stop(x) => x,
        MpStep::Next(r2, parts2, opening2, br2) => mp_read(r2, parts2, b, opening2, br2, total),
    }
}
#[via_fn]
proof fn mp_read_dec(r: Seq<u8>, parts: Seq<CRV>, b: Seq<char>, opening: bool, br: int, total: int) {
    lemma_mp_step_shrinks(r, parts, b, opening, br, total);
}
pub proof fn lemma_mp_read_unfold(r: Seq<u8>, parts: Seq<CRV>, b: Seq<char>, opening: bool, br: int, total: int)
    ensures mp_read(r, parts, b, opening, br, total) == (match mp_step(r, parts, b, opening, br, total) {
        MpStep::Stop(x) => x,
        MpStep::Next(r2, parts2, opening2, br2) => mp_read(r2, parts2, b, opening2, br2, total),
    }),
{
    reveal(mp_read);
}
pub open spec fn mp_read_matches(want: Option<Seq<CRV>>, res: Result<Vec<ContentRange>, String>, rest: Seq<u8>) -> bool {
    match want { None => res.is_err(), Some(ps) => res.is_ok() && crvs(res.unwrap()@) == ps && rest.len() == 0 }
}

pub proof fn lemma_crvs_push(l: Seq<ContentRange>, p: ContentRange)
    ensures crvs(l.push(p)) == crvs(l).push(crv(p)),
{
    assert(crvs(l.push(p)) =~= crvs(l).push(crv(p)));
}
pub proof fn lemma_dec_i_nonempty(cr: Option<(int, int, int)>)
    ensures cr.is_some() ==> dec_i(cr.unwrap().2).len() > 0,
{
    if cr.is_some() {
        let n = cr.unwrap().2;
        if n < 0 { lemma_dec_len((-n) as nat); } else { lemma_dec_len(n as nat); }
    }
}
pub proof fn lemma_dec_len(n: nat)
    ensures dec(n).len() > 0,
    decreases n
{
    if n >= 10 { lemma_dec_len(n / 10); }
}
pub proof fn lemma_bflat2_apply(a: Seq<u8>, b: Seq<u8>)
    ensures flat(seq![a, b]) == a + b,
{
    lemma_flat2(a, b);
}
