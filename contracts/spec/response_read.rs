// ===== contracts/spec/response_read.rs — Response::parse_raw_response_via_cursor as a recursive function over lines (C15) =====
pub struct CRV {
    pub unit: Seq<char>,
    pub start: int,
    pub end: int,
    pub size: Seq<char>,
    pub body: Seq<u8>,
    pub ctype: Seq<char>,
}
pub open spec fn crv(p: ContentRange) -> CRV {
    CRV { unit: p.unit@, start: p.range.start as int, end: p.range.end as int, size: p.size@, body: p.body@, ctype: p.content_type@ }
}
pub open spec fn crvs(l: Seq<ContentRange>) -> Seq<CRV> { Seq::new(l.len(), |i: int| crv(l[i])) }
pub struct RespS {
    pub version: Seq<char>,
    pub code: int,
    pub reason: Seq<char>,
    pub headers: Seq<HV>,
    pub parts: Seq<CRV>,
}
pub open spec fn resps(r: Response) -> RespS {
    RespS { version: r.http_version@, code: r.status_code as int, reason: r.reason_phrase@, headers: hvs(r.headers@), parts: crvs(r.content_range_list@) }
}

// exact-name lookup on (name, value) pairs
pub open spec fn first_exact_idx_hv(hs: Seq<HV>, name: Seq<char>, from: int) -> int
    decreases hs.len() - from
{
    if from < 0 || from >= hs.len() { -1 }
    else if hs[from].0 == name { from }
    else { first_exact_idx_hv(hs, name, from + 1) }
}
pub proof fn lemma_exact_idx_hv(hs: Seq<Header>, name: Seq<char>, from: int)
    ensures first_exact_idx(hs, name, from) == first_exact_idx_hv(hvs(hs), name, from),
    decreases hs.len() - from
{
    if 0 <= from < hs.len() && hs[from].name@ != name { lemma_exact_idx_hv(hs, name, from + 1); }
}
pub proof fn lemma_first_exact_idx(hs: Seq<Header>, name: Seq<char>, from: int)
    requires 0 <= from,
    ensures first_exact_idx(hs, name, from) == -1 || (from <= first_exact_idx(hs, name, from) < hs.len() && hs[first_exact_idx(hs, name, from)].name@ == name),
    decreases hs.len() - from
{
    if from < hs.len() && hs[from].name@ != name { lemma_first_exact_idx(hs, name, from + 1); }
}
pub open spec fn s_content_type() -> Seq<char> { seq!['C', 'o', 'n', 't', 'e', 'n', 't', '-', 'T', 'y', 'p', 'e'] }
pub open spec fn s_octet_stream() -> Seq<char> { seq!['a', 'p', 'p', 'l', 'i', 'c', 'a', 't', 'i', 'o', 'n', '/', 'o', 'c', 't', 'e', 't', '-', 's', 't', 'r', 'e', 'a', 'm'] }
pub open spec fn s_multipart_byteranges() -> Seq<char> { seq!['m', 'u', 'l', 't', 'i', 'p', 'a', 'r', 't', '/', 'b', 'y', 't', 'e', 'r', 'a', 'n', 'g', 'e', 's'] }
pub open spec fn s_bytes() -> Seq<char> { seq!['b', 'y', 't', 'e', 's'] }
// the value of the first header named exactly Content-Type
pub open spec fn ctype_of(hs: Seq<HV>) -> Option<Seq<char>> {
    let k = first_exact_idx_hv(hs, s_content_type(), 0);
    if k >= 0 { Some(hs[k].1) } else { None }
}
// a header line of a response: name up to the first ": ", value with CR / LF removed; no ": " is an error
pub open spec fn resp_header_line(s: Seq<char>) -> Option<HV> {
    let sp = split_once_spec(s, colon_sp1());
    if sp.is_none() { None } else { Some((sp.unwrap().0, strip_crlf(sp.unwrap().1))) }
}

pub enum RespRead {
    Done(bool, RespS, Seq<u8>),      // (Ok?, response afterwards, bytes left in the cursor)
    Multipart(RespS, Seq<u8>),       // the headers announce multipart/byteranges: the parts are read by Range::parse_multipart_body_with_boundary
}
pub open spec fn resp_read(r: Seq<u8>, iter: nat, st: RespS) -> RespRead
    decreases r.len() via resp_read_dec
{
    let line = first_line(r);
    let r2 = after_line(r);
    if !valid_utf8(line) { RespRead::Done(false, st, r2) } else {
        let s = vstd::utf8::decode_utf8(line);
        let first = iter == 0;
        let blank = trim_spec(s).len() == 0;
        if first && !status_line_ok(s) { RespRead::Done(false, st, r2) } else {
            let st1 = if first {
                let p = status_line_parts(s).unwrap();
                RespS { version: p.0, code: signed_val(p.1), reason: p.2, headers: st.headers, parts: st.parts }
            } else { st };
            if blank {
                let ct = ctype_of(st1.headers);
                if ct.is_some() && has_prefix(ct.unwrap(), s_multipart_byteranges()) { RespRead::Multipart(st1, r2) }
                else {
                    let part = CRV { unit: s_bytes(), start: 0, end: r2.len() as int, size: dec(r2.len()), body: r2, ctype: if ct.is_some() { ct.unwrap() } else { s_octet_stream() } };
                    RespRead::Done(true, RespS { version: st1.version, code: st1.code, reason: st1.reason, headers: st1.headers, parts: seq![part] }, Seq::<u8>::empty())
                }
            } else if line.len() != 0 {
                if !first {
                    match resp_header_line(s) {
                        None => RespRead::Done(false, st1, r2),
                        Some(h) => resp_read(r2, iter + 1, RespS { version: st1.version, code: st1.code, reason: st1.reason, headers: st1.headers.push(h), parts: st1.parts }),
                    }
                } else { resp_read(r2, iter + 1, st1) }
            } else { RespRead::Done(false, st1, r2) }
        }
    }
}
#[via_fn]
proof fn resp_read_dec(r: Seq<u8>, iter: nat, st: RespS) {
    lemma_line_len(r);
}
pub open spec fn resp_read_matches(want: RespRead, ok: bool, after: Response, rest: Seq<u8>) -> bool {
    match want {
        RespRead::Done(o, st, rm) => ok == o && resps(after) == st && rest == rm,
        RespRead::Multipart(_, _) => true,
    }
}

pub open spec fn empty_resps() -> RespS { RespS { version: Seq::empty(), code: 0, reason: Seq::empty(), headers: Seq::empty(), parts: Seq::empty() } }
// Response::parse
pub open spec fn resp_parse_matches(want: RespRead, res: Result<Response, String>) -> bool {
    match want {
        RespRead::Done(o, st, _rm) => res.is_ok() == o && (o ==> resps(res.unwrap()) == st),
        RespRead::Multipart(_, _) => true,
    }
}
