// ===== contracts/spec/multipart.rs — multipart/form-data as mathematics (C16) =====
// A part is (headers, body); a header is (name, value).
pub type PV = (Seq<HV>, Seq<u8>);
pub open spec fn pv(p: Part) -> PV { (hvs(p.headers@), p.body@) }
pub open spec fn pvs(ps: Seq<Part>) -> Seq<PV> { Seq::new(ps.len(), |i: int| pv(ps[i])) }
pub proof fn lemma_pvs_push(ps: Seq<Part>, p: Part)
    ensures pvs(ps.push(p)) == pvs(ps).push(pv(p)),
{
    assert(pvs(ps.push(p)) =~= pvs(ps).push(pv(p)));
}

pub open spec fn crlf_b() -> Seq<u8> { seq![13u8, 10u8] }
pub open spec fn dd_b() -> Seq<u8> { seq![45u8, 45u8] }
pub open spec fn crlf_c() -> Seq<char> { seq!['\r', '\n'] }

// ---------- delimiter lines ----------
pub open spec fn strip_eol(line: Seq<u8>) -> Seq<u8> {
    let a = if line.len() > 0 && line.last() == 10u8 { line.drop_last() } else { line };
    if a.len() > 0 && a.last() == 13u8 { a.drop_last() } else { a }
}
// the boundary itself, optionally preceded and / or followed by two hyphens, up to the line break
pub open spec fn is_delim(line: Seq<u8>, b: Seq<u8>) -> bool {
    let t = strip_eol(line);
    t == b || t == dd_b() + b || t == dd_b() + b + dd_b() || t == b + dd_b()
}

// ---------- header lines ----------
// is_ctl / without_ctl / filter_ctl_spec (StringExt::filter_ascii_control_characters): shims/ctl.rs
pub open spec fn colon_c() -> Seq<char> { seq![':'] }
// Header::parse_header
pub open spec fn parse_header_spec(raw: Seq<char>) -> Option<HV> {
    let e = strip_crlf(filter_ctl_spec(raw));
    let s = split_once_spec(e, colon_c());
    if s.is_none() { None } else { Some((trim_spec(s.unwrap().0), trim_spec(s.unwrap().1))) }
}
// Header::as_string
pub open spec fn hdr_line(h: HV) -> Seq<char> { h.0 + seq![':', ' '] + h.1 }

// ---------- the writer ----------
pub open spec fn hdr_block(hs: Seq<HV>) -> Seq<char>
    decreases hs.len()
{
    if hs.len() == 0 { Seq::empty() } else { hdr_block(hs.drop_last()) + (hdr_line(hs.last()) + crlf_c()) }
}
pub open spec fn part_bytes(p: PV) -> Seq<u8> { utf8_bytes(hdr_block(p.0)) + crlf_b() + p.1 }
pub open spec fn gen_pieces(ps: Seq<PV>, b: Seq<u8>) -> Seq<Seq<u8>>
    decreases ps.len()
{
    if ps.len() == 0 { seq![b] } else { gen_pieces(ps.drop_last(), b).push(part_bytes(ps.last())).push(b) }
}
pub open spec fn all_have_headers(ps: Seq<PV>) -> bool { forall|i: int| 0 <= i < ps.len() ==> (#[trigger] ps[i]).0.len() > 0 }
pub open spec fn gen_spec(ps: Seq<PV>, b: Seq<u8>) -> Seq<u8> { bjoin(gen_pieces(ps, b), crlf_b()) }

// ---------- the reader (FormMultipartData::parse_form_part_recursively), line by line ----------
pub open spec fn first_line(r: Seq<u8>) -> Seq<u8> { r.subrange(0, line_len(r)) }
pub open spec fn after_line(r: Seq<u8>) -> Seq<u8> { r.subrange(line_len(r), r.len() as int) }

pub enum HdrOut {
    Bad,                           // an error is returned
    Eof,                           // Ok(parts read so far): only a blank line followed the closing boundary
    Body(Seq<HV>, Seq<u8>),        // the blank line after the headers was read; the rest is the body
}
// the header loop, started with the headers collected so far
pub open spec fn hdr_loop(r: Seq<u8>, b: Seq<u8>, hs: Seq<HV>) -> HdrOut
    decreases r.len() via hdr_loop_dec
{
    let line = first_line(r);
    let r2 = after_line(r);
    if !valid_utf8(line) { HdrOut::Bad } else {
        let s = filter_ctl_spec(vstd::utf8::decode_utf8(line));
        let blank = trim_spec(s).len() == 0;
        if is_delim(line, b) { HdrOut::Bad }
        else if r2.len() == 0 { if blank && hs.len() == 0 { HdrOut::Eof } else { HdrOut::Bad } }
        else if blank && hs.len() == 0 { HdrOut::Bad }
        else if !blank {
            match parse_header_spec(s) { None => HdrOut::Bad, Some(h) => hdr_loop(r2, b, hs.push(h)) }
        } else { HdrOut::Body(hs, r2) }
    }
}
#[via_fn]
proof fn hdr_loop_dec(r: Seq<u8>, b: Seq<u8>, hs: Seq<HV>) {
    lemma_line_len(r);
}
pub proof fn lemma_hdr_loop_shrinks(r: Seq<u8>, b: Seq<u8>, hs: Seq<HV>)
    ensures hdr_loop(r, b, hs) is Body ==> hdr_loop(r, b, hs)->Body_1.len() < r.len(),
    decreases r.len()
{
    lemma_line_len(r);
    let line = first_line(r);
    let r2 = after_line(r);
    if valid_utf8(line) {
        let s = filter_ctl_spec(vstd::utf8::decode_utf8(line));
        if trim_spec(s).len() != 0 && r2.len() != 0 && parse_header_spec(s).is_some() {
            lemma_hdr_loop_shrinks(r2, b, hs.push(parse_header_spec(s).unwrap()));
        }
    }
}

// the body loop: lines are collected until a delimiter line is read: (delimiter found, collected bytes, the rest)
pub open spec fn body_loop(r: Seq<u8>, b: Seq<u8>, acc: Seq<u8>) -> (bool, Seq<u8>, Seq<u8>)
    decreases r.len() via body_loop_dec
{
    if r.len() == 0 { (false, acc, r) }
    else if is_delim(first_line(r), b) { (true, acc, after_line(r)) }
    else { body_loop(after_line(r), b, acc + first_line(r)) }
}
#[via_fn]
proof fn body_loop_dec(r: Seq<u8>, b: Seq<u8>, acc: Seq<u8>) {
    lemma_line_len(r);
}
pub proof fn lemma_body_loop_shrinks(r: Seq<u8>, b: Seq<u8>, acc: Seq<u8>)
    ensures body_loop(r, b, acc).2.len() <= r.len(), !body_loop(r, b, acc).0 ==> body_loop(r, b, acc).2.len() == 0,
    decreases r.len()
{
    lemma_line_len(r);
    if r.len() != 0 && !is_delim(first_line(r), b) { lemma_body_loop_shrinks(after_line(r), b, acc + first_line(r)); }
}
// the line break before the delimiter is not part of the body
pub open spec fn trim_body(x: Seq<u8>) -> Seq<u8> {
    let n = x.len() as int;
    if n == 1 { if x[0] == 10u8 { Seq::empty() } else { x } }
    else if n >= 2 {
        if x[n - 1] == 10u8 { if x[n - 2] == 13u8 { x.subrange(0, n - 2) } else { x.subrange(0, n - 1) } } else { x }
    } else { x }
}
// one call of parse_form_part_recursively: `first` is bytes_read == 0, `acc` the parts read so far; None is an error
pub open spec fn parse_rec(r: Seq<u8>, b: Seq<u8>, first: bool, acc: Seq<PV>) -> Option<Seq<PV>>
    decreases r.len() via parse_rec_dec
{
    if first && !(valid_utf8(first_line(r)) && is_delim(first_line(r), b)) { None } else {
        let r1 = if first { after_line(r) } else { r };
        match hdr_loop(r1, b, Seq::empty()) {
            HdrOut::Bad => None,
            HdrOut::Eof => Some(acc),
            HdrOut::Body(hs, r2) => {
                let bl = body_loop(r2, b, Seq::empty());
                if !bl.0 { None } else {
                    let acc2 = acc.push((hs, trim_body(bl.1)));
                    if bl.2.len() == 0 { Some(acc2) } else { parse_rec(bl.2, b, false, acc2) }
                }
            },
        }
    }
}
#[via_fn]
proof fn parse_rec_dec(r: Seq<u8>, b: Seq<u8>, first: bool, acc: Seq<PV>) {
    lemma_line_len(r);
    let r1 = if first { after_line(r) } else { r };
    lemma_hdr_loop_shrinks(r1, b, Seq::empty());
    if hdr_loop(r1, b, Seq::empty()) is Body {
        lemma_body_loop_shrinks(hdr_loop(r1, b, Seq::empty())->Body_1, b, Seq::empty());
    }
}
// FormMultipartData::parse
pub open spec fn parse_spec(data: Seq<u8>, b: Seq<u8>) -> Option<Seq<PV>> { parse_rec(data, b, true, Seq::empty()) }
pub open spec fn parse_result_is(res: Result<Vec<Part>, String>, want: Option<Seq<PV>>) -> bool {
    match want { None => res.is_err(), Some(ps) => res.is_ok() && pvs(res.unwrap()@) == ps }
}

pub open spec fn s_boundary_eq() -> Seq<char> { seq!['b', 'o', 'u', 'n', 'd', 'a', 'r', 'y', '='] }
