// ===== contracts/spec/multipart_thm.rs — theorems over the multipart reader / writer specifications (C16) =====
// FormMultipartData::generate is proved equal to gen_spec and FormMultipartData::parse to parse_spec (contracts/multipart.vc);
// the property is then a statement about the two spec functions, proved here for all part lists and boundaries.

// ---------- lines ----------
pub open spec fn no_lf(s: Seq<u8>) -> bool { forall|i: int| 0 <= i < s.len() ==> #[trigger] s[i] != 10u8 }

pub proof fn lemma_line_split(x: Seq<u8>, y: Seq<u8>)
    requires no_lf(x),
    ensures
        line_len(x + seq![10u8] + y) == x.len() + 1,
        first_line(x + seq![10u8] + y) == x + seq![10u8],
        after_line(x + seq![10u8] + y) == y,
    decreases x.len()
{
    let r = x + seq![10u8] + y;
    if x.len() == 0 {
        assert(r[0] == 10u8);
    } else {
        assert(r[0] == x[0]);
        let x1 = x.subrange(1, x.len() as int);
        assert(r.subrange(1, r.len() as int) =~= x1 + seq![10u8] + y);
        lemma_line_split(x1, y);
    }
    assert(line_len(r) == x.len() + 1);
    assert(r.subrange(0, line_len(r)) =~= x + seq![10u8]);
    assert(r.subrange(line_len(r), r.len() as int) =~= y);
}
pub proof fn lemma_line_whole(x: Seq<u8>)
    requires no_lf(x),
    ensures line_len(x) == x.len(), first_line(x) == x, after_line(x) == Seq::<u8>::empty(),
    decreases x.len()
{
    if x.len() > 0 {
        let x1 = x.subrange(1, x.len() as int);
        lemma_line_whole(x1);
    }
    assert(x.subrange(0, x.len() as int) =~= x);
    assert(x.subrange(x.len() as int, x.len() as int) =~= Seq::<u8>::empty());
}
// x CRLF y with no line feed in x: the first line is x CRLF
pub proof fn lemma_crlf_line(x: Seq<u8>, y: Seq<u8>)
    requires no_lf(x),
    ensures first_line(x + crlf_b() + y) == x + crlf_b(), after_line(x + crlf_b() + y) == y, strip_eol(x + crlf_b()) == x,
{
    let xc = x.push(13u8);
    assert(no_lf(xc));
    assert(x + crlf_b() + y =~= xc + seq![10u8] + y);
    assert(x + crlf_b() =~= xc + seq![10u8]);
    lemma_line_split(xc, y);
    let l = x + crlf_b();
    assert(l.last() == 10u8);
    assert(l.drop_last() =~= xc);
    assert(xc.drop_last() =~= x);
}

// ---------- "the boundary does not occur in the data" ----------
pub open spec fn occurs(needle: Seq<u8>, hay: Seq<u8>) -> bool {
    exists|k: int| 0 <= k && k + needle.len() <= hay.len() && #[trigger] hay.subrange(k, k + needle.len()) == needle
}
// a delimiter line contains the boundary
pub proof fn lemma_delim_occurs(line: Seq<u8>, b: Seq<u8>, hay: Seq<u8>, i: int, j: int)
    requires 0 <= i <= j <= hay.len(), strip_eol(line) == hay.subrange(i, j), is_delim(line, b),
    ensures occurs(b, hay),
{
    let t = hay.subrange(i, j);
    let n = b.len() as int;
    if t == b {
        assert(hay.subrange(i, i + n) =~= b);
    } else if t == dd_b() + b {
        assert(hay.subrange(i + 2, i + 2 + n) =~= t.subrange(2, 2 + n));
        assert(t.subrange(2, 2 + n) =~= b);
    } else if t == dd_b() + b + dd_b() {
        assert(hay.subrange(i + 2, i + 2 + n) =~= t.subrange(2, 2 + n));
        assert(t.subrange(2, 2 + n) =~= b);
    } else {
        assert(t == b + dd_b());
        assert(hay.subrange(i, i + n) =~= t.subrange(0, n));
        assert(t.subrange(0, n) =~= b);
    }
}

pub open spec fn no_eol(s: Seq<u8>) -> bool { forall|i: int| 0 <= i < s.len() ==> #[trigger] s[i] != 10u8 && s[i] != 13u8 }
pub open spec fn wf_boundary(b: Seq<u8>) -> bool { b.len() > 0 && no_eol(b) }

pub proof fn lemma_occurs_suffix(b: Seq<u8>, hay: Seq<u8>, i: int)
    requires 0 <= i <= hay.len(), occurs(b, hay.subrange(i, hay.len() as int)),
    ensures occurs(b, hay),
{
    let sfx = hay.subrange(i, hay.len() as int);
    let k = choose|k: int| 0 <= k && k + b.len() <= sfx.len() && #[trigger] sfx.subrange(k, k + b.len()) == b;
    assert(hay.subrange(i + k, i + k + b.len()) =~= sfx.subrange(k, k + b.len()));
}

// the delimiter line that ends a part: b at the end of the input, or b CRLF followed by the next part
pub open spec fn after_boundary(t: Seq<u8>) -> Seq<u8> { if t.len() == 0 { t } else { t.subrange(2, t.len() as int) } }
pub open spec fn boundary_tail_ok(t: Seq<u8>) -> bool { t.len() == 0 || (t.len() >= 2 && t[0] == 13u8 && t[1] == 10u8) }

pub proof fn lemma_boundary_line(b: Seq<u8>, t: Seq<u8>)
    requires wf_boundary(b), boundary_tail_ok(t),
    ensures is_delim(first_line(b + t), b), after_line(b + t) == after_boundary(t),
{
    assert(no_lf(b));
    if t.len() == 0 {
        assert(b + t =~= b);
        lemma_line_whole(b);
        assert(strip_eol(b) == b);
    } else {
        let t2 = t.subrange(2, t.len() as int);
        assert(b + t =~= b + crlf_b() + t2);
        lemma_crlf_line(b, t2);
    }
}

// the body loop on  B CRLF b T : collects B CRLF and stops after the delimiter line
pub proof fn lemma_body_loop(body: Seq<u8>, b: Seq<u8>, t: Seq<u8>, acc: Seq<u8>)
    requires wf_boundary(b), boundary_tail_ok(t), !occurs(b, body),
    ensures body_loop(body + crlf_b() + b + t, b, acc) == (true, acc + body + crlf_b(), after_boundary(t)),
    decreases body.len()
{
    let r = body + crlf_b() + b + t;
    assert(r.len() > 0);
    if no_lf(body) {
        assert(r =~= body + crlf_b() + (b + t));
        lemma_crlf_line(body, b + t);
        let l = body + crlf_b();
        assert(first_line(r) == l && after_line(r) == b + t);
        if is_delim(l, b) {
            assert(body.subrange(0, body.len() as int) =~= body);
            lemma_delim_occurs(l, b, body, 0, body.len() as int);
        }
        // one more step: the delimiter line itself
        lemma_boundary_line(b, t);
        assert((b + t).len() > 0);
        assert(body_loop(b + t, b, acc + l) == (true, acc + l, after_boundary(t)));
        assert(acc + l =~= acc + body + crlf_b());
    } else {
        lemma_first_lf(body);
        let i = choose|i: int| 0 <= i < body.len() && body[i] == 10u8 && no_lf(body.subrange(0, i));
        let x = body.subrange(0, i);
        let rest = body.subrange(i + 1, body.len() as int);
        assert(r =~= x + seq![10u8] + (rest + crlf_b() + b + t));
        lemma_line_split(x, rest + crlf_b() + b + t);
        let l = x + seq![10u8];
        assert(l =~= body.subrange(0, i + 1));
        if is_delim(l, b) {
            // strip_eol(l) is x, or x without its trailing CR: a piece of body
            let sx = strip_eol(l);
            assert(l.drop_last() =~= x);
            if x.len() > 0 && x.last() == 13u8 {
                assert(sx =~= body.subrange(0, i - 1));
                lemma_delim_occurs(l, b, body, 0, i - 1);
            } else {
                assert(sx =~= body.subrange(0, i));
                lemma_delim_occurs(l, b, body, 0, i);
            }
        }
        if occurs(b, rest) { lemma_occurs_suffix(b, body, i + 1); }
        lemma_body_loop(rest, b, t, acc + l);
        assert(acc + l + rest + crlf_b() =~= acc + body + crlf_b()) by {
            assert(l + rest =~= body);
            assert(acc + l + rest =~= acc + (l + rest));
        }
    }
}
pub proof fn lemma_first_lf(s: Seq<u8>)
    requires !no_lf(s),
    ensures exists|i: int| 0 <= i < s.len() && s[i] == 10u8 && no_lf(s.subrange(0, i)),
    decreases s.len()
{
    if s[0] == 10u8 {
        assert(no_lf(s.subrange(0, 0)));
    } else {
        let s1 = s.subrange(1, s.len() as int);
        assert(!no_lf(s1)) by {
            let j = choose|j: int| 0 <= j < s.len() && s[j] == 10u8;
            assert(s1[j - 1] == 10u8);
        }
        lemma_first_lf(s1);
        let i1 = choose|i: int| 0 <= i < s1.len() && s1[i] == 10u8 && no_lf(s1.subrange(0, i));
        assert(s[i1 + 1] == 10u8);
        assert(no_lf(s.subrange(0, i1 + 1))) by {
            assert forall|k: int| 0 <= k < i1 + 1 implies #[trigger] s.subrange(0, i1 + 1)[k] != 10u8 by {
                if k > 0 { assert(s1.subrange(0, i1)[k - 1] == s[k]); }
            }
        }
    }
}
pub proof fn lemma_trim_body(body: Seq<u8>)
    ensures trim_body(body + crlf_b()) == body,
{
    let x = body + crlf_b();
    let n = x.len() as int;
    assert(x[n - 1] == 10u8 && x[n - 2] == 13u8);
    assert(x.subrange(0, n - 2) =~= body);
}

// ---------- header lines ----------
pub open spec fn no_ctl(s: Seq<char>) -> bool { forall|i: int| 0 <= i < s.len() ==> !is_ctl(#[trigger] s[i]) }
// non-empty, no control characters, no white space at either end
pub open spec fn tidy(s: Seq<char>) -> bool { s.len() > 0 && !is_ws(s[0]) && !is_ws(s.last()) && no_ctl(s) }

pub proof fn lemma_without_ctl_id(s: Seq<char>)
    requires no_ctl(s),
    ensures without_ctl(s) == s,
    decreases s.len()
{
    if s.len() > 0 {
        let t = s.drop_last();
        assert(forall|i: int| 0 <= i < t.len() ==> t[i] == s[i]);
        lemma_without_ctl_id(t);
        assert(without_ctl(s) =~= s);
    }
}
pub proof fn lemma_without_ctl_crlf(s: Seq<char>)
    ensures without_ctl(s + crlf_c()) == without_ctl(s),
{
    let a = s + crlf_c();
    assert(a.last() == '\n' && is_ctl('\n'));
    let a1 = a.drop_last();
    assert(a1 =~= s.push('\r'));
    assert(a1.last() == '\r' && is_ctl('\r'));
    assert(a1.drop_last() =~= s);
    reveal_with_fuel(without_ctl, 3);
}
pub proof fn lemma_trim_id(s: Seq<char>)
    requires s.len() > 0, !is_ws(s[0]), !is_ws(s.last()),
    ensures trim_spec(s) == s,
{
    axiom_trim(s);
    let (a, b) = choose|a: int, b: int| 0 <= a <= b <= s.len() && trim_spec(s) == s.subrange(a, b)
        && (forall|i: int| 0 <= i < a ==> is_ws(#[trigger] s[i])) && (forall|i: int| b <= i < s.len() ==> is_ws(#[trigger] s[i]));
    if a > 0 { assert(is_ws(s[0])); }
    if b < s.len() { assert(is_ws(s[s.len() - 1])); }
    assert(s.subrange(0, s.len() as int) =~= s);
}
pub proof fn lemma_trim_empty()
    ensures trim_spec(Seq::<char>::empty()) == Seq::<char>::empty(),
{
    let s = Seq::<char>::empty();
    axiom_trim(s);
    assert(trim_spec(s) =~= s);
}
pub proof fn lemma_trim_lead_space(v: Seq<char>)
    requires v.len() > 0, !is_ws(v[0]), !is_ws(v.last()),
    ensures trim_spec(seq![' '] + v) == v,
{
    let s = seq![' '] + v;
    axiom_trim(s);
    let (a, b) = choose|a: int, b: int| 0 <= a <= b <= s.len() && trim_spec(s) == s.subrange(a, b)
        && (forall|i: int| 0 <= i < a ==> is_ws(#[trigger] s[i])) && (forall|i: int| b <= i < s.len() ==> is_ws(#[trigger] s[i]));
    assert(s[1] == v[0]);
    assert(s[s.len() - 1] == v.last());
    if b < s.len() { assert(is_ws(s[s.len() - 1])); }
    if a > 1 { assert(is_ws(s[1])); }
    if a == 0 {
        // then trim(s) starts with the space, which is white space
        assert(trim_spec(s).len() > 0);
        assert(trim_spec(s)[0] == s[0]);
        assert(s[0] == ' ');
    }
    assert(a == 1 && b == s.len());
    assert(s.subrange(1, s.len() as int) =~= v);
}
// the split of  name ":" rest  at the first colon, when name has none
pub proof fn lemma_split_once_colon(name: Seq<char>, rest: Seq<char>)
    requires forall|i: int| 0 <= i < name.len() ==> #[trigger] name[i] != ':',
    ensures split_once_spec(name + colon_c() + rest, colon_c()) == Some((name, rest)),
{
    let e = name + colon_c() + rest;
    let n = name.len() as int;
    axiom_split_once(e, colon_c());
    assert(e.subrange(n, n + 1) =~= colon_c());
    assert(has_sub(e, colon_c()));
    let sp = split_once_spec(e, colon_c()).unwrap();
    let p0 = sp.0;
    let p1 = sp.1;
    let m = p0.len() as int;
    assert(e == p0 + colon_c() + p1);
    assert(e[m] == ':');
    if m < n { assert(e[m] == name[m]); }
    if m > n {
        assert(p0[n] == e[n]);
        assert(p0.subrange(n, n + 1) =~= colon_c());
        assert(has_sub(p0, colon_c()));
    }
    assert(m == n);
    assert(p0 =~= name) by { assert forall|i: int| 0 <= i < n implies p0[i] == name[i] by { assert(e[i] == p0[i]); assert(e[i] == name[i]); } }
    assert(p1 =~= rest) by {
        assert(p1.len() == rest.len());
        assert forall|i: int| 0 <= i < rest.len() implies p1[i] == rest[i] by { assert(e[n + 1 + i] == p1[i]); assert(e[n + 1 + i] == rest[i]); }
    }
}
pub open spec fn wf_header_text(h: HV) -> bool {
    tidy(h.0) && tidy(h.1) && (forall|i: int| 0 <= i < h.0.len() ==> #[trigger] h.0[i] != ':')
}
pub proof fn lemma_hdr_line_tidy(h: HV)
    requires wf_header_text(h),
    ensures no_ctl(hdr_line(h)), hdr_line(h).len() > 0, !is_ws(hdr_line(h)[0]), !is_ws(hdr_line(h).last()), no_crlf(hdr_line(h)),
        filter_ctl_spec(hdr_line(h) + crlf_c()) == hdr_line(h), filter_ctl_spec(hdr_line(h)) == hdr_line(h),
{
    let l = hdr_line(h);
    let n = h.0.len() as int;
    assert(l[0] == h.0[0]);
    assert(l.last() == h.1.last());
    assert forall|i: int| 0 <= i < l.len() implies !is_ctl(#[trigger] l[i]) by {
        if i < n { assert(l[i] == h.0[i]); } else if i == n { assert(l[i] == ':'); } else if i == n + 1 { assert(l[i] == ' '); } else { assert(l[i] == h.1[i - n - 2]); }
    }
    assert forall|i: int| 0 <= i < l.len() implies #[trigger] l[i] != '\r' && l[i] != '\n' by { assert(!is_ctl(l[i])); }
    lemma_without_ctl_id(l);
    lemma_without_ctl_crlf(l);
    lemma_trim_id(l);
}
// Header::parse_header reads back what Header::as_string wrote
pub proof fn lemma_header_roundtrip(h: HV)
    requires wf_header_text(h),
    ensures parse_header_spec(hdr_line(h)) == Some(h),
{
    let l = hdr_line(h);
    lemma_hdr_line_tidy(h);
    lemma_strip_crlf(l);
    let rest = seq![' '] + h.1;
    assert(l =~= h.0 + colon_c() + rest);
    lemma_split_once_colon(h.0, rest);
    lemma_trim_id(h.0);
    lemma_trim_lead_space(h.1);
}

// ---------- UTF-8 facts used below (all from vstd's proved lemmas) ----------
pub proof fn lemma_utf8_crlf()
    ensures utf8_bytes(crlf_c()) == crlf_b(),
{
    assert(vstd::utf8::is_ascii_chars(crlf_c()));
    vstd::utf8::is_ascii_chars_encode_utf8(crlf_c());
    assert(utf8_bytes(crlf_c()) =~= crlf_b());
}
pub proof fn lemma_utf8_line(l: Seq<char>)
    ensures
        utf8_bytes(l + crlf_c()) == utf8_bytes(l) + crlf_b(),
        valid_utf8(utf8_bytes(l) + crlf_b()),
        vstd::utf8::decode_utf8(utf8_bytes(l) + crlf_b()) == l + crlf_c(),
{
    lemma_utf8_crlf();
    vstd::utf8::encode_utf8_concat(l, crlf_c());
    vstd::utf8::encode_utf8_valid_utf8(l + crlf_c());
    vstd::utf8::encode_utf8_decode_utf8(l + crlf_c());
}

// ---------- the header loop ----------
pub open spec fn wf_header(h: HV, b: Seq<u8>) -> bool {
    wf_header_text(h)
    && no_lf(utf8_bytes(hdr_line(h)))        // implied by no_ctl (UTF-8 encodes no other character with the byte 0x0A); stated on the bytes
    && !occurs(b, utf8_bytes(hdr_line(h)))
}
pub open spec fn wf_headers(hs: Seq<HV>, b: Seq<u8>) -> bool { forall|i: int| 0 <= i < hs.len() ==> wf_header(#[trigger] hs[i], b) }
// the header block written front to back
pub open spec fn hdr_block_f(hs: Seq<HV>) -> Seq<char>
    decreases hs.len()
{
    if hs.len() == 0 { Seq::empty() } else { hdr_line(hs[0]) + crlf_c() + hdr_block_f(hs.drop_first()) }
}
pub proof fn lemma_hdr_block_f_push(hs: Seq<HV>, h: HV)
    ensures hdr_block_f(hs.push(h)) == hdr_block_f(hs) + (hdr_line(h) + crlf_c()),
    decreases hs.len()
{
    if hs.len() == 0 {
        assert(hs.push(h).drop_first() =~= Seq::<HV>::empty());
        assert(hdr_block_f(hs.push(h)) =~= hdr_line(h) + crlf_c() + hdr_block_f(Seq::<HV>::empty()));
        assert(hdr_block_f(hs.push(h)) =~= hdr_block_f(hs) + (hdr_line(h) + crlf_c()));
    } else {
        assert(hs.push(h).drop_first() =~= hs.drop_first().push(h));
        assert(hs.push(h)[0] == hs[0]);
        lemma_hdr_block_f_push(hs.drop_first(), h);
        assert(hdr_block_f(hs.push(h)) =~= hdr_block_f(hs) + (hdr_line(h) + crlf_c()));
    }
}
pub proof fn lemma_hdr_block_front(hs: Seq<HV>)
    ensures hdr_block(hs) == hdr_block_f(hs),
    decreases hs.len()
{
    if hs.len() > 0 {
        lemma_hdr_block_front(hs.drop_last());
        lemma_hdr_block_f_push(hs.drop_last(), hs.last());
        assert(hs.drop_last().push(hs.last()) =~= hs);
    }
}
// the header loop on  <header lines> CRLF X  returns the headers and X
pub proof fn lemma_hdr_loop(todo: Seq<HV>, done: Seq<HV>, b: Seq<u8>, x: Seq<u8>)
    requires wf_boundary(b), wf_headers(todo, b), done.len() + todo.len() > 0, x.len() > 0,
    ensures hdr_loop(utf8_bytes(hdr_block_f(todo)) + crlf_b() + x, b, done) == HdrOut::Body(done + todo, x),
    decreases todo.len()
{
    let r = utf8_bytes(hdr_block_f(todo)) + crlf_b() + x;
    if todo.len() == 0 {
        vstd::utf8::is_ascii_chars_encode_utf8(Seq::<char>::empty());
        let e = Seq::<u8>::empty();
        assert(utf8_bytes(hdr_block_f(todo)) =~= e);
        assert(r =~= e + crlf_b() + x);
        assert(no_lf(e));
        lemma_crlf_line(e, x);
        let line = e + crlf_b();
        assert(first_line(r) == line && after_line(r) == x);
        let ec = Seq::<char>::empty();
        lemma_utf8_line(ec);
        assert(utf8_bytes(ec) =~= e);
        assert(ec + crlf_c() =~= crlf_c());
        assert(vstd::utf8::decode_utf8(line) == crlf_c());
        lemma_without_ctl_crlf(ec);
        assert(without_ctl(ec) =~= ec);
        lemma_trim_empty();
        assert(filter_ctl_spec(crlf_c()) == ec);
        // the blank line is not a delimiter: the boundary is not empty
        assert(strip_eol(line) == e);
        assert(!is_delim(line, b)) by {
            assert((dd_b() + b).len() > 0 && (dd_b() + b + dd_b()).len() > 0 && (b + dd_b()).len() > 0);
        }
        assert(done + todo =~= done);
    } else {
        let h = todo[0];
        let rest = todo.drop_first();
        let l = hdr_line(h);
        let u = utf8_bytes(l);
        assert(wf_header(h, b));
        lemma_utf8_line(l);
        vstd::utf8::encode_utf8_concat(l + crlf_c(), hdr_block_f(rest));
        let x2 = utf8_bytes(hdr_block_f(rest)) + crlf_b() + x;
        assert(r =~= u + crlf_b() + x2);
        lemma_crlf_line(u, x2);
        let line = u + crlf_b();
        assert(first_line(r) == line && after_line(r) == x2);
        lemma_hdr_line_tidy(h);
        let s = filter_ctl_spec(vstd::utf8::decode_utf8(line));
        assert(s == l);
        lemma_trim_id(l);
        assert(trim_spec(s).len() != 0);
        if is_delim(line, b) {
            assert(u.subrange(0, u.len() as int) =~= u);
            lemma_delim_occurs(line, b, u, 0, u.len() as int);
        }
        assert(x2.len() > 0);
        lemma_header_roundtrip(h);
        assert(wf_headers(rest, b)) by { assert forall|i: int| 0 <= i < rest.len() implies wf_header(#[trigger] rest[i], b) by { assert(rest[i] == todo[i + 1]); } }
        lemma_hdr_loop(rest, done.push(h), b, x);
        assert(done.push(h) + rest =~= done + todo);
    }
}

// ---------- the writer, front to back ----------
pub open spec fn wf_part(p: PV, b: Seq<u8>) -> bool { p.0.len() > 0 && wf_headers(p.0, b) && !occurs(b, p.1) }
pub open spec fn wf_parts(ps: Seq<PV>, b: Seq<u8>) -> bool { forall|i: int| 0 <= i < ps.len() ==> wf_part(#[trigger] ps[i], b) }
// what follows the opening boundary:  CRLF part CRLF boundary, for every part
pub open spec fn tail_bytes(ps: Seq<PV>, b: Seq<u8>) -> Seq<u8>
    decreases ps.len()
{
    if ps.len() == 0 { Seq::empty() } else { crlf_b() + part_bytes(ps[0]) + crlf_b() + b + tail_bytes(ps.drop_first(), b) }
}
pub proof fn lemma_tail_bytes_push(ps: Seq<PV>, p: PV, b: Seq<u8>)
    ensures tail_bytes(ps.push(p), b) == tail_bytes(ps, b) + (crlf_b() + part_bytes(p) + crlf_b() + b),
    decreases ps.len()
{
    if ps.len() == 0 {
        assert(ps.push(p).drop_first() =~= Seq::<PV>::empty());
        assert(tail_bytes(ps.push(p), b) =~= crlf_b() + part_bytes(p) + crlf_b() + b + tail_bytes(Seq::<PV>::empty(), b));
        assert(tail_bytes(ps.push(p), b) =~= tail_bytes(ps, b) + (crlf_b() + part_bytes(p) + crlf_b() + b));
    } else {
        assert(ps.push(p).drop_first() =~= ps.drop_first().push(p));
        assert(ps.push(p)[0] == ps[0]);
        lemma_tail_bytes_push(ps.drop_first(), p, b);
        assert(tail_bytes(ps.push(p), b) =~= tail_bytes(ps, b) + (crlf_b() + part_bytes(p) + crlf_b() + b));
    }
}
pub proof fn lemma_gen_pieces_len(ps: Seq<PV>, b: Seq<u8>)
    ensures gen_pieces(ps, b).len() == 2 * ps.len() + 1,
    decreases ps.len()
{
    if ps.len() > 0 { lemma_gen_pieces_len(ps.drop_last(), b); }
}
pub proof fn lemma_bjoin_push(g: Seq<Seq<u8>>, x: Seq<u8>, sep: Seq<u8>)
    requires g.len() >= 1,
    ensures bjoin(g.push(x), sep) == bjoin(g, sep) + sep + x,
{
    assert(g.push(x).drop_last() =~= g);
}
pub proof fn lemma_gen_front(ps: Seq<PV>, b: Seq<u8>)
    ensures gen_spec(ps, b) == b + tail_bytes(ps, b),
    decreases ps.len()
{
    if ps.len() == 0 {
        assert(gen_pieces(ps, b) =~= seq![b]);
        assert(tail_bytes(ps, b) =~= Seq::<u8>::empty());
        assert(bjoin(seq![b], crlf_b()) == b);
        assert(b + Seq::<u8>::empty() =~= b);
    } else {
        let q = ps.drop_last();
        let p = ps.last();
        lemma_gen_front(q, b);
        lemma_gen_pieces_len(q, b);
        let g = gen_pieces(q, b);
        let g1 = g.push(part_bytes(p));
        lemma_bjoin_push(g, part_bytes(p), crlf_b());
        lemma_bjoin_push(g1, b, crlf_b());
        lemma_tail_bytes_push(q, p, b);
        assert(q.push(p) =~= ps);
        let j0 = bjoin(g, crlf_b());
        let t0 = tail_bytes(q, b);
        let add = crlf_b() + part_bytes(p) + crlf_b() + b;
        assert(j0 == b + t0);
        assert(gen_spec(ps, b) == j0 + crlf_b() + part_bytes(p) + crlf_b() + b);
        assert(tail_bytes(ps, b) == t0 + add);
        assert(j0 + crlf_b() + part_bytes(p) + crlf_b() + b =~= j0 + add);
        assert((b + t0) + add =~= b + (t0 + add));
    }
}

// ---------- the round trip ----------
// what the reader sees after a boundary line's CRLF: the part, CRLF, the boundary, and the remaining parts
pub open spec fn rest_bytes(ps: Seq<PV>, b: Seq<u8>) -> Seq<u8> { part_bytes(ps[0]) + crlf_b() + b + tail_bytes(ps.drop_first(), b) }

pub proof fn lemma_tail_shape(ps: Seq<PV>, b: Seq<u8>)
    ensures boundary_tail_ok(tail_bytes(ps, b)), ps.len() > 0 ==> after_boundary(tail_bytes(ps, b)) == rest_bytes(ps, b) && tail_bytes(ps, b).len() > 0,
{
    if ps.len() > 0 {
        let t = tail_bytes(ps, b);
        assert(t =~= crlf_b() + rest_bytes(ps, b));
        assert(t[0] == 13u8 && t[1] == 10u8);
        assert(t.subrange(2, t.len() as int) =~= rest_bytes(ps, b));
    }
}
pub proof fn lemma_parse_rest(ps: Seq<PV>, b: Seq<u8>, acc: Seq<PV>)
    requires ps.len() > 0, wf_boundary(b), wf_parts(ps, b),
    ensures parse_rec(rest_bytes(ps, b), b, false, acc) == Some(acc + ps),
    decreases ps.len()
{
    let p = ps[0];
    let q = ps.drop_first();
    let t = tail_bytes(q, b);
    let r = rest_bytes(ps, b);
    assert(wf_part(p, b));
    // the header loop
    let x = p.1 + crlf_b() + b + t;
    lemma_hdr_block_front(p.0);
    assert(r =~= utf8_bytes(hdr_block_f(p.0)) + crlf_b() + x);
    assert(x.len() > 0);
    lemma_hdr_loop(p.0, Seq::empty(), b, x);
    assert(Seq::<HV>::empty() + p.0 =~= p.0);
    assert(hdr_loop(r, b, Seq::empty()) == HdrOut::Body(p.0, x));
    // the body loop
    lemma_tail_shape(q, b);
    lemma_body_loop(p.1, b, t, Seq::empty());
    let bl = body_loop(x, b, Seq::empty());
    assert(Seq::<u8>::empty() + p.1 + crlf_b() =~= p.1 + crlf_b());
    assert(bl == (true, p.1 + crlf_b(), after_boundary(t)));
    lemma_trim_body(p.1);
    let acc2 = acc.push((p.0, p.1));
    assert(acc2 == acc.push(p));
    if q.len() == 0 {
        assert(t.len() == 0);
        assert(acc.push(p) =~= acc + ps);
    } else {
        assert(wf_parts(q, b)) by { assert forall|i: int| 0 <= i < q.len() implies wf_part(#[trigger] q[i], b) by { assert(q[i] == ps[i + 1]); } }
        lemma_parse_rest(q, b, acc2);
        assert(after_boundary(t) == rest_bytes(q, b));
        assert(rest_bytes(q, b).len() > 0) by { assert(wf_boundary(b)); }
        assert(acc2 + q =~= acc + ps);
    }
}

// THEOREM (C16, round trip): for every non-empty list of well-formed parts and every boundary (the UTF-8 bytes of a string
// without CR / LF) that does not occur in a header line or a body, reading what the writer produced returns the same parts.
pub proof fn theorem_multipart_roundtrip(ps: Seq<PV>, boundary: Seq<char>)
    requires ps.len() > 0, wf_boundary(utf8_bytes(boundary)), wf_parts(ps, utf8_bytes(boundary)),
    ensures parse_spec(gen_spec(ps, utf8_bytes(boundary)), utf8_bytes(boundary)) == Some(ps),
{
    let b = utf8_bytes(boundary);
    let data = gen_spec(ps, b);
    lemma_gen_front(ps, b);
    let t = tail_bytes(ps, b);
    lemma_tail_shape(ps, b);
    // the opening boundary line is  b CRLF
    lemma_boundary_line(b, t);
    assert(no_lf(b));
    assert(data =~= b + crlf_b() + rest_bytes(ps, b)) by { assert(t =~= crlf_b() + rest_bytes(ps, b)); }
    lemma_crlf_line(b, rest_bytes(ps, b));
    lemma_utf8_line(boundary);
    assert(valid_utf8(first_line(data)));
    lemma_parse_rest(ps, b, Seq::empty());
    assert(Seq::<PV>::empty() + ps =~= ps);
}

// ---------- rejection ----------
// THEOREM (C16, opening boundary): a body whose first line is not a delimiter line is rejected
pub proof fn theorem_multipart_no_opening_boundary(data: Seq<u8>, b: Seq<u8>)
    requires !is_delim(first_line(data), b),
    ensures parse_spec(data, b) is None,
{
}

// THEOREM (C16, part without headers): every part of an accepted body has at least one header
pub proof fn lemma_hdr_loop_nonempty(r: Seq<u8>, b: Seq<u8>, hs: Seq<HV>)
    ensures hdr_loop(r, b, hs) is Body ==> hdr_loop(r, b, hs)->Body_0.len() > 0 && hdr_loop(r, b, hs)->Body_1.len() > 0,
    decreases r.len()
{
    lemma_line_len(r);
    let line = first_line(r);
    let r2 = after_line(r);
    if valid_utf8(line) {
        let s = filter_ctl_spec(vstd::utf8::decode_utf8(line));
        if trim_spec(s).len() != 0 && r2.len() != 0 && parse_header_spec(s).is_some() {
            lemma_hdr_loop_nonempty(r2, b, hs.push(parse_header_spec(s).unwrap()));
        }
    }
}
pub proof fn lemma_parse_rec_headers(r: Seq<u8>, b: Seq<u8>, first: bool, acc: Seq<PV>)
    requires all_have_headers(acc), parse_rec(r, b, first, acc) is Some,
    ensures all_have_headers(parse_rec(r, b, first, acc).unwrap()),
    decreases r.len()
{
    lemma_line_len(r);
    let r1 = if first { after_line(r) } else { r };
    lemma_hdr_loop_nonempty(r1, b, Seq::empty());
    lemma_hdr_loop_shrinks(r1, b, Seq::empty());
    match hdr_loop(r1, b, Seq::empty()) {
        HdrOut::Body(hs, r2) => {
            let bl = body_loop(r2, b, Seq::empty());
            lemma_body_loop_shrinks(r2, b, Seq::empty());
            let acc2 = acc.push((hs, trim_body(bl.1)));
            assert(all_have_headers(acc2)) by {
                assert forall|i: int| 0 <= i < acc2.len() implies (#[trigger] acc2[i]).0.len() > 0 by { if i < acc.len() { assert(acc2[i] == acc[i]); } }
            }
            if bl.2.len() != 0 { lemma_parse_rec_headers(bl.2, b, false, acc2); }
        },
        _ => {},
    }
}
pub proof fn theorem_multipart_parts_have_headers(data: Seq<u8>, b: Seq<u8>)
    requires parse_spec(data, b) is Some,
    ensures all_have_headers(parse_spec(data, b).unwrap()),
{
    lemma_parse_rec_headers(data, b, true, Seq::empty());
}

// THEOREM (C16, closing boundary): the last line of an accepted body is a delimiter line, or one blank line directly after one
pub open spec fn blank_line(l: Seq<u8>) -> bool {
    valid_utf8(l) && trim_spec(filter_ctl_spec(vstd::utf8::decode_utf8(l))).len() == 0
}
pub open spec fn closed(r: Seq<u8>, b: Seq<u8>, prev_delim: bool) -> bool
    decreases r.len() via closed_dec
{
    if r.len() == 0 { prev_delim }
    else if after_line(r).len() == 0 { is_delim(first_line(r), b) || (prev_delim && blank_line(first_line(r))) }
    else { closed(after_line(r), b, is_delim(first_line(r), b)) }
}
#[via_fn]
proof fn closed_dec(r: Seq<u8>, b: Seq<u8>, prev_delim: bool) {
    lemma_line_len(r);
}
pub proof fn lemma_hdr_loop_closed(r: Seq<u8>, b: Seq<u8>, hs: Seq<HV>, pd: bool)
    ensures
        hdr_loop(r, b, hs) is Eof ==> closed(r, b, true) && hs.len() == 0,
        hdr_loop(r, b, hs) is Body ==> closed(r, b, pd) == closed(hdr_loop(r, b, hs)->Body_1, b, false),
    decreases r.len()
{
    lemma_line_len(r);
    let line = first_line(r);
    let r2 = after_line(r);
    if valid_utf8(line) {
        let s = filter_ctl_spec(vstd::utf8::decode_utf8(line));
        if trim_spec(s).len() != 0 && r2.len() != 0 && parse_header_spec(s).is_some() && !is_delim(line, b) {
            lemma_hdr_loop_closed(r2, b, hs.push(parse_header_spec(s).unwrap()), false);
        }
    }
}
pub proof fn lemma_body_loop_closed(r: Seq<u8>, b: Seq<u8>, acc: Seq<u8>, pd: bool)
    requires body_loop(r, b, acc).0,
    ensures closed(r, b, pd) == (if body_loop(r, b, acc).2.len() == 0 { true } else { closed(body_loop(r, b, acc).2, b, true) }),
    decreases r.len()
{
    lemma_line_len(r);
    if r.len() != 0 && !is_delim(first_line(r), b) {
        lemma_body_loop_closed(after_line(r), b, acc + first_line(r), false);
    }
}
pub proof fn lemma_parse_rec_closed(r: Seq<u8>, b: Seq<u8>, first: bool, acc: Seq<PV>)
    requires parse_rec(r, b, first, acc) is Some,
    ensures closed(r, b, !first),
    decreases r.len()
{
    lemma_line_len(r);
    let r1 = if first { after_line(r) } else { r };
    lemma_hdr_loop_closed(r1, b, Seq::empty(), true);
    lemma_hdr_loop_shrinks(r1, b, Seq::empty());
    match hdr_loop(r1, b, Seq::empty()) {
        HdrOut::Body(hs, r2) => {
            let bl = body_loop(r2, b, Seq::empty());
            lemma_body_loop_shrinks(r2, b, Seq::empty());
            lemma_body_loop_closed(r2, b, Seq::empty(), false);
            if bl.2.len() != 0 { lemma_parse_rec_closed(bl.2, b, false, acc.push((hs, trim_body(bl.1)))); }
            assert(closed(r1, b, true));
        },
        _ => {},
    }
    if first {
        // the opening line is a delimiter; an empty input has no such line followed by anything acceptable
        if r.len() == 0 {
            assert(r1.len() == 0);
            assert(first_line(r1) =~= first_line(r));
        }
    }
}
pub proof fn theorem_multipart_no_closing_boundary(data: Seq<u8>, b: Seq<u8>)
    requires parse_spec(data, b) is Some,
    ensures closed(data, b, false),
{
    lemma_parse_rec_closed(data, b, true, Seq::empty());
}
