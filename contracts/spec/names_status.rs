// ===== contracts/spec/names_status.rs — the numbers of the registered statuses (all 61 compared with the IANA HTTP status code
// registry): the contracts name the constants, this pins their codes (C05, C15).  The reason phrases are NOT pinned: they are
// not normative (RFC 9110 15.1), and four of them (203, 413, 418, 422) are older or differently punctuated spellings that a
// maintainer may well correct.
pub proof fn names_status_1()
    ensures
        *STATUS_CODE_REASON_PHRASE.n100_continue.status_code == 100,
        *STATUS_CODE_REASON_PHRASE.n101_switching_protocols.status_code == 101,
        *STATUS_CODE_REASON_PHRASE.n102_processing.status_code == 102,
        *STATUS_CODE_REASON_PHRASE.n103_early_hints.status_code == 103,
        *STATUS_CODE_REASON_PHRASE.n200_ok.status_code == 200,
        *STATUS_CODE_REASON_PHRASE.n201_created.status_code == 201,
        *STATUS_CODE_REASON_PHRASE.n202_accepted.status_code == 202,
        *STATUS_CODE_REASON_PHRASE.n203_non_authoritative_information.status_code == 203,
        *STATUS_CODE_REASON_PHRASE.n204_no_content.status_code == 204,
        *STATUS_CODE_REASON_PHRASE.n205_reset_content.status_code == 205,
        *STATUS_CODE_REASON_PHRASE.n206_partial_content.status_code == 206,
        *STATUS_CODE_REASON_PHRASE.n207_multi_status.status_code == 207,
        *STATUS_CODE_REASON_PHRASE.n208_already_reported.status_code == 208,
        *STATUS_CODE_REASON_PHRASE.n226_im_used.status_code == 226,
        *STATUS_CODE_REASON_PHRASE.n300_multiple_choices.status_code == 300,
        *STATUS_CODE_REASON_PHRASE.n301_moved_permanently.status_code == 301,
{
}
pub proof fn names_status_2()
    ensures
        *STATUS_CODE_REASON_PHRASE.n302_found.status_code == 302,
        *STATUS_CODE_REASON_PHRASE.n303_see_other.status_code == 303,
        *STATUS_CODE_REASON_PHRASE.n304_not_modified.status_code == 304,
        *STATUS_CODE_REASON_PHRASE.n307_temporary_redirect.status_code == 307,
        *STATUS_CODE_REASON_PHRASE.n308_permanent_redirect.status_code == 308,
        *STATUS_CODE_REASON_PHRASE.n400_bad_request.status_code == 400,
        *STATUS_CODE_REASON_PHRASE.n401_unauthorized.status_code == 401,
        *STATUS_CODE_REASON_PHRASE.n402_payment_required.status_code == 402,
        *STATUS_CODE_REASON_PHRASE.n403_forbidden.status_code == 403,
        *STATUS_CODE_REASON_PHRASE.n404_not_found.status_code == 404,
        *STATUS_CODE_REASON_PHRASE.n405_method_not_allowed.status_code == 405,
        *STATUS_CODE_REASON_PHRASE.n406_not_acceptable.status_code == 406,
        *STATUS_CODE_REASON_PHRASE.n407_proxy_authentication_required.status_code == 407,
        *STATUS_CODE_REASON_PHRASE.n408_request_timeout.status_code == 408,
        *STATUS_CODE_REASON_PHRASE.n409_conflict.status_code == 409,
        *STATUS_CODE_REASON_PHRASE.n410_gone.status_code == 410,
{
}
pub proof fn names_status_3()
    ensures
        *STATUS_CODE_REASON_PHRASE.n411_length_required.status_code == 411,
        *STATUS_CODE_REASON_PHRASE.n412_precondition_failed.status_code == 412,
        *STATUS_CODE_REASON_PHRASE.n413_payload_too_large.status_code == 413,
        *STATUS_CODE_REASON_PHRASE.n414_uri_too_long.status_code == 414,
        *STATUS_CODE_REASON_PHRASE.n415_unsupported_media_type.status_code == 415,
        *STATUS_CODE_REASON_PHRASE.n416_range_not_satisfiable.status_code == 416,
        *STATUS_CODE_REASON_PHRASE.n417_expectation_failed.status_code == 417,
        *STATUS_CODE_REASON_PHRASE.n418_im_a_teapot.status_code == 418,
        *STATUS_CODE_REASON_PHRASE.n421_misdirected_request.status_code == 421,
        *STATUS_CODE_REASON_PHRASE.n422_unprocessable_entity.status_code == 422,
        *STATUS_CODE_REASON_PHRASE.n423_locked.status_code == 423,
        *STATUS_CODE_REASON_PHRASE.n424_failed_dependency.status_code == 424,
        *STATUS_CODE_REASON_PHRASE.n425_too_early.status_code == 425,
        *STATUS_CODE_REASON_PHRASE.n426_upgrade_required.status_code == 426,
        *STATUS_CODE_REASON_PHRASE.n428_precondition_required.status_code == 428,
        *STATUS_CODE_REASON_PHRASE.n429_too_many_requests.status_code == 429,
{
}
pub proof fn names_status_4()
    ensures
        *STATUS_CODE_REASON_PHRASE.n431_request_header_fields_too_large.status_code == 431,
        *STATUS_CODE_REASON_PHRASE.n451_unavailable_for_legal_reasons.status_code == 451,
        *STATUS_CODE_REASON_PHRASE.n500_internal_server_error.status_code == 500,
        *STATUS_CODE_REASON_PHRASE.n501_not_implemented.status_code == 501,
        *STATUS_CODE_REASON_PHRASE.n502_bad_gateway.status_code == 502,
        *STATUS_CODE_REASON_PHRASE.n503_service_unavailable.status_code == 503,
        *STATUS_CODE_REASON_PHRASE.n504_gateway_timeout.status_code == 504,
        *STATUS_CODE_REASON_PHRASE.n505_http_version_not_supported.status_code == 505,
        *STATUS_CODE_REASON_PHRASE.n506_variant_also_negotiates.status_code == 506,
        *STATUS_CODE_REASON_PHRASE.n507_insufficient_storage.status_code == 507,
        *STATUS_CODE_REASON_PHRASE.n508_loop_detected.status_code == 508,
        *STATUS_CODE_REASON_PHRASE.n510_not_extended.status_code == 510,
        *STATUS_CODE_REASON_PHRASE.n511_network_authentication_required.status_code == 511,
{
}
