// ===== contracts/spec/response_thm.rs — theorems over the response reader / writer specifications (C15) =====
// Response::parse is proved to behave as resp_read (contracts/response_parse.vc) and Response::generate_response to write
// response_bytes (contracts/response.vc); the round trip is a statement about the two spec functions.

// ---------- decimal text ----------
pub proof fn lemma_dec_digits(n: nat)
    ensures dec(n).len() > 0, all_digits(dec(n)), dec_val(dec(n)) == n, dec(n)[0] != '+', dec(n)[0] != '-', no_crlf(dec(n)), no_sp(dec(n)),
    decreases n
{
    if n < 10 {
        let s = seq![digit_char(n)];
        assert(s.drop_last() =~= Seq::<char>::empty());
        assert(dec_val(s) == n) by { reveal_with_fuel(dec_val, 2); }
        assert(is_digit(s[0]));
    } else {
        lemma_dec_digits(n / 10);
        let a = dec(n / 10);
        let s = a.push(digit_char(n % 10));
        assert(s.drop_last() =~= a);
        assert(s.last() == digit_char(n % 10));
        assert(is_digit(digit_char(n % 10)));
        assert(s[0] == a[0]);
        assert forall|i: int| 0 <= i < s.len() implies is_digit(#[trigger] s[i]) by { if i < a.len() { assert(s[i] == a[i]); } }
        assert forall|i: int| 0 <= i < s.len() implies #[trigger] s[i] != '\r' && s[i] != '\n' by { assert(is_digit(s[i])); }
        assert forall|i: int| 0 <= i < s.len() implies #[trigger] s[i] != ' ' by { assert(is_digit(s[i])); }
    }
}

// ---------- which header the reader takes the media type from ----------
pub proof fn lemma_ctype_after(hs: Seq<HV>, tail: Seq<HV>, from: int)
    requires 0 <= from <= hs.len(), forall|i: int| 0 <= i < hs.len() ==> (#[trigger] hs[i]).0 != s_content_type(), tail.len() > 0, tail[0].0 == s_content_type(),
    ensures first_exact_idx_hv(hs + tail, s_content_type(), from) == hs.len(),
    decreases hs.len() - from
{
    let all = hs + tail;
    if from < hs.len() {
        assert(all[from] == hs[from]);
        lemma_ctype_after(hs, tail, from + 1);
    } else {
        assert(all[from] == tail[0]);
    }
}

// ---------- header lines ----------
pub open spec fn wf_resp_header(h: HV) -> bool {
    no_crlf(h.0) && no_crlf(h.1) && !has_sub(h.0, colon_sp1()) && (h.0.len() == 0 || h.0.last() != ':')
    && no_lf_b(utf8_bytes(h.0 + colon_sp1() + h.1))      // implied by no_crlf for real UTF-8; stated on the bytes
}
pub open spec fn resp_block_f(hs: Seq<HV>) -> Seq<char>
    decreases hs.len()
{
    if hs.len() == 0 { Seq::empty() } else { (hs[0].0 + colon_sp1() + hs[0].1 + crlf_c()) + resp_block_f(hs.drop_first()) }
}
pub proof fn lemma_resp_block_f_push(hs: Seq<HV>, h: HV)
    ensures resp_block_f(hs.push(h)) == resp_block_f(hs) + (h.0 + colon_sp1() + h.1 + crlf_c()),
    decreases hs.len()
{
    if hs.len() == 0 {
        assert(hs.push(h).drop_first() =~= Seq::<HV>::empty());
        assert(resp_block_f(hs.push(h)) =~= (h.0 + colon_sp1() + h.1 + crlf_c()) + resp_block_f(Seq::<HV>::empty()));
        assert(resp_block_f(hs.push(h)) =~= resp_block_f(hs) + (h.0 + colon_sp1() + h.1 + crlf_c()));
    } else {
        assert(hs.push(h).drop_first() =~= hs.drop_first().push(h));
        assert(hs.push(h)[0] == hs[0]);
        lemma_resp_block_f_push(hs.drop_first(), h);
        assert(resp_block_f(hs.push(h)) =~= resp_block_f(hs) + (h.0 + colon_sp1() + h.1 + crlf_c()));
    }
}
// render_acc(CRLF, hs) == CRLF ++ the header block front to back
pub proof fn lemma_resp_block_front(hs: Seq<HV>)
    ensures render_acc(crlf_c(), hs) == crlf_c() + resp_block_f(hs),
    decreases hs.len()
{
    reveal_strlit(""); reveal_strlit(": "); reveal_strlit("\r\n");
    assert(SYMBOL.empty_string@ =~= Seq::<char>::empty());
    assert(Header::NAME_VALUE_SEPARATOR@ =~= colon_sp1());
    assert(SYMBOL.new_line_carriage_return@ =~= crlf_c());
    if hs.len() > 0 {
        lemma_resp_block_front(hs.drop_last());
        lemma_resp_block_f_push(hs.drop_last(), hs.last());
        assert(hs.drop_last().push(hs.last()) =~= hs);
        let h = hs.last();
        assert(header_line(h) =~= h.0 + colon_sp1() + h.1 + crlf_c());
        assert(render_acc(crlf_c(), hs) =~= crlf_c() + resp_block_f(hs));
    } else {
        assert(render_acc(crlf_c(), hs) =~= crlf_c() + resp_block_f(hs));
    }
}
// the state after the header lines have been read
pub open spec fn with_headers(st: RespS, hs: Seq<HV>) -> RespS { RespS { version: st.version, code: st.code, reason: st.reason, headers: hs, parts: st.parts } }

// header lines are read one by one; the call on what follows them decides the result
pub proof fn lemma_resp_read_headers(todo: Seq<HV>, x: Seq<u8>, iter: nat, st: RespS, br: int, total: int)
    requires iter > 0, forall|i: int| 0 <= i < todo.len() ==> wf_resp_header(#[trigger] todo[i]),
    ensures resp_read(utf8_bytes(resp_block_f(todo)) + x, iter, st, br, total) == resp_read(x, iter + todo.len(), with_headers(st, st.headers + todo), br + utf8_bytes(resp_block_f(todo)).len(), total),
    decreases todo.len()
{
    if todo.len() == 0 {
        vstd::utf8::is_ascii_chars_encode_utf8(Seq::<char>::empty());
        assert(utf8_bytes(resp_block_f(todo)) =~= Seq::<u8>::empty());
        assert(utf8_bytes(resp_block_f(todo)) + x =~= x);
        assert(st.headers + todo =~= st.headers);
    } else {
        let h = todo[0];
        let rest = todo.drop_first();
        let l = h.0 + colon_sp1() + h.1;
        let u = utf8_bytes(l);
        assert(wf_resp_header(h));
        lemma_utf8_text_line(l);
        vstd::utf8::encode_utf8_concat(l + crlf_c(), resp_block_f(rest));
        let x2 = utf8_bytes(resp_block_f(rest)) + x;
        let r = utf8_bytes(resp_block_f(todo)) + x;
        assert(r =~= u + crlf_b() + x2);
        lemma_crlf_line(u, x2);
        let line = u + crlf_b();
        assert(first_line(r) == line && after_line(r) == x2);
        let s = l + crlf_c();
        axiom_trim(s);
        assert(s[h.0.len() as int] == ':');
        lemma_trim_nonblank(s, h.0.len() as int);
        assert(s =~= h.0 + colon_sp1() + (h.1 + crlf_c()));
        assert(colon_sp1()[0] == ':' && colon_sp1()[1] == ' ');
        lemma_split_once_at(h.0, colon_sp1(), h.1 + crlf_c());
        lemma_strip_crlf_line(h.1);
        assert(resp_header_line(s) == Some(h));
        let st2 = with_headers(st, st.headers.push(h));
        assert(forall|i: int| 0 <= i < rest.len() ==> wf_resp_header(#[trigger] rest[i])) by { assert forall|i: int| 0 <= i < rest.len() implies wf_resp_header(#[trigger] rest[i]) by { assert(rest[i] == todo[i + 1]); } }
        lemma_resp_read_headers(rest, x, iter + 1, st2, br + line.len(), total);
        assert(utf8_bytes(resp_block_f(todo)).len() == line.len() + utf8_bytes(resp_block_f(rest)).len());
        assert(st.headers.push(h) + rest =~= st.headers + todo);
        assert(line.len() != 0);
    }
}

// ---------- the status line ----------
pub open spec fn wf_status(v: Seq<char>, code: i16, reason: Seq<char>) -> bool {
    wf_word(v) && member(versions(), upper_spec(v))
    && 0 <= code && status_row(code as int, 0) >= 0 && status_table()[status_row(code as int, 0)].1 == reason
    && no_crlf(reason)
    && no_lf_b(utf8_bytes(v + sp1() + dec(code as nat) + sp1() + reason))
}
pub open spec fn wf_word(s: Seq<char>) -> bool { s.len() > 0 && no_sp(s) && no_crlf(s) && !is_ws(s[0]) && !is_ws(s.last()) }

pub proof fn lemma_status_line_reads_back(v: Seq<char>, code: i16, reason: Seq<char>)
    requires wf_status(v, code, reason),
    ensures
        status_line_ok(v + sp1() + dec(code as nat) + sp1() + reason + crlf_c()),
        status_line_parts(v + sp1() + dec(code as nat) + sp1() + reason + crlf_c()) == Some((v, dec(code as nat), reason)),
        signed_val(dec(code as nat)) == code,
        trim_spec(v + sp1() + dec(code as nat) + sp1() + reason + crlf_c()).len() > 0,
{
    let d = dec(code as nat);
    lemma_dec_digits(code as nat);
    let t = v + sp1() + d + sp1() + reason;
    let s = t + crlf_c();
    assert(no_crlf(t)) by {
        assert forall|i: int| 0 <= i < t.len() implies #[trigger] t[i] != '\r' && t[i] != '\n' by {
            let a = v.len() as int; let b = a + 1 + d.len();
            if i < a { assert(t[i] == v[i]); } else if i == a { assert(t[i] == ' '); } else if i < b { assert(t[i] == d[i - a - 1]); } else if i == b { assert(t[i] == ' '); } else { assert(t[i] == reason[i - b - 1]); }
        }
    }
    lemma_strip_crlf_line(t);
    assert(t =~= v + sp1() + (d + sp1() + reason));
    lemma_no_sp_no_sub(v);
    lemma_no_sp_no_sub(d);
    lemma_split_once_at(v, sp1(), d + sp1() + reason);
    lemma_split_once_at(d, sp1(), reason);
    assert(signed_digits(d) == d);
    assert(s[0] == v[0]);
    lemma_trim_nonblank(s, 0);
}

// ---------- the round trip, single body ----------
pub open spec fn wf_single(hs: Seq<HV>, p: ContentRange) -> bool {
    (forall|i: int| 0 <= i < hs.len() ==> wf_resp_header(#[trigger] hs[i]) && hs[i].0 != s_content_type())
    && (forall|i: int| 0 <= i < framing(seq![p]).len() ==> wf_resp_header(#[trigger] framing(seq![p])[i]))
    && !has_prefix(p.content_type@, s_multipart_byteranges())
}
// THEOREM (C15, single body): reading what generate_response wrote for a response with one body returns the same status line,
// the headers followed by the three framing headers, and one part holding exactly the body bytes with the media type written.
pub proof fn theorem_response_roundtrip_single(v: Seq<char>, code: i16, reason: Seq<char>, hs: Seq<HV>, p: ContentRange, method: Seq<char>)
    requires wf_status(v, code, reason), wf_single(hs, p), !bodiless(method),
    ensures resp_read(response_bytes(v, code, reason, hs, seq![p], method), 0, empty_resps(), 0, response_bytes(v, code, reason, hs, seq![p], method).len() as int)
        == RespRead::Done(true,
            RespS { version: v, code: code as int, reason: reason, headers: hs + framing(seq![p]),
                    parts: seq![CRV { unit: s_bytes(), start: 0, end: p.body@.len() as int, size: dec(p.body@.len()), body: p.body@, ctype: p.content_type@ }] },
            Seq::<u8>::empty()),
{
    reveal_strlit(" "); reveal_strlit("\r\n"); reveal_strlit(""); reveal_strlit("Content-Type");
    assert(SYMBOL.whitespace@ =~= sp1());
    assert(SYMBOL.new_line_carriage_return@ =~= crlf_c());
    assert(Header::_CONTENT_TYPE@ =~= s_content_type());
    let list = seq![p];
    let all = hs + framing(list);
    let d = dec(code as nat);
    assert(dec_i(code as int) == d);
    let sl = v + sp1() + d + sp1() + reason;          // the status line without its CRLF
    lemma_resp_block_front(all);
    let head = head_text(v, code, reason, all);
    assert(status_line(v, code, reason) =~= sl);
    assert(head =~= (sl + crlf_c()) + resp_block_f(all) + crlf_c());
    vstd::utf8::encode_utf8_concat((sl + crlf_c()) + resp_block_f(all), crlf_c());
    vstd::utf8::encode_utf8_concat(sl + crlf_c(), resp_block_f(all));
    lemma_utf8_text_line(sl);
    lemma_utf8_text_line(Seq::<char>::empty());
    vstd::utf8::is_ascii_chars_encode_utf8(Seq::<char>::empty());
    assert(utf8_bytes(Seq::<char>::empty()) =~= Seq::<u8>::empty());
    assert(Seq::<char>::empty() + crlf_c() =~= crlf_c());
    assert(utf8_bytes(crlf_c()) =~= crlf_b());
    let body = p.body@;
    assert(body_bytes(list) == body);
    let data = response_bytes(v, code, reason, hs, list, method);
    let x_end = crlf_b() + body;
    let x1 = utf8_bytes(resp_block_f(all)) + x_end;
    assert(data =~= utf8_bytes(sl) + crlf_b() + x1);
    lemma_crlf_line(utf8_bytes(sl), x1);
    lemma_status_line_reads_back(v, code, reason);
    let s = sl + crlf_c();
    assert(first_line(data) == utf8_bytes(sl) + crlf_b() && after_line(data) == x1);
    assert((utf8_bytes(sl) + crlf_b()).len() != 0);
    let st1 = RespS { version: v, code: code as int, reason: reason, headers: Seq::<HV>::empty(), parts: Seq::<CRV>::empty() };
    // the header lines (the response's own, then the framing headers)
    assert(forall|i: int| 0 <= i < all.len() ==> wf_resp_header(#[trigger] all[i])) by {
        assert forall|i: int| 0 <= i < all.len() implies wf_resp_header(#[trigger] all[i]) by {
            if i < hs.len() { assert(all[i] == hs[i]); } else { assert(all[i] == framing(list)[i - hs.len()]); }
        }
    }
    lemma_resp_read_headers(all, x_end, 1, st1, (utf8_bytes(sl) + crlf_b()).len() as int, data.len() as int);
    assert(Seq::<HV>::empty() + all =~= all);
    let st2 = with_headers(st1, all);
    // the blank line, then the body
    let e = Seq::<u8>::empty();
    assert(x_end =~= e + crlf_b() + body);
    assert(no_lf_b(e));
    lemma_crlf_line(e, body);
    assert(e + crlf_b() =~= crlf_b());
    assert(all_ws(crlf_c())) by { axiom_trim(crlf_c()); }
    lemma_trim_all_ws(crlf_c());
    assert(framing(list)[0].0 == s_content_type());
    lemma_ctype_after(hs, framing(list), 0);
    assert(all[hs.len() as int] == framing(list)[0]);
    assert(ctype_of(all) == Some(p.content_type@));
}
