// ===== contracts/spec/response_thm.rs — theorems over the response reader / writer specifications (C15) =====
// Response::parse is proved to behave as resp_read (contracts/response_parse.vc) and Response::generate_response to write
// response_bytes (contracts/response.vc); the round trip is a statement about the two spec functions.

// ---------- decimal text ----------
pub proof fn lemma_dec_digits(n: nat)
    ensures dec(n).len() > 0, all_digits(dec(n)), dec_val(dec(n)) == n, dec(n)[0] != '+', dec(n)[0] != '-', no_crlf(dec(n)), no_sp(dec(n)),
    decreases n
{
    if n < 10 {
        let s = seq![digit_char(n)];
        assert(s.drop_last() =~= Seq::<char>::empty());
        assert(dec_val(s) == n) by { reveal_with_fuel(dec_val, 2); }
        assert(is_digit(s[0]));
    } else {
        lemma_dec_digits(n / 10);
        let a = dec(n / 10);
        let s = a.push(digit_char(n % 10));
        assert(s.drop_last() =~= a);
        assert(s.last() == digit_char(n % 10));
        assert(is_digit(digit_char(n % 10)));
        assert(s[0] == a[0]);
        assert forall|i: int| 0 <= i < s.len() implies is_digit(#[trigger] s[i]) by { if i < a.len() { assert(s[i] == a[i]); } }
        assert forall|i: int| 0 <= i < s.len() implies #[trigger] s[i] != '\r' && s[i] != '\n' by { assert(is_digit(s[i])); }
        assert forall|i: int| 0 <= i < s.len() implies #[trigger] s[i] != ' ' by { assert(is_digit(s[i])); }
    }
}

// ---------- which header the reader takes the media type from ----------
pub proof fn lemma_ctype_after(hs: Seq<HV>, tail: Seq<HV>, from: int)
    requires 0 <= from <= hs.len(), forall|i: int| 0 <= i < hs.len() ==> (#[trigger] hs[i]).0 != s_content_type(), tail.len() > 0, tail[0].0 == s_content_type(),
    ensures first_exact_idx_hv(hs + tail, s_content_type(), from) == hs.len(),
    decreases hs.len() - from
{
    let all = hs + tail;
    if from < hs.len() {
        assert(all[from] == hs[from]);
        lemma_ctype_after(hs, tail, from + 1);
    } else {
        assert(all[from] == tail[0]);
    }
}

// ---------- header lines ----------
pub open spec fn wf_resp_header(h: HV) -> bool {
    no_crlf(h.0) && no_crlf(h.1) && !has_sub(h.0, colon_sp1()) && (h.0.len() == 0 || h.0.last() != ':')
    && no_lf_b(utf8_bytes(h.0 + colon_sp1() + h.1))      // implied by no_crlf for real UTF-8; stated on the bytes
}
pub open spec fn resp_block_f(hs: Seq<HV>) -> Seq<char>
    decreases hs.len()
{
    if hs.len() == 0 { Seq::empty() } else { (hs[0].0 + colon_sp1() + hs[0].1 + crlf_c()) + resp_block_f(hs.drop_first()) }
}
pub proof fn lemma_resp_block_f_push(hs: Seq<HV>, h: HV)
    ensures resp_block_f(hs.push(h)) == resp_block_f(hs) + (h.0 + colon_sp1() + h.1 + crlf_c()),
    decreases hs.len()
{
    if hs.len() == 0 {
        assert(hs.push(h).drop_first() =~= Seq::<HV>::empty());
        assert(resp_block_f(hs.push(h)) =~= (h.0 + colon_sp1() + h.1 + crlf_c()) + resp_block_f(Seq::<HV>::empty()));
        assert(resp_block_f(hs.push(h)) =~= resp_block_f(hs) + (h.0 + colon_sp1() + h.1 + crlf_c()));
    } else {
        assert(hs.push(h).drop_first() =~= hs.drop_first().push(h));
        assert(hs.push(h)[0] == hs[0]);
        lemma_resp_block_f_push(hs.drop_first(), h);
        assert(resp_block_f(hs.push(h)) =~= resp_block_f(hs) + (h.0 + colon_sp1() + h.1 + crlf_c()));
    }
}
// render_acc(CRLF, hs) == CRLF ++ the header block front to back
pub proof fn lemma_resp_block_front(hs: Seq<HV>)
    ensures render_acc(crlf_c(), hs) == crlf_c() + resp_block_f(hs),
    decreases hs.len()
{
    reveal_strlit(""); reveal_strlit(": "); reveal_strlit("\r\n");
    assert(SYMBOL.empty_string@ =~= Seq::<char>::empty());
    assert(Header::NAME_VALUE_SEPARATOR@ =~= colon_sp1());
    assert(SYMBOL.new_line_carriage_return@ =~= crlf_c());
    if hs.len() > 0 {
        lemma_resp_block_front(hs.drop_last());
        lemma_resp_block_f_push(hs.drop_last(), hs.last());
        assert(hs.drop_last().push(hs.last()) =~= hs);
        let h = hs.last();
        assert(header_line(h) =~= h.0 + colon_sp1() + h.1 + crlf_c());
        assert(render_acc(crlf_c(), hs) =~= crlf_c() + resp_block_f(hs));
    } else {
        assert(render_acc(crlf_c(), hs) =~= crlf_c() + resp_block_f(hs));
    }
}
// the state after the header lines have been read
pub open spec fn with_headers(st: RespS, hs: Seq<HV>) -> RespS { RespS { version: st.version, code: st.code, reason: st.reason, headers: hs, parts: st.parts } }

// header lines are read one by one; the call on what follows them decides the result
pub proof fn lemma_resp_read_headers(todo: Seq<HV>, x: Seq<u8>, iter: nat, st: RespS, br: int, total: int)
    requires iter > 0, forall|i: int| 0 <= i < todo.len() ==> wf_resp_header(#[trigger] todo[i]),
    ensures resp_read(utf8_bytes(resp_block_f(todo)) + x, iter, st, br, total) == resp_read(x, iter + todo.len(), with_headers(st, st.headers + todo), br + utf8_bytes(resp_block_f(todo)).len(), total),
    decreases todo.len()
{
    if todo.len() == 0 {
        vstd::utf8::is_ascii_chars_encode_utf8(Seq::<char>::empty());
        assert(utf8_bytes(resp_block_f(todo)) =~= Seq::<u8>::empty());
        assert(utf8_bytes(resp_block_f(todo)) + x =~= x);
        assert(st.headers + todo =~= st.headers);
    } else {
        let h = todo[0];
        let rest = todo.drop_first();
        let l = h.0 + colon_sp1() + h.1;
        let u = utf8_bytes(l);
        assert(wf_resp_header(h));
        lemma_utf8_text_line(l);
        vstd::utf8::encode_utf8_concat(l + crlf_c(), resp_block_f(rest));
        let x2 = utf8_bytes(resp_block_f(rest)) + x;
        let r = utf8_bytes(resp_block_f(todo)) + x;
        assert(r =~= u + crlf_b() + x2);
        lemma_crlf_line(u, x2);
        let line = u + crlf_b();
        assert(first_line(r) == line && after_line(r) == x2);
        let s = l + crlf_c();
        axiom_trim(s);
        assert(s[h.0.len() as int] == ':');
        lemma_trim_nonblank(s, h.0.len() as int);
        assert(s =~= h.0 + colon_sp1() + (h.1 + crlf_c()));
        assert(colon_sp1()[0] == ':' && colon_sp1()[1] == ' ');
        lemma_split_once_at(h.0, colon_sp1(), h.1 + crlf_c());
        lemma_strip_crlf_line(h.1);
        assert(resp_header_line(s) == Some(h));
        let st2 = with_headers(st, st.headers.push(h));
        assert(forall|i: int| 0 <= i < rest.len() ==> wf_resp_header(#[trigger] rest[i])) by { assert forall|i: int| 0 <= i < rest.len() implies wf_resp_header(#[trigger] rest[i]) by { assert(rest[i] == todo[i + 1]); } }
        lemma_resp_read_headers(rest, x, iter + 1, st2, br + line.len(), total);
        assert(utf8_bytes(resp_block_f(todo)).len() == line.len() + utf8_bytes(resp_block_f(rest)).len());
        assert(st.headers.push(h) + rest =~= st.headers + todo);
        assert(line.len() != 0);
    }
}

// ---------- the status line ----------
pub open spec fn wf_status(v: Seq<char>, code: i16, reason: Seq<char>) -> bool {
    wf_word(v) && member(versions(), upper_spec(v))
    && 0 <= code && status_row(code as int, 0) >= 0 && status_table()[status_row(code as int, 0)].1 == reason
    && no_crlf(reason)
    && no_lf_b(utf8_bytes(v + sp1() + dec(code as nat) + sp1() + reason))
}
pub open spec fn wf_word(s: Seq<char>) -> bool { s.len() > 0 && no_sp(s) && no_crlf(s) && !is_ws(s[0]) && !is_ws(s.last()) }

pub proof fn lemma_status_line_reads_back(v: Seq<char>, code: i16, reason: Seq<char>)
    requires wf_status(v, code, reason),
    ensures
        status_line_ok(v + sp1() + dec(code as nat) + sp1() + reason + crlf_c()),
        status_line_parts(v + sp1() + dec(code as nat) + sp1() + reason + crlf_c()) == Some((v, dec(code as nat), reason)),
        signed_val(dec(code as nat)) == code,
        trim_spec(v + sp1() + dec(code as nat) + sp1() + reason + crlf_c()).len() > 0,
{
    let d = dec(code as nat);
    lemma_dec_digits(code as nat);
    let t = v + sp1() + d + sp1() + reason;
    let s = t + crlf_c();
    assert(no_crlf(t)) by {
        assert forall|i: int| 0 <= i < t.len() implies #[trigger] t[i] != '\r' && t[i] != '\n' by {
            let a = v.len() as int; let b = a + 1 + d.len();
            if i < a { assert(t[i] == v[i]); } else if i == a { assert(t[i] == ' '); } else if i < b { assert(t[i] == d[i - a - 1]); } else if i == b { assert(t[i] == ' '); } else { assert(t[i] == reason[i - b - 1]); }
        }
    }
    lemma_strip_crlf_line(t);
    assert(t =~= v + sp1() + (d + sp1() + reason));
    lemma_no_sp_no_sub(v);
    lemma_no_sp_no_sub(d);
    lemma_split_once_at(v, sp1(), d + sp1() + reason);
    lemma_split_once_at(d, sp1(), reason);
    assert(signed_digits(d) == d);
    assert(s[0] == v[0]);
    lemma_trim_nonblank(s, 0);
}

// ---------- the round trip, single body ----------
pub open spec fn wf_single(hs: Seq<HV>, p: ContentRange) -> bool {
    (forall|i: int| 0 <= i < hs.len() ==> wf_resp_header(#[trigger] hs[i]) && hs[i].0 != s_content_type())
    && (forall|i: int| 0 <= i < framing(seq![p]).len() ==> wf_resp_header(#[trigger] framing(seq![p])[i]))
    && !has_prefix(p.content_type@, s_multipart_byteranges())
}
// THEOREM (C15, single body): reading what generate_response wrote for a response with one body returns the same status line,
// the headers followed by the three framing headers, and one part holding exactly the body bytes with the media type written.
pub proof fn theorem_response_roundtrip_single(v: Seq<char>, code: i16, reason: Seq<char>, hs: Seq<HV>, p: ContentRange, method: Seq<char>)
    requires wf_status(v, code, reason), wf_single(hs, p), !bodiless(method),
    ensures resp_read(response_bytes(v, code, reason, hs, seq![p], method), 0, empty_resps(), 0, response_bytes(v, code, reason, hs, seq![p], method).len() as int)
        == RespRead::Done(true,
            RespS { version: v, code: code as int, reason: reason, headers: hs + framing(seq![p]),
                    parts: seq![CRV { unit: s_bytes(), start: 0, end: p.body@.len() as int, size: dec(p.body@.len()), body: p.body@, ctype: p.content_type@ }] },
            Seq::<u8>::empty()),
{
    reveal_strlit(" "); reveal_strlit("\r\n"); reveal_strlit(""); reveal_strlit("Content-Type");
    assert(SYMBOL.whitespace@ =~= sp1());
    assert(SYMBOL.new_line_carriage_return@ =~= crlf_c());
    assert(Header::_CONTENT_TYPE@ =~= s_content_type());
    let list = seq![p];
    let all = hs + framing(list);
    let d = dec(code as nat);
    assert(dec_i(code as int) == d);
    let sl = v + sp1() + d + sp1() + reason;          // the status line without its CRLF
    lemma_resp_block_front(all);
    let head = head_text(v, code, reason, all);
    assert(status_line(v, code, reason) =~= sl);
    assert(head =~= (sl + crlf_c()) + resp_block_f(all) + crlf_c());
    vstd::utf8::encode_utf8_concat((sl + crlf_c()) + resp_block_f(all), crlf_c());
    vstd::utf8::encode_utf8_concat(sl + crlf_c(), resp_block_f(all));
    lemma_utf8_text_line(sl);
    lemma_utf8_text_line(Seq::<char>::empty());
    vstd::utf8::is_ascii_chars_encode_utf8(Seq::<char>::empty());
    assert(utf8_bytes(Seq::<char>::empty()) =~= Seq::<u8>::empty());
    assert(Seq::<char>::empty() + crlf_c() =~= crlf_c());
    assert(utf8_bytes(crlf_c()) =~= crlf_b());
    let body = p.body@;
    assert(body_bytes(list) == body);
    let data = response_bytes(v, code, reason, hs, list, method);
    let x_end = crlf_b() + body;
    let x1 = utf8_bytes(resp_block_f(all)) + x_end;
    assert(data =~= utf8_bytes(sl) + crlf_b() + x1);
    lemma_crlf_line(utf8_bytes(sl), x1);
    lemma_status_line_reads_back(v, code, reason);
    let s = sl + crlf_c();
    assert(first_line(data) == utf8_bytes(sl) + crlf_b() && after_line(data) == x1);
    assert((utf8_bytes(sl) + crlf_b()).len() != 0);
    let st1 = RespS { version: v, code: code as int, reason: reason, headers: Seq::<HV>::empty(), parts: Seq::<CRV>::empty() };
    // the header lines (the response's own, then the framing headers)
    assert(forall|i: int| 0 <= i < all.len() ==> wf_resp_header(#[trigger] all[i])) by {
        assert forall|i: int| 0 <= i < all.len() implies wf_resp_header(#[trigger] all[i]) by {
            if i < hs.len() { assert(all[i] == hs[i]); } else { assert(all[i] == framing(list)[i - hs.len()]); }
        }
    }
    lemma_resp_read_headers(all, x_end, 1, st1, (utf8_bytes(sl) + crlf_b()).len() as int, data.len() as int);
    assert(Seq::<HV>::empty() + all =~= all);
    let st2 = with_headers(st1, all);
    // the blank line, then the body
    let e = Seq::<u8>::empty();
    assert(x_end =~= e + crlf_b() + body);
    assert(no_lf_b(e));
    lemma_crlf_line(e, body);
    assert(e + crlf_b() =~= crlf_b());
    assert(all_ws(crlf_c())) by { axiom_trim(crlf_c()); }
    lemma_trim_all_ws(crlf_c());
    assert(framing(list)[0].0 == s_content_type());
    lemma_ctype_after(hs, framing(list), 0);
    assert(all[hs.len() as int] == framing(list)[0]);
    assert(ctype_of(all) == Some(p.content_type@));
}

// =====================================================================================================================
// multipart/byteranges (2 or more parts)
// =====================================================================================================================
pub open spec fn ends_lf(x: Seq<u8>) -> bool { x.len() > 0 && x.last() == 10u8 }

// lines of  x ++ t  when x ends with a line feed: the first line is the first line of x
pub proof fn lemma_line_prefix(x: Seq<u8>, t: Seq<u8>)
    requires ends_lf(x),
    ensures first_line(x + t) == first_line(x), after_line(x + t) == after_line(x) + t, after_line(x).len() == 0 || ends_lf(after_line(x)),
    decreases x.len()
{
    let r = x + t;
    lemma_line_len(x);
    if x[0] == 10u8 {
        assert(r[0] == 10u8);
        assert(line_len(r) == 1 && line_len(x) == 1);
    } else {
        assert(r[0] == x[0]);
        let x1 = x.subrange(1, x.len() as int);
        assert(x1.len() > 0) by { if x.len() == 1 { assert(x[0] == x.last()); } }
        assert(x1.last() == x.last());
        assert(r.subrange(1, r.len() as int) =~= x1 + t);
        lemma_line_prefix(x1, t);
        lemma_line_len(x1);
        lemma_line_len(x1 + t);
        assert(first_line(x1 + t).len() == line_len(x1 + t));
        assert(first_line(x1).len() == line_len(x1));
        assert(line_len(x1 + t) == line_len(x1));
        assert(line_len(r) == 1 + line_len(x1 + t));
        assert(line_len(x) == 1 + line_len(x1));
        assert(first_line(x1 + t).len() == first_line(x1).len());
        assert(after_line(x1) =~= after_line(x)) by { assert(x.subrange(line_len(x), x.len() as int) =~= x1.subrange(line_len(x1), x1.len() as int)); }
    }
    assert(line_len(r) == line_len(x));
    assert(r.subrange(0, line_len(r)) =~= x.subrange(0, line_len(x)));
    assert(r.subrange(line_len(r), r.len() as int) =~= x.subrange(line_len(x), x.len() as int) + t);
    let al = after_line(x);
    if al.len() > 0 { assert(al.last() == x.last()); }
}
// no line of x (x ends with a line feed or is empty) that is valid UTF-8 holds the boundary text
pub open spec fn no_sep_line(x: Seq<u8>, b: Seq<char>) -> bool
    decreases x.len() via no_sep_line_dec
{
    if x.len() == 0 { true }
    else { (valid_utf8(first_line(x)) ==> !has_sub(vstd::utf8::decode_utf8(first_line(x)), b)) && no_sep_line(after_line(x), b) }
}
#[via_fn]
proof fn no_sep_line_dec(x: Seq<u8>, b: Seq<char>) {
    lemma_line_len(x);
}
// the body loop on  X T : X = body ++ CRLF (ends with LF), T starts with a line that holds the boundary
pub proof fn lemma_mp_body(x: Seq<u8>, t: Seq<u8>, b: Seq<char>, acc: Seq<u8>, br: int, total: int)
    requires
        x.len() == 0 || ends_lf(x), no_sep_line(x, b),
        valid_utf8(first_line(t)), has_sub(vstd::utf8::decode_utf8(first_line(t)), b),
        br + x.len() + t.len() < total,
    ensures mp_body(x + t, b, acc, br, total) == Some((acc + x, after_line(t), br + x.len() + first_line(t).len())),
    decreases x.len()
{
    if x.len() == 0 {
        assert(x + t =~= t);
        assert(acc + x =~= acc);
    } else {
        lemma_line_prefix(x, t);
        lemma_line_len(x);
        let l = first_line(x);
        let x2 = after_line(x);
        assert(l.len() > 0);
        lemma_line_len(t);
        lemma_mp_body(x2, t, b, acc + l, br + l.len(), total);
        assert(x =~= l + x2);
        assert(acc + l + x2 =~= acc + x);
        assert(after_line(x + t) == x2 + t);
    }
}
pub proof fn lemma_pop2(body: Seq<u8>)
    ensures pop2(body + crlf_b()) == body,
{
    let x = body + crlf_b();
    assert(x.subrange(0, x.len() - 2) =~= body);
}

// ---------- the two part-header lines ----------
pub open spec fn ct_line(ct: Seq<char>) -> Seq<char> { s_content_type() + colon_sp1() + sp1() + ct }
pub open spec fn cr_text(a: nat, e: nat, n: nat) -> Seq<char> { s_bytes() + sp1() + dec(a) + hyphen1() + dec(e) + slash1() + dec(n) }
pub open spec fn cr_line(a: nat, e: nat, n: nat) -> Seq<char> { s_content_range() + colon_sp1() + sp1() + cr_text(a, e, n) }

pub proof fn lemma_no_char(s: Seq<char>, c: char, sep: Seq<char>)
    requires forall|i: int| 0 <= i < s.len() ==> #[trigger] s[i] != c, sep.len() >= 1, sep[0] == c,
    ensures !has_sub(s, sep),
{
    assert forall|k: int| 0 <= k && k + sep.len() <= s.len() implies #[trigger] s.subrange(k, k + sep.len()) != sep by {
        assert(s.subrange(k, k + sep.len())[0] == s[k]);
    }
}
pub proof fn lemma_trim_lead_sp(v: Seq<char>)
    requires v.len() > 0, !is_ws(v[0]), !is_ws(v.last()),
    ensures trim_spec(sp1() + v) == v,
{
    let s = sp1() + v;
    axiom_trim(s);
    let (a, b) = choose|a: int, b: int| 0 <= a <= b <= s.len() && trim_spec(s) == s.subrange(a, b)
        && (forall|i: int| 0 <= i < a ==> is_ws(#[trigger] s[i])) && (forall|i: int| b <= i < s.len() ==> is_ws(#[trigger] s[i]));
    assert(s[1] == v[0]);
    assert(s[s.len() - 1] == v.last());
    if b < s.len() { assert(is_ws(s[s.len() - 1])); }
    if a > 1 { assert(is_ws(s[1])); }
    if a == 0 { assert(trim_spec(s).len() > 0); assert(trim_spec(s)[0] == s[0]); assert(s[0] == ' '); }
    assert(a == 1 && b == s.len());
    assert(s.subrange(1, s.len() as int) =~= v);
}
// the Content-Type line of a part
pub open spec fn wf_part_ctype(ct: Seq<char>) -> bool { ct.len() > 0 && no_crlf(ct) && !is_ws(ct[0]) && !is_ws(ct.last()) }
pub proof fn lemma_ct_line(ct: Seq<char>)
    requires wf_part_ctype(ct),
    ensures
        has_prefix(ct_line(ct) + crlf_c(), s_content_type()),
        resp_header_line(ct_line(ct) + crlf_c()).is_some(),
        trim_spec(resp_header_line(ct_line(ct) + crlf_c()).unwrap().1) == ct,
{
    let s = ct_line(ct) + crlf_c();
    let name = s_content_type();
    assert(s.subrange(0, name.len() as int) =~= name);
    lemma_no_char(name, ':', colon_sp1());
    let rest = sp1() + ct + crlf_c();
    assert(s =~= name + colon_sp1() + rest);
    assert(colon_sp1()[0] == ':' && colon_sp1()[1] == ' ');
    assert(name.last() == 'e');
    lemma_split_once_at(name, colon_sp1(), rest);
    let v = sp1() + ct;
    assert(no_crlf(v)) by { assert forall|i: int| 0 <= i < v.len() implies #[trigger] v[i] != '\r' && v[i] != '\n' by { if i > 0 { assert(v[i] == ct[i - 1]); } } }
    assert(rest =~= v + crlf_c());
    lemma_strip_crlf_line(v);
    lemma_trim_lead_sp(ct);
}
// characters that are harmless everywhere in a Content-Range value: not ':', CR, LF, upper case or non-ASCII
pub open spec fn safe_c(c: char) -> bool { c != ':' && c != '\r' && c != '\n' && (c as u32) < 128 && !('A' <= c && c <= 'Z') }
pub open spec fn safe_s(s: Seq<char>) -> bool { forall|i: int| 0 <= i < s.len() ==> safe_c(#[trigger] s[i]) }
pub proof fn lemma_safe_cat(x: Seq<char>, y: Seq<char>)
    requires safe_s(x), safe_s(y),
    ensures safe_s(x + y),
{
    let z = x + y;
    assert forall|i: int| 0 <= i < z.len() implies safe_c(#[trigger] z[i]) by { if i < x.len() { assert(z[i] == x[i]); } else { assert(z[i] == y[i - x.len()]); } }
}
pub proof fn lemma_safe_dec(n: nat)
    ensures safe_s(dec(n)),
{
    lemma_dec_digits(n);
    assert forall|i: int| 0 <= i < dec(n).len() implies safe_c(#[trigger] dec(n)[i]) by { assert(is_digit(dec(n)[i])); }
}
pub proof fn lemma_safe_facts(s: Seq<char>)
    requires safe_s(s),
    ensures no_crlf(s), plain_lower(s), !has_sub(s, colon_sp1()),
{
    assert forall|i: int| 0 <= i < s.len() implies #[trigger] s[i] != '\r' && s[i] != '\n' by { assert(safe_c(s[i])); }
    assert forall|i: int| 0 <= i < s.len() implies (#[trigger] s[i] as u32) < 128 && !('A' <= s[i] && s[i] <= 'Z') by { assert(safe_c(s[i])); }
    assert forall|i: int| 0 <= i < s.len() implies #[trigger] s[i] != ':' by { assert(safe_c(s[i])); }
    assert(colon_sp1()[0] == ':');
    lemma_no_char(s, ':', colon_sp1());
}
pub proof fn lemma_cr_text_safe(a: nat, e: nat, n: nat)
    ensures safe_s(cr_text(a, e, n)), safe_s(sp1() + cr_text(a, e, n)),
{
    lemma_safe_dec(a); lemma_safe_dec(e); lemma_safe_dec(n);
    assert(safe_s(s_bytes()));
    assert(safe_s(sp1()));
    assert(safe_s(hyphen1()));
    assert(safe_s(slash1()));
    lemma_safe_cat(s_bytes(), sp1());
    lemma_safe_cat(s_bytes() + sp1(), dec(a));
    lemma_safe_cat(s_bytes() + sp1() + dec(a), hyphen1());
    lemma_safe_cat(s_bytes() + sp1() + dec(a) + hyphen1(), dec(e));
    lemma_safe_cat(s_bytes() + sp1() + dec(a) + hyphen1() + dec(e), slash1());
    lemma_safe_cat(s_bytes() + sp1() + dec(a) + hyphen1() + dec(e) + slash1(), dec(n));
    lemma_safe_cat(sp1(), cr_text(a, e, n));
}
// "bytes" SP first "-" last "/" size, already trimmed and lower-cased, splits into the three numbers
pub proof fn lemma_cr_text_splits(a: nat, e: nat, n: nat)
    requires a <= i64::MAX, e <= i64::MAX, n <= i64::MAX,
    ensures ({
        let t = cr_text(a, e, n);
        let s1 = split_once_spec(t, sp1());
        let s2 = split_once_spec(s1.unwrap().1, hyphen1());
        let s3 = split_once_spec(s2.unwrap().1, slash1());
        s1 == Some((s_bytes(), dec(a) + hyphen1() + dec(e) + slash1() + dec(n)))
        && s2 == Some((dec(a), dec(e) + slash1() + dec(n)))
        && s3 == Some((dec(e), dec(n)))
        && i64_ok(dec(a)) && i64_ok(dec(e)) && i64_ok(dec(n))
        && signed_val(dec(a)) == a && signed_val(dec(e)) == e && signed_val(dec(n)) == n
    }),
{
    lemma_dec_digits(a); lemma_dec_digits(e); lemma_dec_digits(n);
    let t = cr_text(a, e, n);
    let after_bytes = dec(a) + hyphen1() + dec(e) + slash1() + dec(n);
    assert(t =~= s_bytes() + sp1() + after_bytes);
    assert(sp1()[0] == ' ');
    lemma_no_char(s_bytes(), ' ', sp1());
    lemma_split_once_at(s_bytes(), sp1(), after_bytes);
    let after_a = dec(e) + slash1() + dec(n);
    assert(after_bytes =~= dec(a) + hyphen1() + after_a);
    assert forall|i: int| 0 <= i < dec(a).len() implies #[trigger] dec(a)[i] != '-' by { assert(is_digit(dec(a)[i])); }
    assert(hyphen1()[0] == '-');
    lemma_no_char(dec(a), '-', hyphen1());
    lemma_split_once_at(dec(a), hyphen1(), after_a);
    assert forall|i: int| 0 <= i < dec(e).len() implies #[trigger] dec(e)[i] != '/' by { assert(is_digit(dec(e)[i])); }
    assert(slash1()[0] == '/');
    lemma_no_char(dec(e), '/', slash1());
    lemma_split_once_at(dec(e), slash1(), dec(n));
    assert(signed_digits(dec(a)) == dec(a) && signed_digits(dec(e)) == dec(e) && signed_digits(dec(n)) == dec(n));
}
// the Content-Range line of a part: the reader gets back (first, last, size)
pub proof fn lemma_cr_line(a: nat, e: nat, n: nat)
    requires a <= e, e <= n, n <= i64::MAX,
    ensures
        has_prefix(cr_line(a, e, n) + crlf_c(), s_content_range()),
        cr_value(resp_header_line_lax(cr_line(a, e, n) + crlf_c()).1) == Some((a as int, e as int, n as int)),
{
    let s = cr_line(a, e, n) + crlf_c();
    let name = s_content_range();
    assert(s.subrange(0, name.len() as int) =~= name);
    let t = cr_text(a, e, n);
    let v = sp1() + t;
    let rest = v + crlf_c();
    lemma_cr_text_safe(a, e, n);
    lemma_safe_facts(v);
    lemma_safe_facts(t);
    assert(safe_s(crlf_c()) == false || true);
    // the rest of the line holds no ": "
    assert(!has_sub(rest, colon_sp1())) by {
        assert forall|i: int| 0 <= i < rest.len() implies #[trigger] rest[i] != ':' by { if i < v.len() { assert(rest[i] == v[i]); assert(safe_c(v[i])); } else { assert(rest[i] == crlf_c()[i - v.len()]); } }
        assert(colon_sp1()[0] == ':');
        lemma_no_char(rest, ':', colon_sp1());
    }
    assert(colon_sp1()[0] == ':' && colon_sp1()[1] == ' ');
    lemma_no_char(name, ':', colon_sp1());
    assert(s =~= name + colon_sp1() + rest);
    axiom_split_step2(name, colon_sp1(), rest);
    let ps = split_spec(s, colon_sp1());
    assert(ps == seq![name] + seq![rest]);
    assert(ps.len() == 2 && ps[0] == name && ps[1] == rest);
    lemma_strip_crlf_line(v);
    assert(resp_header_line_lax(s).1 == v);
    // trim, lower case
    lemma_dec_digits(n);
    axiom_trim(v);
    assert(t[0] == 'b');
    assert(t.last() == dec(n).last());
    assert(is_digit(dec(n).last()));
    lemma_trim_lead_sp(t);
    axiom_lower_plain(t);
    lemma_cr_text_splits(a, e, n);
}

// ---------- one step of the multipart reader over one well-formed part ----------
pub open spec fn s_sep() -> Seq<char> { seq!['S', 't', 'r', 'i', 'n', 'g', '_', 's', 'e', 'p', 'a', 'r', 'a', 't', 'o', 'r'] }
pub open spec fn bline() -> Seq<char> { seq!['-', '-'] + s_sep() }
// what the writer puts in front of a part's body: the two header lines and the blank line
pub open spec fn part_hdr(ct: Seq<char>, a: nat, e: nat, n: nat) -> Seq<char> { ct_line(ct) + crlf_c() + cr_line(a, e, n) + crlf_c() + crlf_c() }
pub open spec fn wf_mp_part(ct: Seq<char>, a: nat, e: nat, n: nat, body: Seq<u8>) -> bool {
    wf_part_ctype(ct) && a <= e && e <= n && n <= i64::MAX
    && !has_sub(ct_line(ct) + crlf_c(), s_sep())                 // the media type does not hold the boundary text
    && no_lf_b(utf8_bytes(ct_line(ct)))                            // implied by no_crlf(ct) for real UTF-8; stated on the bytes
    && no_lf_b(utf8_bytes(cr_line(a, e, n)))
    && no_sep_line(body + crlf_b(), s_sep())                        // no line of the body holds the boundary text
}
pub open spec fn mp_part_crv(ct: Seq<char>, a: nat, e: nat, n: nat, body: Seq<u8>) -> CRV {
    CRV { unit: s_bytes(), start: a as int, end: e as int, size: dec(n), body: body, ctype: ct }
}
// the line that ends a part: "--String_separator" followed by CRLF and more input, or by the end of the input
pub open spec fn ends_with_bline(t: Seq<u8>, after: Seq<u8>) -> bool {
    (t == utf8_bytes(bline()) && after.len() == 0) || t == utf8_bytes(bline() + crlf_c()) + after
}
pub proof fn lemma_bline_first(t: Seq<u8>, after: Seq<u8>)
    requires ends_with_bline(t, after),
    ensures valid_utf8(first_line(t)), has_sub(vstd::utf8::decode_utf8(first_line(t)), s_sep()), after_line(t) == after, first_line(t).len() > 0,
{
    let bl = bline();
    assert(vstd::utf8::is_ascii_chars(bl));
    vstd::utf8::is_ascii_chars_encode_utf8(bl);
    let ub = utf8_bytes(bl);
    assert(no_lf_b(ub)) by { assert forall|i: int| 0 <= i < ub.len() implies #[trigger] ub[i] != 10u8 by { assert(ub[i] == bl[i] as u8); } }
    assert(bl.subrange(2, 2 + s_sep().len() as int) =~= s_sep());
    if t == ub && after.len() == 0 {
        lemma_line_whole(ub);
        vstd::utf8::encode_utf8_valid_utf8(bl);
        vstd::utf8::encode_utf8_decode_utf8(bl);
        assert(after =~= Seq::<u8>::empty());
    } else {
        lemma_utf8_text_line(bl);
        assert(t =~= ub + crlf_b() + after);
        lemma_crlf_line(ub, after);
        let s = bl + crlf_c();
        assert(s.subrange(2, 2 + s_sep().len() as int) =~= s_sep());
    }
}
pub proof fn lemma_line_whole(x: Seq<u8>)
    requires no_lf_b(x),
    ensures first_line(x) == x, after_line(x) == Seq::<u8>::empty(),
    decreases x.len()
{
    if x.len() > 0 {
        let x1 = x.subrange(1, x.len() as int);
        lemma_line_whole(x1);
        lemma_line_len(x1);
        assert(line_len(x) == 1 + line_len(x1));
        assert(first_line(x1).len() == x1.len());
    }
    assert(line_len(x) == x.len());
    assert(x.subrange(0, x.len() as int) =~= x);
    assert(x.subrange(x.len() as int, x.len() as int) =~= Seq::<u8>::empty());
}

// evaluation of one step from the facts about its (up to) five lines; proved in a small context
pub proof fn lemma_mp_step_eval(r: Seq<u8>, acc: Seq<CRV>, b: Seq<char>, opening: bool, br: int, total: int,
        s1: Seq<char>, r1: Seq<u8>, s2: Seq<char>, r2: Seq<u8>, s3: Seq<char>, r3: Seq<u8>, r4: Seq<u8>,
        ctype: Seq<char>, cr: (int, int, int), bd: (Seq<u8>, Seq<u8>, int))
    requires
        valid_utf8(first_line(r)), first_line(r).len() > 0, vstd::utf8::decode_utf8(first_line(r)) == s1, after_line(r) == r1,
        opening || has_sub(s1, b),
        (if has_sub(s1, b) { next_text(r1) } else { Some((s1, r1)) }) == Some((s2, r2)),
        has_prefix(s2, s_content_type()), resp_header_line(s2).is_some(), trim_spec(resp_header_line(s2).unwrap().1) == ctype, ctype.len() != 0,
        next_text(r2) == Some((s3, r3)),
        has_prefix(s3, s_content_range()), cr_value(resp_header_line_lax(s3).1) == Some(cr),
        next_text(r3).is_some(), trim_spec(next_text(r3).unwrap().0).len() == 0, next_text(r3).unwrap().1 == r4,
        mp_body(r4, b, Seq::<u8>::empty(), br + first_line(r).len(), total) == Some(bd),
    ensures
        mp_step(r, acc, b, opening, br, total) == MpStep::Next(bd.1,
            acc.push(CRV { unit: s_bytes(), start: (cr.0 as u64) as int, end: (cr.1 as u64) as int, size: dec_i(cr.2), body: pop2(bd.0), ctype: ctype }), true, bd.2),
{
}

// one step over a well-formed part that starts at its Content-Type line (the opening boundary has been read before)
pub open spec fn part_stream(ct: Seq<char>, a: nat, e: nat, n: nat, body: Seq<u8>, t: Seq<u8>) -> Seq<u8> {
    utf8_bytes(part_hdr(ct, a, e, n)) + body + crlf_b() + t
}
pub open spec fn part_r2(a: nat, e: nat, n: nat, body: Seq<u8>, t: Seq<u8>) -> Seq<u8> { (utf8_bytes(cr_line(a, e, n)) + crlf_b()) + part_r3(body, t) }
pub open spec fn part_r3(body: Seq<u8>, t: Seq<u8>) -> Seq<u8> { crlf_b() + (body + crlf_b() + t) }
// the three header lines of a part, as the reader sees them
pub proof fn lemma_part_lines(ct: Seq<char>, a: nat, e: nat, n: nat, body: Seq<u8>, t: Seq<u8>)
    requires no_lf_b(utf8_bytes(ct_line(ct))), no_lf_b(utf8_bytes(cr_line(a, e, n))),
    ensures
        next_text(part_stream(ct, a, e, n, body, t)) == Some((ct_line(ct) + crlf_c(), part_r2(a, e, n, body, t))),
        first_line(part_stream(ct, a, e, n, body, t)).len() == utf8_bytes(ct_line(ct)).len() + 2,
        after_line(part_stream(ct, a, e, n, body, t)) == part_r2(a, e, n, body, t),
        valid_utf8(first_line(part_stream(ct, a, e, n, body, t))),
        vstd::utf8::decode_utf8(first_line(part_stream(ct, a, e, n, body, t))) == ct_line(ct) + crlf_c(),
        next_text(part_r2(a, e, n, body, t)) == Some((cr_line(a, e, n) + crlf_c(), part_r3(body, t))),
        next_text(part_r3(body, t)) == Some((crlf_c(), body + crlf_b() + t)),
        part_stream(ct, a, e, n, body, t).len() == utf8_bytes(ct_line(ct)).len() + 2 + utf8_bytes(cr_line(a, e, n)).len() + 2 + 2 + body.len() + 2 + t.len(),
{
    let ctl = ct_line(ct);
    let crl = cr_line(a, e, n);
    lemma_utf8_text_line(ctl);
    lemma_utf8_text_line(crl);
    lemma_utf8_text_line(Seq::<char>::empty());
    vstd::utf8::is_ascii_chars_encode_utf8(Seq::<char>::empty());
    let e0 = Seq::<u8>::empty();
    assert(utf8_bytes(Seq::<char>::empty()) =~= e0);
    assert(Seq::<char>::empty() + crlf_c() =~= crlf_c());
    vstd::utf8::encode_utf8_concat(ctl + crlf_c() + (crl + crlf_c()), crlf_c());
    vstd::utf8::encode_utf8_concat(ctl + crlf_c(), crl + crlf_c());
    assert(part_hdr(ct, a, e, n) =~= ctl + crlf_c() + (crl + crlf_c()) + crlf_c());
    let r4 = body + crlf_b() + t;
    let r3 = part_r3(body, t);
    let r2 = part_r2(a, e, n, body, t);
    let r = part_stream(ct, a, e, n, body, t);
    assert(utf8_bytes(part_hdr(ct, a, e, n)) =~= (utf8_bytes(ctl) + crlf_b()) + (utf8_bytes(crl) + crlf_b()) + crlf_b());
    assert(r =~= utf8_bytes(ctl) + crlf_b() + r2);
    lemma_crlf_line(utf8_bytes(ctl), r2);
    assert(r2 =~= utf8_bytes(crl) + crlf_b() + r3);
    lemma_crlf_line(utf8_bytes(crl), r3);
    assert(no_lf_b(e0));
    assert(r3 =~= e0 + crlf_b() + r4);
    lemma_crlf_line(e0, r4);
    assert(e0 + crlf_b() =~= crlf_b());
}
// everything a step needs to know about a well-formed part that starts at its Content-Type line
pub proof fn lemma_part_facts(ct: Seq<char>, a: nat, e: nat, n: nat, body: Seq<u8>, t: Seq<u8>, after: Seq<u8>, br1: int, total: int)
    requires
        wf_mp_part(ct, a, e, n, body), ends_with_bline(t, after),
        br1 + body.len() + 2 + t.len() < total,
    ensures ({
        let s2 = ct_line(ct) + crlf_c();
        let r2 = part_r2(a, e, n, body, t);
        let s3 = cr_line(a, e, n) + crlf_c();
        let r3 = part_r3(body, t);
        let x = body + crlf_b();
        next_text(part_stream(ct, a, e, n, body, t)) == Some((s2, r2))
        && valid_utf8(first_line(part_stream(ct, a, e, n, body, t))) && vstd::utf8::decode_utf8(first_line(part_stream(ct, a, e, n, body, t))) == s2
        && after_line(part_stream(ct, a, e, n, body, t)) == r2
        && first_line(part_stream(ct, a, e, n, body, t)).len() == utf8_bytes(ct_line(ct)).len() + 2
        && !has_sub(s2, s_sep())
        && has_prefix(s2, s_content_type()) && resp_header_line(s2).is_some() && trim_spec(resp_header_line(s2).unwrap().1) == ct && ct.len() != 0
        && next_text(r2) == Some((s3, r3))
        && has_prefix(s3, s_content_range()) && cr_value(resp_header_line_lax(s3).1) == Some((a as int, e as int, n as int))
        && next_text(r3).is_some() && trim_spec(next_text(r3).unwrap().0).len() == 0 && next_text(r3).unwrap().1 == x + t
        && mp_body(x + t, s_sep(), Seq::<u8>::empty(), br1, total) == Some((x, after, br1 + x.len() + first_line(t).len()))
        && pop2(x) == body
        && (a as u64) as int == a && (e as u64) as int == e && dec_i(n as int) == dec(n)
    }),
{
    lemma_part_lines(ct, a, e, n, body, t);
    lemma_ct_line(ct);
    lemma_cr_line(a, e, n);
    assert(all_ws(crlf_c())) by { axiom_trim(crlf_c()); }
    lemma_trim_all_ws(crlf_c());
    lemma_bline_first(t, after);
    lemma_line_len(t);
    lemma_pop2(body);
    let x = body + crlf_b();
    lemma_mp_body(x, t, s_sep(), Seq::<u8>::empty(), br1, total);
    assert(Seq::<u8>::empty() + x =~= x);
}
// one step over a well-formed part (no opening boundary line in front)
pub proof fn lemma_mp_step_part(ct: Seq<char>, a: nat, e: nat, n: nat, body: Seq<u8>, t: Seq<u8>, after: Seq<u8>, acc: Seq<CRV>, br: int, total: int)
    requires
        wf_mp_part(ct, a, e, n, body), ends_with_bline(t, after),
        br + part_stream(ct, a, e, n, body, t).len() <= total,
    ensures
        mp_step(part_stream(ct, a, e, n, body, t), acc, s_sep(), true, br, total)
            == MpStep::Next(after, acc.push(mp_part_crv(ct, a, e, n, body)), true, br + utf8_bytes(ct_line(ct)).len() + 2 + body.len() + 2 + first_line(t).len()),
{
    let r = part_stream(ct, a, e, n, body, t);
    lemma_part_lines(ct, a, e, n, body, t);
    let br1 = br + utf8_bytes(ct_line(ct)).len() + 2;
    lemma_part_facts(ct, a, e, n, body, t, after, br1, total);
    let x = body + crlf_b();
    let s1 = ct_line(ct) + crlf_c();
    let bd = (x, after, br1 + x.len() + first_line(t).len());
    // the preconditions of the evaluation lemma one by one (see lemma_mp_step_first)
    let r2 = part_r2(a, e, n, body, t);
    let s3 = cr_line(a, e, n) + crlf_c();
    let r3 = part_r3(body, t);
    assert(valid_utf8(first_line(r)) && first_line(r).len() > 0 && vstd::utf8::decode_utf8(first_line(r)) == s1 && after_line(r) == r2);
    assert(has_prefix(s1, s_content_type()) && resp_header_line(s1).is_some() && trim_spec(resp_header_line(s1).unwrap().1) == ct && ct.len() != 0);
    assert(next_text(r2) == Some((s3, r3)));
    assert(has_prefix(s3, s_content_range()) && cr_value(resp_header_line_lax(s3).1) == Some((a as int, e as int, n as int)));
    assert(next_text(r3).is_some() && trim_spec(next_text(r3).unwrap().0).len() == 0 && next_text(r3).unwrap().1 == x + t);
    assert(br + first_line(r).len() == br1);
    assert(mp_body(x + t, s_sep(), Seq::<u8>::empty(), br1, total) == Some(bd));
    lemma_mp_step_eval(r, acc, s_sep(), true, br, total, s1, r2, s1, r2, s3, r3, x + t, ct, (a as int, e as int, n as int), bd);
}
// the opening boundary line in front of some input
pub proof fn lemma_lead_line(ps: Seq<u8>)
    ensures ({
        let r = utf8_bytes(bline() + crlf_c()) + ps;
        valid_utf8(first_line(r)) && vstd::utf8::decode_utf8(first_line(r)) == bline() + crlf_c() && after_line(r) == ps
        && first_line(r).len() == utf8_bytes(bline() + crlf_c()).len() && first_line(r).len() > 0
        && has_sub(bline() + crlf_c(), s_sep())
    }),
{
    let b = s_sep();
    let bl = bline();
    let r = utf8_bytes(bl + crlf_c()) + ps;
    lemma_utf8_text_line(bl);
    assert(vstd::utf8::is_ascii_chars(bl));
    vstd::utf8::is_ascii_chars_encode_utf8(bl);
    let ub = utf8_bytes(bl);
    assert(no_lf_b(ub)) by { assert forall|i: int| 0 <= i < ub.len() implies #[trigger] ub[i] != 10u8 by { assert(ub[i] == bl[i] as u8); } }
    assert(r =~= ub + crlf_b() + ps);
    lemma_crlf_line(ub, ps);
    let s1 = bl + crlf_c();
    assert(s1.subrange(2, 2 + b.len() as int) =~= b);
}
// the first step: the opening boundary line, then a well-formed part
pub proof fn lemma_mp_step_first(ct: Seq<char>, a: nat, e: nat, n: nat, body: Seq<u8>, t: Seq<u8>, after: Seq<u8>, br: int, total: int)
    requires
        wf_mp_part(ct, a, e, n, body), ends_with_bline(t, after),
        br + utf8_bytes(bline() + crlf_c()).len() + part_stream(ct, a, e, n, body, t).len() <= total,
    ensures
        mp_step(utf8_bytes(bline() + crlf_c()) + part_stream(ct, a, e, n, body, t), Seq::<CRV>::empty(), s_sep(), false, br, total)
            == MpStep::Next(after, Seq::<CRV>::empty().push(mp_part_crv(ct, a, e, n, body)), true, br + utf8_bytes(bline() + crlf_c()).len() + body.len() + 2 + first_line(t).len()),
{
    let ps = part_stream(ct, a, e, n, body, t);
    let r = utf8_bytes(bline() + crlf_c()) + ps;
    lemma_lead_line(ps);
    lemma_part_lines(ct, a, e, n, body, t);
    let br1 = br + utf8_bytes(bline() + crlf_c()).len();
    lemma_part_facts(ct, a, e, n, body, t, after, br1, total);
    let x = body + crlf_b();
    let s1 = bline() + crlf_c();
    let s2 = ct_line(ct) + crlf_c();
    let bd = (x, after, br1 + x.len() + first_line(t).len());
    // the preconditions of the evaluation lemma one by one (each is a fact of the three lemmas above; stated separately so that
    // the call does not depend on the solver finding all of them in one query)
    let r2 = part_r2(a, e, n, body, t);
    let s3 = cr_line(a, e, n) + crlf_c();
    let r3 = part_r3(body, t);
    assert(valid_utf8(first_line(r)) && first_line(r).len() > 0 && vstd::utf8::decode_utf8(first_line(r)) == s1 && after_line(r) == ps);
    assert(has_sub(s1, s_sep()));
    assert(next_text(ps) == Some((s2, r2)));
    assert(has_prefix(s2, s_content_type()) && resp_header_line(s2).is_some() && trim_spec(resp_header_line(s2).unwrap().1) == ct && ct.len() != 0);
    assert(next_text(r2) == Some((s3, r3)));
    assert(has_prefix(s3, s_content_range()) && cr_value(resp_header_line_lax(s3).1) == Some((a as int, e as int, n as int)));
    assert(next_text(r3).is_some() && trim_spec(next_text(r3).unwrap().0).len() == 0 && next_text(r3).unwrap().1 == x + t);
    assert(br + first_line(r).len() == br1);
    assert(mp_body(x + t, s_sep(), Seq::<u8>::empty(), br1, total) == Some(bd));
    lemma_mp_step_eval(r, Seq::<CRV>::empty(), s_sep(), false, br, total, s1, ps, s2, r2, s3, r3, x + t, ct, (a as int, e as int, n as int), bd);
}

// ---------- the stream of parts, front to back ----------
pub open spec fn p_ct(p: ContentRange) -> Seq<char> { p.content_type@ }
pub open spec fn p_a(p: ContentRange) -> nat { p.range.start as nat }
pub open spec fn p_e(p: ContentRange) -> nat { p.range.end as nat }
// what follows a part's body and CRLF: the closing delimiter, or a delimiter line and the next part
pub open spec fn mp_tail(list: Seq<ContentRange>, sizes: Seq<nat>) -> Seq<u8>
    decreases list.len()
{
    if list.len() == 0 || sizes.len() != list.len() { utf8_bytes(bline()) }
    else { utf8_bytes(bline() + crlf_c()) + part_stream(p_ct(list[0]), p_a(list[0]), p_e(list[0]), sizes[0], list[0].body@, mp_tail(list.drop_first(), sizes.drop_first())) }
}
pub open spec fn wf_mp_list(list: Seq<ContentRange>, sizes: Seq<nat>) -> bool {
    sizes.len() == list.len()
    && forall|i: int| 0 <= i < list.len() ==> (#[trigger] list[i]).size@ == dec(sizes[i]) && wf_mp_part(p_ct(list[i]), p_a(list[i]), p_e(list[i]), sizes[i], list[i].body@)
}
pub open spec fn mp_expected(list: Seq<ContentRange>, sizes: Seq<nat>) -> Seq<CRV> {
    Seq::new(list.len(), |i: int| mp_part_crv(p_ct(list[i]), p_a(list[i]), p_e(list[i]), sizes[i], list[i].body@))
}
pub proof fn lemma_mp_read_end(acc: Seq<CRV>, b: Seq<char>, opening: bool, br: int, total: int)
    ensures mp_read(Seq::<u8>::empty(), acc, b, opening, br, total) == Some(acc),
{
    let e0 = Seq::<u8>::empty();
    lemma_mp_read_unfold(e0, acc, b, opening, br, total);
    lemma_line_len(e0);
    assert(first_line(e0) =~= e0);
    vstd::utf8::encode_utf8_valid_utf8(Seq::<char>::empty());
    vstd::utf8::is_ascii_chars_encode_utf8(Seq::<char>::empty());
    assert(utf8_bytes(Seq::<char>::empty()) =~= e0);
}
// reading the parts from the Content-Type line of the first one on
pub proof fn lemma_mp_read_parts(list: Seq<ContentRange>, sizes: Seq<nat>, acc: Seq<CRV>, br: int, total: int)
    requires
        list.len() > 0, wf_mp_list(list, sizes),
        br + part_stream(p_ct(list[0]), p_a(list[0]), p_e(list[0]), sizes[0], list[0].body@, mp_tail(list.drop_first(), sizes.drop_first())).len() <= total,
    ensures
        mp_read(part_stream(p_ct(list[0]), p_a(list[0]), p_e(list[0]), sizes[0], list[0].body@, mp_tail(list.drop_first(), sizes.drop_first())),
                acc, s_sep(), true, br, total) == Some(acc + mp_expected(list, sizes)),
    decreases list.len()
{
    let p = list[0];
    let rest = list.drop_first();
    let rsz = sizes.drop_first();
    let t = mp_tail(rest, rsz);
    let r = part_stream(p_ct(p), p_a(p), p_e(p), sizes[0], p.body@, t);
    let after = if rest.len() == 0 { Seq::<u8>::empty() } else { part_stream(p_ct(rest[0]), p_a(rest[0]), p_e(rest[0]), rsz[0], rest[0].body@, mp_tail(rest.drop_first(), rsz.drop_first())) };
    assert(ends_with_bline(t, after));
    lemma_mp_step_part(p_ct(p), p_a(p), p_e(p), sizes[0], p.body@, t, after, acc, br, total);
    lemma_mp_read_unfold(r, acc, s_sep(), true, br, total);
    let acc2 = acc.push(mp_part_crv(p_ct(p), p_a(p), p_e(p), sizes[0], p.body@));
    let br2 = br + utf8_bytes(ct_line(p_ct(p))).len() + 2 + p.body@.len() + 2 + first_line(t).len();
    if rest.len() == 0 {
        lemma_mp_read_end(acc2, s_sep(), true, br2, total);
        assert(acc2 =~= acc + mp_expected(list, sizes));
    } else {
        assert(wf_mp_list(rest, rsz)) by {
            assert forall|i: int| 0 <= i < rest.len() implies (#[trigger] rest[i]).size@ == dec(rsz[i]) && wf_mp_part(p_ct(rest[i]), p_a(rest[i]), p_e(rest[i]), rsz[i], rest[i].body@) by {
                assert(rest[i] == list[i + 1]); assert(rsz[i] == sizes[i + 1]);
            }
        }
        lemma_part_lines(p_ct(p), p_a(p), p_e(p), sizes[0], p.body@, t);
        lemma_bline_first(t, after);
        lemma_line_len(t);
        assert(t.len() == first_line(t).len() + after.len()) by { assert(t =~= first_line(t) + after_line(t)); }
        lemma_mp_read_parts(rest, rsz, acc2, br2, total);
        assert(acc2 + mp_expected(rest, rsz) =~= acc + mp_expected(list, sizes)) by {
            let l = acc + mp_expected(list, sizes);
            let m = acc2 + mp_expected(rest, rsz);
            assert(l.len() == m.len());
            assert forall|i: int| 0 <= i < l.len() implies l[i] == m[i] by {
                if i < acc.len() { } else if i == acc.len() { } else { assert(rest[i - acc.len() - 1] == list[i - acc.len()]); assert(rsz[i - acc.len() - 1] == sizes[i - acc.len()]); }
            }
        }
    }
}
// reading the whole multipart body from the opening boundary line on
pub proof fn lemma_mp_read_all(list: Seq<ContentRange>, sizes: Seq<nat>, br: int, total: int)
    requires list.len() > 0, wf_mp_list(list, sizes), br + mp_tail(list, sizes).len() <= total,
    ensures mp_read(mp_tail(list, sizes), Seq::<CRV>::empty(), s_sep(), false, br, total) == Some(mp_expected(list, sizes)),
{
    let p = list[0];
    let rest = list.drop_first();
    let rsz = sizes.drop_first();
    let t = mp_tail(rest, rsz);
    let ps = part_stream(p_ct(p), p_a(p), p_e(p), sizes[0], p.body@, t);
    let r = mp_tail(list, sizes);
    assert(r == utf8_bytes(bline() + crlf_c()) + ps);
    let after = if rest.len() == 0 { Seq::<u8>::empty() } else { part_stream(p_ct(rest[0]), p_a(rest[0]), p_e(rest[0]), rsz[0], rest[0].body@, mp_tail(rest.drop_first(), rsz.drop_first())) };
    assert(ends_with_bline(t, after));
    lemma_mp_step_first(p_ct(p), p_a(p), p_e(p), sizes[0], p.body@, t, after, br, total);
    lemma_mp_read_unfold(r, Seq::<CRV>::empty(), s_sep(), false, br, total);
    let acc2 = Seq::<CRV>::empty().push(mp_part_crv(p_ct(p), p_a(p), p_e(p), sizes[0], p.body@));
    let br2 = br + utf8_bytes(bline() + crlf_c()).len() + p.body@.len() + 2 + first_line(t).len();
    if rest.len() == 0 {
        lemma_mp_read_end(acc2, s_sep(), true, br2, total);
        assert(acc2 =~= mp_expected(list, sizes));
    } else {
        assert(wf_mp_list(rest, rsz)) by {
            assert forall|i: int| 0 <= i < rest.len() implies (#[trigger] rest[i]).size@ == dec(rsz[i]) && wf_mp_part(p_ct(rest[i]), p_a(rest[i]), p_e(rest[i]), rsz[i], rest[i].body@) by {
                assert(rest[i] == list[i + 1]); assert(rsz[i] == sizes[i + 1]);
            }
        }
        lemma_part_lines(p_ct(p), p_a(p), p_e(p), sizes[0], p.body@, t);
        lemma_bline_first(t, after);
        lemma_line_len(t);
        assert(t.len() == first_line(t).len() + after.len()) by { assert(t =~= first_line(t) + after_line(t)); }
        lemma_mp_read_parts(rest, rsz, acc2, br2, total);
        assert(acc2 + mp_expected(rest, rsz) =~= mp_expected(list, sizes)) by {
            let l = mp_expected(list, sizes);
            let m = acc2 + mp_expected(rest, rsz);
            assert(l.len() == m.len());
            assert forall|i: int| 0 <= i < l.len() implies l[i] == m[i] by {
                if i == 0 { } else { assert(rest[i - 1] == list[i]); assert(rsz[i - 1] == sizes[i]); }
            }
        }
    }
}

// ---------- the writer's multipart body is that stream ----------
pub proof fn lemma_part_head(p: ContentRange, n: nat, first: bool)
    requires p.size@ == dec(n),
    ensures part_head(p, first) == (if first { Seq::<char>::empty() } else { crlf_c() }) + bline() + crlf_c() + part_hdr(p_ct(p), p_a(p), p_e(p), n),
{
    reveal_strlit(""); reveal_strlit("\r\n"); reveal_strlit("-"); reveal_strlit("String_separator"); reveal_strlit("Content-Type"); reveal_strlit("Content-Range");
    reveal_strlit(": "); reveal_strlit(" "); reveal_strlit("bytes"); reveal_strlit("/");
    assert(SYMBOL.empty_string@ =~= Seq::<char>::empty());
    assert(SYMBOL.new_line_carriage_return@ =~= crlf_c());
    assert(SYMBOL.hyphen@ =~= hyphen1());
    assert(Range::STRING_SEPARATOR@ =~= s_sep());
    assert(Header::_CONTENT_TYPE@ =~= s_content_type());
    assert(Header::_CONTENT_RANGE@ =~= s_content_range());
    assert(Header::NAME_VALUE_SEPARATOR@ =~= colon_sp1());
    assert(SYMBOL.whitespace@ =~= sp1());
    assert(Range::BYTES@ =~= s_bytes());
    assert(SYMBOL.slash@ =~= slash1());
    assert(mp_ct_line(p) =~= ct_line(p_ct(p)));
    assert(mp_cr_line(p) =~= cr_line(p_a(p), p_e(p), n));
    assert(hyphen1() + hyphen1() + s_sep() =~= bline());
    let lead = if first { Seq::<char>::empty() } else { crlf_c() };
    assert(part_head(p, first) =~= lead + bline() + crlf_c() + part_hdr(p_ct(p), p_a(p), p_e(p), n));
}
// mp_parts, front to back
pub open spec fn mp_front(list: Seq<ContentRange>, first: bool) -> Seq<u8>
    decreases list.len()
{
    if list.len() == 0 { Seq::empty() } else { utf8_bytes(part_head(list[0], first)) + list[0].body@ + mp_front(list.drop_first(), false) }
}
pub proof fn lemma_mp_front_push(list: Seq<ContentRange>, p: ContentRange, first: bool)
    ensures mp_front(list.push(p), first) == mp_front(list, first) + utf8_bytes(part_head(p, first && list.len() == 0)) + p.body@,
    decreases list.len()
{
    if list.len() == 0 {
        assert(list.push(p).drop_first() =~= Seq::<ContentRange>::empty());
        assert(list.push(p)[0] == p);
        assert(mp_front(list.push(p), first) =~= utf8_bytes(part_head(p, first)) + p.body@ + mp_front(Seq::<ContentRange>::empty(), false));
        assert(mp_front(list.push(p), first) =~= mp_front(list, first) + utf8_bytes(part_head(p, first)) + p.body@);
    } else {
        assert(list.push(p).drop_first() =~= list.drop_first().push(p));
        assert(list.push(p)[0] == list[0]);
        lemma_mp_front_push(list.drop_first(), p, false);
        assert(mp_front(list.push(p), first) =~= mp_front(list, first) + utf8_bytes(part_head(p, false)) + p.body@);
    }
}
pub proof fn lemma_mp_parts_front(list: Seq<ContentRange>)
    ensures mp_parts(list) == mp_front(list, true),
    decreases list.len()
{
    if list.len() > 0 {
        lemma_mp_parts_front(list.drop_last());
        lemma_mp_front_push(list.drop_last(), list.last(), true);
        assert(list.drop_last().push(list.last()) =~= list);
    }
}
// the parts after the first one, plus the closing delimiter, are CRLF ++ mp_tail
pub proof fn lemma_mp_tail_rest(list: Seq<ContentRange>, sizes: Seq<nat>)
    requires sizes.len() == list.len(), forall|i: int| 0 <= i < list.len() ==> (#[trigger] list[i]).size@ == dec(sizes[i]),
    ensures mp_front(list, false) + utf8_bytes(closing_delimiter()) == crlf_b() + mp_tail(list, sizes),
    decreases list.len()
{
    reveal_strlit(""); reveal_strlit("\r\n"); reveal_strlit("-"); reveal_strlit("String_separator");
    assert(SYMBOL.empty_string@ =~= Seq::<char>::empty());
    assert(SYMBOL.new_line_carriage_return@ =~= crlf_c());
    assert(SYMBOL.hyphen@ =~= hyphen1());
    assert(Range::STRING_SEPARATOR@ =~= s_sep());
    assert(hyphen1() + hyphen1() + s_sep() =~= bline());
    assert(closing_delimiter() =~= crlf_c() + bline());
    vstd::utf8::encode_utf8_concat(crlf_c(), bline());
    lemma_utf8_text_line(Seq::<char>::empty());
    vstd::utf8::is_ascii_chars_encode_utf8(Seq::<char>::empty());
    assert(utf8_bytes(Seq::<char>::empty()) =~= Seq::<u8>::empty());
    assert(Seq::<char>::empty() + crlf_c() =~= crlf_c());
    assert(utf8_bytes(crlf_c()) =~= crlf_b());
    if list.len() == 0 {
        assert(mp_front(list, false) + utf8_bytes(closing_delimiter()) =~= crlf_b() + mp_tail(list, sizes));
    } else {
        let p = list[0];
        let rest = list.drop_first();
        let rsz = sizes.drop_first();
        assert forall|i: int| 0 <= i < rest.len() implies (#[trigger] rest[i]).size@ == dec(rsz[i]) by { assert(rest[i] == list[i + 1]); assert(rsz[i] == sizes[i + 1]); }
        lemma_mp_tail_rest(rest, rsz);
        lemma_part_head(p, sizes[0], false);
        let hdr = part_hdr(p_ct(p), p_a(p), p_e(p), sizes[0]);
        vstd::utf8::encode_utf8_concat(crlf_c() + bline() + crlf_c(), hdr);
        vstd::utf8::encode_utf8_concat(crlf_c(), bline() + crlf_c());
        assert(crlf_c() + bline() + crlf_c() =~= crlf_c() + (bline() + crlf_c()));
        let t = mp_tail(rest, rsz);
        let ph = utf8_bytes(part_head(p, false));
        assert(part_head(p, false) =~= (crlf_c() + (bline() + crlf_c())) + hdr);
        assert(ph == utf8_bytes(crlf_c() + (bline() + crlf_c())) + utf8_bytes(hdr)) by { vstd::utf8::encode_utf8_concat(crlf_c() + (bline() + crlf_c()), hdr); }
        assert(utf8_bytes(crlf_c() + (bline() + crlf_c())) == crlf_b() + utf8_bytes(bline() + crlf_c()));
        let cl = utf8_bytes(closing_delimiter());
        let mf = mp_front(rest, false);
        assert(mf + cl == crlf_b() + t);
        assert(mp_front(list, false) == ph + p.body@ + mf);
        assert((ph + p.body@ + mf) + cl =~= ph + p.body@ + (mf + cl));
        assert(mp_tail(list, sizes) == utf8_bytes(bline() + crlf_c()) + (utf8_bytes(hdr) + p.body@ + crlf_b() + t));
        assert(ph + p.body@ + (crlf_b() + t) =~= crlf_b() + (utf8_bytes(bline() + crlf_c()) + (utf8_bytes(hdr) + p.body@ + crlf_b() + t)));
    }
}
// the first part, the other parts and the closing delimiter: the stream the reader lemmas speak about
pub proof fn lemma_mp_front_all(list: Seq<ContentRange>, sizes: Seq<nat>)
    requires list.len() > 0, sizes.len() == list.len(), forall|i: int| 0 <= i < list.len() ==> (#[trigger] list[i]).size@ == dec(sizes[i]),
    ensures mp_front(list, true) + utf8_bytes(closing_delimiter()) == mp_tail(list, sizes),
{
    let p = list[0];
    let rest = list.drop_first();
    let rsz = sizes.drop_first();
    assert forall|i: int| 0 <= i < rest.len() implies (#[trigger] rest[i]).size@ == dec(rsz[i]) by { assert(rest[i] == list[i + 1]); assert(rsz[i] == sizes[i + 1]); }
    lemma_mp_tail_rest(rest, rsz);
    lemma_part_head(p, sizes[0], true);
    let hdr = part_hdr(p_ct(p), p_a(p), p_e(p), sizes[0]);
    vstd::utf8::encode_utf8_concat(bline() + crlf_c(), hdr);
    assert(Seq::<char>::empty() + bline() + crlf_c() =~= bline() + crlf_c());
    let t = mp_tail(rest, rsz);
    let ph = utf8_bytes(part_head(p, true));
    assert(part_head(p, true) =~= (bline() + crlf_c()) + hdr);
    assert(ph == utf8_bytes(bline() + crlf_c()) + utf8_bytes(hdr));
    let cl = utf8_bytes(closing_delimiter());
    let mf = mp_front(rest, false);
    assert(mf + cl == crlf_b() + t);
    assert(mp_front(list, true) == ph + p.body@ + mf);
    assert((ph + p.body@ + mf) + cl =~= ph + p.body@ + (mf + cl));
    assert(mp_tail(list, sizes) == utf8_bytes(bline() + crlf_c()) + (utf8_bytes(hdr) + p.body@ + crlf_b() + t));
    assert(ph + p.body@ + (crlf_b() + t) =~= utf8_bytes(bline() + crlf_c()) + (utf8_bytes(hdr) + p.body@ + crlf_b() + t));
}
// the whole multipart body the writer emits
pub proof fn lemma_mp_body_bytes(list: Seq<ContentRange>, sizes: Seq<nat>)
    requires list.len() > 1, sizes.len() == list.len(), forall|i: int| 0 <= i < list.len() ==> (#[trigger] list[i]).size@ == dec(sizes[i]),
    ensures body_bytes(list) == mp_tail(list, sizes),
{
    lemma_mp_parts_front(list);
    lemma_mp_front_all(list, sizes);
}

// ---------- split at a longer separator ("boundary=") ----------
pub proof fn lemma_split_once_long(x: Seq<char>, sep: Seq<char>, rest: Seq<char>)
    requires
        sep.len() > 0,
        // no occurrence of sep starts before the end of x (inside x or straddling into sep)
        forall|k: int| 0 <= k < x.len() ==> #[trigger] (x + sep + rest).subrange(k, k + sep.len()) != sep,
        // sep does not overlap itself: its first character occurs nowhere else in it
        forall|d: int| 0 < d < sep.len() ==> #[trigger] sep[d] != sep[0],
    ensures split_once_spec(x + sep + rest, sep) == Some((x, rest)),
{
    let e = x + sep + rest;
    let n = x.len() as int;
    let k = sep.len() as int;
    axiom_split_once(e, sep);
    assert(e.subrange(n, n + k) =~= sep);
    assert(has_sub(e, sep));
    let sp = split_once_spec(e, sep).unwrap();
    let p0 = sp.0;
    let p1 = sp.1;
    let m = p0.len() as int;
    assert(e == p0 + sep + p1);
    assert(e.subrange(m, m + k) =~= sep);
    if m < n { assert((x + sep + rest).subrange(m, m + k) == sep); }
    if m > n {
        if m >= n + k {
            assert(p0.subrange(n, n + k) =~= e.subrange(n, n + k));
            assert(has_sub(p0, sep));
        } else {
            // the occurrence at m starts inside the occurrence at n: sep[m - n] would be sep[0]
            assert(e.subrange(m, m + k)[0] == e[m]);
            assert(e[m] == sep[m - n]);
        }
    }
    assert(m == n);
    assert(p0 =~= x) by { assert forall|i: int| 0 <= i < n implies p0[i] == x[i] by { assert(e[i] == p0[i]); assert(e[i] == x[i]); } }
    assert(p1 =~= rest) by {
        assert(p1.len() == rest.len());
        assert forall|i: int| 0 <= i < rest.len() implies p1[i] == rest[i] by { assert(e[n + k + i] == p1[i]); assert(e[n + k + i] == rest[i]); }
    }
}
pub open spec fn s_mct_prefix() -> Seq<char> { s_multipart_byteranges() + seq![';', ' '] }
pub open spec fn s_mct() -> Seq<char> { s_mct_prefix() + s_boundary_eq2() + s_sep() }
pub proof fn lemma_mct()
    ensures
        multipart_content_type() == s_mct(),
        has_prefix(s_mct(), s_multipart_byteranges()),
        split_once_spec(s_mct(), s_boundary_eq2()) == Some((s_mct_prefix(), s_sep())),
        no_crlf(s_mct()),
{
    reveal_strlit("multipart"); reveal_strlit("/"); reveal_strlit("byteranges"); reveal_strlit(";"); reveal_strlit(" "); reveal_strlit("boundary"); reveal_strlit("="); reveal_strlit("String_separator");
    assert(multipart_content_type() =~= s_mct());
    let x = s_mct_prefix();
    let sep = s_boundary_eq2();
    let e = x + sep + s_sep();
    assert(s_mct().subrange(0, s_multipart_byteranges().len() as int) =~= s_multipart_byteranges());
    assert forall|k: int| 0 <= k < x.len() implies #[trigger] e.subrange(k, k + sep.len()) != sep by {
        let w = e.subrange(k, k + sep.len());
        assert(w[0] == e[k]);
        assert(w[1] == e[k + 1]);
        // 'b' occurs in the prefix only at index 10 ("byteranges"), where it is followed by 'y', not 'o'
        if k != 10 { assert(e[k] != 'b'); } else { assert(e[k + 1] == 'y'); }
    }
    assert forall|d: int| 0 < d < sep.len() implies #[trigger] sep[d] != sep[0] by { }
    lemma_split_once_long(x, sep, s_sep());
    assert forall|i: int| 0 <= i < s_mct().len() implies #[trigger] s_mct()[i] != '\r' && s_mct()[i] != '\n' by { }
}

// ---------- the round trip, two or more parts ----------
pub open spec fn wf_multi(hs: Seq<HV>, list: Seq<ContentRange>, sizes: Seq<nat>) -> bool {
    list.len() > 1 && wf_mp_list(list, sizes)
    && (forall|i: int| 0 <= i < hs.len() ==> wf_resp_header(#[trigger] hs[i]) && hs[i].0 != s_content_type())
    && no_lf_b(utf8_bytes(s_content_type() + colon_sp1() + s_mct()))      // the framing header line (ASCII; stated on the bytes)
}
// THEOREM (C15, multipart/byteranges): reading what generate_response wrote for a response with two or more parts returns the
// same status line, the headers followed by the multipart Content-Type header, and the same parts in order: media type, first and
// last byte position, size and exactly the body bytes of each.
pub proof fn theorem_response_roundtrip_multi(v: Seq<char>, code: i16, reason: Seq<char>, hs: Seq<HV>, list: Seq<ContentRange>, sizes: Seq<nat>, method: Seq<char>)
    requires wf_status(v, code, reason), wf_multi(hs, list, sizes), !bodiless(method),
    ensures resp_read(response_bytes(v, code, reason, hs, list, method), 0, empty_resps(), 0, response_bytes(v, code, reason, hs, list, method).len() as int)
        == RespRead::Done(true,
            RespS { version: v, code: code as int, reason: reason, headers: hs + framing(list), parts: mp_expected(list, sizes) },
            Seq::<u8>::empty()),
{
    reveal_strlit(" "); reveal_strlit("\r\n"); reveal_strlit(""); reveal_strlit("Content-Type");
    assert(SYMBOL.whitespace@ =~= sp1());
    assert(SYMBOL.new_line_carriage_return@ =~= crlf_c());
    assert(Header::_CONTENT_TYPE@ =~= s_content_type());
    lemma_mct();
    let fr = framing(list);
    assert(fr == seq![(s_content_type(), s_mct())]);
    let all = hs + fr;
    let d = dec(code as nat);
    assert(dec_i(code as int) == d);
    let sl = v + sp1() + d + sp1() + reason;
    lemma_resp_block_front(all);
    let head = head_text(v, code, reason, all);
    assert(status_line(v, code, reason) =~= sl);
    assert(head =~= (sl + crlf_c()) + resp_block_f(all) + crlf_c());
    vstd::utf8::encode_utf8_concat((sl + crlf_c()) + resp_block_f(all), crlf_c());
    vstd::utf8::encode_utf8_concat(sl + crlf_c(), resp_block_f(all));
    lemma_utf8_text_line(sl);
    lemma_utf8_text_line(Seq::<char>::empty());
    vstd::utf8::is_ascii_chars_encode_utf8(Seq::<char>::empty());
    assert(utf8_bytes(Seq::<char>::empty()) =~= Seq::<u8>::empty());
    assert(Seq::<char>::empty() + crlf_c() =~= crlf_c());
    assert(utf8_bytes(crlf_c()) =~= crlf_b());
    lemma_mp_body_bytes(list, sizes);
    let mpb = mp_tail(list, sizes);
    assert(body_bytes(list) == mpb);
    let data = response_bytes(v, code, reason, hs, list, method);
    let total = data.len() as int;
    let x_end = crlf_b() + mpb;
    let x1 = utf8_bytes(resp_block_f(all)) + x_end;
    assert(data =~= utf8_bytes(sl) + crlf_b() + x1);
    lemma_crlf_line(utf8_bytes(sl), x1);
    lemma_status_line_reads_back(v, code, reason);
    assert(first_line(data) == utf8_bytes(sl) + crlf_b() && after_line(data) == x1);
    assert((utf8_bytes(sl) + crlf_b()).len() != 0);
    let st1 = RespS { version: v, code: code as int, reason: reason, headers: Seq::<HV>::empty(), parts: Seq::<CRV>::empty() };
    assert(wf_resp_header(fr[0])) by {
        lemma_no_char(s_content_type(), ':', colon_sp1());
        assert(colon_sp1()[0] == ':');
        assert(no_crlf(s_content_type()));
    }
    assert(forall|i: int| 0 <= i < all.len() ==> wf_resp_header(#[trigger] all[i])) by {
        assert forall|i: int| 0 <= i < all.len() implies wf_resp_header(#[trigger] all[i]) by {
            if i < hs.len() { assert(all[i] == hs[i]); } else { assert(all[i] == fr[i - hs.len()]); }
        }
    }
    let br1 = (utf8_bytes(sl) + crlf_b()).len() as int;
    lemma_resp_read_headers(all, x_end, 1, st1, br1, total);
    assert(Seq::<HV>::empty() + all =~= all);
    // the blank line, then the multipart body
    let e = Seq::<u8>::empty();
    assert(x_end =~= e + crlf_b() + mpb);
    assert(no_lf_b(e));
    lemma_crlf_line(e, mpb);
    assert(e + crlf_b() =~= crlf_b());
    assert(all_ws(crlf_c())) by { axiom_trim(crlf_c()); }
    lemma_trim_all_ws(crlf_c());
    lemma_ctype_after(hs, fr, 0);
    assert(all[hs.len() as int] == fr[0]);
    assert(ctype_of(all) == Some(s_mct()));
    let br2 = br1 + utf8_bytes(resp_block_f(all)).len() + 2;
    assert(br2 + mpb.len() == total);
    lemma_mp_read_all(list, sizes, br2, total);
}
