// ===== contracts/spec/names_framing.rs — the framing headers as they must read on the wire (C05, C03, C15) =====
pub proof fn names_framing()
    ensures
        Header::_CONTENT_TYPE@ == "Content-Type"@,
        Header::_CONTENT_LENGTH@ == "Content-Length"@,
        Header::_CONTENT_RANGE@ == "Content-Range"@,
        Header::_RANGE@ == "Range"@,
        Range::BYTES@ == "bytes"@,
        Range::MULTIPART@ == "multipart"@, Range::BYTERANGES@ == "byteranges"@, Range::BOUNDARY@ == "boundary"@,
        Range::STRING_SEPARATOR@ == "String_separator"@,
        Range::MULTIPART_BYTERANGES_CONTENT_TYPE@ == "multipart/byteranges; boundary=String_separator"@,
        METHOD.head@ == "HEAD"@, METHOD.options@ == "OPTIONS"@,
{
}
