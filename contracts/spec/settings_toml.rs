// ===== contracts/spec/settings_toml.rs — property C12: what the documented line shapes of rws.config.toml mean =====
// file_step (settings.rs) follows the reader step by step.  The lemmas here say what it yields on the shapes the documentation
// uses - `key = value` with any padding by spaces, the value bare or in single or double quotes, a trailing `# comment`,
// blank and comment-only lines, the `[cors]` header - for EVERY key, value, padding and comment text of that shape.
pub open spec fn spaces(n: nat) -> Seq<char> { Seq::new(n, |i: int| ' ') }
// printable ASCII other than the space and the characters the reader treats specially
pub open spec fn plain_char(c: char) -> bool {
    '!' <= c && c <= '~' && c != '#' && c != '=' && c != '\'' && c != '"' && c != '[' && c != ']'
}
pub open spec fn plain(s: Seq<char>) -> bool { forall|i: int| 0 <= i < s.len() ==> plain_char(#[trigger] s[i]) }
// a value may hold '=' as well (the line is split at the first one)
pub open spec fn plain_value(s: Seq<char>) -> bool { forall|i: int| 0 <= i < s.len() ==> plain_char(#[trigger] s[i]) || s[i] == '=' }
pub open spec fn quote(q: int) -> Seq<char> { if q == 1 { seq!['\''] } else if q == 2 { seq!['"'] } else { Seq::empty() } }
pub open spec fn toml_body(a: nat, b: nat, c: nat, d: nat, k: Seq<char>, q: int, v: Seq<char>) -> Seq<char> {
    spaces(a) + k + spaces(b) + eqs() + spaces(c) + quote(q) + v + quote(q) + spaces(d)
}
pub open spec fn toml_line(a: nat, b: nat, c: nat, d: nat, k: Seq<char>, q: int, v: Seq<char>, comment: Option<Seq<char>>) -> Seq<char> {
    if comment.is_some() { toml_body(a, b, c, d, k, q, v) + seq!['#'] + comment.unwrap() } else { toml_body(a, b, c, d, k, q, v) }
}
// the word such a line stands for: --[table-]key=value with '_' written as '-' in the key
pub open spec fn toml_word(table: Seq<char>, k: Seq<char>, v: Seq<char>) -> Seq<char> {
    if table.len() == 0 { seq!['-', '-'] + subst_char(k, '_', '-') + eqs() + v } else { seq!['-', '-'] + table + seq!['-'] + subst_char(k, '_', '-') + eqs() + v }
}

// ----- sequences -----
pub proof fn lemma_without_cat(a: Seq<char>, b: Seq<char>, c: char)
    ensures without_char(a + b, c) == without_char(a, c) + without_char(b, c),
    decreases b.len()
{
    if b.len() == 0 {
        assert(a + b =~= a);
        assert(without_char(a, c) + without_char(b, c) =~= without_char(a, c));
    } else {
        assert((a + b).drop_last() =~= a + b.drop_last());
        assert((a + b).last() == b.last());
        lemma_without_cat(a, b.drop_last(), c);
        if b.last() == c {
        } else {
            assert(without_char(a, c) + without_char(b.drop_last(), c).push(b.last()) =~= (without_char(a, c) + without_char(b.drop_last(), c)).push(b.last()));
        }
    }
}
pub proof fn lemma_without_all(s: Seq<char>, c: char)
    requires forall|i: int| 0 <= i < s.len() ==> #[trigger] s[i] == c,
    ensures without_char(s, c) == Seq::<char>::empty(),
    decreases s.len()
{
    if s.len() > 0 { lemma_without_all(s.drop_last(), c); }
}
pub proof fn lemma_without_id(s: Seq<char>, c: char)
    requires no_char(s, c),
    ensures without_char(s, c) == s,
{
    lemma_without_char(s, c, c);
}
pub proof fn lemma_has_sub_char(s: Seq<char>, c: char)
    ensures has_sub(s, seq![c]) <==> !no_char(s, c),
{
    if has_sub(s, seq![c]) {
        let k = choose|k: int| 0 <= k && k + seq![c].len() <= s.len() && #[trigger] s.subrange(k, k + seq![c].len()) == seq![c];
        assert(s.subrange(k, k + 1)[0] == c);
        assert(s[k] == c);
    }
    if !no_char(s, c) {
        let i = choose|i: int| 0 <= i < s.len() && s[i] == c;
        assert(s.subrange(i, i + 1) =~= seq![c]);
        assert(s.subrange(i, i + seq![c].len()) == seq![c]);
    }
}
// the split at the FIRST occurrence, computed
pub proof fn lemma_split_once_first(a: Seq<char>, c: char, b: Seq<char>)
    requires no_char(a, c),
    ensures split_once_spec(a + seq![c] + b, seq![c]) == Some((a, b)),
{
    let s = a + seq![c] + b;
    axiom_split_once(s, seq![c]);
    lemma_has_sub_char(s, c);
    assert(s[a.len() as int] == c);
    let r = split_once_spec(s, seq![c]).unwrap();
    lemma_has_sub_char(r.0, c);
    assert(s == r.0 + seq![c] + r.1);
    // both a and r.0 end right before the first c
    if r.0.len() < a.len() {
        assert((r.0 + seq![c] + r.1)[r.0.len() as int] == c);
        assert(s[r.0.len() as int] == a[r.0.len() as int]);
    } else if r.0.len() > a.len() {
        assert((r.0 + seq![c] + r.1)[a.len() as int] == r.0[a.len() as int]);
    }
    assert(r.0.len() == a.len());
    assert(r.0 =~= s.subrange(0, a.len() as int));
    assert(a =~= s.subrange(0, a.len() as int));
    assert(r.1 =~= s.subrange(a.len() as int + 1, s.len() as int));
    assert(b =~= s.subrange(a.len() as int + 1, s.len() as int));
}
pub proof fn lemma_split_once_none(s: Seq<char>, c: char)
    requires no_char(s, c),
    ensures split_once_spec(s, seq![c]).is_none(),
{
    axiom_split_once(s, seq![c]);
    lemma_has_sub_char(s, c);
}
pub proof fn lemma_no_char_cat(a: Seq<char>, b: Seq<char>, c: char)
    ensures no_char(a + b, c) <==> (no_char(a, c) && no_char(b, c)),
{
    if no_char(a + b, c) {
        assert forall|i: int| 0 <= i < a.len() implies #[trigger] a[i] != c by { assert((a + b)[i] == a[i]); }
        assert forall|i: int| 0 <= i < b.len() implies #[trigger] b[i] != c by { assert((a + b)[a.len() + i] == b[i]); }
    }
    if no_char(a, c) && no_char(b, c) {
        assert forall|i: int| 0 <= i < (a + b).len() implies #[trigger] (a + b)[i] != c by { if i < a.len() { assert((a + b)[i] == a[i]); } else { assert((a + b)[i] == b[i - a.len()]); } }
    }
}

// ----- the body of a line -----
// the body without its spaces
pub open spec fn packed(k: Seq<char>, q: int, v: Seq<char>) -> Seq<char> { k + eqs() + (quote(q) + v + quote(q)) }

pub proof fn lemma_body_no(a: nat, b: nat, c: nat, d: nat, k: Seq<char>, q: int, v: Seq<char>, x: char)
    requires plain(k), plain_value(v), x == '#' || x == '\0',
    ensures no_char(toml_body(a, b, c, d, k, q, v), x),
{
    let body = toml_body(a, b, c, d, k, q, v);
    assert forall|i: int| 0 <= i < body.len() implies #[trigger] body[i] != x by {
        let s1 = spaces(a); let s2 = s1 + k; let s3 = s2 + spaces(b); let s4 = s3 + eqs(); let s5 = s4 + spaces(c); let s6 = s5 + quote(q); let s7 = s6 + v; let s8 = s7 + quote(q);
        assert(body == s8 + spaces(d));
        if i < s1.len() { } else if i < s2.len() { assert(body[i] == k[i - s1.len()]); }
        else if i < s3.len() { } else if i < s4.len() { } else if i < s5.len() { } else if i < s6.len() { }
        else if i < s7.len() { assert(body[i] == v[i - s6.len()]); }
        else if i < s8.len() { } else { }
    }
}
pub proof fn lemma_body_packed(a: nat, b: nat, c: nat, d: nat, k: Seq<char>, q: int, v: Seq<char>)
    requires plain(k), plain_value(v),
    ensures without_char(toml_body(a, b, c, d, k, q, v), ' ') == packed(k, q, v),
{
    let sp = ' ';
    let s1 = spaces(a); let s2 = s1 + k; let s3 = s2 + spaces(b); let s4 = s3 + eqs(); let s5 = s4 + spaces(c); let s6 = s5 + quote(q); let s7 = s6 + v; let s8 = s7 + quote(q);
    lemma_without_all(spaces(a), sp); lemma_without_all(spaces(b), sp); lemma_without_all(spaces(c), sp); lemma_without_all(spaces(d), sp);
    assert(no_char(k, sp)) by { assert forall|i: int| 0 <= i < k.len() implies #[trigger] k[i] != sp by { assert(plain_char(k[i])); } }
    assert(no_char(v, sp)) by { assert forall|i: int| 0 <= i < v.len() implies #[trigger] v[i] != sp by { assert(plain_char(v[i]) || v[i] == '='); } }
    assert(no_char(eqs(), sp)); assert(no_char(quote(q), sp));
    lemma_without_id(k, sp); lemma_without_id(v, sp); lemma_without_id(eqs(), sp); lemma_without_id(quote(q), sp);
    lemma_without_cat(s1, k, sp); lemma_without_cat(s2, spaces(b), sp); lemma_without_cat(s3, eqs(), sp); lemma_without_cat(s4, spaces(c), sp);
    lemma_without_cat(s5, quote(q), sp); lemma_without_cat(s6, v, sp); lemma_without_cat(s7, quote(q), sp); lemma_without_cat(s8, spaces(d), sp);
    assert(without_char(toml_body(a, b, c, d, k, q, v), sp) =~= packed(k, q, v));
}
// trimming first makes no difference: everything that is white space in the body is a space
pub proof fn lemma_body_trim(a: nat, b: nat, c: nat, d: nat, k: Seq<char>, q: int, v: Seq<char>)
    requires plain(k), plain_value(v),
    ensures without_char(trim_spec(toml_body(a, b, c, d, k, q, v)), ' ') == packed(k, q, v),
{
    let body = toml_body(a, b, c, d, k, q, v);
    axiom_trim(body);
    let (lo, hi) = choose|lo: int, hi: int| 0 <= lo <= hi <= body.len() && trim_spec(body) == body.subrange(lo, hi)
        && (forall|i: int| 0 <= i < lo ==> is_ws(#[trigger] body[i])) && (forall|i: int| hi <= i < body.len() ==> is_ws(#[trigger] body[i]));
    // a white-space character of the body is a space
    assert forall|i: int| 0 <= i < body.len() && is_ws(#[trigger] body[i]) implies body[i] == ' ' by {
        let s1 = spaces(a); let s2 = s1 + k; let s3 = s2 + spaces(b); let s4 = s3 + eqs(); let s5 = s4 + spaces(c); let s6 = s5 + quote(q); let s7 = s6 + v; let s8 = s7 + quote(q);
        assert(body == s8 + spaces(d));
        if i < s1.len() { } else if i < s2.len() { assert(body[i] == k[i - s1.len()]); assert(plain_char(k[i - s1.len()])); }
        else if i < s3.len() { } else if i < s4.len() { assert(body[i] == '='); } else if i < s5.len() { }
        else if i < s6.len() { assert(body[i] == quote(q)[i - s5.len()]); }
        else if i < s7.len() { assert(body[i] == v[i - s6.len()]); assert(plain_char(v[i - s6.len()]) || v[i - s6.len()] == '='); }
        else if i < s8.len() { assert(body[i] == quote(q)[i - s7.len()]); } else { }
    }
    let pre = body.subrange(0, lo); let mid = body.subrange(lo, hi); let post = body.subrange(hi, body.len() as int);
    assert(body =~= pre + mid + post);
    lemma_without_all(pre, ' '); lemma_without_all(post, ' ');
    lemma_without_cat(pre, mid, ' '); lemma_without_cat(pre + mid, post, ' ');
    assert(without_char(body, ' ') =~= without_char(mid, ' '));
    lemma_body_packed(a, b, c, d, k, q, v);
}
pub proof fn lemma_clean_quoted(q: int, v: Seq<char>)
    requires plain_value(v), 0 <= q <= 2,
    ensures clean_value(quote(q) + v + quote(q)) == v,
{
    let x = quote(q) + v + quote(q);
    assert(no_char(v, '\'') && no_char(v, '"') && no_char(v, ']') && no_char(v, '[')) by {
        assert forall|i: int| 0 <= i < v.len() implies v[i] != '\'' && v[i] != '"' && v[i] != ']' && #[trigger] v[i] != '[' by { assert(plain_char(v[i]) || v[i] == '='); }
    }
    lemma_without_cat(quote(q), v, '\''); lemma_without_cat(quote(q) + v, quote(q), '\'');
    lemma_without_id(v, '\'');
    let y = without_char(x, '\'');
    if q == 1 {
        lemma_without_all(quote(q), '\'');
        assert(y =~= v);
    } else {
        lemma_without_id(quote(q), '\'');
        assert(y =~= x);
    }
    lemma_without_cat(quote(q), v, '"'); lemma_without_cat(quote(q) + v, quote(q), '"');
    lemma_without_id(v, '"');
    let z = without_char(y, '"');
    if q == 2 { lemma_without_all(quote(q), '"'); }
    assert(z =~= v) by {
        if q == 1 { } else if q == 2 { assert(z =~= Seq::<char>::empty() + v + Seq::<char>::empty()); } else { assert(x =~= v); }
    }
    lemma_without_id(v, ']'); lemma_without_id(v, '[');
}

// ----- THE SHAPES -----
// `  key  =  'value'  # comment`: the step adds exactly the word --[table-]key=value (and leaves the table as it is)
pub proof fn lemma_toml_key_value(st: (Seq<char>, Seq<Seq<char>>), a: nat, b: nat, c: nat, d: nat, k: Seq<char>, q: int, v: Seq<char>, comment: Option<Seq<char>>)
    requires plain(k), k.len() > 0, plain_value(v), 0 <= q <= 2,
    ensures
        file_step(st, toml_line(a, b, c, d, k, q, v, comment)) == (st.0, st.1.push(toml_word(st.0, k, v))),
        nn(toml_body(a, b, c, d, k, q, v)),
{
    let body = toml_body(a, b, c, d, k, q, v);
    let line = toml_line(a, b, c, d, k, q, v, comment);
    lemma_body_no(a, b, c, d, k, q, v, '#');
    lemma_body_no(a, b, c, d, k, q, v, '\0');
    if comment.is_some() { lemma_split_once_first(body, '#', comment.unwrap()); lemma_body_trim(a, b, c, d, k, q, v); }
    else { lemma_split_once_none(body, '#'); lemma_body_packed(a, b, c, d, k, q, v); }
    let ww = squeeze(line);
    assert(ww == packed(k, q, v));
    assert(ww[0] == k[0]); assert(plain_char(k[0]));
    assert(!has_prefix(ww, seq!['['])) by { if has_prefix(ww, seq!['[']) { assert(ww.subrange(0, 1)[0] == '['); } }
    assert(no_char(k, '=')) by { assert forall|i: int| 0 <= i < k.len() implies #[trigger] k[i] != '=' by { assert(plain_char(k[i])); } }
    lemma_split_once_first(k, '=', quote(q) + v + quote(q));
    lemma_clean_quoted(q, v);
}
// a blank line, a line of spaces, a comment-only line: nothing happens
pub proof fn lemma_toml_blank(st: (Seq<char>, Seq<Seq<char>>), a: nat, comment: Option<Seq<char>>)
    ensures file_step(st, if comment.is_some() { spaces(a) + seq!['#'] + comment.unwrap() } else { spaces(a) }) == st,
{
    let body = spaces(a);
    lemma_without_all(body, ' ');
    if comment.is_some() {
        lemma_split_once_first(body, '#', comment.unwrap());
        axiom_trim(body);
        let (lo, hi) = choose|lo: int, hi: int| 0 <= lo <= hi <= body.len() && trim_spec(body) == body.subrange(lo, hi)
            && (forall|i: int| 0 <= i < lo ==> is_ws(#[trigger] body[i])) && (forall|i: int| hi <= i < body.len() ==> is_ws(#[trigger] body[i]));
        lemma_without_all(body.subrange(lo, hi), ' ');
    } else {
        lemma_split_once_none(body, '#');
    }
    let e = Seq::<char>::empty();
    lemma_split_once_none(e, '=');
    assert(!has_prefix(e, seq!['[']));
}
// `[name]` (padded, possibly commented): the table becomes `name`, no word is added
pub proof fn lemma_toml_table(st: (Seq<char>, Seq<Seq<char>>), a: nat, d: nat, name: Seq<char>, comment: Option<Seq<char>>)
    requires plain(name),
    ensures file_step(st, if comment.is_some() { spaces(a) + seq!['['] + name + seq![']'] + spaces(d) + seq!['#'] + comment.unwrap() } else { spaces(a) + seq!['['] + name + seq![']'] + spaces(d) }) == (name, st.1),
{
    let body = spaces(a) + seq!['['] + name + seq![']'] + spaces(d);
    let pk = seq!['['] + name + seq![']'];
    assert forall|i: int| 0 <= i < name.len() implies name[i] != '#' && name[i] != ' ' && name[i] != '=' && name[i] != '[' && #[trigger] name[i] != ']' && !is_ws(name[i]) by { assert(plain_char(name[i])); axiom_trim(name); }
    assert(no_char(name, '#') && no_char(name, ' ') && no_char(name, '=') && no_char(name, '[') && no_char(name, ']'));
    lemma_no_char_cat(spaces(a), seq!['['], '#'); lemma_no_char_cat(spaces(a) + seq!['['], name, '#'); lemma_no_char_cat(spaces(a) + seq!['['] + name, seq![']'], '#');
    lemma_no_char_cat(spaces(a) + seq!['['] + name + seq![']'], spaces(d), '#');
    assert(no_char(body, '#'));
    // without spaces
    lemma_without_all(spaces(a), ' '); lemma_without_all(spaces(d), ' ');
    lemma_no_char_cat(seq!['['], name, ' '); lemma_no_char_cat(seq!['['] + name, seq![']'], ' ');
    lemma_without_id(pk, ' ');
    lemma_without_cat(spaces(a), pk, ' '); lemma_without_cat(spaces(a) + pk, spaces(d), ' ');
    assert(body =~= spaces(a) + pk + spaces(d));
    assert(without_char(body, ' ') =~= pk);
    if comment.is_some() {
        lemma_split_once_first(body, '#', comment.unwrap());
        axiom_trim(body);
        let (lo, hi) = choose|lo: int, hi: int| 0 <= lo <= hi <= body.len() && trim_spec(body) == body.subrange(lo, hi)
            && (forall|i: int| 0 <= i < lo ==> is_ws(#[trigger] body[i])) && (forall|i: int| hi <= i < body.len() ==> is_ws(#[trigger] body[i]));
        assert forall|i: int| 0 <= i < body.len() && is_ws(#[trigger] body[i]) implies body[i] == ' ' by {
            let s1 = spaces(a); let s2 = s1 + seq!['[']; let s3 = s2 + name; let s4 = s3 + seq![']'];
            assert(body == s4 + spaces(d));
            if i < s1.len() { } else if i < s2.len() { assert(body[i] == '['); } else if i < s3.len() { assert(body[i] == name[i - s2.len()]); } else if i < s4.len() { assert(body[i] == ']'); } else { }
        }
        let pre = body.subrange(0, lo); let mid = body.subrange(lo, hi); let post = body.subrange(hi, body.len() as int);
        assert(body =~= pre + mid + post);
        lemma_without_all(pre, ' '); lemma_without_all(post, ' ');
        lemma_without_cat(pre, mid, ' '); lemma_without_cat(pre + mid, post, ' ');
        assert(without_char(body, ' ') =~= without_char(mid, ' '));
    } else {
        lemma_split_once_none(body, '#');
    }
    let line = if comment.is_some() { body + seq!['#'] + comment.unwrap() } else { body };
    assert(squeeze(line) == pk);
    assert(has_prefix(pk, seq!['['])) by { assert(pk.subrange(0, 1) =~= seq!['[']); }
    lemma_no_char_cat(seq!['['], name, '='); lemma_no_char_cat(seq!['['] + name, seq![']'], '=');
    lemma_split_once_none(pk, '=');
    // table_of
    lemma_without_all(seq!['['], '['); lemma_without_id(name, '['); lemma_without_id(seq![']'], '[');
    lemma_without_cat(seq!['['], name, '['); lemma_without_cat(seq!['['] + name, seq![']'], '[');
    assert(without_char(pk, '[') =~= name + seq![']']);
    lemma_without_id(name, ']'); lemma_without_all(seq![']'], ']');
    lemma_without_cat(name, seq![']'], ']');
    assert(table_of(pk) =~= name);
}

// ----- every documented spelling reaches its setting -----
// a command line word `-x=v` / `--long=v`
pub proof fn lemma_spelling_reaches(env: Env, i: int, long: bool, v: Seq<char>)
    requires in_tbl(i),
    ensures apply_arg(env, (if long { s_long(i) } else { s_short(i) }) + eqs() + v) == env.insert(s_var(i), v),
{
    let p = if long { s_long(i) } else { s_short(i) };
    lemma_tbl_no_eq();
    lemma_split_once_first(p, '=', v);
    lemma_first_match_is(p, i);
}
// the TOML key of setting i, in the table the documentation puts it in, any of the documented line shapes
pub proof fn lemma_toml_reaches(env: Env, words: Seq<Seq<char>>, i: int, a: nat, b: nat, c: nat, d: nat, q: int, v: Seq<char>, comment: Option<Seq<char>>)
    requires in_tbl(i), plain_value(v), 0 <= q <= 2,
    ensures
        file_step((s_table(i), words), toml_line(a, b, c, d, s_key(i), q, v, comment)) == (s_table(i), words.push(s_long(i) + eqs() + v)),
        apply_arg(env, s_long(i) + eqs() + v) == env.insert(s_var(i), v),
{
    lemma_tbl_keys_plain();
    lemma_tbl_toml();
    lemma_tbl_rows_toml();
    lemma_toml_key_value((s_table(i), words), a, b, c, d, s_key(i), q, v, comment);
    reveal_strlit(""); reveal_strlit("cors");
    assert(s_table(i).len() == 0 || s_table(i) == "cors"@);
    if s_table(i).len() == 0 {
        assert(seq!['-', '-'] + subst_char(s_key(i), '_', '-') == s_long(i));
    } else {
        assert(seq!['-', '-'] + s_table(i) + seq!['-'] + subst_char(s_key(i), '_', '-') == s_long(i));
    }
    assert(toml_word(s_table(i), s_key(i), v) =~= s_long(i) + eqs() + v);
    lemma_spelling_reaches(env, i, true, v);
}
