// ===== contracts/spec/settings_toml.rs — property C12: what the documented line shapes of rws.config.toml mean =====
// file_step (settings.rs) follows the reader step by step.  The lemmas here say what it yields on the shapes the documentation
// uses - `key = value` with any padding by spaces and tabs, the value bare or in single or double quotes, a trailing `# comment`,
// blank and comment-only lines, the `[cors]` header - for EVERY key, value, padding and comment text of that shape.
// TOML white space: spaces and tabs, in any mix
pub open spec fn blank(s: Seq<char>) -> bool { forall|i: int| 0 <= i < s.len() ==> #[trigger] s[i] == ' ' || s[i] == '\t' }
pub open spec fn unblank(s: Seq<char>) -> Seq<char> { without_char(without_char(s, ' '), '\t') }
// printable ASCII other than the space and the characters the reader treats specially
pub open spec fn plain_char(c: char) -> bool {
    '!' <= c && c <= '~' && c != '#' && c != '=' && c != '\'' && c != '"' && c != '[' && c != ']'
}
pub open spec fn plain(s: Seq<char>) -> bool { forall|i: int| 0 <= i < s.len() ==> plain_char(#[trigger] s[i]) }
// a value may hold '=' as well (the line is split at the first one)
pub open spec fn plain_value(s: Seq<char>) -> bool { forall|i: int| 0 <= i < s.len() ==> plain_char(#[trigger] s[i]) || s[i] == '=' }
pub open spec fn quote(q: int) -> Seq<char> { if q == 1 { seq!['\''] } else if q == 2 { seq!['"'] } else { Seq::empty() } }
pub open spec fn toml_body(a: Seq<char>, b: Seq<char>, c: Seq<char>, d: Seq<char>, k: Seq<char>, q: int, v: Seq<char>) -> Seq<char> {
    a + k + b + eqs() + c + quote(q) + v + quote(q) + d
}
pub open spec fn pads(a: Seq<char>, b: Seq<char>, c: Seq<char>, d: Seq<char>) -> bool { blank(a) && blank(b) && blank(c) && blank(d) }
pub open spec fn toml_line(a: Seq<char>, b: Seq<char>, c: Seq<char>, d: Seq<char>, k: Seq<char>, q: int, v: Seq<char>, comment: Option<Seq<char>>) -> Seq<char> {
    if comment.is_some() { toml_body(a, b, c, d, k, q, v) + seq!['#'] + comment.unwrap() } else { toml_body(a, b, c, d, k, q, v) }
}
// the word such a line stands for: --[table-]key=value with '_' written as '-' in the key
pub open spec fn toml_word(table: Seq<char>, k: Seq<char>, v: Seq<char>) -> Seq<char> {
    if table.len() == 0 { seq!['-', '-'] + subst_char(k, '_', '-') + eqs() + v } else { seq!['-', '-'] + table + seq!['-'] + subst_char(k, '_', '-') + eqs() + v }
}

// ----- sequences -----
pub proof fn lemma_without_cat(a: Seq<char>, b: Seq<char>, c: char)
    ensures without_char(a + b, c) == without_char(a, c) + without_char(b, c),
    decreases b.len()
{
    if b.len() == 0 {
        assert(a + b =~= a);
        assert(without_char(a, c) + without_char(b, c) =~= without_char(a, c));
    } else {
        assert((a + b).drop_last() =~= a + b.drop_last());
        assert((a + b).last() == b.last());
        lemma_without_cat(a, b.drop_last(), c);
        if b.last() == c {
        } else {
            assert(without_char(a, c) + without_char(b.drop_last(), c).push(b.last()) =~= (without_char(a, c) + without_char(b.drop_last(), c)).push(b.last()));
        }
    }
}
pub proof fn lemma_without_all(s: Seq<char>, c: char)
    requires forall|i: int| 0 <= i < s.len() ==> #[trigger] s[i] == c,
    ensures without_char(s, c) == Seq::<char>::empty(),
    decreases s.len()
{
    if s.len() > 0 { lemma_without_all(s.drop_last(), c); }
}
pub proof fn lemma_without_id(s: Seq<char>, c: char)
    requires no_char(s, c),
    ensures without_char(s, c) == s,
{
    lemma_without_char(s, c, c);
}
pub proof fn lemma_has_sub_char(s: Seq<char>, c: char)
    ensures has_sub(s, seq![c]) <==> !no_char(s, c),
{
    if has_sub(s, seq![c]) {
        let k = choose|k: int| 0 <= k && k + seq![c].len() <= s.len() && #[trigger] s.subrange(k, k + seq![c].len()) == seq![c];
        assert(s.subrange(k, k + 1)[0] == c);
        assert(s[k] == c);
    }
    if !no_char(s, c) {
        let i = choose|i: int| 0 <= i < s.len() && s[i] == c;
        assert(s.subrange(i, i + 1) =~= seq![c]);
        assert(s.subrange(i, i + seq![c].len()) == seq![c]);
    }
}
// the split at the FIRST occurrence, computed
pub proof fn lemma_split_once_first(a: Seq<char>, c: char, b: Seq<char>)
    requires no_char(a, c),
    ensures split_once_spec(a + seq![c] + b, seq![c]) == Some((a, b)),
{
    let s = a + seq![c] + b;
    axiom_split_once(s, seq![c]);
    lemma_has_sub_char(s, c);
    assert(s[a.len() as int] == c);
    let r = split_once_spec(s, seq![c]).unwrap();
    lemma_has_sub_char(r.0, c);
    assert(s == r.0 + seq![c] + r.1);
    // both a and r.0 end right before the first c
    if r.0.len() < a.len() {
        assert((r.0 + seq![c] + r.1)[r.0.len() as int] == c);
        assert(s[r.0.len() as int] == a[r.0.len() as int]);
    } else if r.0.len() > a.len() {
        assert((r.0 + seq![c] + r.1)[a.len() as int] == r.0[a.len() as int]);
    }
    assert(r.0.len() == a.len());
    assert(r.0 =~= s.subrange(0, a.len() as int));
    assert(a =~= s.subrange(0, a.len() as int));
    assert(r.1 =~= s.subrange(a.len() as int + 1, s.len() as int));
    assert(b =~= s.subrange(a.len() as int + 1, s.len() as int));
}
pub proof fn lemma_split_once_none(s: Seq<char>, c: char)
    requires no_char(s, c),
    ensures split_once_spec(s, seq![c]).is_none(),
{
    axiom_split_once(s, seq![c]);
    lemma_has_sub_char(s, c);
}
pub proof fn lemma_no_char_cat(a: Seq<char>, b: Seq<char>, c: char)
    ensures no_char(a + b, c) <==> (no_char(a, c) && no_char(b, c)),
{
    if no_char(a + b, c) {
        assert forall|i: int| 0 <= i < a.len() implies #[trigger] a[i] != c by { assert((a + b)[i] == a[i]); }
        assert forall|i: int| 0 <= i < b.len() implies #[trigger] b[i] != c by { assert((a + b)[a.len() + i] == b[i]); }
    }
    if no_char(a, c) && no_char(b, c) {
        assert forall|i: int| 0 <= i < (a + b).len() implies #[trigger] (a + b)[i] != c by { if i < a.len() { assert((a + b)[i] == a[i]); } else { assert((a + b)[i] == b[i - a.len()]); } }
    }
}

// ----- white space -----
pub proof fn lemma_unblank_cat(a: Seq<char>, b: Seq<char>)
    ensures unblank(a + b) == unblank(a) + unblank(b),
{
    lemma_without_cat(a, b, ' ');
    lemma_without_cat(without_char(a, ' '), without_char(b, ' '), '\t');
}
pub proof fn lemma_unblank_blank(s: Seq<char>)
    requires blank(s),
    ensures unblank(s) == Seq::<char>::empty(),
    decreases s.len()
{
    if s.len() > 0 {
        assert(blank(s.drop_last())) by { assert forall|i: int| 0 <= i < s.drop_last().len() implies #[trigger] s.drop_last()[i] == ' ' || s.drop_last()[i] == '\t' by { assert(s.drop_last()[i] == s[i]); } }
        lemma_unblank_blank(s.drop_last());
        assert(s =~= s.drop_last() + seq![s.last()]);
        lemma_unblank_cat(s.drop_last(), seq![s.last()]);
        let l = seq![s.last()];
        assert(l.drop_last() =~= Seq::<char>::empty());
        assert(without_char(l.drop_last(), ' ') =~= Seq::<char>::empty());
        if s.last() == ' ' {
            assert(without_char(l, ' ') =~= Seq::<char>::empty());
        } else {
            assert(s.last() == '\t');
            assert(without_char(l, ' ') =~= l);
            assert(without_char(l.drop_last(), '\t') =~= Seq::<char>::empty());
            assert(without_char(l, '\t') =~= Seq::<char>::empty());
        }
        assert(unblank(l) =~= Seq::<char>::empty());
    }
}
pub proof fn lemma_unblank_id(s: Seq<char>)
    requires no_char(s, ' '), no_char(s, '\t'),
    ensures unblank(s) == s,
{
    lemma_without_id(s, ' ');
    lemma_without_id(s, '\t');
}
// what trim() takes away is white space, and all white space here is blank: trimming first makes no difference
pub proof fn lemma_unblank_trim(x: Seq<char>)
    requires forall|i: int| 0 <= i < x.len() && is_ws(#[trigger] x[i]) ==> x[i] == ' ' || x[i] == '\t',
    ensures unblank(trim_spec(x)) == unblank(x),
{
    axiom_trim(x);
    let (lo, hi) = choose|lo: int, hi: int| 0 <= lo <= hi <= x.len() && trim_spec(x) == x.subrange(lo, hi)
        && (forall|i: int| 0 <= i < lo ==> is_ws(#[trigger] x[i])) && (forall|i: int| hi <= i < x.len() ==> is_ws(#[trigger] x[i]));
    let pre = x.subrange(0, lo); let mid = x.subrange(lo, hi); let post = x.subrange(hi, x.len() as int);
    assert(x =~= pre + mid + post);
    assert(blank(pre)) by { assert forall|i: int| 0 <= i < pre.len() implies #[trigger] pre[i] == ' ' || pre[i] == '\t' by { assert(pre[i] == x[i]); } }
    assert(blank(post)) by { assert forall|i: int| 0 <= i < post.len() implies #[trigger] post[i] == ' ' || post[i] == '\t' by { assert(post[i] == x[hi + i]); } }
    lemma_unblank_blank(pre); lemma_unblank_blank(post);
    lemma_unblank_cat(pre, mid); lemma_unblank_cat(pre + mid, post);
    assert(unblank(x) =~= unblank(mid));
}

// ----- the body of a line -----
// the body without its white space
pub open spec fn packed(k: Seq<char>, q: int, v: Seq<char>) -> Seq<char> { k + eqs() + (quote(q) + v + quote(q)) }
// a character of the body is a blank, a character of the key or the value, '=' or a quote
pub proof fn lemma_body_chars(a: Seq<char>, b: Seq<char>, c: Seq<char>, d: Seq<char>, k: Seq<char>, q: int, v: Seq<char>)
    requires plain(k), plain_value(v), pads(a, b, c, d),
    ensures forall|i: int| 0 <= i < toml_body(a, b, c, d, k, q, v).len() ==> {
        let x = #[trigger] toml_body(a, b, c, d, k, q, v)[i];
        x == ' ' || x == '\t' || plain_char(x) || x == '=' || x == '\'' || x == '"' },
{
    let body = toml_body(a, b, c, d, k, q, v);
    assert forall|i: int| 0 <= i < body.len() implies ({ let x = #[trigger] body[i]; x == ' ' || x == '\t' || plain_char(x) || x == '=' || x == '\'' || x == '"' }) by {
        let s1 = a; let s2 = s1 + k; let s3 = s2 + b; let s4 = s3 + eqs(); let s5 = s4 + c; let s6 = s5 + quote(q); let s7 = s6 + v; let s8 = s7 + quote(q);
        assert(body == s8 + d);
        if i < s1.len() { assert(body[i] == a[i]); } else if i < s2.len() { assert(body[i] == k[i - s1.len()]); }
        else if i < s3.len() { assert(body[i] == b[i - s2.len()]); } else if i < s4.len() { assert(body[i] == '='); }
        else if i < s5.len() { assert(body[i] == c[i - s4.len()]); } else if i < s6.len() { assert(body[i] == quote(q)[i - s5.len()]); }
        else if i < s7.len() { assert(body[i] == v[i - s6.len()]); }
        else if i < s8.len() { assert(body[i] == quote(q)[i - s7.len()]); } else { assert(body[i] == d[i - s8.len()]); }
    }
}
pub proof fn lemma_body_no(a: Seq<char>, b: Seq<char>, c: Seq<char>, d: Seq<char>, k: Seq<char>, q: int, v: Seq<char>, x: char)
    requires plain(k), plain_value(v), pads(a, b, c, d), x == '#' || x == '\0',
    ensures no_char(toml_body(a, b, c, d, k, q, v), x),
{
    lemma_body_chars(a, b, c, d, k, q, v);
}
pub proof fn lemma_body_packed(a: Seq<char>, b: Seq<char>, c: Seq<char>, d: Seq<char>, k: Seq<char>, q: int, v: Seq<char>)
    requires plain(k), plain_value(v), pads(a, b, c, d),
    ensures unblank(toml_body(a, b, c, d, k, q, v)) == packed(k, q, v),
{
    let s1 = a; let s2 = s1 + k; let s3 = s2 + b; let s4 = s3 + eqs(); let s5 = s4 + c; let s6 = s5 + quote(q); let s7 = s6 + v; let s8 = s7 + quote(q);
    lemma_unblank_blank(a); lemma_unblank_blank(b); lemma_unblank_blank(c); lemma_unblank_blank(d);
    assert(no_char(k, ' ') && no_char(k, '\t')) by { assert forall|i: int| 0 <= i < k.len() implies k[i] != ' ' && #[trigger] k[i] != '\t' by { assert(plain_char(k[i])); } }
    assert(no_char(v, ' ') && no_char(v, '\t')) by { assert forall|i: int| 0 <= i < v.len() implies v[i] != ' ' && #[trigger] v[i] != '\t' by { assert(plain_char(v[i]) || v[i] == '='); } }
    assert(no_char(eqs(), ' ') && no_char(eqs(), '\t')); assert(no_char(quote(q), ' ') && no_char(quote(q), '\t'));
    lemma_unblank_id(k); lemma_unblank_id(v); lemma_unblank_id(eqs()); lemma_unblank_id(quote(q));
    lemma_unblank_cat(s1, k); lemma_unblank_cat(s2, b); lemma_unblank_cat(s3, eqs()); lemma_unblank_cat(s4, c);
    lemma_unblank_cat(s5, quote(q)); lemma_unblank_cat(s6, v); lemma_unblank_cat(s7, quote(q)); lemma_unblank_cat(s8, d);
    assert(unblank(toml_body(a, b, c, d, k, q, v)) =~= packed(k, q, v));
}
pub proof fn lemma_body_trim(a: Seq<char>, b: Seq<char>, c: Seq<char>, d: Seq<char>, k: Seq<char>, q: int, v: Seq<char>)
    requires plain(k), plain_value(v), pads(a, b, c, d),
    ensures unblank(trim_spec(toml_body(a, b, c, d, k, q, v))) == packed(k, q, v),
{
    let body = toml_body(a, b, c, d, k, q, v);
    lemma_body_chars(a, b, c, d, k, q, v);
    axiom_trim(body);
    assert forall|i: int| 0 <= i < body.len() && is_ws(#[trigger] body[i]) implies body[i] == ' ' || body[i] == '\t' by { }
    lemma_unblank_trim(body);
    lemma_body_packed(a, b, c, d, k, q, v);
}
pub proof fn lemma_clean_quoted(q: int, v: Seq<char>)
    requires plain_value(v), 0 <= q <= 2,
    ensures clean_value(quote(q) + v + quote(q)) == v,
{
    let x = quote(q) + v + quote(q);
    assert(no_char(v, '\'') && no_char(v, '"') && no_char(v, ']') && no_char(v, '[')) by {
        assert forall|i: int| 0 <= i < v.len() implies v[i] != '\'' && v[i] != '"' && v[i] != ']' && #[trigger] v[i] != '[' by { assert(plain_char(v[i]) || v[i] == '='); }
    }
    lemma_without_cat(quote(q), v, '\''); lemma_without_cat(quote(q) + v, quote(q), '\'');
    lemma_without_id(v, '\'');
    let y = without_char(x, '\'');
    if q == 1 {
        lemma_without_all(quote(q), '\'');
        assert(y =~= v);
    } else {
        lemma_without_id(quote(q), '\'');
        assert(y =~= x);
    }
    lemma_without_cat(quote(q), v, '"'); lemma_without_cat(quote(q) + v, quote(q), '"');
    lemma_without_id(v, '"');
    let z = without_char(y, '"');
    if q == 2 { lemma_without_all(quote(q), '"'); }
    assert(z =~= v) by {
        if q == 1 { } else if q == 2 { assert(z =~= Seq::<char>::empty() + v + Seq::<char>::empty()); } else { assert(x =~= v); }
    }
    lemma_without_id(v, ']'); lemma_without_id(v, '[');
}

// ----- THE SHAPES -----
// `  key  =  'value'  # comment`: the step adds exactly the word --[table-]key=value (and leaves the table as it is)
pub proof fn lemma_toml_key_value(st: (Seq<char>, Seq<Seq<char>>), a: Seq<char>, b: Seq<char>, c: Seq<char>, d: Seq<char>, k: Seq<char>, q: int, v: Seq<char>, comment: Option<Seq<char>>)
    requires plain(k), k.len() > 0, plain_value(v), 0 <= q <= 2, pads(a, b, c, d),
    ensures
        file_step(st, toml_line(a, b, c, d, k, q, v, comment)) == (st.0, st.1.push(toml_word(st.0, k, v))),
        nn(toml_body(a, b, c, d, k, q, v)),
{
    let body = toml_body(a, b, c, d, k, q, v);
    let line = toml_line(a, b, c, d, k, q, v, comment);
    lemma_body_no(a, b, c, d, k, q, v, '#');
    lemma_body_no(a, b, c, d, k, q, v, '\0');
    if comment.is_some() { lemma_split_once_first(body, '#', comment.unwrap()); lemma_body_trim(a, b, c, d, k, q, v); }
    else { lemma_split_once_none(body, '#'); lemma_body_packed(a, b, c, d, k, q, v); }
    let ww = squeeze(line);
    assert(ww == packed(k, q, v));
    assert(ww[0] == k[0]); assert(plain_char(k[0]));
    assert(!has_prefix(ww, seq!['['])) by { if has_prefix(ww, seq!['[']) { assert(ww.subrange(0, 1)[0] == '['); } }
    assert(no_char(k, '=')) by { assert forall|i: int| 0 <= i < k.len() implies #[trigger] k[i] != '=' by { assert(plain_char(k[i])); } }
    lemma_split_once_first(k, '=', quote(q) + v + quote(q));
    lemma_clean_quoted(q, v);
}
// a blank line, a line of white space, a comment-only line: nothing happens
pub proof fn lemma_toml_blank(st: (Seq<char>, Seq<Seq<char>>), a: Seq<char>, comment: Option<Seq<char>>)
    requires blank(a),
    ensures file_step(st, if comment.is_some() { a + seq!['#'] + comment.unwrap() } else { a }) == st,
{
    lemma_unblank_blank(a);
    assert(no_char(a, '#'));
    if comment.is_some() {
        lemma_split_once_first(a, '#', comment.unwrap());
        lemma_unblank_trim(a);
    } else {
        lemma_split_once_none(a, '#');
    }
    let e = Seq::<char>::empty();
    lemma_split_once_none(e, '=');
    assert(!has_prefix(e, seq!['[']));
}
// `[name]` (padded, possibly commented): the table becomes `name`, no word is added
pub proof fn lemma_toml_table(st: (Seq<char>, Seq<Seq<char>>), a: Seq<char>, d: Seq<char>, name: Seq<char>, comment: Option<Seq<char>>)
    requires plain(name), blank(a), blank(d),
    ensures file_step(st, if comment.is_some() { a + seq!['['] + name + seq![']'] + d + seq!['#'] + comment.unwrap() } else { a + seq!['['] + name + seq![']'] + d }) == (name, st.1),
{
    let body = a + seq!['['] + name + seq![']'] + d;
    let pk = seq!['['] + name + seq![']'];
    axiom_trim(name);
    assert forall|i: int| 0 <= i < name.len() implies name[i] != '#' && name[i] != ' ' && name[i] != '\t' && name[i] != '=' && name[i] != '[' && #[trigger] name[i] != ']' && !is_ws(name[i]) by { assert(plain_char(name[i])); }
    assert(no_char(name, '#') && no_char(name, ' ') && no_char(name, '\t') && no_char(name, '=') && no_char(name, '[') && no_char(name, ']'));
    assert(no_char(a, '#') && no_char(d, '#'));
    lemma_no_char_cat(a, seq!['['], '#'); lemma_no_char_cat(a + seq!['['], name, '#'); lemma_no_char_cat(a + seq!['['] + name, seq![']'], '#');
    lemma_no_char_cat(a + seq!['['] + name + seq![']'], d, '#');
    assert(no_char(body, '#'));
    // without white space
    lemma_unblank_blank(a); lemma_unblank_blank(d);
    lemma_no_char_cat(seq!['['], name, ' '); lemma_no_char_cat(seq!['['] + name, seq![']'], ' ');
    lemma_no_char_cat(seq!['['], name, '\t'); lemma_no_char_cat(seq!['['] + name, seq![']'], '\t');
    lemma_unblank_id(pk);
    lemma_unblank_cat(a, pk); lemma_unblank_cat(a + pk, d);
    assert(body =~= a + pk + d);
    assert(unblank(body) =~= pk);
    if comment.is_some() {
        lemma_split_once_first(body, '#', comment.unwrap());
        assert forall|i: int| 0 <= i < body.len() && is_ws(#[trigger] body[i]) implies body[i] == ' ' || body[i] == '\t' by {
            let s1 = a; let s2 = s1 + seq!['[']; let s3 = s2 + name; let s4 = s3 + seq![']'];
            assert(body == s4 + d);
            if i < s1.len() { assert(body[i] == a[i]); } else if i < s2.len() { assert(body[i] == '['); } else if i < s3.len() { assert(body[i] == name[i - s2.len()]); }
            else if i < s4.len() { assert(body[i] == ']'); } else { assert(body[i] == d[i - s4.len()]); }
        }
        lemma_unblank_trim(body);
    } else {
        lemma_split_once_none(body, '#');
    }
    let line = if comment.is_some() { body + seq!['#'] + comment.unwrap() } else { body };
    assert(squeeze(line) == pk);
    assert(has_prefix(pk, seq!['['])) by { assert(pk.subrange(0, 1) =~= seq!['[']); }
    lemma_no_char_cat(seq!['['], name, '='); lemma_no_char_cat(seq!['['] + name, seq![']'], '=');
    lemma_split_once_none(pk, '=');
    // table_of
    lemma_without_all(seq!['['], '['); lemma_without_id(name, '['); lemma_without_id(seq![']'], '[');
    lemma_without_cat(seq!['['], name, '['); lemma_without_cat(seq!['['] + name, seq![']'], '[');
    assert(without_char(pk, '[') =~= name + seq![']']);
    lemma_without_id(name, ']'); lemma_without_all(seq![']'], ']');
    lemma_without_cat(name, seq![']'], ']');
    assert(table_of(pk) =~= name);
}

// ----- every documented spelling reaches its setting -----
// a command line word `-x=v` / `--long=v`
pub proof fn lemma_spelling_reaches(env: Env, i: int, long: bool, v: Seq<char>)
    requires in_tbl(i),
    ensures apply_arg(env, (if long { s_long(i) } else { s_short(i) }) + eqs() + v) == env.insert(s_var(i), v),
{
    let p = if long { s_long(i) } else { s_short(i) };
    lemma_tbl_no_eq();
    lemma_split_once_first(p, '=', v);
    lemma_first_match_is(p, i);
}
// the TOML key of setting i, in the table the documentation puts it in, any of the documented line shapes
pub proof fn lemma_toml_reaches(env: Env, words: Seq<Seq<char>>, i: int, a: Seq<char>, b: Seq<char>, c: Seq<char>, d: Seq<char>, q: int, v: Seq<char>, comment: Option<Seq<char>>)
    requires in_tbl(i), plain_value(v), 0 <= q <= 2, pads(a, b, c, d),
    ensures
        file_step((s_table(i), words), toml_line(a, b, c, d, s_key(i), q, v, comment)) == (s_table(i), words.push(s_long(i) + eqs() + v)),
        apply_arg(env, s_long(i) + eqs() + v) == env.insert(s_var(i), v),
{
    lemma_tbl_keys_plain();
    lemma_tbl_toml();
    lemma_tbl_rows_toml();
    lemma_toml_key_value((s_table(i), words), a, b, c, d, s_key(i), q, v, comment);
    reveal_strlit(""); reveal_strlit("cors");
    assert(s_table(i).len() == 0 || s_table(i) == "cors"@);
    if s_table(i).len() == 0 {
        assert(seq!['-', '-'] + subst_char(s_key(i), '_', '-') == s_long(i));
    } else {
        assert(seq!['-', '-'] + s_table(i) + seq!['-'] + subst_char(s_key(i), '_', '-') == s_long(i));
    }
    assert(toml_word(s_table(i), s_key(i), v) =~= s_long(i) + eqs() + v);
    lemma_spelling_reaches(env, i, true, v);
}

// ----- arrays of strings: `key = ["a", "b"]` stands for the value a,b -----
// what the reader does to the text right of the '=': white space, quotes and brackets go
pub open spec fn strip6(s: Seq<char>) -> Seq<char> { clean_value(unblank(s)) }
pub proof fn lemma_strip6_cat(a: Seq<char>, b: Seq<char>)
    ensures strip6(a + b) == strip6(a) + strip6(b),
{
    lemma_unblank_cat(a, b);
    let a1 = unblank(a); let b1 = unblank(b);
    lemma_without_cat(a1, b1, '\'');
    let a2 = without_char(a1, '\''); let b2 = without_char(b1, '\'');
    lemma_without_cat(a2, b2, '"');
    let a3 = without_char(a2, '"'); let b3 = without_char(b2, '"');
    lemma_without_cat(a3, b3, ']');
    let a4 = without_char(a3, ']'); let b4 = without_char(b3, ']');
    lemma_without_cat(a4, b4, '[');
}
// a text none of whose characters is removed
pub open spec fn kept(s: Seq<char>) -> bool {
    forall|i: int| 0 <= i < s.len() ==> { let c = #[trigger] s[i]; c != ' ' && c != '\t' && c != '\'' && c != '"' && c != ']' && c != '[' }
}
pub proof fn lemma_strip6_kept(s: Seq<char>)
    requires kept(s),
    ensures strip6(s) == s,
{
    assert(no_char(s, ' ') && no_char(s, '\t') && no_char(s, '\'') && no_char(s, '"') && no_char(s, ']') && no_char(s, '['));
    lemma_unblank_id(s);
    lemma_without_id(s, '\''); lemma_without_id(s, '"'); lemma_without_id(s, ']'); lemma_without_id(s, '[');
}
pub proof fn lemma_without_empty(x: char)
    ensures without_char(Seq::<char>::empty(), x) == Seq::<char>::empty(),
{
}
pub proof fn lemma_without_single(c: char, x: char)
    ensures without_char(seq![c], x) == (if c == x { Seq::<char>::empty() } else { seq![c] }),
{
    let l = seq![c];
    assert(l.drop_last() =~= Seq::<char>::empty());
    lemma_without_empty(x);
    assert(l.last() == c);
    if c != x { assert(Seq::<char>::empty().push(c) =~= l); }
}
// a text all of whose characters are removed
pub open spec fn dropped(s: Seq<char>) -> bool {
    forall|i: int| 0 <= i < s.len() ==> { let c = #[trigger] s[i]; c == ' ' || c == '\t' || c == '\'' || c == '"' || c == ']' || c == '[' }
}
pub proof fn lemma_strip6_dropped(s: Seq<char>)
    requires dropped(s),
    ensures strip6(s) == Seq::<char>::empty(),
    decreases s.len()
{
    if s.len() > 0 {
        let t = s.drop_last(); let l = seq![s.last()];
        assert(dropped(t)) by { assert forall|i: int| 0 <= i < t.len() implies ({ let c = #[trigger] t[i]; c == ' ' || c == '\t' || c == '\'' || c == '"' || c == ']' || c == '[' }) by { assert(t[i] == s[i]); } }
        lemma_strip6_dropped(t);
        assert(s =~= t + l);
        lemma_strip6_cat(t, l);
        // one removable character: it survives the removals before its own and falls to its own
        let c = s.last();
        let e = Seq::<char>::empty();
        lemma_without_single(c, ' '); lemma_without_single(c, '\t'); lemma_without_single(c, '\''); lemma_without_single(c, '"'); lemma_without_single(c, ']'); lemma_without_single(c, '[');
        lemma_without_empty(' '); lemma_without_empty('\t'); lemma_without_empty('\''); lemma_without_empty('"'); lemma_without_empty(']'); lemma_without_empty('[');
        assert(strip6(l) =~= e);
    }
}
// the items of an array, quoted with q, separated by a comma with white space a before and b after it
pub open spec fn list_items(xs: Seq<Seq<char>>, q: int, a: Seq<char>, b: Seq<char>) -> Seq<char>
    decreases xs.len()
{
    if xs.len() == 0 { Seq::empty() }
    else if xs.len() == 1 { quote(q) + xs[0] + quote(q) }
    else { list_items(xs.drop_last(), q, a, b) + a + seq![','] + b + (quote(q) + xs.last() + quote(q)) }
}
pub open spec fn all_kept(xs: Seq<Seq<char>>) -> bool { forall|i: int| 0 <= i < xs.len() ==> kept(#[trigger] xs[i]) }
pub proof fn lemma_strip6_item(q: int, x: Seq<char>)
    requires kept(x), 0 <= q <= 2,
    ensures strip6(quote(q) + x + quote(q)) == x,
{
    assert(dropped(quote(q)));
    lemma_strip6_dropped(quote(q)); lemma_strip6_kept(x);
    lemma_strip6_cat(quote(q), x); lemma_strip6_cat(quote(q) + x, quote(q));
    assert(Seq::<char>::empty() + x + Seq::<char>::empty() =~= x);
}
pub proof fn lemma_strip6_list(xs: Seq<Seq<char>>, q: int, a: Seq<char>, b: Seq<char>)
    requires all_kept(xs), 0 <= q <= 2, blank(a), blank(b),
    ensures strip6(list_items(xs, q, a, b)) == join_spec(xs, seq![',']),
    decreases xs.len()
{
    if xs.len() == 0 {
        lemma_strip6_dropped(Seq::<char>::empty());
    } else if xs.len() == 1 {
        lemma_strip6_item(q, xs[0]);
    } else {
        let rest = xs.drop_last();
        assert(all_kept(rest)) by { assert forall|i: int| 0 <= i < rest.len() implies kept(#[trigger] rest[i]) by { assert(rest[i] == xs[i]); } }
        lemma_strip6_list(rest, q, a, b);
        let p = list_items(rest, q, a, b);
        let item = quote(q) + xs.last() + quote(q);
        assert(dropped(a) && dropped(b));
        lemma_strip6_dropped(a); lemma_strip6_dropped(b);
        assert(kept(seq![','])); lemma_strip6_kept(seq![',']);
        lemma_strip6_item(q, xs.last());
        lemma_strip6_cat(p, a); lemma_strip6_cat(p + a, seq![',']); lemma_strip6_cat(p + a + seq![','], b); lemma_strip6_cat(p + a + seq![','] + b, item);
        assert(strip6(list_items(xs, q, a, b)) =~= join_spec(rest, seq![',']) + seq![','] + xs.last());
    }
}
// `key = <any value text>`: the word carries the value text with white space, quotes and brackets removed
pub proof fn lemma_toml_key_anyvalue(st: (Seq<char>, Seq<Seq<char>>), a: Seq<char>, b: Seq<char>, k: Seq<char>, w: Seq<char>, comment: Option<Seq<char>>)
    requires
        plain(k), k.len() > 0, blank(a), blank(b), no_char(w, '#'),
        forall|i: int| 0 <= i < w.len() && is_ws(#[trigger] w[i]) ==> w[i] == ' ' || w[i] == '\t',
    ensures
        file_step(st, if comment.is_some() { a + k + b + eqs() + w + seq!['#'] + comment.unwrap() } else { a + k + b + eqs() + w })
            == (st.0, st.1.push(toml_word(st.0, k, strip6(w)))),
{
    let body = a + k + b + eqs() + w;
    axiom_trim(body);
    assert forall|i: int| 0 <= i < k.len() implies k[i] != '#' && k[i] != ' ' && k[i] != '\t' && k[i] != '=' && #[trigger] k[i] != '[' && !is_ws(k[i]) by { assert(plain_char(k[i])); }
    assert(no_char(k, '#') && no_char(k, ' ') && no_char(k, '\t') && no_char(k, '='));
    assert(no_char(a, '#') && no_char(b, '#') && no_char(eqs(), '#'));
    lemma_no_char_cat(a, k, '#'); lemma_no_char_cat(a + k, b, '#'); lemma_no_char_cat(a + k + b, eqs(), '#'); lemma_no_char_cat(a + k + b + eqs(), w, '#');
    assert(no_char(body, '#'));
    // without white space
    lemma_unblank_blank(a); lemma_unblank_blank(b); lemma_unblank_id(k);
    assert(no_char(eqs(), ' ') && no_char(eqs(), '\t')); lemma_unblank_id(eqs());
    lemma_unblank_cat(a, k); lemma_unblank_cat(a + k, b); lemma_unblank_cat(a + k + b, eqs()); lemma_unblank_cat(a + k + b + eqs(), w);
    assert(unblank(body) =~= k + eqs() + unblank(w));
    if comment.is_some() {
        lemma_split_once_first(body, '#', comment.unwrap());
        assert forall|i: int| 0 <= i < body.len() && is_ws(#[trigger] body[i]) implies body[i] == ' ' || body[i] == '\t' by {
            let s1 = a; let s2 = s1 + k; let s3 = s2 + b; let s4 = s3 + eqs();
            assert(body == s4 + w);
            if i < s1.len() { assert(body[i] == a[i]); } else if i < s2.len() { assert(body[i] == k[i - s1.len()]); } else if i < s3.len() { assert(body[i] == b[i - s2.len()]); }
            else if i < s4.len() { assert(body[i] == '='); } else { assert(body[i] == w[i - s4.len()]); }
        }
        lemma_unblank_trim(body);
    } else {
        lemma_split_once_none(body, '#');
    }
    let line = if comment.is_some() { body + seq!['#'] + comment.unwrap() } else { body };
    let ww = squeeze(line);
    assert(ww == k + eqs() + unblank(w));
    assert(ww[0] == k[0]);
    assert(!has_prefix(ww, seq!['['])) by { if has_prefix(ww, seq!['[']) { assert(ww.subrange(0, 1)[0] == '['); } }
    lemma_split_once_first(k, '=', unblank(w));
}
// the documented array form for the list settings: key = [ "a" , "b" ] (any quotes, any white space) gives the value a,b
pub proof fn lemma_toml_list(st: (Seq<char>, Seq<Seq<char>>), a: Seq<char>, b: Seq<char>, c: Seq<char>, d: Seq<char>, e: Seq<char>, f: Seq<char>, k: Seq<char>, q: int, xs: Seq<Seq<char>>, comment: Option<Seq<char>>)
    requires
        plain(k), k.len() > 0, blank(a), blank(b), blank(c), blank(d), blank(e), blank(f), 0 <= q <= 2, all_kept(xs),
        forall|i: int, j: int| 0 <= i < xs.len() && 0 <= j < xs[i].len() ==> '!' <= #[trigger] xs[i][j] <= '~' && xs[i][j] != '#',
    ensures ({
        let w = c + seq!['['] + d + list_items(xs, q, e, f) + d + seq![']'] + c;
        file_step(st, if comment.is_some() { a + k + b + eqs() + w + seq!['#'] + comment.unwrap() } else { a + k + b + eqs() + w })
            == (st.0, st.1.push(toml_word(st.0, k, join_spec(xs, seq![',']))))
    }),
{
    let items = list_items(xs, q, e, f);
    let w = c + seq!['['] + d + items + d + seq![']'] + c;
    lemma_list_chars(xs, q, e, f);
    axiom_trim(w);
    // characters of w: blanks, brackets, or characters of the items text
    assert forall|i: int| 0 <= i < w.len() implies #[trigger] w[i] != '#' && (is_ws(w[i]) ==> w[i] == ' ' || w[i] == '\t') by {
        let s1 = c; let s2 = s1 + seq!['[']; let s3 = s2 + d; let s4 = s3 + items; let s5 = s4 + d; let s6 = s5 + seq![']'];
        assert(w == s6 + c);
        if i < s1.len() { assert(w[i] == c[i]); } else if i < s2.len() { assert(w[i] == '['); } else if i < s3.len() { assert(w[i] == d[i - s2.len()]); }
        else if i < s4.len() { assert(w[i] == items[i - s3.len()]); } else if i < s5.len() { assert(w[i] == d[i - s4.len()]); }
        else if i < s6.len() { assert(w[i] == ']'); } else { assert(w[i] == c[i - s6.len()]); }
    }
    assert(no_char(w, '#'));
    lemma_toml_key_anyvalue(st, a, b, k, w, comment);
    // strip6(w) == join
    assert(dropped(c) && dropped(d) && dropped(seq!['[']) && dropped(seq![']']));
    lemma_strip6_dropped(c); lemma_strip6_dropped(d); lemma_strip6_dropped(seq!['[']); lemma_strip6_dropped(seq![']']);
    lemma_strip6_list(xs, q, e, f);
    lemma_strip6_cat(c, seq!['[']); lemma_strip6_cat(c + seq!['['], d); lemma_strip6_cat(c + seq!['['] + d, items);
    lemma_strip6_cat(c + seq!['['] + d + items, d); lemma_strip6_cat(c + seq!['['] + d + items + d, seq![']']); lemma_strip6_cat(c + seq!['['] + d + items + d + seq![']'], c);
    assert(strip6(w) =~= join_spec(xs, seq![',']));
}
// a character of the items text is a blank, a quote, a comma or a character of an item
pub proof fn lemma_list_chars(xs: Seq<Seq<char>>, q: int, a: Seq<char>, b: Seq<char>)
    requires
        blank(a), blank(b), 0 <= q <= 2,
        forall|i: int, j: int| 0 <= i < xs.len() && 0 <= j < xs[i].len() ==> '!' <= #[trigger] xs[i][j] <= '~' && xs[i][j] != '#',
    ensures forall|n: int| 0 <= n < list_items(xs, q, a, b).len() ==> { let x = #[trigger] list_items(xs, q, a, b)[n]; x == ' ' || x == '\t' || ('!' <= x <= '~' && x != '#') },
    decreases xs.len()
{
    let t = list_items(xs, q, a, b);
    if xs.len() == 0 {
    } else {
        let item = quote(q) + xs.last() + quote(q);
        assert forall|n: int| 0 <= n < item.len() implies ({ let x = #[trigger] item[n]; '!' <= x <= '~' && x != '#' }) by {
            let s1 = quote(q); let s2 = s1 + xs.last();
            if n < s1.len() { assert(item[n] == quote(q)[n]); } else if n < s2.len() { assert(item[n] == xs.last()[n - s1.len()]); assert(xs[xs.len() - 1][n - s1.len()] == xs.last()[n - s1.len()]); } else { assert(item[n] == quote(q)[n - s2.len()]); }
        }
        if xs.len() == 1 {
            assert(xs[0] == xs.last());
            assert(t == item);
        } else {
            let rest = xs.drop_last();
            assert forall|i: int, j: int| 0 <= i < rest.len() && 0 <= j < rest[i].len() implies '!' <= #[trigger] rest[i][j] <= '~' && rest[i][j] != '#' by { assert(rest[i] == xs[i]); assert(xs[i][j] == rest[i][j]); }
            lemma_list_chars(rest, q, a, b);
            let p = list_items(rest, q, a, b);
            assert forall|n: int| 0 <= n < t.len() implies ({ let x = #[trigger] t[n]; x == ' ' || x == '\t' || ('!' <= x <= '~' && x != '#') }) by {
                let s1 = p; let s2 = s1 + a; let s3 = s2 + seq![',']; let s4 = s3 + b;
                assert(t == s4 + item);
                if n < s1.len() { assert(t[n] == p[n]); } else if n < s2.len() { assert(t[n] == a[n - s1.len()]); } else if n < s3.len() { assert(t[n] == ','); }
                else if n < s4.len() { assert(t[n] == b[n - s3.len()]); } else { assert(t[n] == item[n - s4.len()]); }
            }
        }
    }
}
// ... and for the documented key of setting i in its documented table that word is `--long=a,b`, which sets variable i to a,b
pub proof fn lemma_toml_list_reaches(env: Env, words: Seq<Seq<char>>, i: int, a: Seq<char>, b: Seq<char>, c: Seq<char>, d: Seq<char>, e: Seq<char>, f: Seq<char>, q: int, xs: Seq<Seq<char>>, comment: Option<Seq<char>>)
    requires
        in_tbl(i), blank(a), blank(b), blank(c), blank(d), blank(e), blank(f), 0 <= q <= 2, all_kept(xs),
        forall|i: int, j: int| 0 <= i < xs.len() && 0 <= j < xs[i].len() ==> '!' <= #[trigger] xs[i][j] <= '~' && xs[i][j] != '#',
    ensures ({
        let w = c + seq!['['] + d + list_items(xs, q, e, f) + d + seq![']'] + c;
        let v = join_spec(xs, seq![',']);
        &&& file_step((s_table(i), words), if comment.is_some() { a + s_key(i) + b + eqs() + w + seq!['#'] + comment.unwrap() } else { a + s_key(i) + b + eqs() + w })
            == (s_table(i), words.push(s_long(i) + eqs() + v))
        &&& apply_arg(env, s_long(i) + eqs() + v) == env.insert(s_var(i), v)
    }),
{
    let v = join_spec(xs, seq![',']);
    lemma_tbl_keys_plain();
    lemma_tbl_toml();
    lemma_tbl_rows_toml();
    lemma_toml_list((s_table(i), words), a, b, c, d, e, f, s_key(i), q, xs, comment);
    reveal_strlit(""); reveal_strlit("cors");
    assert(s_table(i).len() == 0 || s_table(i) == "cors"@);
    if s_table(i).len() == 0 {
        assert(seq!['-', '-'] + subst_char(s_key(i), '_', '-') == s_long(i));
    } else {
        assert(seq!['-', '-'] + s_table(i) + seq!['-'] + subst_char(s_key(i), '_', '-') == s_long(i));
    }
    assert(toml_word(s_table(i), s_key(i), v) =~= s_long(i) + eqs() + v);
    lemma_spelling_reaches(env, i, true, v);
}
