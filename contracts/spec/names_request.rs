// ===== contracts/spec/names_request.rs — request methods and protocol versions as they must read on the wire (RFC 9110 / 9112; C14) =====
pub proof fn names_request()
    ensures
        METHOD.get@ == "GET"@, METHOD.head@ == "HEAD"@, METHOD.post@ == "POST"@, METHOD.put@ == "PUT"@, METHOD.delete@ == "DELETE"@,
        METHOD.connect@ == "CONNECT"@, METHOD.options@ == "OPTIONS"@, METHOD.trace@ == "TRACE"@, METHOD.patch@ == "PATCH"@,
        VERSION.http_0_9@ == "HTTP/0.9"@, VERSION.http_1_0@ == "HTTP/1.0"@, VERSION.http_1_1@ == "HTTP/1.1"@, VERSION.http_2_0@ == "HTTP/2.0"@,
{
}
