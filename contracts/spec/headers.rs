// ===== the fixed response headers (property C10) as mathematics =====
pub open spec fn comma_sp() -> Seq<char> { seq![',', ' '] }

pub open spec fn ch_names() -> Seq<Seq<char>> {
    seq![
        ClientHint::USER_AGENT_CPU_ARCHITECTURE@, ClientHint::USER_AGENT_CPU_BITNESS@, ClientHint::USER_AGENT_FULL_BRAND_INFORMATION@,
        ClientHint::USER_AGENT_DEVICE_MODEL@, ClientHint::USER_AGENT_OPERATING_SYSTEM_VERSION@, ClientHint::NETWORK_DOWNLOAD_SPEED@,
        ClientHint::NETWORK_EFFECTIVE_CONNECTION_TYPE@, ClientHint::NETWORK_ROUND_TRIP_TIME@, ClientHint::NETWORK_SAVE_DATA@,
        ClientHint::DEVICE_MEMORY@, ClientHint::PREFERS_REDUCED_MOTION@, ClientHint::PREFERS_COLOR_SCHEME@,
    ]
}
pub open spec fn ch_list() -> Seq<char> { join_spec(ch_names(), comma_sp()) }

pub open spec fn ch_vary_names() -> Seq<Seq<char>> {
    seq![
        ClientHint::USER_AGENT_CPU_ARCHITECTURE@, ClientHint::USER_AGENT_CPU_BITNESS@, ClientHint::USER_AGENT_FULL_BRAND_INFORMATION@,
        ClientHint::USER_AGENT_DEVICE_MODEL@, ClientHint::USER_AGENT_OPERATING_SYSTEM_VERSION@, ClientHint::NETWORK_SAVE_DATA@,
        ClientHint::DEVICE_MEMORY@, Header::_UPGRADE_INSECURE_REQUESTS@, ClientHint::PREFERS_REDUCED_MOTION@, ClientHint::PREFERS_COLOR_SCHEME@,
    ]
}
pub open spec fn ch_vary() -> Seq<char> { join_spec(ch_vary_names(), comma_sp()) }

// Vary: Origin, <client hint names>
pub open spec fn vary_spec() -> Seq<char> { Header::_ORIGIN@ + comma_sp() + ch_vary() }

pub open spec fn fixed_headers(now: u128) -> Seq<HV> {
    seq![
        (ClientHint::ACCEPT_CLIENT_HINTS@, ch_list()),
        (ClientHint::CRITICAL_CLIENT_HINTS@, ch_list()),
        (Header::_VARY@, vary_spec()),
        (Header::_X_CONTENT_TYPE_OPTIONS@, Header::_X_CONTENT_TYPE_OPTIONS_VALUE_NOSNIFF@),
        (Header::_ACCEPT_RANGES@, Range::BYTES@),
        (Header::_X_FRAME_OPTIONS@, Header::_X_FRAME_OPTIONS_VALUE_SAME_ORIGIN@),
        (Header::_DATE_UNIX_EPOCH_NANOS@, dec(now as nat)),
        (Header::_CACHE_CONTROL@, Header::_DO_NOT_STORE_CACHE@),
    ]
}
