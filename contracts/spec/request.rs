// ===== HTTP request text as mathematics (RFC 9112 section 3) =====
pub open spec fn methods() -> Seq<Seq<char>> {
    seq![METHOD.get@, METHOD.head@, METHOD.post@, METHOD.put@, METHOD.delete@, METHOD.connect@, METHOD.options@, METHOD.trace@, METHOD.patch@]
}
pub open spec fn versions() -> Seq<Seq<char>> { seq![VERSION.http_0_9@, VERSION.http_1_0@, VERSION.http_1_1@, VERSION.http_2_0@] }
pub open spec fn sp1() -> Seq<char> { seq![' '] }
pub open spec fn colon_sp1() -> Seq<char> { seq![':', ' '] }

// method SP request-target SP HTTP-version, read off the trimmed line at the first and second space
pub open spec fn request_line_parts(line: Seq<char>) -> Option<(Seq<char>, Seq<char>, Seq<char>)> {
    let t = trim_spec(line);
    let s1 = split_once_spec(t, sp1());
    if s1.is_none() { None } else {
        let s2 = split_once_spec(s1.unwrap().1, sp1());
        if s2.is_none() { None } else { Some((s1.unwrap().0, s2.unwrap().0, s2.unwrap().1)) }
    }
}
pub open spec fn request_line_ok(line: Seq<char>) -> bool {
    let p = request_line_parts(line);
    p.is_some() && member(methods(), upper_spec(p.unwrap().0)) && member(versions(), upper_spec(p.unwrap().2))
}

// a header line: name is what precedes the first ": ", value everything after it; CR and LF are removed from both
pub open spec fn header_of_line(line: Seq<char>) -> HV {
    let s = split_once_spec(line, colon_sp1());
    if s.is_none() { (strip_crlf(line), Seq::empty()) } else { (strip_crlf(s.unwrap().0), strip_crlf(s.unwrap().1)) }
}

pub open spec fn wf_headers(hs: Seq<Header>) -> bool {
    forall|i: int| 0 <= i < hs.len() ==> no_crlf(#[trigger] hs[i].name@) && no_crlf(hs[i].value@)
}

// the first line of the message is valid UTF-8 and a well-formed request line
pub open spec fn request_line_ok_bytes(b: Seq<u8>) -> bool {
    exists|line: Seq<char>| #![auto] utf8_bytes(line) == b.subrange(0, line_len(b)) && request_line_ok(line)
}
