// ===== contracts/spec/lines.rs — lines of a byte stream, and string facts shared by the reader theorems (C14, C15) =====
pub open spec fn first_line(r: Seq<u8>) -> Seq<u8> { r.subrange(0, line_len(r)) }
pub open spec fn after_line(r: Seq<u8>) -> Seq<u8> { r.subrange(line_len(r), r.len() as int) }

// ---------- helpers ----------
pub open spec fn no_lf_b(s: Seq<u8>) -> bool { forall|i: int| 0 <= i < s.len() ==> #[trigger] s[i] != 10u8 }
pub open spec fn crlf_b() -> Seq<u8> { seq![13u8, 10u8] }
pub open spec fn crlf_c() -> Seq<char> { seq!['\r', '\n'] }
pub open spec fn no_sp(s: Seq<char>) -> bool { forall|i: int| 0 <= i < s.len() ==> #[trigger] s[i] != ' ' }
pub open spec fn all_ws(s: Seq<char>) -> bool { forall|i: int| 0 <= i < s.len() ==> is_ws(#[trigger] s[i]) }

pub proof fn lemma_line_split(x: Seq<u8>, y: Seq<u8>)
    requires no_lf_b(x),
    ensures first_line(x + seq![10u8] + y) == x + seq![10u8], after_line(x + seq![10u8] + y) == y,
    decreases x.len()
{
    let r = x + seq![10u8] + y;
    if x.len() == 0 {
        assert(r[0] == 10u8);
    } else {
        assert(r[0] == x[0]);
        let x1 = x.subrange(1, x.len() as int);
        assert(r.subrange(1, r.len() as int) =~= x1 + seq![10u8] + y);
        lemma_line_split(x1, y);
        assert(line_len(r) == 1 + line_len(x1 + seq![10u8] + y));
        lemma_line_len(x1 + seq![10u8] + y);
        assert(first_line(x1 + seq![10u8] + y).len() == x1.len() + 1);
    }
    assert(line_len(r) == x.len() + 1);
    assert(r.subrange(0, line_len(r)) =~= x + seq![10u8]);
    assert(r.subrange(line_len(r), r.len() as int) =~= y);
}
pub proof fn lemma_crlf_line(x: Seq<u8>, y: Seq<u8>)
    requires no_lf_b(x),
    ensures first_line(x + crlf_b() + y) == x + crlf_b(), after_line(x + crlf_b() + y) == y,
{
    let xc = x.push(13u8);
    assert(no_lf_b(xc));
    assert(x + crlf_b() + y =~= xc + seq![10u8] + y);
    assert(x + crlf_b() =~= xc + seq![10u8]);
    lemma_line_split(xc, y);
}
pub proof fn lemma_utf8_text_line(l: Seq<char>)
    ensures
        utf8_bytes(l + crlf_c()) == utf8_bytes(l) + crlf_b(),
        valid_utf8(utf8_bytes(l) + crlf_b()),
        vstd::utf8::decode_utf8(utf8_bytes(l) + crlf_b()) == l + crlf_c(),
{
    assert(vstd::utf8::is_ascii_chars(crlf_c()));
    vstd::utf8::is_ascii_chars_encode_utf8(crlf_c());
    assert(utf8_bytes(crlf_c()) =~= crlf_b());
    vstd::utf8::encode_utf8_concat(l, crlf_c());
    vstd::utf8::encode_utf8_valid_utf8(l + crlf_c());
    vstd::utf8::encode_utf8_decode_utf8(l + crlf_c());
}
// trim(x ++ w) == x when x starts and ends with a non-blank character and w is all white space
pub proof fn lemma_trim_tail(x: Seq<char>, w: Seq<char>)
    requires x.len() > 0, !is_ws(x[0]), !is_ws(x.last()), all_ws(w),
    ensures trim_spec(x + w) == x,
{
    let s = x + w;
    axiom_trim(s);
    let (a, b) = choose|a: int, b: int| 0 <= a <= b <= s.len() && trim_spec(s) == s.subrange(a, b)
        && (forall|i: int| 0 <= i < a ==> is_ws(#[trigger] s[i])) && (forall|i: int| b <= i < s.len() ==> is_ws(#[trigger] s[i]));
    assert(s[0] == x[0]);
    assert(s[x.len() - 1] == x.last());
    if a > 0 { assert(is_ws(s[0])); }
    if b < x.len() { assert(is_ws(s[x.len() - 1])); }
    if b > x.len() {
        assert(trim_spec(s).len() > 0);
        assert(trim_spec(s).last() == s[b - 1]);
        assert(s[b - 1] == w[b - 1 - x.len()]);
    }
    assert(s.subrange(0, x.len() as int) =~= x);
}
pub proof fn lemma_trim_all_ws(w: Seq<char>)
    requires all_ws(w),
    ensures trim_spec(w).len() == 0,
{
    axiom_trim(w);
    if trim_spec(w).len() > 0 {
        let (a, b) = choose|a: int, b: int| 0 <= a <= b <= w.len() && trim_spec(w) == w.subrange(a, b)
            && (forall|i: int| 0 <= i < a ==> is_ws(#[trigger] w[i])) && (forall|i: int| b <= i < w.len() ==> is_ws(#[trigger] w[i]));
        assert(trim_spec(w)[0] == w[a]);
    }
}
// a string that holds a non-blank character is not blank
pub proof fn lemma_trim_nonblank(s: Seq<char>, k: int)
    requires 0 <= k < s.len(), !is_ws(s[k]),
    ensures trim_spec(s).len() > 0,
{
    axiom_trim(s);
    let (a, b) = choose|a: int, b: int| 0 <= a <= b <= s.len() && trim_spec(s) == s.subrange(a, b)
        && (forall|i: int| 0 <= i < a ==> is_ws(#[trigger] s[i])) && (forall|i: int| b <= i < s.len() ==> is_ws(#[trigger] s[i]));
    if k < a { assert(is_ws(s[k])); }
    if k >= b { assert(is_ws(s[k])); }
}
// the split of  x ++ sep ++ rest  at the first sep, when sep cannot start inside x or straddle its end
pub proof fn lemma_split_once_at(x: Seq<char>, sep: Seq<char>, rest: Seq<char>)
    requires
        sep.len() >= 1, sep.len() <= 2,
        !has_sub(x, sep),
        sep.len() == 2 ==> (x.len() == 0 || !(x.last() == sep[0] && sep[0] == sep[1])) && sep[0] != sep[1],
    ensures split_once_spec(x + sep + rest, sep) == Some((x, rest)),
{
    let e = x + sep + rest;
    let n = x.len() as int;
    let k = sep.len() as int;
    axiom_split_once(e, sep);
    assert(e.subrange(n, n + k) =~= sep);
    assert(has_sub(e, sep));
    let sp = split_once_spec(e, sep).unwrap();
    let p0 = sp.0;
    let p1 = sp.1;
    let m = p0.len() as int;
    assert(e == p0 + sep + p1);
    assert(e.subrange(m, m + k) =~= sep);
    if m < n {
        if m + k <= n {
            assert(x.subrange(m, m + k) =~= e.subrange(m, m + k));
            assert(has_sub(x, sep));
        } else {
            // k == 2 and the occurrence straddles the end of x: e[m] == x.last() == sep[0] and e[m+1] == sep[0] must be sep[1]
            assert(k == 2 && m == n - 1);
            assert(e.subrange(m, m + k)[0] == e[m] && e.subrange(m, m + k)[1] == e[m + 1]);
            assert(e[m + 1] == sep[0]);
        }
    }
    if m > n {
        if m >= n + k {
            assert(p0.subrange(n, n + k) =~= e.subrange(n, n + k));
            assert(has_sub(p0, sep));
        } else {
            // k == 2, m == n + 1: e[m] == sep[1] must be sep[0]
            assert(k == 2 && m == n + 1);
            assert(e.subrange(m, m + k)[0] == e[m]);
            assert(e[m] == sep[1]);
            assert(e.subrange(n, n + k)[1] == e[n + 1]);
        }
    }
    assert(m == n);
    assert(p0 =~= x) by { assert forall|i: int| 0 <= i < n implies p0[i] == x[i] by { assert(e[i] == p0[i]); assert(e[i] == x[i]); } }
    assert(p1 =~= rest) by {
        assert(p1.len() == rest.len());
        assert forall|i: int| 0 <= i < rest.len() implies p1[i] == rest[i] by { assert(e[n + k + i] == p1[i]); assert(e[n + k + i] == rest[i]); }
    }
}
pub proof fn lemma_no_sp_no_sub(x: Seq<char>)
    requires no_sp(x),
    ensures !has_sub(x, sp1()),
{
    assert forall|k: int| 0 <= k && k + 1 <= x.len() implies #[trigger] x.subrange(k, k + 1) != sp1() by { assert(x.subrange(k, k + 1)[0] == x[k]); }
}
pub proof fn lemma_strip_crlf_line(v: Seq<char>)
    requires no_crlf(v),
    ensures strip_crlf(v + crlf_c()) == v,
{
    let a = v + crlf_c();
    lemma_without_char(v, '\r', '\n');
    lemma_without_char(v, '\n', '\r');
    assert(a.last() == '\n');
    assert(a.drop_last() =~= v.push('\r'));
    assert(v.push('\r').last() == '\r');
    assert(v.push('\r').drop_last() =~= v);
    reveal_with_fuel(without_char, 3);
    assert(without_char(a, '\r') == without_char(v, '\r').push('\n'));
    assert(without_char(v, '\r') == v);
    let b = v.push('\n');
    assert(b.last() == '\n' && b.drop_last() =~= v);
    assert(without_char(b, '\n') == without_char(v, '\n'));
}

