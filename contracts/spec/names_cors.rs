// ===== contracts/spec/names_cors.rs — the texts on the wire (Fetch standard, RFC 9110): the code's constants must BE these texts.
// The contracts speak about the constants by name; without this a misspelt constant verifies (C11, C09).
pub proof fn names_cors()
    ensures
        Header::_ORIGIN@ == "Origin"@,
        Header::_VARY@ == "Vary"@,
        Header::_ACCESS_CONTROL_REQUEST_METHOD@ == "Access-Control-Request-Method"@,
        Header::_ACCESS_CONTROL_REQUEST_HEADERS@ == "Access-Control-Request-Headers"@,
        Header::_ACCESS_CONTROL_ALLOW_ORIGIN@ == "Access-Control-Allow-Origin"@,
        Header::_ACCESS_CONTROL_ALLOW_METHODS@ == "Access-Control-Allow-Methods"@,
        Header::_ACCESS_CONTROL_ALLOW_HEADERS@ == "Access-Control-Allow-Headers"@,
        Header::_ACCESS_CONTROL_ALLOW_CREDENTIALS@ == "Access-Control-Allow-Credentials"@,
        Header::_ACCESS_CONTROL_MAX_AGE@ == "Access-Control-Max-Age"@,
        Header::_ACCESS_CONTROL_EXPOSE_HEADERS@ == "Access-Control-Expose-Headers"@,
        METHOD.options@ == "OPTIONS"@, METHOD.get@ == "GET"@, METHOD.head@ == "HEAD"@,
        // the documented names of the settings
        Config::RWS_CONFIG_CORS_ALLOW_ALL@ == "RWS_CONFIG_CORS_ALLOW_ALL"@,
        Config::RWS_CONFIG_CORS_ALLOW_ORIGINS@ == "RWS_CONFIG_CORS_ALLOW_ORIGINS"@,
        Config::RWS_CONFIG_CORS_ALLOW_CREDENTIALS@ == "RWS_CONFIG_CORS_ALLOW_CREDENTIALS"@,
        Config::RWS_CONFIG_CORS_ALLOW_HEADERS@ == "RWS_CONFIG_CORS_ALLOW_HEADERS"@,
        Config::RWS_CONFIG_CORS_ALLOW_METHODS@ == "RWS_CONFIG_CORS_ALLOW_METHODS"@,
        Config::RWS_CONFIG_CORS_EXPOSE_HEADERS@ == "RWS_CONFIG_CORS_EXPOSE_HEADERS"@,
        Config::RWS_CONFIG_CORS_MAX_AGE@ == "RWS_CONFIG_CORS_MAX_AGE"@,
        // the documented defaults (README: "server ships with CORS enabled to all requests by default"; one day for the preflight cache)
        Config::RWS_CONFIG_CORS_ALLOW_ALL_DEFAULT_VALUE@ == "true"@,
        Config::RWS_CONFIG_CORS_ALLOW_ORIGINS_DEFAULT_VALUE@ == ""@,
        Config::RWS_CONFIG_CORS_ALLOW_CREDENTIALS_DEFAULT_VALUE@ == ""@,
        Config::RWS_CONFIG_CORS_ALLOW_HEADERS_DEFAULT_VALUE@ == ""@,
        Config::RWS_CONFIG_CORS_ALLOW_METHODS_DEFAULT_VALUE@ == ""@,
        Config::RWS_CONFIG_CORS_EXPOSE_HEADERS_DEFAULT_VALUE@ == ""@,
        Config::RWS_CONFIG_CORS_MAX_AGE_DEFAULT_VALUE@ == "86400"@,
        Cors::MAX_AGE@ == "86400"@,
{
}
