// ===== contracts/spec/request_read.rs — Request::cursor_read as a recursive function over lines (C14) =====
pub struct RS {
    pub method: Seq<char>,
    pub uri: Seq<char>,
    pub version: Seq<char>,
    pub headers: Seq<HV>,
    pub body: Seq<u8>,
}
pub open spec fn rs(r: Request) -> RS {
    RS { method: r.method@, uri: r.request_uri@, version: r.http_version@, headers: hvs(r.headers@), body: r.body@ }
}

// one call of Request::cursor_read: (Ok?, request afterwards, bytes left in the cursor afterwards)
//   - a line that is not UTF-8 is an error of that call (which the calling frame swallows: it goes on to read the body)
//   - iteration 0 parses the request line (error if it is not well formed)
//   - a blank line (or the end of the input) ends the call WITHOUT reading the body: the calling frame reads the rest as body
//   - any other line after the first is a header; the rest is read by the next call, then everything left is appended to the body
pub open spec fn req_read(r: Seq<u8>, iter: nat, st: RS) -> (bool, RS, Seq<u8>)
    decreases r.len() via req_read_dec
{
    let line = first_line(r);
    let r2 = after_line(r);
    if !valid_utf8(line) { (false, st, r2) } else {
        let s = vstd::utf8::decode_utf8(line);
        let first = iter == 0;
        let blank = trim_spec(s).len() == 0;
        if first && !request_line_ok(s) { (false, st, r2) } else {
            let st1 = if first {
                let p = request_line_parts(s).unwrap();
                RS { method: p.0, uri: p.1, version: p.2, headers: st.headers, body: st.body }
            } else { st };
            if blank { (true, st1, r2) }
            else if line.len() != 0 {
                let st2 = if !first { RS { method: st1.method, uri: st1.uri, version: st1.version, headers: st1.headers.push(header_of_line(s)), body: st1.body } } else { st1 };
                let inner = req_read(r2, iter + 1, st2);
                let st3 = inner.1;
                (true, RS { method: st3.method, uri: st3.uri, version: st3.version, headers: st3.headers, body: st3.body + inner.2 }, Seq::<u8>::empty())
            } else {
                (true, RS { method: st1.method, uri: st1.uri, version: st1.version, headers: st1.headers, body: st1.body + r2 }, Seq::<u8>::empty())
            }
        }
    }
}
#[via_fn]
proof fn req_read_dec(r: Seq<u8>, iter: nat, st: RS) {
    lemma_line_len(r);
}
pub open spec fn empty_rs() -> RS {
    RS { method: Seq::empty(), uri: Seq::empty(), version: Seq::empty(), headers: Seq::empty(), body: Seq::empty() }
}
// Request::parse
pub open spec fn parse_request_spec(data: Seq<u8>) -> Option<RS> {
    let x = req_read(data, 0, empty_rs());
    if x.0 { Some(x.1) } else { None }
}
