// ===== RFC 4648 section 4, as mathematics =====
pub open spec fn alpha(n: int) -> char {
    if 0 <= n < 26 { (('A' as int) + n) as char }
    else if n < 52 { (('a' as int) + n - 26) as char }
    else if n < 62 { (('0' as int) + n - 52) as char }
    else if n == 62 { '+' } else { '/' }
}

// the 64-entry table of RFC 4648 Table 1
pub open spec fn alpha_table() -> Seq<char> { Seq::new(64, |i: int| alpha(i)) }

// one group of 1..3 bytes -> 4 characters (per-sextet form)
pub open spec fn group(b: Seq<u8>) -> Seq<char> {
    let b0 = b[0] as int;
    let b1 = if b.len() > 1 { b[1] as int } else { 0 };
    let b2 = if b.len() > 2 { b[2] as int } else { 0 };
    seq![
        alpha(b0 / 4),
        alpha((b0 % 4) * 16 + b1 / 16),
        if b.len() > 1 { alpha((b1 % 16) * 4 + b2 / 64) } else { '=' },
        if b.len() > 2 { alpha(b2 % 64) } else { '=' },
    ]
}

// the RFC wording: the 24-bit group b0*65536 + b1*256 + b2 is cut into four 6-bit values
pub open spec fn word24(b: Seq<u8>) -> int {
    (b[0] as int) * 65536 + (if b.len() > 1 { b[1] as int } else { 0 }) * 256 + (if b.len() > 2 { b[2] as int } else { 0 })
}
pub proof fn lemma_group_is_rfc_word(b: Seq<u8>)
    requires 1 <= b.len() <= 3,
    ensures
        group(b)[0] == alpha(word24(b) / 262144),
        group(b)[1] == alpha((word24(b) / 4096) % 64),
        b.len() > 1 ==> group(b)[2] == alpha((word24(b) / 64) % 64),
        b.len() > 2 ==> group(b)[3] == alpha(word24(b) % 64),
{
    let b0 = b[0] as int;
    let b1 = if b.len() > 1 { b[1] as int } else { 0 };
    let b2 = if b.len() > 2 { b[2] as int } else { 0 };
    let w = word24(b);
    assert(w == b0 * 65536 + b1 * 256 + b2);
    assert(w / 262144 == b0 / 4 && (w / 4096) % 64 == (b0 % 4) * 16 + b1 / 16
        && (w / 64) % 64 == (b1 % 16) * 4 + b2 / 64 && w % 64 == b2 % 64) by (nonlinear_arith)
        requires w == b0 * 65536 + b1 * 256 + b2, 0 <= b0 < 256, 0 <= b1 < 256, 0 <= b2 < 256;
}

pub open spec fn b64(s: Seq<u8>) -> Seq<char>
    decreases s.len()
{
    if s.len() == 0 { Seq::empty() }
    else if s.len() <= 3 { group(s) }
    else { group(s.subrange(0, 3)) + b64(s.subrange(3, s.len() as int)) }
}

pub open spec fn in_alphabet(c: char) -> bool { exists|n: int| 0 <= n < 64 && alpha(n) == c }

pub proof fn lemma_alpha_injective(m: int, n: int)
    requires 0 <= m < 64, 0 <= n < 64, alpha(m) == alpha(n),
    ensures m == n,
{
}

pub proof fn lemma_alpha_ascii(n: int)
    requires 0 <= n < 64,
    ensures (alpha(n) as u32) < 128, alpha(n) != '=',
{
}

// b64 of a prefix whose length is a multiple of 3, extended by the next chunk
pub proof fn lemma_b64_snoc(s: Seq<u8>, k: int, n: int)
    requires 0 <= k, k % 3 == 0, 1 <= n <= 3, k + n <= s.len(), (n < 3 ==> k + n == s.len()),
    ensures b64(s.subrange(0, k + n)) == b64(s.subrange(0, k)) + group(s.subrange(k, k + n)),
    decreases k
{
    if k == 0 {
        assert(s.subrange(0, n).len() == n);
        assert(s.subrange(0, 0).len() == 0);
        assert(b64(s.subrange(0, 0)) =~= Seq::<char>::empty());
        assert(s.subrange(0, 0 + n) =~= s.subrange(0, n));
        assert(b64(s.subrange(0, n)) == group(s.subrange(0, n)));
        assert(b64(s.subrange(0, 0)) + group(s.subrange(0, n)) =~= group(s.subrange(0, n)));
    } else {
        let t = s.subrange(3, s.len() as int);
        lemma_b64_snoc(t, k - 3, n);
        let a = s.subrange(0, k + n);
        assert(a.len() > 3);
        assert(a.subrange(0, 3) =~= s.subrange(0, 3));
        assert(a.subrange(3, a.len() as int) =~= t.subrange(0, k - 3 + n));
        let b = s.subrange(0, k);
        assert(t.subrange(k - 3, k - 3 + n) =~= s.subrange(k, k + n));
        if k == 3 {
            assert(b.len() == 3);
            assert(b64(b) == group(b));
            assert(t.subrange(0, 0).len() == 0);
            assert(b64(t.subrange(0, 0)) =~= Seq::<char>::empty());
            assert(b =~= s.subrange(0, 3));
        } else {
            assert(b.len() > 3);
            assert(b.subrange(0, 3) =~= s.subrange(0, 3));
            assert(b.subrange(3, b.len() as int) =~= t.subrange(0, k - 3));
        }
        assert(b64(a) =~= b64(b) + group(s.subrange(k, k + n)));
    }
}
