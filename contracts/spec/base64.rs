// ===== RFC 4648 section 4, as mathematics =====
pub open spec fn alpha(n: int) -> char {
    if 0 <= n < 26 { (('A' as int) + n) as char }
    else if n < 52 { (('a' as int) + n - 26) as char }
    else if n < 62 { (('0' as int) + n - 52) as char }
    else if n == 62 { '+' } else { '/' }
}

// the 64-entry table of RFC 4648 Table 1
pub open spec fn alpha_table() -> Seq<char> { Seq::new(64, |i: int| alpha(i)) }

// one group of 1..3 bytes -> 4 characters (per-sextet form)
pub open spec fn group(b: Seq<u8>) -> Seq<char> {
    let b0 = b[0] as int;
    let b1 = if b.len() > 1 { b[1] as int } else { 0 };
    let b2 = if b.len() > 2 { b[2] as int } else { 0 };
    seq![
        alpha(b0 / 4),
        alpha((b0 % 4) * 16 + b1 / 16),
        if b.len() > 1 { alpha((b1 % 16) * 4 + b2 / 64) } else { '=' },
        if b.len() > 2 { alpha(b2 % 64) } else { '=' },
    ]
}

// the RFC wording: the 24-bit group b0*65536 + b1*256 + b2 is cut into four 6-bit values
pub open spec fn word24(b: Seq<u8>) -> int {
    (b[0] as int) * 65536 + (if b.len() > 1 { b[1] as int } else { 0 }) * 256 + (if b.len() > 2 { b[2] as int } else { 0 })
}
pub proof fn lemma_word24_sextets(x: u8, y: u8, z: u8)
    ensures ({
        let w = (x as u32) * 65536 + (y as u32) * 256 + (z as u32);
        &&& w / 262144 == (x as u32) / 4
        &&& (w / 4096) % 64 == ((x as u32) % 4) * 16 + (y as u32) / 16
        &&& (w / 64) % 64 == ((y as u32) % 16) * 4 + (z as u32) / 64
        &&& w % 64 == (z as u32) % 64
    }),
{
    let a = x as u32;
    let b = y as u32;
    let c = z as u32;
    assert(a < 256 && b < 256 && c < 256 ==> ({
        let w = a * 65536 + b * 256 + c;
        &&& w / 262144 == a / 4
        &&& (w / 4096) % 64 == (a % 4) * 16 + b / 16
        &&& (w / 64) % 64 == (b % 16) * 4 + c / 64
        &&& w % 64 == c % 64
    })) by (bit_vector);
}

pub proof fn lemma_group_is_rfc_word(b: Seq<u8>)
    requires 1 <= b.len() <= 3,
    ensures
        group(b)[0] == alpha(word24(b) / 262144),
        group(b)[1] == alpha((word24(b) / 4096) % 64),
        b.len() > 1 ==> group(b)[2] == alpha((word24(b) / 64) % 64),
        b.len() > 2 ==> group(b)[3] == alpha(word24(b) % 64),
{
    let x = b[0];
    let y = if b.len() > 1 { b[1] } else { 0u8 };
    let z = if b.len() > 2 { b[2] } else { 0u8 };
    lemma_word24_sextets(x, y, z);
    let w = (x as u32) * 65536 + (y as u32) * 256 + (z as u32);
    assert(w == word24(b));
}

pub open spec fn b64(s: Seq<u8>) -> Seq<char>
    decreases s.len()
{
    if s.len() == 0 { Seq::empty() }
    else if s.len() <= 3 { group(s) }
    else { group(s.subrange(0, 3)) + b64(s.subrange(3, s.len() as int)) }
}

pub open spec fn in_alphabet(c: char) -> bool { exists|n: int| 0 <= n < 64 && alpha(n) == c }

pub proof fn lemma_alpha_injective(m: int, n: int)
    requires 0 <= m < 64, 0 <= n < 64, alpha(m) == alpha(n),
    ensures m == n,
{
}

pub proof fn lemma_alpha_ascii(n: int)
    requires 0 <= n < 64,
    ensures (alpha(n) as u32) < 128, alpha(n) != '=',
{
}

// b64 of a prefix whose length is a multiple of 3, extended by the next chunk
pub proof fn lemma_b64_snoc(s: Seq<u8>, k: int, n: int)
    requires 0 <= k, k % 3 == 0, 1 <= n <= 3, k + n <= s.len(), (n < 3 ==> k + n == s.len()),
    ensures b64(s.subrange(0, k + n)) == b64(s.subrange(0, k)) + group(s.subrange(k, k + n)),
    decreases k
{
    if k == 0 {
        assert(s.subrange(0, n).len() == n);
        assert(s.subrange(0, 0).len() == 0);
        assert(b64(s.subrange(0, 0)) =~= Seq::<char>::empty());
        assert(s.subrange(0, 0 + n) =~= s.subrange(0, n));
        assert(b64(s.subrange(0, n)) == group(s.subrange(0, n)));
        assert(b64(s.subrange(0, 0)) + group(s.subrange(0, n)) =~= group(s.subrange(0, n)));
    } else {
        let t = s.subrange(3, s.len() as int);
        lemma_b64_snoc(t, k - 3, n);
        let a = s.subrange(0, k + n);
        assert(a.len() > 3);
        assert(a.subrange(0, 3) =~= s.subrange(0, 3));
        assert(a.subrange(3, a.len() as int) =~= t.subrange(0, k - 3 + n));
        let b = s.subrange(0, k);
        assert(t.subrange(k - 3, k - 3 + n) =~= s.subrange(k, k + n));
        if k == 3 {
            assert(b.len() == 3);
            assert(b64(b) == group(b));
            assert(t.subrange(0, 0).len() == 0);
            assert(b64(t.subrange(0, 0)) =~= Seq::<char>::empty());
            assert(b =~= s.subrange(0, 3));
        } else {
            assert(b.len() > 3);
            assert(b.subrange(0, 3) =~= s.subrange(0, 3));
            assert(b.subrange(3, b.len() as int) =~= t.subrange(0, k - 3));
        }
        assert(b64(a) =~= b64(b) + group(s.subrange(k, k + n)));
    }
}

// ===== decoding side =====
pub open spec fn in_alpha(c: char) -> bool {
    ('A' <= c && c <= 'Z') || ('a' <= c && c <= 'z') || ('0' <= c && c <= '9') || c == '+' || c == '/'
}

pub open spec fn sextet(c: char) -> int {
    if 'A' <= c && c <= 'Z' { (c as int) - ('A' as int) }
    else if 'a' <= c && c <= 'z' { (c as int) - ('a' as int) + 26 }
    else if '0' <= c && c <= '9' { (c as int) - ('0' as int) + 52 }
    else if c == '+' { 62 } else { 63 }
}

pub proof fn lemma_sextet_alpha(n: int)
    requires 0 <= n < 64,
    ensures in_alpha(alpha(n)), sextet(alpha(n)) == n, alpha(n) != '=', (alpha(n) as u32) < 128,
{
}

pub proof fn lemma_alpha_sextet(c: char)
    requires in_alpha(c),
    ensures 0 <= sextet(c) < 64, alpha(sextet(c)) == c, c != '=', (c as u32) < 128,
{
}

pub proof fn lemma_in_alpha_is_in_alphabet(c: char)
    ensures in_alpha(c) <==> in_alphabet(c),
{
    if in_alpha(c) {
        lemma_alpha_sextet(c);
        assert(0 <= sextet(c) < 64 && alpha(sextet(c)) == c);
    }
    if in_alphabet(c) {
        let n = choose|n: int| 0 <= n < 64 && alpha(n) == c;
        lemma_sextet_alpha(n);
    }
}

// a 4-character group as the decoder reads it: the number of '=' decides how many bytes it carries
pub open spec fn pad_count(t: Seq<char>) -> nat { count_char(t, '=') }

pub open spec fn valid_group(t: Seq<char>) -> bool {
    t.len() == 4 && pad_count(t) <= 2
    && forall|i: int| 0 <= i < 4 - pad_count(t) ==> in_alpha(#[trigger] t[i])
}

pub open spec fn ungroup(t: Seq<char>) -> Seq<u8> {
    let s0 = sextet(t[0]);
    let s1 = sextet(t[1]);
    let s2 = sextet(t[2]);
    let s3 = sextet(t[3]);
    let b0 = (s0 * 4 + s1 / 16) as u8;
    let b1 = ((s1 % 16) * 16 + s2 / 4) as u8;
    let b2 = ((s2 % 4) * 64 + s3) as u8;
    if pad_count(t) == 2 { seq![b0] } else if pad_count(t) == 1 { seq![b0, b1] } else { seq![b0, b1, b2] }
}

pub proof fn lemma_count4(t: Seq<char>, c: char)
    requires t.len() == 4,
    ensures count_char(t, c) == (if t[0] == c { 1nat } else { 0 }) + (if t[1] == c { 1nat } else { 0 })
        + (if t[2] == c { 1nat } else { 0 }) + (if t[3] == c { 1nat } else { 0 }),
{
    reveal_with_fuel(count_char, 5);
    let t3 = t.drop_last();
    let t2 = t3.drop_last();
    let t1 = t2.drop_last();
    assert(t1.drop_last().len() == 0);
    assert(t3.last() == t[2] && t2.last() == t[1] && t1.last() == t[0]);
}

pub proof fn lemma_ungroup_group(b: Seq<u8>)
    requires 1 <= b.len() <= 3,
    ensures valid_group(group(b)), ungroup(group(b)) == b, pad_count(group(b)) == 3 - b.len(),
{
    let g = group(b);
    let b0 = b[0] as int;
    let b1 = if b.len() > 1 { b[1] as int } else { 0 };
    let b2 = if b.len() > 2 { b[2] as int } else { 0 };
    lemma_sextet_alpha(b0 / 4);
    lemma_sextet_alpha((b0 % 4) * 16 + b1 / 16);
    lemma_sextet_alpha((b1 % 16) * 4 + b2 / 64);
    lemma_sextet_alpha(b2 % 64);
    lemma_count4(g, '=');
    assert(ungroup(g) =~= b);
}

pub open spec fn valid64(t: Seq<char>) -> bool
    decreases t.len()
{
    if t.len() == 0 { true }
    else if t.len() < 4 { false }
    else { valid_group(t.subrange(0, 4)) && valid64(t.subrange(4, t.len() as int)) }
}

pub open spec fn unb64(t: Seq<char>) -> Seq<u8>
    decreases t.len()
{
    if t.len() < 4 { Seq::empty() } else { ungroup(t.subrange(0, 4)) + unb64(t.subrange(4, t.len() as int)) }
}

pub open spec fn ok_char(c: char) -> bool { in_alpha(c) || c == '=' }

pub open spec fn all_ok_chars(t: Seq<char>) -> bool { forall|i: int| 0 <= i < t.len() ==> ok_char(#[trigger] t[i]) }

pub proof fn lemma_group_props(b: Seq<u8>)
    requires 1 <= b.len() <= 3,
    ensures group(b).len() == 4, is_ascii_seq(group(b)), all_ok_chars(group(b)),
{
    let b0 = b[0] as int;
    let b1 = if b.len() > 1 { b[1] as int } else { 0 };
    let b2 = if b.len() > 2 { b[2] as int } else { 0 };
    lemma_sextet_alpha(b0 / 4);
    lemma_sextet_alpha((b0 % 4) * 16 + b1 / 16);
    lemma_sextet_alpha((b1 % 16) * 4 + b2 / 64);
    lemma_sextet_alpha(b2 % 64);
}

// the encoder's output is ASCII, made of valid groups, and decodes (as mathematics) to the input
pub proof fn lemma_b64_inverse(x: Seq<u8>)
    ensures
        b64(x).len() % 4 == 0, is_ascii_seq(b64(x)), valid64(b64(x)), unb64(b64(x)) == x, all_ok_chars(b64(x)),
    decreases x.len()
{
    if x.len() == 0 {
        assert(unb64(b64(x)) =~= x);
    } else if x.len() <= 3 {
        lemma_ungroup_group(x);
        lemma_group_props(x);
        let g = group(x);
        assert(g.subrange(0, 4) =~= g);
        assert(g.subrange(4, 4).len() == 0);
        assert(unb64(g.subrange(4, 4)) =~= Seq::<u8>::empty());
        assert(unb64(g) =~= x);
        assert(valid64(g.subrange(4, 4)));
    } else {
        let h = x.subrange(0, 3);
        let r = x.subrange(3, x.len() as int);
        lemma_ungroup_group(h);
        lemma_group_props(h);
        lemma_b64_inverse(r);
        let t = b64(x);
        assert(t == group(h) + b64(r));
        assert(t.subrange(0, 4) =~= group(h));
        assert(t.subrange(4, t.len() as int) =~= b64(r));
        assert(unb64(t) =~= h + r);
        assert(h + r =~= x);
    }
}

pub open spec fn ind(t: Seq<char>, i: int, c: char) -> nat { if i < t.len() && t[i] == c { 1 } else { 0 } }

pub proof fn lemma_count_small(t: Seq<char>, c: char)
    requires t.len() <= 4,
    ensures count_char(t, c) == ind(t, 0, c) + ind(t, 1, c) + ind(t, 2, c) + ind(t, 3, c),
    decreases t.len()
{
    if t.len() > 0 {
        lemma_count_small(t.drop_last(), c);
        let d = t.drop_last();
        assert(forall|i: int| 0 <= i < d.len() ==> d[i] == t[i]);
    }
}

// a valid group consists of alphabet characters followed by exactly pad_count '=' characters
pub proof fn lemma_valid_group_chars(t: Seq<char>)
    requires valid_group(t),
    ensures all_ok_chars(t),
{
    lemma_count_small(t, '=');
    assert forall|i: int| 0 <= i < t.len() implies ok_char(#[trigger] t[i]) by {
        if i < 4 - pad_count(t) {
        } else {
            assert(in_alpha(t[0]) && in_alpha(t[1]));
            if pad_count(t) == 1 { assert(in_alpha(t[2])); }
            if pad_count(t) == 0 { assert(in_alpha(t[2])); assert(in_alpha(t[3])); }
        }
    }
}

pub proof fn lemma_valid64_chunk(t: Seq<char>, k: int)
    requires valid64(t), 0 <= k < t.len(), k % 4 == 0,
    ensures k + 4 <= t.len(), valid_group(t.subrange(k, k + 4)), t.len() % 4 == 0,
    decreases k
{
    if k == 0 {
        lemma_valid64_len(t);
    } else {
        let r = t.subrange(4, t.len() as int);
        lemma_valid64_chunk(r, k - 4);
        assert(r.subrange(k - 4, k) =~= t.subrange(k, k + 4));
    }
}

pub proof fn lemma_valid64_len(t: Seq<char>)
    requires valid64(t),
    ensures t.len() % 4 == 0,
    decreases t.len()
{
    if t.len() != 0 {
        lemma_valid64_len(t.subrange(4, t.len() as int));
    }
}

pub proof fn lemma_unb64_snoc(t: Seq<char>, k: int)
    requires 0 <= k, k % 4 == 0, k + 4 <= t.len(),
    ensures unb64(t.subrange(0, k + 4)) == unb64(t.subrange(0, k)) + ungroup(t.subrange(k, k + 4)),
    decreases k
{
    let a = t.subrange(0, k + 4);
    if k == 0 {
        assert(a.subrange(0, 4) =~= t.subrange(0, 4));
        assert(a.subrange(4, 4).len() == 0);
        assert(unb64(a.subrange(4, 4)) =~= Seq::<u8>::empty());
        assert(unb64(t.subrange(0, 0)) =~= Seq::<u8>::empty());
        assert(unb64(a) =~= ungroup(t.subrange(0, 4)));
    } else {
        let r = t.subrange(4, t.len() as int);
        lemma_unb64_snoc(r, k - 4);
        assert(a.subrange(0, 4) =~= t.subrange(0, 4));
        assert(a.subrange(4, a.len() as int) =~= r.subrange(0, k));
        let b = t.subrange(0, k);
        assert(b.subrange(0, 4) =~= t.subrange(0, 4));
        assert(b.subrange(4, b.len() as int) =~= r.subrange(0, k - 4));
        assert(r.subrange(k - 4, k) =~= t.subrange(k, k + 4));
        assert(unb64(a) =~= unb64(b) + ungroup(t.subrange(k, k + 4)));
    }
}
