// ===== one request, one response (properties C04, C05 delivery, C10 on the error path) =====
// the 400 answer for an unreadable / unparseable request: fixed headers only, text/plain body = the message
pub open spec fn is_bad_request(bytes: Seq<u8>, message: Seq<char>) -> bool {
    exists|now: u128, cr: ContentRange| #![auto]
        cr.body@ == utf8_bytes(message) && cr.content_type@ == MimeType::TEXT_PLAIN@
        && bytes == response_bytes(VERSION.http_1_1@, 400, STATUS_CODE_REASON_PHRASE.n400_bad_request.reason_phrase@,
                                   fixed_headers(now), seq![cr], METHOD.get@)
}

// any serialised response
pub open spec fn is_response(bytes: Seq<u8>) -> bool {
    (exists|m: Seq<char>| #![auto] is_bad_request(bytes, m))
    || (exists|resp: Response, method: Seq<char>| #![auto]
        bytes == response_bytes(resp.http_version@, resp.status_code, resp.reason_phrase@, hvs(resp.headers@), resp.content_range_list@, method))
}

// exactly one complete response has been handed to the transport since `sent0`
pub open spec fn one_response(sent0: Seq<u8>, sent: Seq<u8>) -> bool {
    exists|b: Seq<u8>| #![auto] is_response(b) && sent == sent0 + b
}

// ... and it is the 400 answer
pub open spec fn one_bad_request(sent0: Seq<u8>, sent: Seq<u8>) -> bool {
    exists|b: Seq<u8>, m: Seq<char>| #![auto] is_bad_request(b, m) && sent == sent0 + b
}

pub proof fn lemma_no_origin_no_cors(req: Request)
    requires req.headers@.len() == 0,
    ensures cors_headers_expected(req) == Seq::<HV>::empty(),
{
    assert(first_idx(req.headers@, Header::_ORIGIN@, 0) == -1);
}

pub proof fn lemma_bad_is_response(sent0: Seq<u8>, sent: Seq<u8>)
    ensures one_bad_request(sent0, sent) ==> one_response(sent0, sent),
{
    if one_bad_request(sent0, sent) {
        let (b, m) = choose|b: Seq<u8>, m: Seq<char>| #![auto] is_bad_request(b, m) && sent == sent0 + b;
        assert(is_response(b));
    }
}

// the legacy entry point returns the bytes it wrote: when the write reported success they are on the wire in full
pub open spec fn delivered_in_full(ok: bool, before: Seq<u8>, after: Seq<u8>, bytes: Seq<u8>) -> bool { ok ==> after == before + bytes }

// Server::process hands the application's response to the serialiser as it received it
pub open spec fn forwards_unchanged(bytes: Seq<u8>, r: Response, method: Seq<char>) -> bool {
    bytes == response_bytes(r.http_version@, r.status_code, r.reason_phrase@, hvs(r.headers@), r.content_range_list@, method)
}
