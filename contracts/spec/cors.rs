// ===== request header lookup and CORS grants as mathematics =====
pub open spec fn true_str() -> Seq<char> { seq!['t', 'r', 'u', 'e'] }

pub open spec fn opt1(present: bool, h: HV) -> Seq<HV> { if present { seq![h] } else { Seq::empty() } }

// grants for a request whose Origin is allowed, configuration given as explicit values
pub open spec fn grants(origin: Seq<char>, creds: bool, options: bool, methods: Option<Seq<char>>, headers: Option<Seq<char>>,
                        expose: Option<Seq<char>>, max_age: Option<Seq<char>>) -> Seq<HV> {
    seq![(Header::_ACCESS_CONTROL_ALLOW_ORIGIN@, origin)]
    + opt1(creds, (Header::_ACCESS_CONTROL_ALLOW_CREDENTIALS@, true_str()))
    + (if options {
        opt1(methods.is_some(), (Header::_ACCESS_CONTROL_ALLOW_METHODS@, methods.unwrap()))
        + opt1(headers.is_some(), (Header::_ACCESS_CONTROL_ALLOW_HEADERS@, lower_spec(headers.unwrap())))
        + opt1(expose.is_some(), (Header::_ACCESS_CONTROL_EXPOSE_HEADERS@, lower_spec(expose.unwrap())))
        + opt1(max_age.is_some(), (Header::_ACCESS_CONTROL_MAX_AGE@, max_age.unwrap()))
    } else { Seq::empty() })
}

pub open spec fn comma_s() -> Seq<char> { seq![','] }

pub open spec fn is_options(req: Request) -> bool { req.method@ == METHOD.options@ }

// switch off, configuration in a Cors value
pub open spec fn cors_expected(req: Request, cors: Cors) -> Seq<HV> {
    let o = req_header(req.headers@, Header::_ORIGIN@);
    if o.is_none() || !member(views(cors.allow_origins@), o.unwrap().value@) { Seq::empty() }
    else {
        grants(o.unwrap().value@, cors.allow_credentials, is_options(req),
            Some(join_spec(views(cors.allow_methods@), comma_s())), Some(join_spec(views(cors.allow_headers@), comma_s())),
            Some(join_spec(views(cors.expose_headers@), comma_s())), Some(cors.max_age@))
    }
}

// switch off, configuration in the environment
pub open spec fn env_creds() -> bool {
    env_value(Config::RWS_CONFIG_CORS_ALLOW_CREDENTIALS@).is_some() && env_value(Config::RWS_CONFIG_CORS_ALLOW_CREDENTIALS@).unwrap() == true_str()
}
pub open spec fn env_origins() -> Seq<char> {
    if env_value(Config::RWS_CONFIG_CORS_ALLOW_ORIGINS@).is_some() { env_value(Config::RWS_CONFIG_CORS_ALLOW_ORIGINS@).unwrap() } else { Seq::empty() }
}
pub open spec fn cors_env_expected(req: Request) -> Seq<HV> {
    let o = req_header(req.headers@, Header::_ORIGIN@);
    // the configured origins are the non-empty comma-separated entries of the variable
    if o.is_none() || o.unwrap().value@.len() == 0 || !member(split_spec(env_origins(), comma_s()), o.unwrap().value@) { Seq::empty() }
    else {
        grants(o.unwrap().value@, env_creds(), is_options(req),
            env_value(Config::RWS_CONFIG_CORS_ALLOW_METHODS@), env_value(Config::RWS_CONFIG_CORS_ALLOW_HEADERS@),
            env_value(Config::RWS_CONFIG_CORS_EXPOSE_HEADERS@), env_value(Config::RWS_CONFIG_CORS_MAX_AGE@))
    }
}

// switch on: the Origin is echoed with credentials; a preflight gets what it asked for
pub open spec fn allow_all_expected(req: Request) -> Seq<HV> {
    let o = req_header(req.headers@, Header::_ORIGIN@);
    if o.is_none() { Seq::empty() }
    else {
        let m = req_header(req.headers@, Header::_ACCESS_CONTROL_REQUEST_METHOD@);
        let h = req_header(req.headers@, Header::_ACCESS_CONTROL_REQUEST_HEADERS@);
        grants(o.unwrap().value@, true, is_options(req),
            if m.is_some() { Some(m.unwrap().value@) } else { None },
            if h.is_some() { Some(h.unwrap().value@) } else { None },
            if h.is_some() { Some(h.unwrap().value@) } else { None },
            Some(Cors::MAX_AGE@))
    }
}

// which of the two applies: the switch is ON unless the variable parses to `false`
pub open spec fn switch_off() -> bool {
    env_value(Config::RWS_CONFIG_CORS_ALLOW_ALL@).is_some() && env_value(Config::RWS_CONFIG_CORS_ALLOW_ALL@).unwrap() == seq!['f', 'a', 'l', 's', 'e']
}
pub open spec fn cors_headers_expected(req: Request) -> Seq<HV> {
    if switch_off() { cors_env_expected(req) } else { allow_all_expected(req) }
}

pub proof fn lemma_utf8_len_zero(s: Seq<char>)
    ensures utf8_len(s) == 0 <==> s.len() == 0,
{
    axiom_utf8_len(s);
}
