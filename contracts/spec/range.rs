// ===== byte-range specs (RFC 9110 14.1.2) as mathematics =====
pub open spec fn hyphen() -> Seq<char> { seq!['-'] }
pub open spec fn rs_parts(s: Seq<char>) -> Seq<Seq<char>> { split_spec(s, hyphen()) }
pub open spec fn rs_a(s: Seq<char>) -> Seq<char> { trim_spec(rs_parts(s)[0]) }
pub open spec fn rs_b(s: Seq<char>) -> Seq<char> { if rs_parts(s).len() > 1 { trim_spec(rs_parts(s)[1]) } else { Seq::empty() } }
pub open spec fn num_ok(t: Seq<char>) -> bool { parses_unsigned(t, u64::MAX as nat) }
pub open spec fn num(t: Seq<char>) -> nat { dec_val(unsigned_digits(t)) }
// a byte position as RFC 9110 writes it: one or more digits (the '+' that Rust's parser also takes is not required to work)
pub open spec fn strict_num(t: Seq<char>) -> bool { t.len() > 0 && all_digits(t) && dec_val(t) <= u64::MAX }
pub proof fn lemma_strict_num(t: Seq<char>)
    requires strict_num(t),
    ensures num_ok(t), num(t) == dec_val(t),
{
    assert(is_digit(t[0]));
    assert(unsigned_digits(t) == t);
}

// what a successfully parsed range-spec must look like for a file of `len` bytes (offsets; the last-byte label is separate)
pub open spec fn range_ok(len: u64, s: Seq<char>, r: Range) -> bool {
    let a = rs_a(s);
    let b = rs_b(s);
    &&& r.start <= r.end && r.end <= len
    &&& (a.len() > 0 ==> num_ok(a) && r.start == num(a))
    &&& (a.len() > 0 && b.len() > 0 ==> num_ok(b) && r.end == num(b))
    &&& (a.len() == 0 && b.len() > 0 ==> num_ok(b) && r.start == (if num(b) <= len { len - num(b) } else { 0 }))
}

pub open spec fn is_416(e: Error) -> bool { *e.status_code_reason_phrase.status_code == 416 }

pub proof fn lemma_utf8_len_zero(s: Seq<char>)
    ensures utf8_len(s) == 0 <==> s.len() == 0,
{
    axiom_utf8_len(s);
}

// the comma-separated list of a Range header value "bytes=spec_1,...,spec_k"
pub open spec fn eq_sign() -> Seq<char> { seq!['='] }
pub open spec fn comma() -> Seq<char> { seq![','] }
pub open spec fn range_specs(raw: Seq<char>) -> Seq<Seq<char>> { split_spec(split_spec(raw, eq_sign())[1], comma()) }

// one served part: offsets as parsed, bytes as read from those offsets, size label = decimal file length
pub open spec fn part_ok(filepath: Seq<char>, len: u64, spec: Seq<char>, p: ContentRange) -> bool {
    &&& range_ok(len, spec, p.range)
    &&& p.body@ == file_slice(file_content(filepath), p.range.start as int, p.range.end as int)
    &&& p.size@ == dec(len as nat)
    &&& p.unit@ == "bytes"@
    &&& (filepath.len() > 0 && filepath.last() != '/' && mime_listed(filepath) ==> p.content_type@ == mime_of(filepath))   // the label of a file path (never empty, never ends in '/')
}

// ---------- the whole-file request "bytes=0-" that the static controller issues when the request has no Range header ----------
pub open spec fn s_bytes0() -> Seq<char> { seq!['b', 'y', 't', 'e', 's', '=', '0', '-'] }
pub proof fn lemma_no_char_no_sub(s: Seq<char>, c: char)
    requires forall|i: int| 0 <= i < s.len() ==> #[trigger] s[i] != c,
    ensures !has_sub(s, seq![c]),
{
    assert forall|k: int| 0 <= k && k + 1 <= s.len() implies #[trigger] s.subrange(k, k + 1) != seq![c] by {
        assert(s.subrange(k, k + 1)[0] == s[k]);
    }
}
pub proof fn lemma_whole_file_request()
    ensures
        range_specs(s_bytes0()) == seq![seq!['0', '-']],
        rs_a(seq!['0', '-']) == seq!['0'],
        rs_b(seq!['0', '-']).len() == 0,
        strict_num(seq!['0']), num(seq!['0']) == 0,
        has_prefix(s_bytes0(), "bytes="@),
        split_spec(s_bytes0(), eq_sign()).len() == 2,
{
    let b = seq!['b', 'y', 't', 'e', 's'];
    let z = seq!['0', '-'];
    let e = Seq::<char>::empty();
    lemma_no_char_no_sub(b, '=');
    lemma_no_char_no_sub(z, '=');
    lemma_no_char_no_sub(z, ',');
    lemma_no_char_no_sub(seq!['0'], '-');
    lemma_no_char_no_sub(e, '-');
    assert(s_bytes0() =~= b + eq_sign() + z);
    axiom_split_step(b, eq_sign(), z);
    axiom_split_step(z, eq_sign(), e);
    assert((seq![b] + seq![z])[1] == z);
    axiom_split_step(z, comma(), e);
    assert(z =~= seq!['0'] + hyphen() + e);
    axiom_split_step(seq!['0'], hyphen(), e);
    axiom_split_step(e, hyphen(), e);
    let parts = rs_parts(z);
    assert(parts == seq![seq!['0']] + seq![e]);
    assert(parts[0] == seq!['0'] && parts[1] == e && parts.len() == 2);
    axiom_trim(seq!['0']);
    axiom_trim(e);
    // trim("0") == "0": '0' is not white space
    let s = seq!['0'];
    let (a, bb) = choose|a: int, bb: int| 0 <= a <= bb <= s.len() && trim_spec(s) == s.subrange(a, bb)
        && (forall|i: int| 0 <= i < a ==> is_ws(#[trigger] s[i])) && (forall|i: int| bb <= i < s.len() ==> is_ws(#[trigger] s[i]));
    if a > 0 { assert(is_ws(s[0])); }
    if bb < 1 { assert(is_ws(s[0])); }
    assert(s.subrange(0, 1) =~= s);
    assert(trim_spec(e) =~= e);
    assert(is_digit('0'));
    assert(all_digits(s));
    reveal_with_fuel(dec_val, 2);
    assert(dec_val(s) == 0) by { assert(s.drop_last() =~= e); }
    lemma_strict_num(s);
    reveal_strlit("bytes=");
    assert(s_bytes0().subrange(0, 6) =~= "bytes="@);
}
