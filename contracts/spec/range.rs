// ===== byte-range specs (RFC 9110 14.1.2) as mathematics =====
pub open spec fn hyphen() -> Seq<char> { seq!['-'] }
pub open spec fn rs_parts(s: Seq<char>) -> Seq<Seq<char>> { split_spec(s, hyphen()) }
pub open spec fn rs_a(s: Seq<char>) -> Seq<char> { trim_spec(rs_parts(s)[0]) }
pub open spec fn rs_b(s: Seq<char>) -> Seq<char> { if rs_parts(s).len() > 1 { trim_spec(rs_parts(s)[1]) } else { Seq::empty() } }
pub open spec fn num_ok(t: Seq<char>) -> bool { parses_unsigned(t, u64::MAX as nat) }
pub open spec fn num(t: Seq<char>) -> nat { dec_val(unsigned_digits(t)) }
// a byte position as RFC 9110 writes it: one or more digits (the '+' that Rust's parser also takes is not required to work)
pub open spec fn strict_num(t: Seq<char>) -> bool { t.len() > 0 && all_digits(t) && dec_val(t) <= u64::MAX }
pub proof fn lemma_strict_num(t: Seq<char>)
    requires strict_num(t),
    ensures num_ok(t), num(t) == dec_val(t),
{
    assert(is_digit(t[0]));
    assert(unsigned_digits(t) == t);
}

// what a successfully parsed range-spec must look like for a file of `len` bytes (offsets; the last-byte label is separate)
pub open spec fn range_ok(len: u64, s: Seq<char>, r: Range) -> bool {
    let a = rs_a(s);
    let b = rs_b(s);
    &&& r.start <= r.end && r.end <= len
    &&& (a.len() > 0 ==> num_ok(a) && r.start == num(a))
    &&& (a.len() > 0 && b.len() > 0 ==> num_ok(b) && r.end == num(b))
    &&& (a.len() == 0 && b.len() > 0 ==> num_ok(b) && r.start == (if num(b) <= len { len - num(b) } else { 0 }))
}

pub open spec fn is_416(e: Error) -> bool { *e.status_code_reason_phrase.status_code == 416 }

pub proof fn lemma_utf8_len_zero(s: Seq<char>)
    ensures utf8_len(s) == 0 <==> s.len() == 0,
{
    axiom_utf8_len(s);
}

// the comma-separated list of a Range header value "bytes=spec_1,...,spec_k"
pub open spec fn eq_sign() -> Seq<char> { seq!['='] }
pub open spec fn comma() -> Seq<char> { seq![','] }
pub open spec fn range_specs(raw: Seq<char>) -> Seq<Seq<char>> { split_spec(split_spec(raw, eq_sign())[1], comma()) }

// one served part: offsets as parsed, bytes as read from those offsets, size label = decimal file length
pub open spec fn part_ok(filepath: Seq<char>, len: u64, spec: Seq<char>, p: ContentRange) -> bool {
    &&& range_ok(len, spec, p.range)
    &&& p.body@ == file_slice(file_content(filepath), p.range.start as int, p.range.end as int)
    &&& p.size@ == dec(len as nat)
    &&& p.unit@ == "bytes"@
    &&& p.content_type@ == mime_of(filepath)
}
