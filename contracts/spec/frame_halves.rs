// ===== contracts/spec/frame_halves.rs — frame_ok (contracts/spec/frames.rs) as two separate postconditions, so that a failure is
// reported under the property it belongs to: keep version and header list (C10), choose a registered status (C05).
// (Kept out of frames.rs: that file is also part of the response reader's unit, whose multipart theorem lemmas are sensitive
// to the set of definitions in scope.) =====
pub open spec fn frame_headers(old: Response, new: Response) -> bool {
    new.http_version@ == old.http_version@ && hvs(new.headers@) == hvs(old.headers@)
}
pub open spec fn frame_headers_static(old: Response, new: Response) -> bool {
    new.http_version@ == old.http_version@
    && (hvs(new.headers@) == hvs(old.headers@)
        || exists|v: Seq<char>| #![auto] hvs(new.headers@) == hvs(old.headers@).push((Header::_LAST_MODIFIED_UNIX_EPOCH_NANOS@, v)))
}
pub open spec fn frame_status(new: Response) -> bool { registered(new.status_code, new.reason_phrase@) }
