use vstd::prelude::*;
verus! {
pub struct Symbol { pub equals: &'static str }
pub const SYMBOL: Symbol = Symbol { equals: "=" };

pub open spec fn alpha(n: int) -> char {
    if 0 <= n < 26 { (('A' as int) + n) as char }
    else if n < 52 { (('a' as int) + n - 26) as char }
    else if n < 62 { (('0' as int) + n - 52) as char }
    else if n == 62 { '+' } else { '/' }
}
pub open spec fn is_alpha(c: char) -> bool { exists|n: int| 0 <= n < 64 && #[trigger] alpha(n) == c }
pub open spec fn group(b: Seq<u8>) -> Seq<char> {
    let b0 = b[0] as int;
    let b1 = if b.len() > 1 { b[1] as int } else { 0 };
    let b2 = if b.len() > 2 { b[2] as int } else { 0 };
    seq![ alpha(b0 / 4), alpha((b0 % 4) * 16 + b1 / 16),
          if b.len() > 1 { alpha((b1 % 16) * 4 + b2 / 64) } else { '=' },
          if b.len() > 2 { alpha(b2 % 64) } else { '=' } ]
}
pub proof fn lemma_alpha_inj(a: int, b: int)
    requires 0 <= a < 64, 0 <= b < 64, alpha(a) == alpha(b)
    ensures a == b
{
    // alpha(n) as int is a strictly piecewise function; compare code points
    let ca = alpha(a) as int; let cb = alpha(b) as int;
    assert(0 <= a < 26 ==> ca == 65 + a);
    assert(26 <= a < 52 ==> ca == 97 + a - 26);
    assert(52 <= a < 62 ==> ca == 48 + a - 52);
    assert(a == 62 ==> ca == 43);
    assert(a == 63 ==> ca == 47);
    assert(0 <= b < 26 ==> cb == 65 + b);
    assert(26 <= b < 52 ==> cb == 97 + b - 26);
    assert(52 <= b < 62 ==> cb == 48 + b - 52);
    assert(b == 62 ==> cb == 43);
    assert(b == 63 ==> cb == 47);
}

// ---- shims ----
pub uninterp spec fn count_eq(s: Seq<char>) -> nat;   // number of '=' characters
#[verifier::external_body]
pub fn rws_matches_count(s: &String, p: &str) -> (r: usize) requires p@ == seq!['='] ensures r == count_eq(s@) { s.matches(p).count() }
#[verifier::external_body]
pub fn rws_chars_nth(s: &String, i: usize) -> (r: Option<char>)
    ensures r.is_some() == (i < s@.len()), r.is_some() ==> r.unwrap() == s@[i as int] { s.chars().nth(i) }
#[verifier::external_body] pub fn rws_str_to_string(s: &str) -> (r: String) ensures r@ == s@ { s.to_string() }
pub proof fn axiom_count_eq(s: Seq<char>)
    ensures
        s.len() == 4 && s[0] != '=' && s[1] != '=' && s[2] != '=' && s[3] != '=' ==> count_eq(s) == 0,
        s.len() == 4 && s[0] != '=' && s[1] != '=' && s[2] != '=' && s[3] == '=' ==> count_eq(s) == 1,
        s.len() == 4 && s[0] != '=' && s[1] != '=' && s[2] == '=' && s[3] == '=' ==> count_eq(s) == 2,
{ admit(); }   // probe only: in the real shim count_eq is a defined recursive spec fn

pub struct Base64;
impl Base64 {
    #[verifier::external_body]
    pub fn convert_base64_char_to_number(char: char) -> (r: Result<u8, String>)
        ensures is_alpha(char) ==> r.is_ok() && r.unwrap() < 64 && alpha(r.unwrap() as int) == char,
                !is_alpha(char) ==> r.is_err(),
    { unimplemented!() }

    pub fn decode_sequence(text: String) -> (r: Result<Vec<u8>, String>)
        ensures forall|b: Seq<u8>| #![auto] b.len() == 3 && text@ == group(b) ==> r.is_ok() && r.unwrap()@ == b,
    {
        proof { reveal_strlit("="); }
        let result : Vec<u8> = vec![];

        let number_of_equal_signs = rws_matches_count(&text, SYMBOL.equals);

        if number_of_equal_signs == 0 {
            let boxed_first_byte = rws_chars_nth(&text, 0);
            if boxed_first_byte.is_none() {
                return Err(rws_str_to_string("unexpected error, unable to get char at position 0"));
            }
            let first_byte = boxed_first_byte.unwrap() as u8;

            let boxed_conversion = Base64::convert_base64_char_to_number(first_byte as char);
            if boxed_conversion.is_err() {
                let message = boxed_conversion.err().unwrap();
                return Err(message);
            }
            let converted_first_byte = boxed_conversion.unwrap();
            let shifted_converted_first_byte = converted_first_byte << 2;

            let boxed_second_byte = rws_chars_nth(&text, 1);
            if boxed_second_byte.is_none() {
                return Err(rws_str_to_string("unexpected error, unable to get char at position 1"));
            }
            let second_byte = boxed_second_byte.unwrap() as u8;

            let boxed_conversion = Base64::convert_base64_char_to_number(second_byte as char);
            if boxed_conversion.is_err() {
                let message = boxed_conversion.err().unwrap();
                return Err(message);
            }
            let converted_second_byte = boxed_conversion.unwrap();

            let shifted_converted_second_byte = converted_second_byte >> 4;

            let first_char_as_byte = shifted_converted_first_byte | shifted_converted_second_byte;

            // second char
            let second_char_part_one = (converted_second_byte & 0b00001111) << 4;
            let boxed_third_byte = rws_chars_nth(&text, 2);
            if boxed_third_byte.is_none() {
                return Err(rws_str_to_string("unexpected error, unable to get char at position 2"));
            }
            let third_byte = boxed_third_byte.unwrap() as u8;

            let boxed_conversion = Base64::convert_base64_char_to_number(third_byte as char);
            if boxed_conversion.is_err() {
                let message = boxed_conversion.err().unwrap();
                return Err(message);
            }
            let converted_third_byte = boxed_conversion.unwrap();
            let shifted_third_byte = (0b00111100 & converted_third_byte)  >> 2;

            let second_char_as_byte = shifted_third_byte | second_char_part_one;

            let boxed_conversion = Base64::convert_base64_char_to_number(third_byte as char);
            if boxed_conversion.is_err() {
                let message = boxed_conversion.err().unwrap();
                return Err(message);
            }
            let converted_third_byte = boxed_conversion.unwrap();
            let masked_third_byte = converted_third_byte & 0b00000011;
            let shifted_masked_third_byte = masked_third_byte << 6;

            let boxed_fourth_byte = rws_chars_nth(&text, 3);
            if boxed_fourth_byte.is_none() {
                return Err(rws_str_to_string("unexpected error, unable to get char at position 3"));
            }
            let fourth_byte = boxed_fourth_byte.unwrap() as u8;

            let boxed_conversion = Base64::convert_base64_char_to_number(fourth_byte as char);
            if boxed_conversion.is_err() {
                let message = boxed_conversion.err().unwrap();
                return Err(message);
            }
            let converted_fourth_byte = boxed_conversion.unwrap();
            let masked_fourth_byte = converted_fourth_byte & 0b00111111;

            let third_char_as_byte = shifted_masked_third_byte | masked_fourth_byte;

            return Ok(vec![first_char_as_byte, second_char_as_byte, third_char_as_byte]);
        }

        Ok(result)
    }
}
} // verus!
fn main() {}
