use vstd::prelude::*;
verus! {

pub struct Symbol { pub empty_string: &'static str, pub equals: &'static str }
pub const SYMBOL: Symbol = Symbol { empty_string: "", equals: "=" };

// ---- trusted shims ----
pub trait RwsVal { type V; spec fn sv(self) -> Self::V; fn rwsv(self) -> (r: Self::V) ensures r == self.sv(); }
impl RwsVal for u8 { type V = u8; open spec fn sv(self) -> u8 { self } fn rwsv(self) -> u8 { self } }
impl<'a> RwsVal for &'a u8 { type V = u8; open spec fn sv(self) -> u8 { *self } fn rwsv(self) -> u8 { *self } }

pub open spec fn concat_all(v: Seq<String>) -> Seq<char> decreases v.len() {
    if v.len() == 0 { Seq::empty() } else { concat_all(v.drop_last()) + v.last()@ }
}

#[verifier::external_body]
pub fn rws_join_strings(v: &Vec<String>, sep: &str) -> (r: String)
    requires sep@.len() == 0,
    ensures r@ == concat_all(v@),
{ v.join(sep) }

pub trait RwsToString { spec fn ts(&self) -> Seq<char>; fn rws_to_string(&self) -> (r: String) ensures r@ == self.ts(); }
impl RwsToString for char { open spec fn ts(&self) -> Seq<char> { seq![*self] }
  #[verifier::external_body] fn rws_to_string(&self) -> String { self.to_string() } }
impl RwsToString for str { open spec fn ts(&self) -> Seq<char> { self@ }
  #[verifier::external_body] fn rws_to_string(&self) -> String { self.to_string() } }

// ---- spec (RFC 4648) ----
pub open spec fn alpha(n: int) -> char {
    if 0 <= n < 26 { (('A' as int) + n) as char }
    else if n < 52 { (('a' as int) + n - 26) as char }
    else if n < 62 { (('0' as int) + n - 52) as char }
    else if n == 62 { '+' } else { '/' }
}
pub open spec fn group(b: Seq<u8>) -> Seq<char> {
    let b0 = b[0] as int;
    let b1 = if b.len() > 1 { b[1] as int } else { 0 };
    let b2 = if b.len() > 2 { b[2] as int } else { 0 };
    seq![ alpha(b0 / 4), alpha((b0 % 4) * 16 + b1 / 16),
          if b.len() > 1 { alpha((b1 % 16) * 4 + b2 / 64) } else { '=' },
          if b.len() > 2 { alpha(b2 % 64) } else { '=' } ]
}

pub struct Base64;
impl Base64 {
    #[verifier::external_body]
    pub fn convert_number_to_base64_char(number: u8) -> (r: Result<char, String>)
        ensures number > 63 ==> r.is_err(),
                number <= 63 ==> r == Ok::<char,String>(alpha(number as int)),
    { unimplemented!() }

    pub fn encode_sequence(bytes: &[u8]) -> (r: Result<String, String>)
        ensures bytes.len() == 3 ==> r.is_ok() && r.unwrap()@ == group(bytes@),
    {
        proof { reveal_strlit(""); reveal_strlit("="); }
        if bytes.len() > 3 {
            return Err("sequence encodes at most 3 bytes at once".rws_to_string());
        }

        if bytes.len() == 0 {
            return Err("sequence encodes at least 1 byte".rws_to_string());
        }

        if bytes.len() == 3 {
            let boxed_byte = bytes.get(0);
            if boxed_byte.is_none() {
                return Err("byte at pos 1 is empty".rws_to_string());
            }

            let byte = boxed_byte.unwrap();
            let shifted_first_sextet = byte.rwsv() >> 2;
            proof { let b = *byte; assert(b >> 2 <= 63u8 && b >> 2 == b / 4) by(bit_vector); }

            let mut result_buffer: Vec<String> = vec![];

            let boxed_encoded_char = Base64::convert_number_to_base64_char(shifted_first_sextet);
            if boxed_encoded_char.is_err() {
                return Err(boxed_encoded_char.err().unwrap());
            }

            let char : String =  boxed_encoded_char.unwrap().rws_to_string();
            result_buffer.push(char);

            // base64 second sextet part 1 (from first u8)
            let shifted_second_sextet_part_one = (byte.rwsv() & 0b00000011) << 4;

            // base64 second sextet part 2 (from second u8)
            let boxed_byte = bytes.get(1);
            if boxed_byte.is_none() {
                return Err("byte at pos 1 is empty".rws_to_string());
            }

            let second_byte = boxed_byte.unwrap();
            let shifted_second_byte_part_two = second_byte.rwsv() >> 4;

            let second_sextet = shifted_second_sextet_part_one | shifted_second_byte_part_two;
            proof { let b = *byte; let c = *second_byte;
                assert((((b & 3u8) << 4) | (c >> 4)) <= 63u8 && (((b & 3u8) << 4) | (c >> 4)) == (b % 4) * 16 + c / 16) by(bit_vector); }
            let boxed_second_encoded_char = Base64::convert_number_to_base64_char(second_sextet);
            if boxed_second_encoded_char.is_err() {
                return Err(boxed_second_encoded_char.err().unwrap());
            }

            let char =  boxed_second_encoded_char.unwrap();
            result_buffer.push(char.rws_to_string());

            // base64 third char
            let base64_third_char = (second_byte.rwsv() & 0b00001111) << 2;

            let boxed_byte = bytes.get(2);
            if boxed_byte.is_none() {
                return Err("byte at pos 1 is empty".rws_to_string());
            }

            let third_byte = boxed_byte.unwrap();
            let third_encoded_char_part2 = (third_byte.rwsv() & 0b11000000) >> 6;

            let third_encoded_char = base64_third_char | third_encoded_char_part2;
            proof { let c = *second_byte; let d = *third_byte;
                assert((((c & 15u8) << 2) | ((d & 192u8) >> 6)) <= 63u8 && (((c & 15u8) << 2) | ((d & 192u8) >> 6)) == (c % 16) * 4 + d / 64) by(bit_vector); }

            let boxed_third_encoded_char = Base64::convert_number_to_base64_char(third_encoded_char);
            if boxed_third_encoded_char.is_err() {
                return Err(boxed_third_encoded_char.err().unwrap());
            }
            let char =  boxed_third_encoded_char.unwrap();
            result_buffer.push(char.rws_to_string());

            let fourth_encoded_char = third_byte.rwsv() & 0b00111111;
            proof { let d = *third_byte; assert((d & 63u8) <= 63u8 && (d & 63u8) == d % 64) by(bit_vector); }
            let boxed_fourth_encoded_char = Base64::convert_number_to_base64_char(fourth_encoded_char);
            if boxed_fourth_encoded_char.is_err() {
                return Err(boxed_fourth_encoded_char.err().unwrap());
            }
            let char =  boxed_fourth_encoded_char.unwrap();
            result_buffer.push(char.rws_to_string());

            let result : String = rws_join_strings(&result_buffer, SYMBOL.empty_string);
            proof {
                let v = result_buffer@;
                assert(v.len() == 4);
                reveal_with_fuel(concat_all, 5);
                assert(v.drop_last().drop_last().drop_last().drop_last().len() == 0);
                assert(result@ =~= group(bytes@));
            }
            return Ok(result);
        }

        Ok("".rws_to_string())
    }
}

} // verus!
fn main() {}
