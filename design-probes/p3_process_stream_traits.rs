use vstd::prelude::*;
use std::io::prelude::*;
verus! {

#[verifier::external_type_specification]
#[verifier::external_body]
pub struct ExIoError(std::io::Error);

#[verifier::external_trait_specification]
#[verifier::external_trait_extension(WriteSpec via WriteSpecImpl)]
pub trait ExWrite {
    type ExternalTraitSpecificationFor: std::io::Write;
    spec fn sent(&self) -> Seq<u8>;
    fn write(&mut self, buf: &[u8]) -> (r: Result<usize, std::io::Error>)
        ensures
            r.is_ok() ==> r.unwrap() <= buf@.len() && final(self).sent() == old(self).sent() + buf@.subrange(0, r.unwrap() as int),
            r.is_err() ==> final(self).sent() == old(self).sent();
    fn flush(&mut self) -> (r: Result<(), std::io::Error>)
        ensures final(self).sent() == old(self).sent();
    fn write_all(&mut self, buf: &[u8]) -> (r: Result<(), std::io::Error>)
        ensures r.is_ok() ==> final(self).sent() == old(self).sent() + buf@;
}

#[verifier::external_trait_specification]
pub trait ExRead {
    type ExternalTraitSpecificationFor: std::io::Read;
    fn read(&mut self, buf: &mut [u8]) -> (r: Result<usize, std::io::Error>)
        ensures r.is_ok() ==> r.unwrap() <= old(buf)@.len(), final(buf)@.len() == old(buf)@.len();
}

pub trait RwsBorrowBytes { fn rws_borrow(&self) -> (r: &[u8]) ensures r@ == self.bv(); spec fn bv(&self) -> Seq<u8>; }
impl RwsBorrowBytes for Vec<u8> { open spec fn bv(&self) -> Seq<u8> { self@ } fn rws_borrow(&self) -> &[u8] { self.as_slice() } }

fn process(mut stream: impl Read + Write + Unpin, raw_response: Vec<u8>) -> (r: Result<(), String>)
{
    let ghost sent0 = stream.sent();
    let mut buffer = vec![0u8; 10];
    let boxed_read = stream.read(&mut buffer);
    let boxed_stream = stream.write(raw_response.rws_borrow());
    if boxed_stream.is_ok() {
        stream.flush().unwrap();
    } else {
        proof { assert(stream.sent() == sent0); }
        return Err("x".to_string());
    };
    proof { assert(stream.sent() == sent0 + raw_response@); }
    Ok(())
}

} // verus!
fn main() {}
