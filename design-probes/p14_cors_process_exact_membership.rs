use vstd::prelude::*;
verus! {
#[derive(PartialEq, Eq, Clone, Debug)]
pub struct Header { pub name: String, pub value: String }
#[derive(PartialEq, Eq, Clone, Debug)]
pub struct Request { pub method: String, pub request_uri: String, pub http_version: String, pub headers: Vec<Header>, pub body: Vec<u8> }
pub struct Method { pub options: &'static str }
pub const METHOD: Method = Method { options: "OPTIONS" };
#[derive(PartialEq, Eq, Clone, Debug)]
pub struct Cors { pub allow_all: bool, pub allow_origins: Vec<String>, pub allow_methods: Vec<String>, pub allow_headers: Vec<String>,
    pub allow_credentials: bool, pub expose_headers: Vec<String>, pub max_age: String }
#[derive(PartialEq, Eq, Clone, Debug)]
pub struct Error { pub message: String }

pub struct H;
impl H {
    pub const _ORIGIN: &'static str = "Origin";
    pub const _ACCESS_CONTROL_ALLOW_ORIGIN: &'static str = "Access-Control-Allow-Origin";
    pub const _ACCESS_CONTROL_ALLOW_CREDENTIALS: &'static str = "Access-Control-Allow-Credentials";
}

// ---- shims ----
pub uninterp spec fn lower(s: Seq<char>) -> Seq<char>;
pub open spec fn join_seq(v: Seq<Seq<char>>, sep: Seq<char>) -> Seq<char> decreases v.len() {
    if v.len() == 0 { Seq::empty() } else if v.len() == 1 { v[0] } else { join_seq(v.drop_last(), sep) + sep + v.last() }
}
#[verifier::external_body]
pub fn rws_join_vec(v: &Vec<String>, sep: &str) -> (r: String) ensures r@ == join_seq(v@.map_values(|s: String| s@), sep@) { v.join(sep) }
pub open spec fn is_sub(s: Seq<char>, t: Seq<char>) -> bool { exists|i: int| 0 <= i && i + t.len() <= s.len() && #[trigger] s.subrange(i, i + t.len()) == t }
#[verifier::external_body]
pub fn rws_contains(s: &String, t: &String) -> (r: bool) ensures r == is_sub(s@, t@) { s.contains(t.as_str()) }
#[verifier::external_body] pub fn rws_str_to_string(s: &str) -> (r: String) ensures r@ == s@ { s.to_string() }
#[verifier::external_body] pub fn rws_bool_to_string(b: &bool) -> (r: String) { b.to_string() }
#[verifier::external_body] pub fn rws_fmt1(a: &String) -> (r: String) ensures r@ == a@ { format!("{}", a) }

impl Request {
    #[verifier::external_body]
    pub fn get_header(&self, name: String) -> (r: Option<&Header>)
        ensures
            r.is_some() ==> exists|i: int| 0 <= i < self.headers@.len() && self.headers@[i] == *r.unwrap() && lower(#[trigger] self.headers@[i].name@) == lower(name@),
            r.is_none() ==> forall|i: int| 0 <= i < self.headers@.len() ==> lower(#[trigger] self.headers@[i].name@) != lower(name@),
    { unimplemented!() }
}

pub open spec fn has_name(hs: Seq<Header>, n: Seq<char>) -> bool { exists|i: int| 0 <= i < hs.len() && #[trigger] hs[i].name@ == n }


impl Cors {
    pub fn _process(request: &Request, cors: &Cors) -> (res: Result<Vec<Header>, Error>)
        ensures res.is_ok(),
            // T: ACAO only if the Origin value is EQUAL to a configured origin
            has_name(res.unwrap()@, H::_ACCESS_CONTROL_ALLOW_ORIGIN@) ==>
                exists|k: int| 0 <= k < cors.allow_origins@.len() && #[trigger] cors.allow_origins@[k]@ == res.unwrap()@[0].value@,
    {
        let mut headers : Vec<Header> = vec![];

        let allow_origins = rws_join_vec(&cors.allow_origins, ",");
        let boxed_origin = request.get_header(rws_str_to_string(H::_ORIGIN));

        if boxed_origin.is_none() {
            return Ok(headers)
        }

        let origin = boxed_origin.unwrap();
        let origin_value = rws_fmt1(&origin.value);

        let is_valid_origin = rws_contains(&allow_origins, &origin_value);
        if !is_valid_origin {
            return Ok(headers)
        }

        let allow_origin = Header {
            name: rws_str_to_string(H::_ACCESS_CONTROL_ALLOW_ORIGIN),
            value: origin_value
        };
        headers.push(allow_origin);

        if cors.allow_credentials {
            let allow_credentials = Header {
                name: rws_str_to_string(H::_ACCESS_CONTROL_ALLOW_CREDENTIALS),
                value: rws_bool_to_string(&cors.allow_credentials)
            };
            headers.push(allow_credentials);
        }
        Ok(headers)
    }
}
} // verus!
fn main() {}
