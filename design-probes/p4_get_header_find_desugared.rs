use vstd::prelude::*;
verus! {
#[derive(PartialEq, Eq, Debug)]
pub struct Header { pub name: String, pub value: String }

pub uninterp spec fn lower(s: Seq<char>) -> Seq<char>;
pub trait RwsLower { spec fn lv(&self) -> Seq<char>; fn rws_to_lowercase(&self) -> (r: String) ensures r@ == lower(self.lv()); }
impl RwsLower for String { open spec fn lv(&self) -> Seq<char> { self@ }
  #[verifier::external_body] fn rws_to_lowercase(&self) -> String { self.to_lowercase() } }

pub struct Request { pub method: String, pub headers: Vec<Header> }
impl Request {
    pub open spec fn find_ci(hs: Seq<Header>, name: Seq<char>) -> Option<int> decreases hs.len() {
        if hs.len() == 0 { None }
        else if lower(hs[0].name@) == lower(name) { Some(0) }
        else { match Self::find_ci(hs.subrange(1, hs.len() as int), name) { Some(i) => Some(i + 1), None => None } }
    }
    pub fn get_header(&self, name: String) -> (r: Option<&Header>)
        ensures
            r.is_some() ==> exists|i: int| 0 <= i < self.headers@.len() && self.headers@[i] == *r.unwrap() && lower(self.headers@[i].name@) == lower(name@),
            r.is_none() ==> forall|i: int| 0 <= i < self.headers@.len() ==> lower(self.headers@[i].name@) != lower(name@),
    {
        // desugared: self.headers.iter().find(|x| x.name.to_lowercase() == name.to_lowercase())
        let mut header: Option<&Header> = None;
        let __v = &self.headers; let mut __i: usize = 0;
        while __i < __v.len()
            invariant __v == &self.headers, header.is_none(), __i <= __v.len(),
                forall|j: int| 0 <= j < __i ==> lower(self.headers@[j].name@) != lower(name@),
            decreases __v.len() - __i
        {
            let x = &__v[__i];
            if x.name.rws_to_lowercase() == name.rws_to_lowercase() { header = Some(x); break; }
            __i += 1;
        }
        header
    }
    fn is_get(&self) -> bool { self.method == "GET" }
}
} // verus!
fn main() {}
