use vstd::prelude::*;
use std::io::{BufRead, Cursor, Read};
verus! {

#[verifier::external_type_specification]
#[verifier::external_body]
pub struct ExIoError(std::io::Error);

#[verifier::external_type_specification]
#[verifier::external_body]
#[verifier::reject_recursive_types(T)]
pub struct ExCursor<T>(std::io::Cursor<T>);

pub uninterp spec fn rem(c: &Cursor<&[u8]>) -> Seq<u8>;

pub open spec fn line_len(s: Seq<u8>) -> int decreases s.len() {
    if s.len() == 0 { 0 } else if s[0] == 10u8 { 1 } else { 1 + line_len(s.subrange(1, s.len() as int)) }
}

pub trait RwsCursor {
    fn rws_read_until(&mut self, byte: u8, buf: &mut Vec<u8>) -> (r: Result<usize, std::io::Error>)
        requires byte == 10u8, old(buf)@.len() == 0;
    fn rws_read_to_end(&mut self, buf: &mut Vec<u8>) -> (r: Result<usize, std::io::Error>);
}
impl<'a> RwsCursor for Cursor<&'a [u8]> {
    #[verifier::external_body]
    fn rws_read_until(&mut self, byte: u8, buf: &mut Vec<u8>) -> (r: Result<usize, std::io::Error>)
        ensures r.is_ok(),
            r.unwrap() == line_len(rem(old(self))),
            final(buf)@ == rem(old(self)).subrange(0, line_len(rem(old(self)))),
            rem(final(self)) == rem(old(self)).subrange(line_len(rem(old(self))), rem(old(self)).len() as int),
    { self.read_until(byte, buf) }
    #[verifier::external_body]
    fn rws_read_to_end(&mut self, buf: &mut Vec<u8>) -> (r: Result<usize, std::io::Error>)
        ensures r.is_ok(), final(buf)@ == old(buf)@ + rem(old(self)), rem(final(self)).len() == 0,
    { self.read_to_end(buf) }
}

#[verifier::external_body]
pub fn rws_cursor_new<'a>(s: &'a [u8]) -> (c: Cursor<&'a [u8]>) ensures rem(&c) == s@ { Cursor::new(s) }

pub proof fn lemma_line_len(s: Seq<u8>)
    ensures 0 <= line_len(s) <= s.len(), s.len() > 0 ==> line_len(s) > 0
    decreases s.len()
{ if s.len() > 0 && s[0] != 10u8 { lemma_line_len(s.subrange(1, s.len() as int)); } }

pub fn cursor_read(cursor: &mut Cursor<&[u8]>, mut iteration_number: usize, body: &mut Vec<u8>) -> (r: Result<bool, String>)
    requires iteration_number < 1000000
    decreases rem(old(cursor)).len()
{
    let mut buf = vec![];
    proof { lemma_line_len(rem(cursor)); }
    let bytes_offset = cursor.rws_read_until(b'\n', &mut buf).unwrap();
    let new_line_char_found = bytes_offset != 0;
    if new_line_char_found && iteration_number < 999999 {
        iteration_number += 1;
        let boxed_read = cursor_read(cursor, iteration_number, body);
        if boxed_read.is_err() { }
    }
    let mut buf2 = vec![];
    let _ = cursor.rws_read_to_end(&mut buf2).unwrap();
    body.append(&mut buf2);
    Ok(true)
}
} // verus!
fn main() {}
