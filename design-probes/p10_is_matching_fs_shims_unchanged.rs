use vstd::prelude::*;
use std::fs::{File, metadata};
verus! {

#[derive(PartialEq, Eq, Clone, Debug)]
pub struct Header { pub name: String, pub value: String }
#[derive(PartialEq, Eq, Clone, Debug)]
pub struct Request { pub method: String, pub request_uri: String, pub http_version: String, pub headers: Vec<Header>, pub body: Vec<u8> }
pub struct Method { pub get: &'static str, pub head: &'static str, pub options: &'static str }
pub const METHOD: Method = Method { get: "GET", head: "HEAD", options: "OPTIONS" };
pub struct Symbol { pub empty_string: &'static str, pub slash: &'static str }
pub const SYMBOL: Symbol = Symbol { empty_string: "", slash: "/" };
pub struct ConnectionInfo { pub request_size: i64 }

// ---------------- trusted shims -----------------
#[verifier::external_type_specification] #[verifier::external_body] pub struct ExIoError(std::io::Error);
#[verifier::external_type_specification] #[verifier::external_body] pub struct ExMetadata(std::fs::Metadata);
#[verifier::external_type_specification] #[verifier::external_body] pub struct ExFile(std::fs::File);

// dependency type (url_build_parse::UrlComponents), only the field the code reads
pub struct UrlComponents { pub path: String }
pub struct URL;
impl URL { #[verifier::external_body] pub fn parse(url: &str) -> (r: Result<UrlComponents, String>) { unimplemented!() } }

pub uninterp spec fn cwd() -> Seq<char>;
pub open spec fn has_dotdot(s: Seq<char>) -> bool { exists|i: int| 0 <= i && i + 1 < s.len() && #[trigger] s[i] == '.' && s[i + 1] == '.' }
pub open spec fn inside_root(p: Seq<char>) -> bool {
    exists|rel: Seq<char>| #![auto] p == cwd() + rel && !has_dotdot(rel)
}
pub uninterp spec fn fs_is_dir(p: Seq<char>) -> bool;
pub uninterp spec fn fs_openable(p: Seq<char>) -> bool;
pub uninterp spec fn fs_exists(p: Seq<char>) -> bool;

pub struct FileExt;
impl FileExt {
    #[verifier::external_body]
    pub fn get_path_separator() -> (r: String) ensures r@ == seq!['/'] { unimplemented!() }
    #[verifier::external_body]
    pub fn get_static_filepath(path: &str) -> (r: Result<String, String>) ensures r.is_ok() ==> r.unwrap()@ == cwd() + path@ { unimplemented!() }
}
#[verifier::external_body]
pub fn rws_metadata(p: &String) -> (r: Result<std::fs::Metadata, std::io::Error>)
    requires inside_root(p@), ensures r.is_ok() == fs_exists(p@), r.is_ok() ==> md_is_dir(r.unwrap()) == fs_is_dir(p@)
{ metadata(p) }
pub uninterp spec fn md_is_dir(m: std::fs::Metadata) -> bool;
#[verifier::external_body]
pub fn rws_md_is_dir(m: &std::fs::Metadata) -> (r: bool) ensures r == md_is_dir(*m) { m.is_dir() }
#[verifier::external_body]
pub fn rws_file_open(p: &String) -> (r: Result<File, std::io::Error>)
    requires inside_root(p@), ensures r.is_ok() == fs_openable(p@)
{ File::open(p) }

pub trait RwsJoin { spec fn parts(&self) -> Seq<Seq<char>>; fn rws_join(&self, sep: &str) -> (r: String) requires sep@.len() == 0 ensures r@ == concat_seq(self.parts()); }
pub open spec fn concat_seq(v: Seq<Seq<char>>) -> Seq<char> decreases v.len() { if v.len() == 0 { Seq::empty() } else { concat_seq(v.drop_last()) + v.last() } }
impl<'a, const N: usize> RwsJoin for [&'a str; N] {
    open spec fn parts(&self) -> Seq<Seq<char>> { Seq::new(N as nat, |i: int| self@[i]@) }
    #[verifier::external_body] fn rws_join(&self, sep: &str) -> String { self.join(sep) } }
pub uninterp spec fn replace_spec(s: Seq<char>, a: Seq<char>, b: Seq<char>) -> Seq<char>;
pub broadcast proof fn axiom_replace_same(s: Seq<char>, a: Seq<char>)
    ensures #[trigger] replace_spec(s, a, a) == s { admit(); }
#[verifier::external_body]
pub fn rws_replace(s: &String, a: &str, b: &str) -> (r: String) ensures r@ == replace_spec(s@, a@, b@) { s.replace(a, b) }
#[verifier::external_body]
pub fn rws_chars_last(s: &String) -> (r: Option<char>) ensures r.is_some() == (s@.len() > 0), r.is_some() ==> r.unwrap() == s@.last() { s.chars().last() }
#[verifier::external_body]
pub fn rws_fmt2(a: &String, b: &String) -> (r: String) ensures r@ == a@ + b@ { format!("{}{}", a, b) }
#[verifier::external_body]
pub fn rws_ends_with(s: &String, t: &str) -> (r: bool) { s.ends_with(t) }
#[verifier::external_body]
pub fn rws_str_to_string(s: &str) -> (r: String) ensures r@ == s@ { s.to_string() }

pub struct StaticResourceController;
impl StaticResourceController {
    fn is_matching(request: &Request, _connection: &ConnectionInfo) -> bool {
        broadcast use axiom_replace_same;
        proof { reveal_strlit("/"); reveal_strlit(""); }
        if request.method != METHOD.get {
            return false;
        }

        let url_array = ["http://", "localhost", &request.request_uri];
        let url = url_array.rws_join(SYMBOL.empty_string);

        let boxed_url_components = URL::parse(&url);
        if boxed_url_components.is_err() {
            let message = rws_str_to_string(boxed_url_components.as_ref().err().unwrap());
            // unfallable
            { let _ = &(message); }
        }

        let components = boxed_url_components.unwrap();

        let os_specific_separator : String = FileExt::get_path_separator();
        let os_specific_path = &rws_replace(&components.path, SYMBOL.slash, os_specific_separator.as_str());

        let boxed_static_filepath = FileExt::get_static_filepath(&os_specific_path);
        if boxed_static_filepath.is_err() {
            return false
        }

        let static_filepath = boxed_static_filepath.unwrap();

        let mut is_directory_with_index_html = false;

        let boxed_md = rws_metadata(&static_filepath);
        if boxed_md.is_ok() {
            let md = boxed_md.unwrap();
            if rws_md_is_dir(&md) {
                let mut directory_index : String = rws_str_to_string("index.html");

                let last_char = rws_chars_last(&components.path).unwrap();
                if last_char != '/' {
                    let index : String = rws_str_to_string("index.html");
                    directory_index = rws_fmt2(&os_specific_separator, &index);
                }
                let index_html_in_directory = rws_fmt2(&static_filepath, &directory_index);

                let boxed_file = rws_file_open(&index_html_in_directory);
                if boxed_file.is_err() {
                    return false
                }

                is_directory_with_index_html = true;
            }
        }
        let boxed_file = rws_file_open(&static_filepath);
        boxed_file.is_ok() || is_directory_with_index_html
    }
}
} // verus!
fn main() {}
