use vstd::prelude::*;
use std::io::prelude::*;
use std::net::{IpAddr, SocketAddr};
verus! {

#[derive(PartialEq, Eq, Clone, Debug)]
pub struct Header { pub name: String, pub value: String }
#[derive(PartialEq, Eq, Clone, Debug)]
pub struct Request { pub method: String, pub request_uri: String, pub http_version: String, pub headers: Vec<Header>, pub body: Vec<u8> }
#[derive(PartialEq, Eq, Clone, Debug)]
pub struct Response { pub http_version: String, pub status_code: i16, pub reason_phrase: String, pub headers: Vec<Header> }
#[derive(Clone)]
pub struct ConnectionInfo { pub client: Address, pub server: Address, pub request_size: i64 }
#[derive(Clone)]
pub struct Address { pub ip: String, pub port: i32 }
pub struct Symbol { pub empty_string: &'static str, pub comma: &'static str }
pub const SYMBOL: Symbol = Symbol { empty_string: "", comma: "," };

pub trait Application {
    fn execute(&self, request: &Request, connection: &ConnectionInfo) -> Result<Response, String>;
}

// ---------------- trusted shims -----------------
#[verifier::external_type_specification] #[verifier::external_body] pub struct ExIoError(std::io::Error);
#[verifier::external_type_specification] #[verifier::external_body] pub struct ExSocketAddr(SocketAddr);
#[verifier::external_type_specification] #[verifier::external_body] pub struct ExIpAddr(IpAddr);
#[verifier::external_type_specification] #[verifier::external_body] pub struct ExAddrParseError(std::net::AddrParseError);

#[verifier::external_trait_specification]
#[verifier::external_trait_extension(WriteSpec via WriteSpecImpl)]
pub trait ExWrite {
    type ExternalTraitSpecificationFor: std::io::Write;
    spec fn sent(&self) -> Seq<u8>;
    fn write(&mut self, buf: &[u8]) -> (r: Result<usize, std::io::Error>)
        ensures r.is_ok() ==> r.unwrap() <= buf@.len() && final(self).sent() == old(self).sent() + buf@.subrange(0, r.unwrap() as int),
                r.is_err() ==> final(self).sent() == old(self).sent();
    fn flush(&mut self) -> (r: Result<(), std::io::Error>) ensures final(self).sent() == old(self).sent();
    fn write_all(&mut self, buf: &[u8]) -> (r: Result<(), std::io::Error>)
        ensures r.is_ok() ==> final(self).sent() == old(self).sent() + buf@;
}
#[verifier::external_trait_specification]
pub trait ExRead {
    type ExternalTraitSpecificationFor: std::io::Read;
    fn read(&mut self, buf: &mut [u8]) -> (r: Result<usize, std::io::Error>)
        ensures r.is_ok() ==> r.unwrap() <= old(buf)@.len(), final(buf)@.len() == old(buf)@.len();
}
pub trait RwsBorrowBytes { spec fn bv(&self) -> Seq<u8>; fn rws_borrow(&self) -> (r: &[u8]) ensures r@ == self.bv(); }
impl RwsBorrowBytes for Vec<u8> { open spec fn bv(&self) -> Seq<u8> { self@ } fn rws_borrow(&self) -> &[u8] { self.as_slice() } }
#[verifier::external_body] pub fn rws_io_err_to_string(e: &std::io::Error) -> String { e.to_string() }
#[verifier::external_body] pub fn rws_string_clone(s: &String) -> (r: String) ensures r@ == s@ { s.clone() }
#[verifier::external_body] pub fn rws_str_to_string(s: &str) -> (r: String) ensures r@ == s@ { s.to_string() }
#[verifier::external_body] pub fn rws_join3(a: String, b: String, c: String, sep: &str) -> String { [a, b, c].join(sep) }
#[verifier::external_body] pub fn rws_zero_vec(n: usize) -> (r: Vec<u8>) ensures r@.len() == n { vec![0; n] }
pub uninterp spec fn valid_ip(s: Seq<char>) -> bool;
#[verifier::external_body] pub fn rws_ipaddr_from_str(s: &str) -> (r: Result<IpAddr, std::net::AddrParseError>) ensures r.is_ok() == valid_ip(s@) { std::str::FromStr::from_str(s) }
#[verifier::external_body] pub fn rws_socketaddr_new(ip: IpAddr, port: u16) -> SocketAddr { SocketAddr::new(ip, port) }

// ---- callee contracts (R-CALLEE): proved in their own units ----
pub uninterp spec fn bad_request_bytes(message: Seq<char>) -> Seq<u8>;
pub uninterp spec fn response_bytes(resp: Response, req: Request) -> Seq<u8>;
pub struct Server;
pub struct Log;
impl Log { #[verifier::external_body] pub fn request_response(request: &Request, response: &Response, peer_addr: &SocketAddr) -> String { unimplemented!() } }
impl Request { #[verifier::external_body] pub fn parse(request_vec_u8: &[u8]) -> (r: Result<Request, String>) { unimplemented!() } }
impl Response { #[verifier::external_body] pub fn generate_response(response: Response, request: Request) -> (r: Vec<u8>) ensures r@ == response_bytes(response, request) { unimplemented!() } }

// the one-response predicate: what has been sent since the request was read is exactly one complete message
pub open spec fn one_response(sent0: Seq<u8>, sent: Seq<u8>) -> bool {
    (exists|m: Seq<char>| #![auto] sent == sent0 + bad_request_bytes(m))
    || (exists|resp: Response, req: Request| #![auto] sent == sent0 + response_bytes(resp, req))
}

impl Server {
    #[verifier::external_body]
    pub fn bad_request_response(message: String) -> (r: Vec<u8>) ensures r@ == bad_request_bytes(message@) { unimplemented!() }

    pub fn process(mut stream: impl Read + Write + Unpin,
                   connection: ConnectionInfo,
                   app: impl Application) -> Result<(), String>
        requires 0 <= connection.request_size <= usize::MAX, valid_ip(connection.client.ip@), 0 <= connection.client.port <= 65535,
    {
        let request_allocation_size = connection.request_size;
        let mut buffer = rws_zero_vec(request_allocation_size as usize);
        let boxed_read = stream.read(&mut buffer);
        let ghost sent0 = stream.sent();
        if boxed_read.is_err() {
            let read_message = rws_io_err_to_string(boxed_read.as_ref().err().unwrap());
            let raw_response = Server::bad_request_response(rws_string_clone(&read_message));
            let boxed_stream = stream.write(raw_response.rws_borrow());
            if boxed_stream.is_ok() {
                stream.flush().unwrap();
            } else {
                let write_message = rws_io_err_to_string(boxed_stream.as_ref().err().unwrap());
                let combined_error = rws_join3(rws_string_clone(&read_message), rws_str_to_string(SYMBOL.comma), write_message, SYMBOL.empty_string);
                return Err(combined_error);
            };
            proof { assert(one_response(sent0, stream.sent())); }
            return Err(read_message);
        }

        boxed_read.unwrap();
        let request : &[u8] = buffer.as_slice();

        let boxed_request = Request::parse(request);
        if boxed_request.is_err() {
            let message = boxed_request.err().unwrap();

            let raw_response = Server::bad_request_response(rws_string_clone(&message));
            let boxed_stream = stream.write(raw_response.rws_borrow());
            if boxed_stream.is_ok() {
                stream.flush().unwrap();
            } else {
                let write_message = rws_io_err_to_string(boxed_stream.as_ref().err().unwrap());
                let combined_error = rws_join3(message, rws_str_to_string(SYMBOL.comma), write_message, SYMBOL.empty_string);
                return Err(combined_error);
            };
            proof { assert(one_response(sent0, stream.sent())); }
            return Err(message);
        }

        let request: Request = boxed_request.unwrap();

        let app_processing = app.execute(&request, &connection);
        if app_processing.is_err() {
            let message = rws_string_clone(app_processing.as_ref().err().unwrap());
            let response = Server::bad_request_response(message);

            let boxed_stream = stream.write(response.rws_borrow());
            if boxed_stream.is_ok() {
                stream.flush().unwrap();
            } else {
                let write_message = rws_io_err_to_string(boxed_stream.as_ref().err().unwrap());
                return Err(write_message);
            };
        }
        let response = app_processing.unwrap();

        let client = connection.client;
        let client_addr = rws_socketaddr_new(rws_ipaddr_from_str(client.ip.as_str()).unwrap(), client.port as u16);
        let log_request_response = Log::request_response(&request, &response, &client_addr);
        { let _ = &(log_request_response); }

        let raw_response = Response::generate_response(response, request);

        let boxed_stream = stream.write(raw_response.rws_borrow());
        if boxed_stream.is_ok() {
            stream.flush().unwrap();
        } else {
            let write_message = rws_io_err_to_string(boxed_stream.as_ref().err().unwrap());
            return Err(write_message);
        };

        proof { assert(one_response(sent0, stream.sent())); }
        Ok(())
    }
}
} // verus!
fn main() {}
