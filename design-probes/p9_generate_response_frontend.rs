use vstd::prelude::*;
verus! {

// ---- extracted data types (verbatim) ----
#[derive(PartialEq, Eq, Clone, Debug)]
pub struct Header { pub name: String, pub value: String }
#[derive(PartialEq, Eq, Clone, Debug)]
pub struct Range { pub start: u64, pub end: u64 }
#[derive(PartialEq, Eq, Clone, Debug)]
pub struct ContentRange { pub unit: String, pub range: Range, pub size: String, pub body: Vec<u8>, pub content_type: String }
#[derive(PartialEq, Eq, Clone, Debug)]
pub struct Response { pub http_version: String, pub status_code: i16, pub reason_phrase: String, pub headers: Vec<Header>, pub content_range_list: Vec<ContentRange> }
#[derive(PartialEq, Eq, Clone, Debug)]
pub struct Request { pub method: String, pub request_uri: String, pub http_version: String, pub headers: Vec<Header>, pub body: Vec<u8> }
pub struct Method { pub head: &'static str, pub options: &'static str }
pub const METHOD: Method = Method { head: "HEAD", options: "OPTIONS" };
pub struct Symbol { pub new_line_carriage_return: &'static str, pub empty_string: &'static str, pub whitespace: &'static str, pub hyphen: &'static str, pub slash: &'static str }
pub const SYMBOL: Symbol = Symbol { new_line_carriage_return: "\r\n", empty_string: "", whitespace: " ", hyphen: "-", slash: "/" };

// ---- trusted shims ----
pub uninterp spec fn dec_u64(n: u64) -> Seq<char>;
pub uninterp spec fn dec_usize(n: usize) -> Seq<char>;
pub uninterp spec fn dec_i16(n: i16) -> Seq<char>;
pub trait RwsToString { spec fn ts(&self) -> Seq<char>; fn rws_to_string(&self) -> (r: String) ensures r@ == self.ts(); }
impl RwsToString for str { open spec fn ts(&self) -> Seq<char> { self@ } #[verifier::external_body] fn rws_to_string(&self) -> String { self.to_string() } }
impl RwsToString for String { open spec fn ts(&self) -> Seq<char> { self@ } #[verifier::external_body] fn rws_to_string(&self) -> String { self.to_string() } }
impl RwsToString for u64 { open spec fn ts(&self) -> Seq<char> { dec_u64(*self) } #[verifier::external_body] fn rws_to_string(&self) -> String { self.to_string() } }
impl RwsToString for usize { open spec fn ts(&self) -> Seq<char> { dec_usize(*self) } #[verifier::external_body] fn rws_to_string(&self) -> String { self.to_string() } }
impl RwsToString for i16 { open spec fn ts(&self) -> Seq<char> { dec_i16(*self) } #[verifier::external_body] fn rws_to_string(&self) -> String { self.to_string() } }

pub open spec fn join_seq(v: Seq<Seq<char>>, sep: Seq<char>) -> Seq<char> decreases v.len() {
    if v.len() == 0 { Seq::empty() } else if v.len() == 1 { v[0] } else { join_seq(v.drop_last(), sep) + sep + v.last() }
}
pub trait RwsJoin { spec fn parts(&self) -> Seq<Seq<char>>; fn rws_join(&self, sep: &str) -> (r: String) ensures r@ == join_seq(self.parts(), sep@); }
impl<'a, const N: usize> RwsJoin for [&'a str; N] {
    open spec fn parts(&self) -> Seq<Seq<char>> { Seq::new(N as nat, |i: int| self@[i]@) }
    #[verifier::external_body] fn rws_join(&self, sep: &str) -> String { self.join(sep) } }
impl<const N: usize> RwsJoin for [String; N] {
    open spec fn parts(&self) -> Seq<Seq<char>> { Seq::new(N as nat, |i: int| self@[i]@) }
    #[verifier::external_body] fn rws_join(&self, sep: &str) -> String { self.join(sep) } }

pub uninterp spec fn utf8(s: Seq<char>) -> Seq<u8>;
#[verifier::external_body]
pub fn rws_into_bytes(s: String) -> (r: Vec<u8>) ensures r@ == utf8(s@) { s.into_bytes() }
#[verifier::external_body]
pub fn rws_concat2(a: Vec<u8>, b: Vec<u8>) -> (r: Vec<u8>) ensures r@ == a@ + b@ { [a, b].concat() }
#[verifier::external_body]
pub fn rws_fmt3(a: &String, b: &String, c: &str) -> (r: String) ensures r@ == a@ + b@ + c@ { format!("{}{}{}", a, b, c) }

pub struct HeaderConst;
impl HeaderConst {
    pub const _CONTENT_TYPE: &'static str = "Content-Type";
    pub const _CONTENT_LENGTH: &'static str = "Content-Length";
    pub const _CONTENT_RANGE: &'static str = "Content-Range";
    pub const NAME_VALUE_SEPARATOR: &'static str = ": ";
    pub const BYTES: &'static str = "bytes";
}

// ---- spec ----
pub open spec fn render_headers(hs: Seq<Header>) -> Seq<char> decreases hs.len() {
    if hs.len() == 0 { Seq::empty() } else { render_headers(hs.drop_last()) + hs.last().name@ + seq![':', ' '] + hs.last().value@ + seq!['\r', '\n'] }
}
pub open spec fn render_head(v: Seq<char>, code: i16, reason: Seq<char>, hs: Seq<Header>) -> Seq<char> {
    v + seq![' '] + dec_i16(code) + seq![' '] + reason + seq!['\r', '\n'] + render_headers(hs) + seq!['\r', '\n']
}

impl Response {
    #[verifier::external_body]
    pub fn generate_body(content_range_list: Vec<ContentRange>) -> (r: Vec<u8>)
        ensures content_range_list@.len() == 1 ==> r@ == content_range_list@[0].body@,
                content_range_list@.len() == 0 ==> r@.len() == 0,
    { unimplemented!() }

    pub fn generate_response(mut response: Response, request: Request) -> (out: Vec<u8>)
        requires response.content_range_list@.len() == 1,
    {
        if response.content_range_list.len() == 1 {
            let content_range_index = 0;
            let content_range = response.content_range_list.get(content_range_index).unwrap();
            response.headers.push(Header {
                name: HeaderConst::_CONTENT_TYPE.rws_to_string(),
                value: content_range.content_type.rws_to_string()
            });

            let content_range_header_value = [
                HeaderConst::BYTES,
                SYMBOL.whitespace,
                &content_range.range.start.rws_to_string(),
                SYMBOL.hyphen,
                &content_range.range.end.rws_to_string(),
                SYMBOL.slash,
                &content_range.size
            ].rws_join("");
            response.headers.push(Header {
                name: HeaderConst::_CONTENT_RANGE.rws_to_string(),
                value: content_range_header_value.rws_to_string()
            });

            response.headers.push(Header {
                name: HeaderConst::_CONTENT_LENGTH.rws_to_string(),
                value: content_range.body.len().rws_to_string()
            });
        }

        let body = Response::generate_body(response.content_range_list);

        let mut headers_str = SYMBOL.new_line_carriage_return.rws_to_string();
        for header in response.headers {
            let mut header_string = SYMBOL.empty_string.rws_to_string();
            header_string.push_str(&header.name);
            header_string.push_str(HeaderConst::NAME_VALUE_SEPARATOR);
            header_string.push_str(&header.value);
            header_string.push_str(SYMBOL.new_line_carriage_return);
            headers_str.push_str(&header_string);
        }
        let status = [response.http_version, response.status_code.rws_to_string(), response.reason_phrase].rws_join(SYMBOL.whitespace);
        let response_without_body = rws_fmt3(&status, &headers_str, SYMBOL.new_line_carriage_return);

        let is_head = request.method == METHOD.head;
        let is_options = request.method == METHOD.options;

        return if is_head || is_options {
            rws_into_bytes(response_without_body)
        } else {
            rws_concat2(rws_into_bytes(response_without_body), body)
        }
    }
}
} // verus!
fn main() {}
