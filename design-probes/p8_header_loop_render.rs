use vstd::prelude::*;
verus! {
#[derive(PartialEq, Eq, Debug)]
pub struct Header { pub name: String, pub value: String }

pub open spec fn render_headers(hs: Seq<Header>) -> Seq<char> decreases hs.len() {
    if hs.len() == 0 { Seq::empty() } else { render_headers(hs.drop_last()) + hs.last().name@ + seq![':', ' '] + hs.last().value@ + seq!['\r', '\n'] }
}

fn ser(headers: Vec<Header>) -> (r: String)
    ensures r@ == seq!['\r', '\n'] + render_headers(headers@)
{
    proof { reveal_strlit("\r\n"); reveal_strlit(": "); reveal_strlit(""); }
    let mut headers_str = "\r\n".to_string();
    let ghost hs = headers@;
    for header in it: headers
        invariant hs == it.seq(), headers_str@ == seq!['\r', '\n'] + render_headers(hs.subrange(0, it.index@ as int)),
    {
        let mut header_string = "".to_string();
        header_string.push_str(&header.name);
        header_string.push_str(": ");
        header_string.push_str(&header.value);
        header_string.push_str("\r\n");
        headers_str.push_str(&header_string);
        proof {
            reveal_strlit("\r\n"); reveal_strlit(": "); reveal_strlit("");
            let k = it.index@ as int;
            assert(hs.subrange(0, k + 1).drop_last() =~= hs.subrange(0, k));
            assert(hs.subrange(0, k + 1).last() == hs[k]);
            assert(header == hs[k]);
            assert(header_string@ =~= hs[k].name@ + seq![':', ' '] + hs[k].value@ + seq!['\r', '\n']);
            assert(render_headers(hs.subrange(0, k + 1)) =~= render_headers(hs.subrange(0, k)) + hs[k].name@ + seq![':', ' '] + hs[k].value@ + seq!['\r', '\n']);
            assert(headers_str@ =~= seq!['\r', '\n'] + render_headers(hs.subrange(0, k + 1)));
        }
    }
    proof { assert(hs.subrange(0, hs.len() as int) =~= hs); }
    headers_str
}
} // verus!
fn main() {}
