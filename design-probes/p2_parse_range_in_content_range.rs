use vstd::prelude::*;
verus! {

pub struct Symbol { pub hyphen: &'static str }
pub const SYMBOL: Symbol = Symbol { hyphen: "-" };

#[derive(PartialEq, Eq, Clone, Debug)]
pub struct StatusCodeReasonPhrase { pub status_code: &'static i16, pub reason_phrase: &'static str }
pub struct ResponseStatusCodeReasonPhrase { pub n416_range_not_satisfiable: &'static StatusCodeReasonPhrase }
pub const STATUS_CODE_REASON_PHRASE: ResponseStatusCodeReasonPhrase = ResponseStatusCodeReasonPhrase {
    n416_range_not_satisfiable: &StatusCodeReasonPhrase { status_code: &416, reason_phrase: "Range Not Satisfiable" },
};
#[derive(PartialEq, Eq, Clone, Debug)]
pub struct Error { pub status_code_reason_phrase: &'static StatusCodeReasonPhrase, pub message: String }
#[derive(PartialEq, Eq, Clone, Debug)]
pub struct Range { pub start: u64, pub end: u64 }

// ---------- trusted shims (assumed std contracts) ----------
pub trait RwsToString { spec fn ts(&self) -> Seq<char>; fn rws_to_string(&self) -> (r: String) ensures r@ == self.ts(); }
impl RwsToString for str { open spec fn ts(&self) -> Seq<char> { self@ }
  #[verifier::external_body] fn rws_to_string(&self) -> String { self.to_string() } }
impl RwsToString for String { open spec fn ts(&self) -> Seq<char> { self@ }
  #[verifier::external_body] fn rws_to_string(&self) -> String { self.to_string() } }

pub open spec fn is_digit(c: char) -> bool { '0' <= c && c <= '9' }
pub open spec fn all_digits(s: Seq<char>) -> bool { forall|i: int| 0 <= i < s.len() ==> is_digit(#[trigger] s[i]) }
pub open spec fn dec_val(s: Seq<char>) -> nat decreases s.len() {
    if s.len() == 0 { 0 } else { (dec_val(s.drop_last()) * 10 + (s.last() as nat - '0' as nat)) as nat }
}
// Rust's <u64 as FromStr>: optional leading '+', then >= 1 ASCII digits, value must fit
pub open spec fn u64_digits(s: Seq<char>) -> Seq<char> { if s.len() > 0 && s[0] == '+' { s.subrange(1, s.len() as int) } else { s } }
pub open spec fn parses_u64(s: Seq<char>) -> bool {
    u64_digits(s).len() > 0 && all_digits(u64_digits(s)) && dec_val(u64_digits(s)) <= u64::MAX
}
#[verifier::external_body]
pub fn rws_parse_u64(s: &str) -> (r: Result<u64, core::num::ParseIntError>)
    ensures r.is_ok() <==> parses_u64(s@),
            r.is_ok() ==> r.unwrap() as nat == dec_val(u64_digits(s@)),
{ s.parse::<u64>() }

pub uninterp spec fn trim_spec(s: Seq<char>) -> Seq<char>;
#[verifier::external_body]
pub fn rws_trim<'a>(s: &'a str) -> (r: &'a str) ensures r@ == trim_spec(s@) { s.trim() }

pub uninterp spec fn utf8_len(s: Seq<char>) -> nat;
#[verifier::external_body]
pub fn rws_str_len(s: &str) -> (r: usize) ensures r == utf8_len(s@), (r == 0 <==> s@.len() == 0) { s.len() }

pub uninterp spec fn split_spec(s: Seq<char>, sep: Seq<char>) -> Seq<Seq<char>>;
#[verifier::external_body]
pub fn rws_split_collect<'a>(s: &'a str, sep: &str) -> (r: Vec<&'a str>)
    ensures r@.len() >= 1, r@.len() == split_spec(s@, sep@).len(),
            forall|i: int| 0 <= i < r@.len() ==> (#[trigger] r@[i])@ == split_spec(s@, sep@)[i],
{ s.split(sep).collect() }

#[verifier::external_type_specification]
#[verifier::external_body]
pub struct ExParseIntError(core::num::ParseIntError);

impl Range {
    pub const ERROR_START_IS_AFTER_END_CONTENT_RANGE: &'static str = "start is after end in content range";
    pub const ERROR_START_IS_BIGGER_THAN_FILESIZE_CONTENT_RANGE: &'static str = "start is bigger than filesize in content range";
    pub const ERROR_END_IS_BIGGER_THAN_FILESIZE_CONTENT_RANGE: &'static str = "end is bigger than filesize in content range";
    pub const ERROR_UNABLE_TO_PARSE_RANGE_START: &'static str = "unable to parse range start";
    pub const ERROR_UNABLE_TO_PARSE_RANGE_END: &'static str = "unable to parse range end";

    pub fn parse_range_in_content_range(filelength: u64, range_str: &str) -> (res: Result<Range, Error>)
        ensures res.is_ok() ==> res.unwrap().start <= res.unwrap().end <= filelength,
    {
        const START_INDEX: usize = 0;
        const END_INDEX: usize = 1;

        let mut range = Range { start: 0, end: filelength };
        let parts: Vec<&str> = rws_split_collect(range_str, SYMBOL.hyphen);

        let mut start_range_not_provided = true;
        let __rws_v0 = &parts; let mut __rws_i0: usize = 0;
        while __rws_i0 < __rws_v0.len()
            invariant range.start <= range.end <= filelength, __rws_v0 == &parts,
            decreases __rws_v0.len() - __rws_i0
        {
            let i = __rws_i0; let part = &__rws_v0[__rws_i0]; __rws_i0 += 1;

            let num = rws_trim(part);
            let length = rws_str_len(num);

            if i == START_INDEX && length != 0 {
                start_range_not_provided = false;
            }
            if i == START_INDEX && length != 0 {
                let boxed_start  = rws_parse_u64(num);
                if boxed_start.is_ok() {
                    range.start = boxed_start.unwrap()
                } else {
                    let message = Range::ERROR_UNABLE_TO_PARSE_RANGE_START.rws_to_string();
                    let error = Error {
                        status_code_reason_phrase: STATUS_CODE_REASON_PHRASE.n416_range_not_satisfiable,
                        message: message.rws_to_string()
                    };
                    return Err(error)
                }
            }
            if i == END_INDEX && length != 0 {
                let boxed_end  = rws_parse_u64(num);
                if boxed_end.is_ok() {
                    range.end = boxed_end.unwrap()
                } else {
                    let message = Range::ERROR_UNABLE_TO_PARSE_RANGE_END.rws_to_string();
                    let error = Error {
                        status_code_reason_phrase: STATUS_CODE_REASON_PHRASE.n416_range_not_satisfiable,
                        message: message.rws_to_string()
                    };
                    return Err(error)
                }
            }
            if i == END_INDEX && length != 0 && start_range_not_provided {
                let boxed_parse = rws_parse_u64(num);
                if boxed_parse.is_err() {
                    let error = Error {
                        status_code_reason_phrase: STATUS_CODE_REASON_PHRASE.n416_range_not_satisfiable,
                        message: Range::ERROR_UNABLE_TO_PARSE_RANGE_END.rws_to_string()
                    };
                    return Err(error)
                }
                let num_usize : u64 = boxed_parse.unwrap();
                range.start = filelength - num_usize;
                range.end = filelength;
            }

            if range.end > filelength {
                let message = Range::ERROR_END_IS_BIGGER_THAN_FILESIZE_CONTENT_RANGE.rws_to_string();
                let error = Error {
                    status_code_reason_phrase: STATUS_CODE_REASON_PHRASE.n416_range_not_satisfiable,
                    message,
                };
                return Err(error);
            }

            if range.start > filelength {
                let message = Range::ERROR_START_IS_BIGGER_THAN_FILESIZE_CONTENT_RANGE.rws_to_string();
                let error = Error {
                    status_code_reason_phrase: STATUS_CODE_REASON_PHRASE.n416_range_not_satisfiable,
                    message,
                };
                return Err(error);
            }

            if range.start > range.end {
                let message = Range::ERROR_START_IS_AFTER_END_CONTENT_RANGE.rws_to_string();
                let error = Error {
                    status_code_reason_phrase: STATUS_CODE_REASON_PHRASE.n416_range_not_satisfiable,
                    message,
                };
                return Err(error);
            }
        }
        Ok(range)
    }
}

} // verus!
fn main() {}
