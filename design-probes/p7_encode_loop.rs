use vstd::prelude::*;
verus! {
pub struct Symbol { pub empty_string: &'static str }
pub const SYMBOL: Symbol = Symbol { empty_string: "" };

pub open spec fn concat_all(v: Seq<String>) -> Seq<char> decreases v.len() {
    if v.len() == 0 { Seq::empty() } else { concat_all(v.drop_last()) + v.last()@ }
}
#[verifier::external_body]
pub fn rws_join_strings(v: &Vec<String>, sep: &str) -> (r: String)
    requires sep@.len() == 0, ensures r@ == concat_all(v@),
{ v.join(sep) }
pub trait RwsToString { spec fn ts(&self) -> Seq<char>; fn rws_to_string(&self) -> (r: String) ensures r@ == self.ts(); }
impl RwsToString for str { open spec fn ts(&self) -> Seq<char> { self@ }
  #[verifier::external_body] fn rws_to_string(&self) -> String { self.to_string() } }
#[verifier::external_body]
pub fn rws_fmt_opaque() -> String { String::new() }
#[verifier::external_body]
pub fn rws_vec_as_slice(v: &Vec<u8>) -> (r: &[u8]) ensures r@ == v@ { v.as_ref() }

pub uninterp spec fn group(b: Seq<u8>) -> Seq<char>;
pub open spec fn b64(s: Seq<u8>) -> Seq<char> decreases s.len() {
    if s.len() == 0 { Seq::empty() }
    else if s.len() <= 3 { group(s) }
    else { group(s.subrange(0, 3)) + b64(s.subrange(3, s.len() as int)) }
}
// b64 of a prefix that is a multiple of 3, extended by the next chunk
pub proof fn lemma_b64_snoc(s: Seq<u8>, k: int, n: int)
    requires 0 <= k, k % 3 == 0, 1 <= n <= 3, k + n <= s.len(), (n < 3 ==> k + n == s.len())
    ensures b64(s.subrange(0, k + n)) == b64(s.subrange(0, k)) + group(s.subrange(k, k + n))
    decreases k
{
    if k == 0 {
        assert(s.subrange(0, n).len() == n);
        assert(s.subrange(0, 0).len() == 0);
        assert(b64(s.subrange(0, 0)) =~= Seq::<char>::empty());
        assert(s.subrange(0, 0 + n) =~= s.subrange(0, n));
        assert(b64(s.subrange(0, n)) == group(s.subrange(0, n)));
        assert(b64(s.subrange(0, 0)) + group(s.subrange(0, n)) =~= group(s.subrange(0, n)));
    } else {
        let t = s.subrange(3, s.len() as int);
        lemma_b64_snoc(t, k - 3, n);
        let a = s.subrange(0, k + n);
        assert(a.len() > 3);
        assert(a.subrange(0, 3) =~= s.subrange(0, 3));
        assert(a.subrange(3, a.len() as int) =~= t.subrange(0, k - 3 + n));
        let b = s.subrange(0, k);
        assert(t.subrange(k - 3, k - 3 + n) =~= s.subrange(k, k + n));
        if k == 3 {
            assert(b.len() == 3);
            assert(b64(b) == group(b));
            assert(t.subrange(0, 0).len() == 0);
            assert(b64(t.subrange(0, 0)) =~= Seq::<char>::empty());
            assert(b =~= s.subrange(0, 3));
        } else {
            assert(b.len() > 3);
            assert(b.subrange(0, 3) =~= s.subrange(0, 3));
            assert(b.subrange(3, b.len() as int) =~= t.subrange(0, k - 3));
        }
        assert(b64(a) =~= b64(b) + group(s.subrange(k, k + n)));
    }
}
pub proof fn lemma_concat_push(v: Seq<String>, x: String)
    ensures concat_all(v.push(x)) == concat_all(v) + x@
{ assert(v.push(x).drop_last() =~= v); }

pub struct Base64;
impl Base64 {
    #[verifier::external_body]
    pub fn encode_sequence(bytes: &[u8]) -> (r: Result<String, String>)
        ensures 1 <= bytes@.len() <= 3 ==> r.is_ok() && r.unwrap()@ == group(bytes@),
    { unimplemented!() }

    pub fn encode(bytes: &[u8]) -> (r: Result<String, String>)
        ensures r.is_ok() && r.unwrap()@ == b64(bytes@),
    {
        proof { reveal_strlit(""); }
        if bytes.len() == 0 {
            return Ok("".rws_to_string())
        }

        let mut result : Vec<String> = vec![];

        let mut index = 0;
        let length = bytes.len();

        while index < length
            invariant length == bytes@.len(), index <= length, index % 3 == 0 || index == length,
                concat_all(result@) == b64(bytes@.subrange(0, index as int)),
            decreases length - index
        {
            let ghost k = index as int;
            let mut to_encrypt_chunk: Vec<u8> = vec![];
            let boxed_char_as_u8 = bytes.get(index);
            if boxed_char_as_u8.is_none() {
                return Err(rws_fmt_opaque());
            }
            to_encrypt_chunk.push(*boxed_char_as_u8.unwrap());

            if index + 1 < length {
                index = index + 1;

                let boxed_char_as_u8 = bytes.get(index);
                if boxed_char_as_u8.is_none() {
                    return Err(rws_fmt_opaque());
                }
                to_encrypt_chunk.push(*boxed_char_as_u8.unwrap());
            }

            if index + 1 < length {
                index = index + 1;

                let boxed_char_as_u8 = bytes.get(index);
                if boxed_char_as_u8.is_none() {
                    return Err(rws_fmt_opaque());
                }
                to_encrypt_chunk.push(*boxed_char_as_u8.unwrap());
            }

            let chunk : &[u8] = rws_vec_as_slice(&to_encrypt_chunk);
            let boxed_encrypted_chunk = Base64::encode_sequence(chunk);
            if boxed_encrypted_chunk.is_err() {
                return Err(boxed_encrypted_chunk.err().unwrap());
            }

            let encrypted_chunk = boxed_encrypted_chunk.unwrap();
            proof {
                let n = chunk@.len() as int;
                assert(chunk@ =~= bytes@.subrange(k, k + n));
                lemma_b64_snoc(bytes@, k, n);
                lemma_concat_push(result@, encrypted_chunk);
                if k + n == length { assert(bytes@.subrange(0, k + n) =~= bytes@); }
            }
            result.push(encrypted_chunk);

            index = index + 1

        }

        let encoded_string = rws_join_strings(&result, SYMBOL.empty_string);
        proof { if index <= length { assert(bytes@.subrange(0, index as int) =~= bytes@); } }
        Ok(encoded_string)
    }
}
} // verus!
fn main() {}
