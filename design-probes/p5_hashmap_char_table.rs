use vstd::prelude::*;
use std::collections::HashMap;
verus! {
use vstd::std_specs::hash::*;
broadcast use vstd::std_specs::hash::group_hash_axioms;
#[verifier::external_body]
pub proof fn axiom_char_key_model() ensures obeys_key_model::<char>() {}

pub open spec fn alpha(n: int) -> char {
    if 0 <= n < 26 { (('A' as int) + n) as char }
    else if n < 52 { (('a' as int) + n - 26) as char }
    else if n < 62 { (('0' as int) + n - 52) as char }
    else if n == 62 { '+' } else { '/' }
}

#[verifier::external_body]
pub fn get_base64_char_list() -> (r: Vec<char>)
    ensures r@.len() == 64, forall|i: int| 0 <= i < 64 ==> r@[i] == alpha(i)
{ unimplemented!() }

pub fn convert_base64_char_to_number(char: char) -> (r: Result<u8, String>)
    ensures
        (exists|n: int| 0 <= n < 64 && alpha(n) == char) ==> r.is_ok() && alpha(r.unwrap() as int) == char && r.unwrap() < 64,
        (forall|n: int| 0 <= n < 64 ==> alpha(n) != char) ==> r.is_err(),
{
    proof { axiom_char_key_model(); }
    let base64_char_list : Vec<char> = get_base64_char_list();
    let mut map : HashMap<char, u8> = HashMap::new();

    let __v = &base64_char_list; let mut __i: usize = 0;
    while __i < __v.len()
        invariant __v == &base64_char_list, __i <= 64, base64_char_list@.len() == 64,
            forall|i: int| 0 <= i < 64 ==> base64_char_list@[i] == alpha(i),
            forall|c: char| map@.contains_key(c) ==> (map@[c] as int) < __i && alpha(map@[c] as int) == c,
            forall|j: int| 0 <= j < __i ==> map@.contains_key(alpha(j)),
        decreases __v.len() - __i
    {
        let index = __i; let char = &__v[__i]; __i += 1;
        map.insert(*char, index as u8);
    }

    let boxed_get = map.get(&char);
    if boxed_get.is_none() {
        let message = "unable to get char number".to_string();
        return Err(message);
    }
    let index : &u8 = map.get(&char).unwrap();

    Ok(*index)
}
} // verus!
fn main() {}
