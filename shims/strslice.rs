// ===== shims/strslice.rs — trusted base: slicing a string at byte offsets (R-STRSLICE): panics unless both offsets are
// character boundaries in order, which is the precondition =====
pub open spec fn at_boundary(s: Seq<char>, k: int, i: int) -> bool { 0 <= k <= s.len() && utf8_len(s.subrange(0, k)) == i }

pub trait RwsSubstr {
    spec fn sv_sub(&self) -> Seq<char>;
    fn rws_substring(&self, a: usize, b: usize) -> (r: String)
        requires exists|j: int, k: int| j <= k && #[trigger] at_boundary(self.sv_sub(), j, a as int) && #[trigger] at_boundary(self.sv_sub(), k, b as int),
        ensures exists|j: int, k: int| j <= k && #[trigger] at_boundary(self.sv_sub(), j, a as int) && #[trigger] at_boundary(self.sv_sub(), k, b as int) && r@ == self.sv_sub().subrange(j, k);
    fn rws_substring_from(&self, a: usize) -> (r: String)
        requires exists|j: int| #[trigger] at_boundary(self.sv_sub(), j, a as int),
        ensures exists|j: int| #[trigger] at_boundary(self.sv_sub(), j, a as int) && r@ == self.sv_sub().subrange(j, self.sv_sub().len() as int);
}
impl RwsSubstr for String {
    open spec fn sv_sub(&self) -> Seq<char> { self@ }
    #[verifier::external_body]
    fn rws_substring(&self, a: usize, b: usize) -> String { self[a..b].to_string() }
    #[verifier::external_body]
    fn rws_substring_from(&self, a: usize) -> String { self[a..].to_string() }
}
impl RwsSubstr for str {
    open spec fn sv_sub(&self) -> Seq<char> { self@ }
    #[verifier::external_body]
    fn rws_substring(&self, a: usize, b: usize) -> String { self[a..b].to_string() }
    #[verifier::external_body]
    fn rws_substring_from(&self, a: usize) -> String { self[a..].to_string() }
}
