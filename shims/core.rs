// ===== shims/core.rs — trusted base: assumed contracts of std string/collection routines =====
// Every `external_body` below is an ASSUMPTION (its body is the std call it stands for and is not
// verified).  Strings are modelled as Seq<char>.  See DESIGN.md 3.3.

use std::collections::HashMap;
#[allow(unused_imports)]
use std::fs::File;
#[allow(unused_imports)]
use std::fs;

// ---------- sequences of strings ----------
pub open spec fn cat(ss: Seq<Seq<char>>) -> Seq<char>
    decreases ss.len()
{
    if ss.len() == 0 { Seq::empty() } else { cat(ss.drop_last()) + ss.last() }
}

pub open spec fn join_spec(ss: Seq<Seq<char>>, sep: Seq<char>) -> Seq<char>
    decreases ss.len()
{
    if ss.len() == 0 { Seq::empty() }
    else if ss.len() == 1 { ss[0] }
    else { join_spec(ss.drop_last(), sep) + sep + ss.last() }
}

pub open spec fn views(v: Seq<String>) -> Seq<Seq<char>> {
    Seq::new(v.len(), |i: int| v[i]@)
}

pub open spec fn sviews(v: Seq<&str>) -> Seq<Seq<char>> {
    Seq::new(v.len(), |i: int| v[i]@)
}

pub proof fn lemma_cat_push(ss: Seq<Seq<char>>, x: Seq<char>)
    ensures cat(ss.push(x)) == cat(ss) + x
{
    assert(ss.push(x).drop_last() =~= ss);
}

pub proof fn lemma_cat4(v: Seq<String>)
    requires v.len() == 4,
    ensures cat(views(v)) == v[0]@ + v[1]@ + v[2]@ + v[3]@,
{
    let ss = views(v);
    reveal_with_fuel(cat, 5);
    assert(ss.drop_last().drop_last().drop_last().drop_last().len() == 0);
    assert(cat(ss) =~= v[0]@ + v[1]@ + v[2]@ + v[3]@);
}

pub proof fn lemma_views_push(v: Seq<String>, x: String)
    ensures views(v.push(x)) == views(v).push(x@)
{
    assert(views(v.push(x)) =~= views(v).push(x@));
}

pub proof fn lemma_join_empty_sep(ss: Seq<Seq<char>>)
    ensures join_spec(ss, Seq::<char>::empty()) == cat(ss)
    decreases ss.len()
{
    if ss.len() == 0 {
    } else if ss.len() == 1 {
        assert(ss.drop_last().len() == 0);
        assert(cat(ss.drop_last()) =~= Seq::<char>::empty());
        assert(cat(ss) =~= ss[0]);
    } else {
        lemma_join_empty_sep(ss.drop_last());
        assert(join_spec(ss, Seq::<char>::empty()) =~= cat(ss));
    }
}

// ---------- R-VAL ----------
pub trait RwsVal {
    type V;
    spec fn sv(self) -> Self::V;
    fn rwsv(self) -> (r: Self::V)
        ensures r == self.sv();
}
impl RwsVal for u8 { type V = u8; open spec fn sv(self) -> u8 { self } fn rwsv(self) -> u8 { self } }
impl<'a> RwsVal for &'a u8 { type V = u8; open spec fn sv(self) -> u8 { *self } fn rwsv(self) -> u8 { *self } }
impl RwsVal for u64 { type V = u64; open spec fn sv(self) -> u64 { self } fn rwsv(self) -> u64 { self } }
impl RwsVal for usize { type V = usize; open spec fn sv(self) -> usize { self } fn rwsv(self) -> usize { self } }
impl RwsVal for bool { type V = bool; open spec fn sv(self) -> bool { self } fn rwsv(self) -> bool { self } }

// ---------- decimal rendering of unsigned integers ----------
pub open spec fn digit_char(d: nat) -> char { (('0' as nat) + d) as char }

pub open spec fn dec(n: nat) -> Seq<char>
    decreases n
{
    if n < 10 { seq![digit_char(n)] } else { dec(n / 10).push(digit_char(n % 10)) }
}

// ---------- Display / to_string ----------
pub trait RwsToString {
    spec fn ts(&self) -> Seq<char>;
    fn rws_to_string(&self) -> (r: String)
        ensures r@ == self.ts();
}
impl RwsToString for str {
    open spec fn ts(&self) -> Seq<char> { self@ }
    #[verifier::external_body]
    fn rws_to_string(&self) -> String { self.to_string() }
}
impl RwsToString for String {
    open spec fn ts(&self) -> Seq<char> { self@ }
    #[verifier::external_body]
    fn rws_to_string(&self) -> String { self.to_string() }
}
impl RwsToString for char {
    open spec fn ts(&self) -> Seq<char> { seq![*self] }
    #[verifier::external_body]
    fn rws_to_string(&self) -> String { self.to_string() }
}
impl RwsToString for u64 {
    open spec fn ts(&self) -> Seq<char> { dec(*self as nat) }
    #[verifier::external_body]
    fn rws_to_string(&self) -> String { self.to_string() }
}
impl RwsToString for usize {
    open spec fn ts(&self) -> Seq<char> { dec(*self as nat) }
    #[verifier::external_body]
    fn rws_to_string(&self) -> String { self.to_string() }
}
impl RwsToString for u128 {
    open spec fn ts(&self) -> Seq<char> { dec(*self as nat) }
    #[verifier::external_body]
    fn rws_to_string(&self) -> String { self.to_string() }
}
impl RwsToString for u8 {
    open spec fn ts(&self) -> Seq<char> { dec(*self as nat) }
    #[verifier::external_body]
    fn rws_to_string(&self) -> String { self.to_string() }
}
pub open spec fn dec_i(n: int) -> Seq<char> {
    if n < 0 { seq!['-'] + dec((-n) as nat) } else { dec(n as nat) }
}
impl RwsToString for i16 {
    open spec fn ts(&self) -> Seq<char> { dec_i(*self as int) }
    #[verifier::external_body]
    fn rws_to_string(&self) -> String { self.to_string() }
}
impl RwsToString for i32 {
    open spec fn ts(&self) -> Seq<char> { dec_i(*self as int) }
    #[verifier::external_body]
    fn rws_to_string(&self) -> String { self.to_string() }
}
impl RwsToString for i64 {
    open spec fn ts(&self) -> Seq<char> { dec_i(*self as int) }
    #[verifier::external_body]
    fn rws_to_string(&self) -> String { self.to_string() }
}
impl RwsToString for bool {
    open spec fn ts(&self) -> Seq<char> { if *self { seq!['t', 'r', 'u', 'e'] } else { seq!['f', 'a', 'l', 's', 'e'] } }
    #[verifier::external_body]
    fn rws_to_string(&self) -> String { self.to_string() }
}

// String::from(&str) and str::to_owned / String::to_owned: the same text, owned (common spellings of to_string)
#[verifier::external_body]
pub fn rws_string_from(s: &str) -> (r: String)
    ensures r@ == s@,
{ String::from(s) }
pub trait RwsToOwned {
    spec fn own_view(&self) -> Seq<char>;
    fn rws_to_owned(&self) -> (r: String)
        ensures r@ == self.own_view();
}
impl RwsToOwned for str {
    open spec fn own_view(&self) -> Seq<char> { self@ }
    #[verifier::external_body]
    fn rws_to_owned(&self) -> String { self.to_owned() }
}
impl RwsToOwned for String {
    open spec fn own_view(&self) -> Seq<char> { self@ }
    #[verifier::external_body]
    fn rws_to_owned(&self) -> String { self.to_owned() }
}

// R-FMT: format!("..{}..", a, b) == concatenation of the literal pieces and Display of the arguments
pub trait RwsDisp {
    spec fn disp(&self) -> Seq<char>;
    fn rws_disp(&self) -> (r: String)
        ensures r@ == self.disp();
}
impl RwsDisp for str {
    open spec fn disp(&self) -> Seq<char> { self@ }
    #[verifier::external_body]
    fn rws_disp(&self) -> String { self.to_string() }
}
impl RwsDisp for String {
    open spec fn disp(&self) -> Seq<char> { self@ }
    #[verifier::external_body]
    fn rws_disp(&self) -> String { self.to_string() }
}
impl RwsDisp for char {
    open spec fn disp(&self) -> Seq<char> { seq![*self] }
    #[verifier::external_body]
    fn rws_disp(&self) -> String { self.to_string() }
}
impl RwsDisp for usize {
    open spec fn disp(&self) -> Seq<char> { dec(*self as nat) }
    #[verifier::external_body]
    fn rws_disp(&self) -> String { self.to_string() }
}
impl RwsDisp for u64 {
    open spec fn disp(&self) -> Seq<char> { dec(*self as nat) }
    #[verifier::external_body]
    fn rws_disp(&self) -> String { self.to_string() }
}
impl RwsDisp for u8 {
    open spec fn disp(&self) -> Seq<char> { dec(*self as nat) }
    #[verifier::external_body]
    fn rws_disp(&self) -> String { self.to_string() }
}

#[verifier::external_body]
pub fn rws_concat(parts: Vec<String>) -> (r: String)
    ensures r@ == cat(views(parts@)),
{
    parts.concat()
}

// R-FMT-OPAQUE: a formatted string whose content is not modelled
#[verifier::external_body]
pub fn rws_fmt_opaque() -> (r: String) {
    String::new()
}

// ---------- join ----------
pub trait RwsJoin {
    spec fn parts(&self) -> Seq<Seq<char>>;
    fn rws_join(&self, sep: &str) -> (r: String)
        ensures r@ == join_spec(self.parts(), sep@);
}
impl RwsJoin for Vec<String> {
    open spec fn parts(&self) -> Seq<Seq<char>> { views(self@) }
    #[verifier::external_body]
    fn rws_join(&self, sep: &str) -> String { self.join(sep) }
}
impl<'a, const N: usize> RwsJoin for [&'a str; N] {
    open spec fn parts(&self) -> Seq<Seq<char>> { sviews(self@) }
    #[verifier::external_body]
    fn rws_join(&self, sep: &str) -> String { self.join(sep) }
}
impl<const N: usize> RwsJoin for [String; N] {
    open spec fn parts(&self) -> Seq<Seq<char>> { views(self@) }
    #[verifier::external_body]
    fn rws_join(&self, sep: &str) -> String { self.join(sep) }
}

// ---------- as_ref ----------
pub trait RwsAsRef<'a, O> {
    spec fn as_ref_spec(&'a self) -> O;
    fn rws_as_ref(&'a self) -> (r: O)
        ensures r == self.as_ref_spec();
}
pub uninterp spec fn slice_of(v: &Vec<u8>) -> &[u8];
#[verifier::external_body]
pub proof fn axiom_slice_of(v: &Vec<u8>)
    ensures slice_of(v)@ == v@,
{
}
impl<'a> RwsAsRef<'a, &'a [u8]> for Vec<u8> {
    open spec fn as_ref_spec(&'a self) -> &'a [u8] { slice_of(self) }
    #[verifier::external_body]
    fn rws_as_ref(&'a self) -> (r: &'a [u8])
        ensures r@ == self@,
    { self.as_ref() }
}
impl<'a, T, E> RwsAsRef<'a, Result<&'a T, &'a E>> for Result<T, E> {
    open spec fn as_ref_spec(&'a self) -> Result<&'a T, &'a E> { match self { Ok(x) => Ok(x), Err(e) => Err(e) } }
    #[verifier::external_body]
    fn rws_as_ref(&'a self) -> (r: Result<&'a T, &'a E>) { self.as_ref() }
}
impl<'a, T> RwsAsRef<'a, Option<&'a T>> for Option<T> {
    open spec fn as_ref_spec(&'a self) -> Option<&'a T> { match self { Some(x) => Some(x), None => None } }
    #[verifier::external_body]
    fn rws_as_ref(&'a self) -> (r: Option<&'a T>) { self.as_ref() }
}

// ---------- chars ----------
pub uninterp spec fn utf8_len(s: Seq<char>) -> nat;

pub open spec fn is_ascii_seq(s: Seq<char>) -> bool {
    forall|i: int| 0 <= i < s.len() ==> (#[trigger] s[i] as u32) < 128
}

// every char takes at least one byte; exactly one iff ASCII
#[verifier::external_body]
pub proof fn axiom_utf8_len(s: Seq<char>)
    ensures
        utf8_len(s) >= s.len(),
        is_ascii_seq(s) <==> utf8_len(s) == s.len(),
{
}

pub trait RwsStr {
    spec fn sview(&self) -> Seq<char>;
    fn rws_chars_nth(&self, i: usize) -> (r: Option<char>)
        ensures
            i < self.sview().len() ==> r == Some(self.sview()[i as int]),
            i >= self.sview().len() ==> r.is_none();
    fn rws_chars_count(&self) -> (r: usize)
        ensures r == self.sview().len();
    fn rws_chars_last(&self) -> (r: Option<char>)
        ensures
            self.sview().len() > 0 ==> r == Some(self.sview().last()),
            self.sview().len() == 0 ==> r.is_none();
    fn rws_matches_count(&self, p: &str) -> (r: usize)
        ensures p@.len() == 1 ==> r == count_char(self.sview(), p@[0]);
    fn rws_chars_rev_collect(&self) -> (r: String)
        ensures r@ == self.sview().reverse();
}

pub open spec fn count_char(s: Seq<char>, c: char) -> nat
    decreases s.len()
{
    if s.len() == 0 { 0 } else { count_char(s.drop_last(), c) + if s.last() == c { 1nat } else { 0nat } }
}

impl RwsStr for str {
    open spec fn sview(&self) -> Seq<char> { self@ }
    #[verifier::external_body]
    fn rws_chars_nth(&self, i: usize) -> Option<char> { self.chars().nth(i) }
    #[verifier::external_body]
    fn rws_chars_count(&self) -> usize { self.chars().count() }
    #[verifier::external_body]
    fn rws_chars_last(&self) -> Option<char> { self.chars().last() }
    #[verifier::external_body]
    fn rws_matches_count(&self, p: &str) -> usize { self.matches(p).count() }
    #[verifier::external_body]
    fn rws_chars_rev_collect(&self) -> String { self.chars().rev().collect::<String>() }
}
impl RwsStr for String {
    open spec fn sview(&self) -> Seq<char> { self@ }
    #[verifier::external_body]
    fn rws_chars_nth(&self, i: usize) -> Option<char> { self.chars().nth(i) }
    #[verifier::external_body]
    fn rws_chars_count(&self) -> usize { self.chars().count() }
    #[verifier::external_body]
    fn rws_chars_last(&self) -> Option<char> { self.chars().last() }
    #[verifier::external_body]
    fn rws_matches_count(&self, p: &str) -> usize { self.matches(p).count() }
    #[verifier::external_body]
    fn rws_chars_rev_collect(&self) -> String { self.chars().rev().collect::<String>() }
}

// .len(): bytes for str/String (UTF-8 length), elements for Vec/slice/array (these three are verified, not assumed)
// s.chars().collect::<Vec<char>>()
pub trait RwsCharsCollect {
    spec fn sv9(&self) -> Seq<char>;
    fn rws_chars_collect(&self) -> (r: Vec<char>)
        ensures r@ == self.sv9();
}
impl RwsCharsCollect for str {
    open spec fn sv9(&self) -> Seq<char> { self@ }
    #[verifier::external_body]
    fn rws_chars_collect(&self) -> Vec<char> { self.chars().collect() }
}
impl RwsCharsCollect for String {
    open spec fn sv9(&self) -> Seq<char> { self@ }
    #[verifier::external_body]
    fn rws_chars_collect(&self) -> Vec<char> { self.chars().collect() }
}

pub trait RwsLen {
    spec fn len_spec(&self) -> nat;
    fn rws_len(&self) -> (r: usize)
        ensures r == self.len_spec();
}
impl RwsLen for str {
    open spec fn len_spec(&self) -> nat { utf8_len(self@) }
    #[verifier::external_body]
    fn rws_len(&self) -> usize { self.len() }
}
impl RwsLen for String {
    open spec fn len_spec(&self) -> nat { utf8_len(self@) }
    #[verifier::external_body]
    fn rws_len(&self) -> usize { self.len() }
}
impl<T> RwsLen for Vec<T> {
    open spec fn len_spec(&self) -> nat { self@.len() }
    fn rws_len(&self) -> usize { self.len() }
}
impl<T> RwsLen for [T] {
    open spec fn len_spec(&self) -> nat { self@.len() }
    fn rws_len(&self) -> usize { self.len() }
}

// ('a'..='z').into_iter().collect::<Vec<char>>()
#[verifier::external_body]
pub fn rws_char_range_collect(a: char, b: char) -> (r: Vec<char>)
    requires a as u32 <= b as u32, (b as u32) < 0xD800,
    ensures
        r@.len() == (b as u32) - (a as u32) + 1,
        forall|i: int| 0 <= i < r@.len() ==> #[trigger] r@[i] == ((a as u32) + i as u32) as char,
{
    (a..=b).into_iter().collect::<Vec<char>>()
}

// String::from_utf8 on bytes: Ok exactly when valid; for ASCII bytes the chars are the bytes
pub open spec fn bytes_ascii(b: Seq<u8>) -> bool { forall|i: int| 0 <= i < b.len() ==> #[trigger] b[i] < 128 }

#[verifier::external_type_specification]
#[verifier::external_body]
pub struct ExFromUtf8Error(std::string::FromUtf8Error);

pub open spec fn valid_utf8(b: Seq<u8>) -> bool { vstd::utf8::valid_utf8(b) }
pub proof fn axiom_valid_utf8_empty()
    ensures valid_utf8(Seq::<u8>::empty()),
{
    vstd::utf8::encode_utf8_valid_utf8(Seq::<char>::empty());
    vstd::utf8::is_ascii_chars_encode_utf8(Seq::<char>::empty());
    assert(vstd::utf8::encode_utf8(Seq::<char>::empty()) =~= Seq::<u8>::empty());
}

#[verifier::external_body]
pub fn rws_string_from_utf8(v: Vec<u8>) -> (r: Result<String, std::string::FromUtf8Error>)
    ensures
        r.is_ok() == valid_utf8(v@),
        bytes_ascii(v@) ==> r.is_ok(),
        r.is_ok() ==> vstd::utf8::encode_utf8(r.unwrap()@) == v@,
        r.is_ok() ==> r.unwrap()@ == vstd::utf8::decode_utf8(v@),
        r.is_ok() ==> r.unwrap()@.len() <= v@.len(),
        r.is_ok() && bytes_ascii(v@) ==> r.unwrap()@.len() == v@.len()
            && forall|i: int| 0 <= i < v@.len() ==> #[trigger] r.unwrap()@[i] == (v@[i] as char),
{
    String::from_utf8(v)
}

// String::from_utf8_lossy: total; the text is not specified (it is only displayed). The shim returns the owned String
// instead of Cow<str>.
#[verifier::external_body]
pub fn rws_string_from_utf8_lossy(v: &[u8]) -> (r: String) {
    String::from_utf8_lossy(v).into_owned()
}

impl RwsToString for std::string::FromUtf8Error {
    uninterp spec fn ts(&self) -> Seq<char>;
    #[verifier::external_body]
    fn rws_to_string(&self) -> String { self.to_string() }
}

// Vec<u8>::extend(Vec<u8>)
pub trait RwsExtend<T> {
    fn rws_extend(&mut self, other: Vec<T>);
}
impl RwsExtend<u8> for Vec<u8> {
    #[verifier::external_body]
    fn rws_extend(&mut self, other: Vec<u8>)
        ensures final(self)@ == old(self)@ + other@,
    { self.extend(other) }
}

// HashMap<char, u8>
#[verifier::external_body]
pub proof fn axiom_char_obeys_key_model()
    ensures vstd::std_specs::hash::obeys_key_model::<char>(),
{
}

// Option<&T>::copied
pub trait RwsCopied<T> {
    spec fn copied_spec(self) -> Option<T>;
    fn rws_copied(self) -> (r: Option<T>)
        ensures r == self.copied_spec();
}
impl<'a, T: Copy> RwsCopied<T> for Option<&'a T> {
    open spec fn copied_spec(self) -> Option<T> { match self { Some(x) => Some(*x), None => None } }
    #[verifier::external_body]
    fn rws_copied(self) -> Option<T> { self.copied() }
}

// ---------- split / trim / parse / prefix tests ----------
pub uninterp spec fn split_spec(s: Seq<char>, sep: Seq<char>) -> Seq<Seq<char>>;

// assumed facts about str::split(sep) for a non-empty separator (conformance-tested in the thorough tier)
#[verifier::external_body]
pub proof fn axiom_split(s: Seq<char>, sep: Seq<char>)
    requires sep.len() > 0,
    ensures
        split_spec(s, sep).len() >= 1,
        join_spec(split_spec(s, sep), sep) == s,
        forall|i: int| 0 <= i < split_spec(s, sep).len() ==> !has_sub(#[trigger] split_spec(s, sep)[i], sep),
{
}

// str::split on a one-character separator, piece by piece (assumed; conformance-tested with axiom_split)
#[verifier::external_body]
pub proof fn axiom_split_step(a: Seq<char>, sep: Seq<char>, b: Seq<char>)
    requires sep.len() == 1, !has_sub(a, sep),
    ensures
        split_spec(a + sep + b, sep) == seq![a] + split_spec(b, sep),
        split_spec(a, sep) == seq![a],
{
}

// str::split on a two-character separator whose characters differ (": "): the first piece ends at the first occurrence
#[verifier::external_body]
pub proof fn axiom_split_step2(a: Seq<char>, sep: Seq<char>, b: Seq<char>)
    requires sep.len() == 2, sep[0] != sep[1], !has_sub(a, sep),
    ensures
        split_spec(a + sep + b, sep) == seq![a] + split_spec(b, sep),
        !has_sub(b, sep) ==> split_spec(b, sep) == seq![b],
{
}
// str::to_lowercase leaves a string without upper-case letters unchanged (stated for ASCII text)
pub open spec fn plain_lower(s: Seq<char>) -> bool { forall|i: int| 0 <= i < s.len() ==> (#[trigger] s[i] as u32) < 128 && !('A' <= s[i] && s[i] <= 'Z') }
#[verifier::external_body]
pub proof fn axiom_lower_plain(s: Seq<char>)
    requires plain_lower(s),
    ensures lower_spec(s) == s,
{
}

pub open spec fn has_sub(s: Seq<char>, p: Seq<char>) -> bool {
    exists|k: int| 0 <= k && k + p.len() <= s.len() && #[trigger] s.subrange(k, k + p.len()) == p
}

pub open spec fn has_prefix(s: Seq<char>, p: Seq<char>) -> bool {
    p.len() <= s.len() && s.subrange(0, p.len() as int) == p
}

pub open spec fn has_suffix(s: Seq<char>, p: Seq<char>) -> bool {
    p.len() <= s.len() && s.subrange(s.len() - p.len(), s.len() as int) == p
}

pub uninterp spec fn trim_spec(s: Seq<char>) -> Seq<char>;
pub uninterp spec fn is_ws(c: char) -> bool;  // char::is_whitespace (Unicode White_Space)

#[verifier::external_body]
pub proof fn axiom_trim(s: Seq<char>)
    ensures
        exists|a: int, b: int| 0 <= a <= b <= s.len() && trim_spec(s) == s.subrange(a, b)
            && (forall|i: int| 0 <= i < a ==> is_ws(#[trigger] s[i])) && (forall|i: int| b <= i < s.len() ==> is_ws(#[trigger] s[i])),
        trim_spec(s).len() > 0 ==> !is_ws(trim_spec(s)[0]) && !is_ws(trim_spec(s).last()),
        is_ws(' ') && is_ws('\n') && is_ws('\r') && is_ws('\t'),
        forall|c: char| ('0' <= c && c <= '9') ==> !is_ws(c),
        forall|c: char| ('!' <= c && c <= '~') ==> !is_ws(c),      // printable ASCII other than the space
{
}

pub trait RwsStr2 {
    spec fn sv2(&self) -> Seq<char>;
    fn rws_trim<'a>(&'a self) -> (r: &'a str)
        ensures r@ == trim_spec(self.sv2());
    fn rws_split_collect<'a>(&'a self, sep: &str) -> (r: Vec<&'a str>)
        ensures sviews(r@) == split_spec(self.sv2(), sep@), r@.len() == split_spec(self.sv2(), sep@).len();
    fn rws_starts_with(&self, p: &str) -> (r: bool)
        ensures r == has_prefix(self.sv2(), p@);
    fn rws_ends_with(&self, p: &str) -> (r: bool)
        ensures r == has_suffix(self.sv2(), p@);
    fn rws_as_str<'a>(&'a self) -> (r: &'a str)
        ensures r@ == self.sv2();
    fn rws_split_once<'a>(&'a self, sep: &str) -> (r: Option<(&'a str, &'a str)>)
        ensures
            r.is_none() <==> !has_sub(self.sv2(), sep@),
            r.is_some() ==> self.sv2() == r.unwrap().0@ + sep@ + r.unwrap().1@ && !has_sub(r.unwrap().0@, sep@),
            r.is_none() <==> split_once_spec(self.sv2(), sep@).is_none(),
            r.is_some() ==> (r.unwrap().0@, r.unwrap().1@) == split_once_spec(self.sv2(), sep@).unwrap();
    fn rws_to_lowercase(&self) -> (r: String)
        ensures r@ == lower_spec(self.sv2());
    fn rws_to_uppercase(&self) -> (r: String)
        ensures r@ == upper_spec(self.sv2());
}
// the split at the FIRST occurrence of sep
pub uninterp spec fn split_once_spec(s: Seq<char>, sep: Seq<char>) -> Option<(Seq<char>, Seq<char>)>;
#[verifier::external_body]
pub proof fn axiom_split_once(s: Seq<char>, sep: Seq<char>)
    requires sep.len() > 0,
    ensures
        split_once_spec(s, sep).is_none() <==> !has_sub(s, sep),
        split_once_spec(s, sep).is_some() ==> s == split_once_spec(s, sep).unwrap().0 + sep + split_once_spec(s, sep).unwrap().1
            && !has_sub(split_once_spec(s, sep).unwrap().0, sep),
{
}
pub uninterp spec fn lower_spec(s: Seq<char>) -> Seq<char>;
pub uninterp spec fn upper_spec(s: Seq<char>) -> Seq<char>;

impl RwsStr2 for str {
    open spec fn sv2(&self) -> Seq<char> { self@ }
    #[verifier::external_body]
    fn rws_trim<'a>(&'a self) -> &'a str { self.trim() }
    #[verifier::external_body]
    fn rws_split_collect<'a>(&'a self, sep: &str) -> Vec<&'a str> { self.split(sep).collect() }
    #[verifier::external_body]
    fn rws_starts_with(&self, p: &str) -> bool { self.starts_with(p) }
    #[verifier::external_body]
    fn rws_ends_with(&self, p: &str) -> bool { self.ends_with(p) }
    #[verifier::external_body]
    fn rws_as_str<'a>(&'a self) -> &'a str { self }
    #[verifier::external_body]
    fn rws_split_once<'a>(&'a self, sep: &str) -> Option<(&'a str, &'a str)> { self.split_once(sep) }
    #[verifier::external_body]
    fn rws_to_lowercase(&self) -> String { self.to_lowercase() }
    #[verifier::external_body]
    fn rws_to_uppercase(&self) -> String { self.to_uppercase() }
}
impl RwsStr2 for String {
    open spec fn sv2(&self) -> Seq<char> { self@ }
    #[verifier::external_body]
    fn rws_trim<'a>(&'a self) -> &'a str { self.trim() }
    #[verifier::external_body]
    fn rws_split_collect<'a>(&'a self, sep: &str) -> Vec<&'a str> { self.split(sep).collect() }
    #[verifier::external_body]
    fn rws_starts_with(&self, p: &str) -> bool { self.starts_with(p) }
    #[verifier::external_body]
    fn rws_ends_with(&self, p: &str) -> bool { self.ends_with(p) }
    #[verifier::external_body]
    fn rws_as_str<'a>(&'a self) -> &'a str { self.as_str() }
    #[verifier::external_body]
    fn rws_split_once<'a>(&'a self, sep: &str) -> Option<(&'a str, &'a str)> { self.split_once(sep) }
    #[verifier::external_body]
    fn rws_to_lowercase(&self) -> String { self.to_lowercase() }
    #[verifier::external_body]
    fn rws_to_uppercase(&self) -> String { self.to_uppercase() }
}

// str::parse::<T>()
pub open spec fn is_digit(c: char) -> bool { '0' <= c && c <= '9' }
pub open spec fn all_digits(s: Seq<char>) -> bool { forall|i: int| 0 <= i < s.len() ==> is_digit(#[trigger] s[i]) }
pub open spec fn dec_val(s: Seq<char>) -> nat
    decreases s.len()
{
    if s.len() == 0 { 0 } else { (dec_val(s.drop_last()) * 10 + ((s.last() as nat) - ('0' as nat))) as nat }
}
// <uN as FromStr>: optional '+', then at least one ASCII digit, value must fit
pub open spec fn unsigned_digits(s: Seq<char>) -> Seq<char> { if s.len() > 0 && s[0] == '+' { s.subrange(1, s.len() as int) } else { s } }
pub open spec fn parses_unsigned(s: Seq<char>, max: nat) -> bool {
    unsigned_digits(s).len() > 0 && all_digits(unsigned_digits(s)) && dec_val(unsigned_digits(s)) <= max
}
// <iN as FromStr>: optional sign, then at least one digit, value must fit
pub open spec fn signed_digits(s: Seq<char>) -> Seq<char> { if s.len() > 0 && (s[0] == '+' || s[0] == '-') { s.subrange(1, s.len() as int) } else { s } }
pub open spec fn signed_val(s: Seq<char>) -> int { if s.len() > 0 && s[0] == '-' { -(dec_val(signed_digits(s)) as int) } else { dec_val(signed_digits(s)) as int } }
pub open spec fn parses_signed(s: Seq<char>, min: int, max: int) -> bool {
    signed_digits(s).len() > 0 && all_digits(signed_digits(s)) && min <= signed_val(s) <= max
}

#[verifier::external_type_specification]
#[verifier::external_body]
pub struct ExParseIntError(core::num::ParseIntError);
#[verifier::external_type_specification]
#[verifier::external_body]
pub struct ExParseBoolError(core::str::ParseBoolError);

pub trait RwsFromStr: Sized {
    type E: std::fmt::Debug;
    spec fn parses(s: Seq<char>) -> bool;
    spec fn val(s: Seq<char>) -> Self;
    fn rws_from_str(s: &str) -> (r: Result<Self, Self::E>)
        ensures r.is_ok() <==> Self::parses(s@), r.is_ok() ==> r.unwrap() == Self::val(s@);
}
impl RwsFromStr for u64 {
    type E = core::num::ParseIntError;
    open spec fn parses(s: Seq<char>) -> bool { parses_unsigned(s, u64::MAX as nat) }
    open spec fn val(s: Seq<char>) -> u64 { dec_val(unsigned_digits(s)) as u64 }
    #[verifier::external_body]
    fn rws_from_str(s: &str) -> Result<u64, core::num::ParseIntError> { s.parse::<u64>() }
}
impl RwsFromStr for usize {
    type E = core::num::ParseIntError;
    open spec fn parses(s: Seq<char>) -> bool { parses_unsigned(s, usize::MAX as nat) }
    open spec fn val(s: Seq<char>) -> usize { dec_val(unsigned_digits(s)) as usize }
    #[verifier::external_body]
    fn rws_from_str(s: &str) -> Result<usize, core::num::ParseIntError> { s.parse::<usize>() }
}
impl RwsFromStr for i64 {
    type E = core::num::ParseIntError;
    open spec fn parses(s: Seq<char>) -> bool { parses_signed(s, i64::MIN as int, i64::MAX as int) }
    open spec fn val(s: Seq<char>) -> i64 { signed_val(s) as i64 }
    #[verifier::external_body]
    fn rws_from_str(s: &str) -> Result<i64, core::num::ParseIntError> { s.parse::<i64>() }
}
impl RwsFromStr for i32 {
    type E = core::num::ParseIntError;
    open spec fn parses(s: Seq<char>) -> bool { parses_signed(s, i32::MIN as int, i32::MAX as int) }
    open spec fn val(s: Seq<char>) -> i32 { signed_val(s) as i32 }
    #[verifier::external_body]
    fn rws_from_str(s: &str) -> Result<i32, core::num::ParseIntError> { s.parse::<i32>() }
}
impl RwsFromStr for i16 {
    type E = core::num::ParseIntError;
    open spec fn parses(s: Seq<char>) -> bool { parses_signed(s, i16::MIN as int, i16::MAX as int) }
    open spec fn val(s: Seq<char>) -> i16 { signed_val(s) as i16 }
    #[verifier::external_body]
    fn rws_from_str(s: &str) -> Result<i16, core::num::ParseIntError> { s.parse::<i16>() }
}
impl RwsFromStr for bool {
    type E = core::str::ParseBoolError;
    open spec fn parses(s: Seq<char>) -> bool { s == seq!['t', 'r', 'u', 'e'] || s == seq!['f', 'a', 'l', 's', 'e'] }
    open spec fn val(s: Seq<char>) -> bool { s == seq!['t', 'r', 'u', 'e'] }
    #[verifier::external_body]
    fn rws_from_str(s: &str) -> Result<bool, core::str::ParseBoolError> { s.parse::<bool>() }
}
pub trait RwsParse {
    spec fn sv3(&self) -> Seq<char>;
    fn rws_parse<F: RwsFromStr>(&self) -> (r: Result<F, F::E>)
        ensures r.is_ok() <==> F::parses(self.sv3()), r.is_ok() ==> r.unwrap() == F::val(self.sv3());
}
impl RwsParse for str {
    open spec fn sv3(&self) -> Seq<char> { self@ }
    fn rws_parse<F: RwsFromStr>(&self) -> (r: Result<F, F::E>) { F::rws_from_str(self) }
}
impl RwsParse for String {
    open spec fn sv3(&self) -> Seq<char> { self@ }
    fn rws_parse<F: RwsFromStr>(&self) -> (r: Result<F, F::E>) { F::rws_from_str(self.as_str()) }
}

// cat/join of short literal sequences, unfolded (generated)
pub proof fn lemma_cat_1(ss: Seq<Seq<char>>)
    requires ss.len() == 1,
    ensures cat(ss) == ss[0], join_spec(ss, Seq::<char>::empty()) == ss[0],
{
    reveal_with_fuel(cat, 2);
    let d1 = ss.drop_last();
    assert(d1.len() == 0);
    assert(cat(ss) =~= ss[0]);
    lemma_join_empty_sep(ss);
}
pub proof fn lemma_cat_2(ss: Seq<Seq<char>>)
    requires ss.len() == 2,
    ensures cat(ss) == ss[0] + ss[1], join_spec(ss, Seq::<char>::empty()) == ss[0] + ss[1],
{
    reveal_with_fuel(cat, 3);
    let d2 = ss.drop_last();
    assert(d2.len() == 1);
    assert(forall|i: int| 0 <= i < 1 ==> d2[i] == ss[i]);
    let d1 = d2.drop_last();
    assert(d1.len() == 0);
    assert(cat(ss) =~= ss[0] + ss[1]);
    lemma_join_empty_sep(ss);
}
pub proof fn lemma_cat_3(ss: Seq<Seq<char>>)
    requires ss.len() == 3,
    ensures cat(ss) == ss[0] + ss[1] + ss[2], join_spec(ss, Seq::<char>::empty()) == ss[0] + ss[1] + ss[2],
{
    reveal_with_fuel(cat, 4);
    let d3 = ss.drop_last();
    assert(d3.len() == 2);
    assert(forall|i: int| 0 <= i < 2 ==> d3[i] == ss[i]);
    let d2 = d3.drop_last();
    assert(d2.len() == 1);
    assert(forall|i: int| 0 <= i < 1 ==> d2[i] == ss[i]);
    let d1 = d2.drop_last();
    assert(d1.len() == 0);
    assert(cat(ss) =~= ss[0] + ss[1] + ss[2]);
    lemma_join_empty_sep(ss);
}
pub proof fn lemma_cat_4(ss: Seq<Seq<char>>)
    requires ss.len() == 4,
    ensures cat(ss) == ss[0] + ss[1] + ss[2] + ss[3], join_spec(ss, Seq::<char>::empty()) == ss[0] + ss[1] + ss[2] + ss[3],
{
    reveal_with_fuel(cat, 5);
    let d4 = ss.drop_last();
    assert(d4.len() == 3);
    assert(forall|i: int| 0 <= i < 3 ==> d4[i] == ss[i]);
    let d3 = d4.drop_last();
    assert(d3.len() == 2);
    assert(forall|i: int| 0 <= i < 2 ==> d3[i] == ss[i]);
    let d2 = d3.drop_last();
    assert(d2.len() == 1);
    assert(forall|i: int| 0 <= i < 1 ==> d2[i] == ss[i]);
    let d1 = d2.drop_last();
    assert(d1.len() == 0);
    assert(cat(ss) =~= ss[0] + ss[1] + ss[2] + ss[3]);
    lemma_join_empty_sep(ss);
}
pub proof fn lemma_cat_5(ss: Seq<Seq<char>>)
    requires ss.len() == 5,
    ensures cat(ss) == ss[0] + ss[1] + ss[2] + ss[3] + ss[4], join_spec(ss, Seq::<char>::empty()) == ss[0] + ss[1] + ss[2] + ss[3] + ss[4],
{
    reveal_with_fuel(cat, 6);
    let d5 = ss.drop_last();
    assert(d5.len() == 4);
    assert(forall|i: int| 0 <= i < 4 ==> d5[i] == ss[i]);
    let d4 = d5.drop_last();
    assert(d4.len() == 3);
    assert(forall|i: int| 0 <= i < 3 ==> d4[i] == ss[i]);
    let d3 = d4.drop_last();
    assert(d3.len() == 2);
    assert(forall|i: int| 0 <= i < 2 ==> d3[i] == ss[i]);
    let d2 = d3.drop_last();
    assert(d2.len() == 1);
    assert(forall|i: int| 0 <= i < 1 ==> d2[i] == ss[i]);
    let d1 = d2.drop_last();
    assert(d1.len() == 0);
    assert(cat(ss) =~= ss[0] + ss[1] + ss[2] + ss[3] + ss[4]);
    lemma_join_empty_sep(ss);
}
pub proof fn lemma_cat_6(ss: Seq<Seq<char>>)
    requires ss.len() == 6,
    ensures cat(ss) == ss[0] + ss[1] + ss[2] + ss[3] + ss[4] + ss[5], join_spec(ss, Seq::<char>::empty()) == ss[0] + ss[1] + ss[2] + ss[3] + ss[4] + ss[5],
{
    reveal_with_fuel(cat, 7);
    let d6 = ss.drop_last();
    assert(d6.len() == 5);
    assert(forall|i: int| 0 <= i < 5 ==> d6[i] == ss[i]);
    let d5 = d6.drop_last();
    assert(d5.len() == 4);
    assert(forall|i: int| 0 <= i < 4 ==> d5[i] == ss[i]);
    let d4 = d5.drop_last();
    assert(d4.len() == 3);
    assert(forall|i: int| 0 <= i < 3 ==> d4[i] == ss[i]);
    let d3 = d4.drop_last();
    assert(d3.len() == 2);
    assert(forall|i: int| 0 <= i < 2 ==> d3[i] == ss[i]);
    let d2 = d3.drop_last();
    assert(d2.len() == 1);
    assert(forall|i: int| 0 <= i < 1 ==> d2[i] == ss[i]);
    let d1 = d2.drop_last();
    assert(d1.len() == 0);
    assert(cat(ss) =~= ss[0] + ss[1] + ss[2] + ss[3] + ss[4] + ss[5]);
    lemma_join_empty_sep(ss);
}
pub proof fn lemma_cat_7(ss: Seq<Seq<char>>)
    requires ss.len() == 7,
    ensures cat(ss) == ss[0] + ss[1] + ss[2] + ss[3] + ss[4] + ss[5] + ss[6], join_spec(ss, Seq::<char>::empty()) == ss[0] + ss[1] + ss[2] + ss[3] + ss[4] + ss[5] + ss[6],
{
    reveal_with_fuel(cat, 8);
    let d7 = ss.drop_last();
    assert(d7.len() == 6);
    assert(forall|i: int| 0 <= i < 6 ==> d7[i] == ss[i]);
    let d6 = d7.drop_last();
    assert(d6.len() == 5);
    assert(forall|i: int| 0 <= i < 5 ==> d6[i] == ss[i]);
    let d5 = d6.drop_last();
    assert(d5.len() == 4);
    assert(forall|i: int| 0 <= i < 4 ==> d5[i] == ss[i]);
    let d4 = d5.drop_last();
    assert(d4.len() == 3);
    assert(forall|i: int| 0 <= i < 3 ==> d4[i] == ss[i]);
    let d3 = d4.drop_last();
    assert(d3.len() == 2);
    assert(forall|i: int| 0 <= i < 2 ==> d3[i] == ss[i]);
    let d2 = d3.drop_last();
    assert(d2.len() == 1);
    assert(forall|i: int| 0 <= i < 1 ==> d2[i] == ss[i]);
    let d1 = d2.drop_last();
    assert(d1.len() == 0);
    assert(cat(ss) =~= ss[0] + ss[1] + ss[2] + ss[3] + ss[4] + ss[5] + ss[6]);
    lemma_join_empty_sep(ss);
}
pub proof fn lemma_cat_8(ss: Seq<Seq<char>>)
    requires ss.len() == 8,
    ensures cat(ss) == ss[0] + ss[1] + ss[2] + ss[3] + ss[4] + ss[5] + ss[6] + ss[7], join_spec(ss, Seq::<char>::empty()) == ss[0] + ss[1] + ss[2] + ss[3] + ss[4] + ss[5] + ss[6] + ss[7],
{
    reveal_with_fuel(cat, 9);
    let d8 = ss.drop_last();
    assert(d8.len() == 7);
    assert(forall|i: int| 0 <= i < 7 ==> d8[i] == ss[i]);
    let d7 = d8.drop_last();
    assert(d7.len() == 6);
    assert(forall|i: int| 0 <= i < 6 ==> d7[i] == ss[i]);
    let d6 = d7.drop_last();
    assert(d6.len() == 5);
    assert(forall|i: int| 0 <= i < 5 ==> d6[i] == ss[i]);
    let d5 = d6.drop_last();
    assert(d5.len() == 4);
    assert(forall|i: int| 0 <= i < 4 ==> d5[i] == ss[i]);
    let d4 = d5.drop_last();
    assert(d4.len() == 3);
    assert(forall|i: int| 0 <= i < 3 ==> d4[i] == ss[i]);
    let d3 = d4.drop_last();
    assert(d3.len() == 2);
    assert(forall|i: int| 0 <= i < 2 ==> d3[i] == ss[i]);
    let d2 = d3.drop_last();
    assert(d2.len() == 1);
    assert(forall|i: int| 0 <= i < 1 ==> d2[i] == ss[i]);
    let d1 = d2.drop_last();
    assert(d1.len() == 0);
    assert(cat(ss) =~= ss[0] + ss[1] + ss[2] + ss[3] + ss[4] + ss[5] + ss[6] + ss[7]);
    lemma_join_empty_sep(ss);
}
pub proof fn lemma_cat_9(ss: Seq<Seq<char>>)
    requires ss.len() == 9,
    ensures cat(ss) == ss[0] + ss[1] + ss[2] + ss[3] + ss[4] + ss[5] + ss[6] + ss[7] + ss[8], join_spec(ss, Seq::<char>::empty()) == ss[0] + ss[1] + ss[2] + ss[3] + ss[4] + ss[5] + ss[6] + ss[7] + ss[8],
{
    reveal_with_fuel(cat, 10);
    let d9 = ss.drop_last();
    assert(d9.len() == 8);
    assert(forall|i: int| 0 <= i < 8 ==> d9[i] == ss[i]);
    let d8 = d9.drop_last();
    assert(d8.len() == 7);
    assert(forall|i: int| 0 <= i < 7 ==> d8[i] == ss[i]);
    let d7 = d8.drop_last();
    assert(d7.len() == 6);
    assert(forall|i: int| 0 <= i < 6 ==> d7[i] == ss[i]);
    let d6 = d7.drop_last();
    assert(d6.len() == 5);
    assert(forall|i: int| 0 <= i < 5 ==> d6[i] == ss[i]);
    let d5 = d6.drop_last();
    assert(d5.len() == 4);
    assert(forall|i: int| 0 <= i < 4 ==> d5[i] == ss[i]);
    let d4 = d5.drop_last();
    assert(d4.len() == 3);
    assert(forall|i: int| 0 <= i < 3 ==> d4[i] == ss[i]);
    let d3 = d4.drop_last();
    assert(d3.len() == 2);
    assert(forall|i: int| 0 <= i < 2 ==> d3[i] == ss[i]);
    let d2 = d3.drop_last();
    assert(d2.len() == 1);
    assert(forall|i: int| 0 <= i < 1 ==> d2[i] == ss[i]);
    let d1 = d2.drop_last();
    assert(d1.len() == 0);
    assert(cat(ss) =~= ss[0] + ss[1] + ss[2] + ss[3] + ss[4] + ss[5] + ss[6] + ss[7] + ss[8]);
    lemma_join_empty_sep(ss);
}
pub proof fn lemma_cat_10(ss: Seq<Seq<char>>)
    requires ss.len() == 10,
    ensures cat(ss) == ss[0] + ss[1] + ss[2] + ss[3] + ss[4] + ss[5] + ss[6] + ss[7] + ss[8] + ss[9], join_spec(ss, Seq::<char>::empty()) == ss[0] + ss[1] + ss[2] + ss[3] + ss[4] + ss[5] + ss[6] + ss[7] + ss[8] + ss[9],
{
    reveal_with_fuel(cat, 11);
    let d10 = ss.drop_last();
    assert(d10.len() == 9);
    assert(forall|i: int| 0 <= i < 9 ==> d10[i] == ss[i]);
    let d9 = d10.drop_last();
    assert(d9.len() == 8);
    assert(forall|i: int| 0 <= i < 8 ==> d9[i] == ss[i]);
    let d8 = d9.drop_last();
    assert(d8.len() == 7);
    assert(forall|i: int| 0 <= i < 7 ==> d8[i] == ss[i]);
    let d7 = d8.drop_last();
    assert(d7.len() == 6);
    assert(forall|i: int| 0 <= i < 6 ==> d7[i] == ss[i]);
    let d6 = d7.drop_last();
    assert(d6.len() == 5);
    assert(forall|i: int| 0 <= i < 5 ==> d6[i] == ss[i]);
    let d5 = d6.drop_last();
    assert(d5.len() == 4);
    assert(forall|i: int| 0 <= i < 4 ==> d5[i] == ss[i]);
    let d4 = d5.drop_last();
    assert(d4.len() == 3);
    assert(forall|i: int| 0 <= i < 3 ==> d4[i] == ss[i]);
    let d3 = d4.drop_last();
    assert(d3.len() == 2);
    assert(forall|i: int| 0 <= i < 2 ==> d3[i] == ss[i]);
    let d2 = d3.drop_last();
    assert(d2.len() == 1);
    assert(forall|i: int| 0 <= i < 1 ==> d2[i] == ss[i]);
    let d1 = d2.drop_last();
    assert(d1.len() == 0);
    assert(cat(ss) =~= ss[0] + ss[1] + ss[2] + ss[3] + ss[4] + ss[5] + ss[6] + ss[7] + ss[8] + ss[9]);
    lemma_join_empty_sep(ss);
}

pub proof fn lemma_join_3(ss: Seq<Seq<char>>, sep: Seq<char>)
    requires ss.len() == 3,
    ensures join_spec(ss, sep) == ss[0] + sep + ss[1] + sep + ss[2],
{
    reveal_with_fuel(join_spec, 4);
    let d2 = ss.drop_last();
    let d1 = d2.drop_last();
    assert(d2.len() == 2 && d1.len() == 1);
    assert(d2[0] == ss[0] && d2[1] == ss[1] && d1[0] == ss[0]);
    assert(join_spec(ss, sep) =~= ss[0] + sep + ss[1] + sep + ss[2]);
}

// broadcast forms: join of a literal array with the empty separator, unfolded (generated)
pub broadcast proof fn lemma_bjoin_1(ss: Seq<Seq<char>>, sep: Seq<char>)
    requires ss.len() == 1, sep.len() == 0,
    ensures #[trigger] join_spec(ss, sep) == ss[0],
{
    assert(sep =~= Seq::<char>::empty());
    lemma_cat_1(ss);
}
pub broadcast proof fn lemma_bjoin_2(ss: Seq<Seq<char>>, sep: Seq<char>)
    requires ss.len() == 2, sep.len() == 0,
    ensures #[trigger] join_spec(ss, sep) == ss[0] + ss[1],
{
    assert(sep =~= Seq::<char>::empty());
    lemma_cat_2(ss);
}
pub broadcast proof fn lemma_bjoin_3(ss: Seq<Seq<char>>, sep: Seq<char>)
    requires ss.len() == 3, sep.len() == 0,
    ensures #[trigger] join_spec(ss, sep) == ss[0] + ss[1] + ss[2],
{
    assert(sep =~= Seq::<char>::empty());
    lemma_cat_3(ss);
}
pub broadcast proof fn lemma_bjoin_4(ss: Seq<Seq<char>>, sep: Seq<char>)
    requires ss.len() == 4, sep.len() == 0,
    ensures #[trigger] join_spec(ss, sep) == ss[0] + ss[1] + ss[2] + ss[3],
{
    assert(sep =~= Seq::<char>::empty());
    lemma_cat_4(ss);
}
pub broadcast proof fn lemma_bjoin_5(ss: Seq<Seq<char>>, sep: Seq<char>)
    requires ss.len() == 5, sep.len() == 0,
    ensures #[trigger] join_spec(ss, sep) == ss[0] + ss[1] + ss[2] + ss[3] + ss[4],
{
    assert(sep =~= Seq::<char>::empty());
    lemma_cat_5(ss);
}
pub broadcast proof fn lemma_bjoin_6(ss: Seq<Seq<char>>, sep: Seq<char>)
    requires ss.len() == 6, sep.len() == 0,
    ensures #[trigger] join_spec(ss, sep) == ss[0] + ss[1] + ss[2] + ss[3] + ss[4] + ss[5],
{
    assert(sep =~= Seq::<char>::empty());
    lemma_cat_6(ss);
}
pub broadcast proof fn lemma_bjoin_7(ss: Seq<Seq<char>>, sep: Seq<char>)
    requires ss.len() == 7, sep.len() == 0,
    ensures #[trigger] join_spec(ss, sep) == ss[0] + ss[1] + ss[2] + ss[3] + ss[4] + ss[5] + ss[6],
{
    assert(sep =~= Seq::<char>::empty());
    lemma_cat_7(ss);
}
pub broadcast proof fn lemma_bjoin_8(ss: Seq<Seq<char>>, sep: Seq<char>)
    requires ss.len() == 8, sep.len() == 0,
    ensures #[trigger] join_spec(ss, sep) == ss[0] + ss[1] + ss[2] + ss[3] + ss[4] + ss[5] + ss[6] + ss[7],
{
    assert(sep =~= Seq::<char>::empty());
    lemma_cat_8(ss);
}
pub broadcast proof fn lemma_bjoin_9(ss: Seq<Seq<char>>, sep: Seq<char>)
    requires ss.len() == 9, sep.len() == 0,
    ensures #[trigger] join_spec(ss, sep) == ss[0] + ss[1] + ss[2] + ss[3] + ss[4] + ss[5] + ss[6] + ss[7] + ss[8],
{
    assert(sep =~= Seq::<char>::empty());
    lemma_cat_9(ss);
}
pub broadcast proof fn lemma_bjoin_10(ss: Seq<Seq<char>>, sep: Seq<char>)
    requires ss.len() == 10, sep.len() == 0,
    ensures #[trigger] join_spec(ss, sep) == ss[0] + ss[1] + ss[2] + ss[3] + ss[4] + ss[5] + ss[6] + ss[7] + ss[8] + ss[9],
{
    assert(sep =~= Seq::<char>::empty());
    lemma_cat_10(ss);
}
pub broadcast group group_join_lemmas {
    lemma_bjoin_1,
    lemma_bjoin_2,
    lemma_bjoin_3,
    lemma_bjoin_4,
    lemma_bjoin_5,
    lemma_bjoin_6,
    lemma_bjoin_7,
    lemma_bjoin_8,
    lemma_bjoin_9,
    lemma_bjoin_10,
}

// broadcast forms for cat (R-FMT results) and for 3-element joins with a separator
pub broadcast proof fn lemma_bcat_1(ss: Seq<Seq<char>>)
    requires ss.len() == 1,
    ensures #[trigger] cat(ss) == ss[0],
{
    lemma_cat_1(ss);
}
pub broadcast proof fn lemma_bcat_2(ss: Seq<Seq<char>>)
    requires ss.len() == 2,
    ensures #[trigger] cat(ss) == ss[0] + ss[1],
{
    lemma_cat_2(ss);
}
pub broadcast proof fn lemma_bcat_3(ss: Seq<Seq<char>>)
    requires ss.len() == 3,
    ensures #[trigger] cat(ss) == ss[0] + ss[1] + ss[2],
{
    lemma_cat_3(ss);
}
pub broadcast proof fn lemma_bcat_4(ss: Seq<Seq<char>>)
    requires ss.len() == 4,
    ensures #[trigger] cat(ss) == ss[0] + ss[1] + ss[2] + ss[3],
{
    lemma_cat_4(ss);
}
pub broadcast proof fn lemma_bcat_5(ss: Seq<Seq<char>>)
    requires ss.len() == 5,
    ensures #[trigger] cat(ss) == ss[0] + ss[1] + ss[2] + ss[3] + ss[4],
{
    lemma_cat_5(ss);
}
pub broadcast proof fn lemma_bcat_6(ss: Seq<Seq<char>>)
    requires ss.len() == 6,
    ensures #[trigger] cat(ss) == ss[0] + ss[1] + ss[2] + ss[3] + ss[4] + ss[5],
{
    lemma_cat_6(ss);
}
pub broadcast proof fn lemma_bjoin3_sep(ss: Seq<Seq<char>>, sep: Seq<char>)
    requires ss.len() == 3,
    ensures #[trigger] join_spec(ss, sep) == ss[0] + sep + ss[1] + sep + ss[2],
{
    lemma_join_3(ss, sep);
}
pub broadcast group group_cat_lemmas {
    lemma_bcat_1,
    lemma_bcat_2,
    lemma_bcat_3,
    lemma_bcat_4,
    lemma_bcat_5,
    lemma_bcat_6,
    lemma_bjoin3_sep,
}

// R-STREQ: comparison of a string value with a &'static str constant
pub trait RwsStrEq {
    spec fn sv6(&self) -> Seq<char>;
    fn rws_eq_str(&self, o: &str) -> (r: bool)
        ensures r == (self.sv6() == o@);
}
impl RwsStrEq for String {
    open spec fn sv6(&self) -> Seq<char> { self@ }
    #[verifier::external_body]
    fn rws_eq_str(&self, o: &str) -> bool { self == o }
}
impl RwsStrEq for str {
    open spec fn sv6(&self) -> Seq<char> { self@ }
    #[verifier::external_body]
    fn rws_eq_str(&self, o: &str) -> bool { self == o }
}

// .contains(): substring test on strings, membership on vectors of strings
pub trait RwsContains<A> {
    spec fn contains_spec(&self, a: A) -> bool;
    fn rws_contains(&self, a: A) -> (r: bool)
        ensures r == self.contains_spec(a);
}
impl<'a> RwsContains<&'a str> for str {
    open spec fn contains_spec(&self, a: &'a str) -> bool { has_sub(self@, a@) }
    #[verifier::external_body]
    fn rws_contains(&self, a: &'a str) -> bool { self.contains(a) }
}
impl<'a> RwsContains<&'a String> for str {
    open spec fn contains_spec(&self, a: &'a String) -> bool { has_sub(self@, a@) }
    #[verifier::external_body]
    fn rws_contains(&self, a: &'a String) -> bool { self.contains(a.as_str()) }
}
impl<'a> RwsContains<&'a str> for String {
    open spec fn contains_spec(&self, a: &'a str) -> bool { has_sub(self@, a@) }
    #[verifier::external_body]
    fn rws_contains(&self, a: &'a str) -> bool { self.contains(a) }
}
impl<'a> RwsContains<&'a String> for String {
    open spec fn contains_spec(&self, a: &'a String) -> bool { has_sub(self@, a@) }
    #[verifier::external_body]
    fn rws_contains(&self, a: &'a String) -> bool { self.contains(a.as_str()) }
}
pub open spec fn member(v: Seq<Seq<char>>, x: Seq<char>) -> bool { exists|i: int| 0 <= i < v.len() && #[trigger] v[i] == x }
impl<'a> RwsContains<&'a String> for Vec<String> {
    open spec fn contains_spec(&self, a: &'a String) -> bool { member(views(self@), a@) }
    #[verifier::external_body]
    fn rws_contains(&self, a: &'a String) -> bool { self.contains(a) }
}
impl<'a, 'b, 'c> RwsContains<&'a &'b str> for Vec<&'c str> {
    open spec fn contains_spec(&self, a: &'a &'b str) -> bool { member(sviews(self@), (*a)@) }
    #[verifier::external_body]
    fn rws_contains(&self, a: &'a &'b str) -> bool { self.iter().any(|x| **x == **a) }
}

pub broadcast proof fn lemma_bjoin2_sep(ss: Seq<Seq<char>>, sep: Seq<char>)
    requires ss.len() == 2,
    ensures #[trigger] join_spec(ss, sep) == ss[0] + sep + ss[1],
{
    reveal_with_fuel(join_spec, 3);
    let d = ss.drop_last();
    assert(d.len() == 1 && d[0] == ss[0]);
}

// R-CLONE: structural clone
pub trait RwsClone: Sized {
    fn rws_clone(&self) -> (r: Self)
        ensures r == *self;
}
impl RwsClone for String {
    #[verifier::external_body]
    fn rws_clone(&self) -> String { self.clone() }
}
impl<T: Clone> RwsClone for Vec<T> {
    #[verifier::external_body]
    fn rws_clone(&self) -> Vec<T> { self.clone() }
}

// str::replace(from, to): only the instance the code uses is specified - removing every occurrence of a one-character pattern
pub open spec fn without_char(s: Seq<char>, c: char) -> Seq<char>
    decreases s.len()
{
    if s.len() == 0 { Seq::empty() } else if s.last() == c { without_char(s.drop_last(), c) } else { without_char(s.drop_last(), c).push(s.last()) }
}
pub trait RwsReplace {
    spec fn sv7(&self) -> Seq<char>;
    fn rws_replace(&self, from: &str, to: &str) -> (r: String)
        ensures
            from@.len() == 1 && to@.len() == 0 ==> r@ == without_char(self.sv7(), from@[0]),
            from@ == to@ ==> r@ == self.sv7(),
            from@.len() == 1 && to@.len() == 1 ==> r@ == subst_char(self.sv7(), from@[0], to@[0]);
}
// every occurrence of the character a replaced by the character b
pub open spec fn subst_char(s: Seq<char>, a: char, b: char) -> Seq<char> { Seq::new(s.len(), |i: int| if s[i] == a { b } else { s[i] }) }
impl RwsReplace for str {
    open spec fn sv7(&self) -> Seq<char> { self@ }
    #[verifier::external_body]
    fn rws_replace(&self, from: &str, to: &str) -> String { self.replace(from, to) }
}
impl RwsReplace for String {
    open spec fn sv7(&self) -> Seq<char> { self@ }
    #[verifier::external_body]
    fn rws_replace(&self, from: &str, to: &str) -> String { self.replace(from, to) }
}
pub proof fn lemma_without_char(s: Seq<char>, c: char, d: char)
    ensures
        forall|i: int| 0 <= i < without_char(s, c).len() ==> #[trigger] without_char(s, c)[i] != c,
        (forall|i: int| 0 <= i < s.len() ==> #[trigger] s[i] != d) ==> (forall|i: int| 0 <= i < without_char(s, c).len() ==> #[trigger] without_char(s, c)[i] != d),
        without_char(s, c).len() <= s.len(),
        (forall|i: int| 0 <= i < s.len() ==> #[trigger] s[i] != c) ==> without_char(s, c) == s,
    decreases s.len()
{
    if s.len() > 0 {
        let t = s.drop_last();
        lemma_without_char(t, c, d);
        assert(forall|i: int| 0 <= i < t.len() ==> t[i] == s[i]);
        if forall|i: int| 0 <= i < s.len() ==> #[trigger] s[i] != c {
            assert(forall|i: int| 0 <= i < t.len() ==> #[trigger] t[i] != c);
            assert(without_char(s, c) =~= s);
        }
        if forall|i: int| 0 <= i < s.len() ==> #[trigger] s[i] != d {
            assert(forall|i: int| 0 <= i < t.len() ==> #[trigger] t[i] != d);
        }
    }
}

// R-FIND: typed `None` for the result of the desugared search loop (verified, not assumed)
pub trait RwsFindInit {
    type Item;
    fn rws_find_init(&self) -> (r: Option<&Self::Item>)
        ensures r.is_none();
}
impl<T> RwsFindInit for Vec<T> {
    type Item = T;
    fn rws_find_init(&self) -> (r: Option<&T>) { None }
}

#[verifier::external_type_specification]
#[verifier::external_body]
pub struct ExIoError(std::io::Error);
impl RwsToString for std::io::Error {
    uninterp spec fn ts(&self) -> Seq<char>;
    #[verifier::external_body]
    fn rws_to_string(&self) -> String { self.to_string() }
}

// a Vec holds at most usize::MAX elements (Vec::len returns usize)
#[verifier::external_body]
pub proof fn axiom_vec_len<T>(v: &Vec<T>)
    ensures v@.len() <= usize::MAX,
{
}

// `for x in E.into_iter()`: a Vec is iterated as it is; a HashMap is handed out as a vector of its entries in UNSPECIFIED order
pub trait RwsIntoIter {
    type Out;
    fn rws_into_iter(self) -> Self::Out;
}
impl<T> RwsIntoIter for Vec<T> {
    type Out = Vec<T>;
    fn rws_into_iter(self) -> (r: Vec<T>)
        ensures r == self,
    { self }
}
impl<K, V> RwsIntoIter for HashMap<K, V> {
    type Out = Vec<(K, V)>;
    #[verifier::external_body]
    fn rws_into_iter(self) -> (r: Vec<(K, V)>) { self.into_iter().collect() }
}

// String::eq(&str)
pub trait RwsEq {
    spec fn sv8(&self) -> Seq<char>;
    fn rws_eq(&self, o: &str) -> (r: bool)
        ensures r == (self.sv8() == o@);
}
impl RwsEq for String {
    open spec fn sv8(&self) -> Seq<char> { self@ }
    #[verifier::external_body]
    fn rws_eq(&self, o: &str) -> bool { self.eq(o) }
}
impl RwsEq for str {
    open spec fn sv8(&self) -> Seq<char> { self@ }
    #[verifier::external_body]
    fn rws_eq(&self, o: &str) -> bool { self.eq(o) }
}
impl RwsDisp for std::io::Error {
    uninterp spec fn disp(&self) -> Seq<char>;
    #[verifier::external_body]
    fn rws_disp(&self) -> String { self.to_string() }
}

// Vec::remove / String::remove (R-SHIM renames both; the Vec version is a verified wrapper of vstd's specification)
pub trait RwsRemove {
    type Item;
    spec fn rm_len(&self) -> nat;
    fn rws_remove(&mut self, i: usize) -> (r: Self::Item)
        requires i < old(self).rm_len();
}
impl<T> RwsRemove for Vec<T> {
    type Item = T;
    open spec fn rm_len(&self) -> nat { self@.len() }
    fn rws_remove(&mut self, i: usize) -> (r: T)
        ensures final(self)@ == old(self)@.remove(i as int), r == old(self)@[i as int],
    { self.remove(i) }
}
impl RwsRemove for String {
    type Item = char;
    // String::remove(byte index) panics unless the index is a character boundary inside the string: only index 0 of a non-empty string is offered
    open spec fn rm_len(&self) -> nat { if self@.len() > 0 { 1 } else { 0 } }
    #[verifier::external_body]
    fn rws_remove(&mut self, i: usize) -> (r: char)
        ensures final(self)@ == old(self)@.subrange(1, old(self)@.len() as int), r == old(self)@[0],
    { self.remove(i) }
}

// ---------- std::fs functions that create, delete, rename or alter a file or directory (property C13): callable from NO code under
// contract - each is declared with `requires false`, so a call is a named, failing obligation ----------
#[verifier::external_type_specification]
#[verifier::external_body]
pub struct ExFile(std::fs::File);
#[verifier::allow(undeclared_external_trait)]
pub assume_specification<P: AsRef<std::path::Path>, C: AsRef<[u8]>>[ std::fs::write::<P, C> ](path: P, contents: C) -> (r: std::io::Result<()>)
    requires false;
#[verifier::allow(undeclared_external_trait)]
pub assume_specification<P: AsRef<std::path::Path>>[ std::fs::remove_file::<P> ](path: P) -> (r: std::io::Result<()>)
    requires false;
#[verifier::allow(undeclared_external_trait)]
pub assume_specification<P: AsRef<std::path::Path>>[ std::fs::remove_dir::<P> ](path: P) -> (r: std::io::Result<()>)
    requires false;
#[verifier::allow(undeclared_external_trait)]
pub assume_specification<P: AsRef<std::path::Path>>[ std::fs::remove_dir_all::<P> ](path: P) -> (r: std::io::Result<()>)
    requires false;
#[verifier::allow(undeclared_external_trait)]
pub assume_specification<P: AsRef<std::path::Path>>[ std::fs::create_dir::<P> ](path: P) -> (r: std::io::Result<()>)
    requires false;
#[verifier::allow(undeclared_external_trait)]
pub assume_specification<P: AsRef<std::path::Path>>[ std::fs::create_dir_all::<P> ](path: P) -> (r: std::io::Result<()>)
    requires false;
#[verifier::allow(undeclared_external_trait)]
pub assume_specification<P: AsRef<std::path::Path>, Q: AsRef<std::path::Path>>[ std::fs::rename::<P, Q> ](from: P, to: Q) -> (r: std::io::Result<()>)
    requires false;
#[verifier::allow(undeclared_external_trait)]
pub assume_specification<P: AsRef<std::path::Path>, Q: AsRef<std::path::Path>>[ std::fs::copy::<P, Q> ](from: P, to: Q) -> (r: std::io::Result<u64>)
    requires false;
#[verifier::allow(undeclared_external_trait)]
pub assume_specification<P: AsRef<std::path::Path>>[ std::fs::File::create::<P> ](path: P) -> (r: std::io::Result<std::fs::File>)
    requires false;
