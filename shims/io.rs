// ===== shims/io.rs — trusted base: std::io::Read / Write on an arbitrary transport, socket addresses =====
use std::io::prelude::*;
use std::net::{IpAddr, SocketAddr};

#[verifier::external_type_specification]
#[verifier::external_body]
pub struct ExSocketAddr(SocketAddr);
#[verifier::external_type_specification]
#[verifier::external_body]
pub struct ExIpAddr(IpAddr);
#[verifier::external_type_specification]
#[verifier::external_body]
pub struct ExAddrParseError(std::net::AddrParseError);

// The transport: `sent()` is the ghost sequence of bytes the peer has been handed so far.
// write may accept any prefix (short write); write_all either delivers everything or fails.
#[verifier::external_trait_specification]
#[verifier::external_trait_extension(WriteSpec via WriteSpecImpl)]
pub trait ExWrite {
    type ExternalTraitSpecificationFor: std::io::Write;
    spec fn sent(&self) -> Seq<u8>;
    fn write(&mut self, buf: &[u8]) -> (r: Result<usize, std::io::Error>)
        ensures
            r.is_ok() ==> r.unwrap() <= buf@.len() && final(self).sent() == old(self).sent() + buf@.subrange(0, r.unwrap() as int),
            r.is_err() ==> final(self).sent() == old(self).sent();
    fn flush(&mut self) -> (r: Result<(), std::io::Error>)
        ensures final(self).sent() == old(self).sent();
    fn write_all(&mut self, buf: &[u8]) -> (r: Result<(), std::io::Error>)
        ensures r.is_ok() ==> final(self).sent() == old(self).sent() + buf@;
}

#[verifier::external_trait_specification]
pub trait ExRead {
    type ExternalTraitSpecificationFor: std::io::Read;
    fn read(&mut self, buf: &mut [u8]) -> (r: Result<usize, std::io::Error>)
        ensures r.is_ok() ==> r.unwrap() <= old(buf)@.len(), final(buf)@.len() == old(buf)@.len();
}

pub trait RwsBorrow<'a, O> {
    spec fn borrow_spec(&'a self) -> O;
    fn rws_borrow(&'a self) -> (r: O)
        ensures r == self.borrow_spec();
}
impl<'a> RwsBorrow<'a, &'a [u8]> for Vec<u8> {
    open spec fn borrow_spec(&'a self) -> &'a [u8] { slice_of(self) }
    #[verifier::external_body]
    fn rws_borrow(&'a self) -> (r: &'a [u8])
        ensures r@ == self@,
    { self.as_slice() }
}

pub uninterp spec fn valid_ip(s: Seq<char>) -> bool;

#[verifier::external_body]
pub fn rws_ipaddr_from_str(s: &str) -> (r: Result<IpAddr, std::net::AddrParseError>)
    ensures r.is_ok() == valid_ip(s@),
{
    std::str::FromStr::from_str(s)
}

#[verifier::external_body]
pub fn rws_socketaddr_new(ip: IpAddr, port: u16) -> SocketAddr {
    SocketAddr::new(ip, port)
}
