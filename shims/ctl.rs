// ===== shims/ctl.rs — trusted base: str::replace with the predicate char::is_ascii_control (R-CTLFILTER) =====
pub open spec fn is_ctl(c: char) -> bool { (c as u32) < 0x20 || c as u32 == 0x7f }   // char::is_ascii_control
pub open spec fn without_ctl(s: Seq<char>) -> Seq<char>
    decreases s.len()
{
    if s.len() == 0 { Seq::empty() } else if is_ctl(s.last()) { without_ctl(s.drop_last()) } else { without_ctl(s.drop_last()).push(s.last()) }
}
// what StringExt::filter_ascii_control_characters returns
pub open spec fn filter_ctl_spec(s: Seq<char>) -> Seq<char> { trim_spec(without_ctl(s)) }

pub trait RwsReplaceCtl {
    spec fn sv_ctl(&self) -> Seq<char>;
    // self.replace(|c: char| c.is_ascii_control(), to): with an empty replacement the control characters are dropped
    fn rws_replace_ascii_control(&self, to: &str) -> (r: String)
        ensures to@.len() == 0 ==> r@ == without_ctl(self.sv_ctl());
}
impl RwsReplaceCtl for str {
    open spec fn sv_ctl(&self) -> Seq<char> { self@ }
    #[verifier::external_body]
    fn rws_replace_ascii_control(&self, to: &str) -> String { self.replace(|c: char| c.is_ascii_control(), to) }
}
impl RwsReplaceCtl for String {
    open spec fn sv_ctl(&self) -> Seq<char> { self@ }
    #[verifier::external_body]
    fn rws_replace_ascii_control(&self, to: &str) -> String { self.replace(|c: char| c.is_ascii_control(), to) }
}
