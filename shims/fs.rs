// ===== shims/fs.rs — trusted base: the file system and the file-ext / mime dependencies =====
// The file system is a ghost, immutable map (assumed not to change during one request).
// Every function that touches a path REQUIRES fs_allowed(path): the containment obligation of C01.
pub uninterp spec fn file_content(path: Seq<char>) -> Seq<u8>;
pub uninterp spec fn fs_allowed(path: Seq<char>) -> bool;
pub uninterp spec fn mime_of(path: Seq<char>) -> Seq<char>;

// bytes [start, min(end + 1, len)) of a file; empty when start is beyond the end (file-ext 12.1.0: seek + take(end-start+1))
pub open spec fn file_slice(c: Seq<u8>, start: int, end: int) -> Seq<u8> {
    if start >= c.len() { Seq::empty() } else if end + 1 >= c.len() { c.subrange(start, c.len() as int) } else { c.subrange(start, end + 1) }
}

pub struct FileExt;
impl FileExt {
    // file-ext computes `(end - start) + 1` in u64: start <= end and no wrap are REQUIRED of the caller
    #[verifier::external_body]
    pub fn read_file_partially(filepath: &str, start: u64, end: u64) -> (r: Result<Vec<u8>, String>)
        requires fs_allowed(filepath@), start <= end, end - start < u64::MAX,
        ensures r.is_ok() ==> r.unwrap()@ == file_slice(file_content(filepath@), start as int, end as int),
    { unimplemented!() }
}

pub struct MimeType;
impl MimeType {
    #[verifier::external_body]
    pub fn detect_mime_type(request_uri: &str) -> (r: String)
        ensures r@ == mime_of(request_uri@),
    { unimplemented!() }
}
