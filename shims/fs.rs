// ===== shims/fs.rs — trusted base: the file system, std::fs, std::env::current_dir and the file-ext / mime dependencies =====
// The file system is a ghost, immutable map (assumed not to change during one request).
// Every function that touches a path REQUIRES fs_allowed(path): the containment obligation of C01.
// Every function that would MODIFY the file system requires false: the effect obligation of C13.
pub uninterp spec fn file_content(path: Seq<char>) -> Seq<u8>;
pub uninterp spec fn mime_of(path: Seq<char>) -> Seq<char>;
pub uninterp spec fn mime_listed(path: Seq<char>) -> bool;     // the registry table has a row for this name (contracts/spec/mime.rs, unit mime)
pub uninterp spec fn cwd() -> Seq<char>;                       // absolute path of the served directory
pub uninterp spec fn fs_is_file(path: Seq<char>) -> bool;
pub uninterp spec fn fs_is_dir(path: Seq<char>) -> bool;
pub uninterp spec fn fs_openable(path: Seq<char>) -> bool;      // File::open succeeds (exists and is readable)
pub uninterp spec fn via_symlink(path: Seq<char>) -> bool;
pub uninterp spec fn fs_is_symlink(path: Seq<char>) -> bool;   // the path itself is a symbolic link (lstat)      // the resolution of a symbolic link that itself lies under the root

// ASSUMED (POSIX): the path of a regular file is not empty and does not end in '/' (stat("file/") fails with ENOTDIR)
#[verifier::external_body]
pub proof fn axiom_file_path(f: Seq<char>)
    requires fs_is_file(f),
    ensures f.len() > 0, f.last() != '/',
{
}

// the text a symbolic link holds
pub uninterp spec fn link_target(path: Seq<char>) -> Seq<char>;
// index of the last '/' of a path (-1 when there is none), and the directory part in front of it
pub open spec fn last_sl(p: Seq<char>) -> int
    decreases p.len()
{
    if p.len() == 0 { -1 } else if p.last() == '/' { p.len() - 1 } else { last_sl(p.drop_last()) }
}
pub open spec fn dir_part(p: Seq<char>) -> Seq<char> { if last_sl(p) < 0 { Seq::empty() } else { p.subrange(0, last_sl(p)) } }
// (directory, target text) are those of some symbolic link that itself may be read
pub open spec fn resolves_a_served_link(dir: Seq<char>, target: Seq<char>) -> bool {
    exists|l: Seq<char>| fs_allowed(l) && fs_is_symlink(l) && #[trigger] dir_part(l) == dir && link_target(l) == target
}

pub open spec fn is_sep(c: char) -> bool { c == '/' || c == '\\' }

// a ".." path segment starting at index i
pub open spec fn dotdot_at(s: Seq<char>, i: int) -> bool {
    0 <= i && i + 2 <= s.len() && s[i] == '.' && s[i + 1] == '.'
    && (i == 0 || is_sep(s[i - 1])) && (i + 2 == s.len() || is_sep(s[i + 2]))
}
pub open spec fn has_dotdot_seg(s: Seq<char>) -> bool { exists|i: int| dotdot_at(s, i) }

// a relative path that cannot leave the directory it is appended to
pub open spec fn rel_inside(rel: Seq<char>) -> bool { rel.len() > 0 && rel[0] == '/' && !has_dotdot_seg(rel) }

pub open spec fn under_root(path: Seq<char>) -> bool { exists|rel: Seq<char>| #![auto] path == cwd() + rel && rel_inside(rel) }

// a bare file name (no separator, not "..") is resolved against the served directory itself
pub open spec fn plain_name(p: Seq<char>) -> bool {
    p.len() > 0 && (forall|i: int| 0 <= i < p.len() ==> !is_sep(#[trigger] p[i])) && p != seq!['.', '.']
}

pub open spec fn fs_allowed(path: Seq<char>) -> bool { under_root(path) || via_symlink(path) || plain_name(path) }

// bytes [start, min(end + 1, len)) of a file; empty when start is beyond the end (file-ext 12.1.0: seek + take(end-start+1))
pub open spec fn file_slice(c: Seq<u8>, start: int, end: int) -> Seq<u8> {
    if start >= c.len() { Seq::empty() } else if end + 1 >= c.len() { c.subrange(start, c.len() as int) } else { c.subrange(start, end + 1) }
}

#[verifier::external_type_specification]
#[verifier::external_body]
pub struct ExMetadata(std::fs::Metadata);
// (std::fs::File is declared in shims/core.rs)
#[verifier::external_type_specification]
#[verifier::external_body]
pub struct ExPathBuf(std::path::PathBuf);
#[verifier::external_type_specification]
#[verifier::external_body]
pub struct ExPath(std::path::Path);

pub uninterp spec fn md_is_dir(m: std::fs::Metadata) -> bool;
pub uninterp spec fn md_is_file(m: std::fs::Metadata) -> bool;
pub uninterp spec fn md_len(m: std::fs::Metadata) -> u64;
pub uninterp spec fn md_path(m: std::fs::Metadata) -> Seq<char>;

pub assume_specification[std::fs::Metadata::is_dir](m: &std::fs::Metadata) -> (r: bool)
    ensures r == md_is_dir(*m);
pub assume_specification[std::fs::Metadata::is_file](m: &std::fs::Metadata) -> (r: bool)
    ensures r == md_is_file(*m);
// file sizes are signed 64-bit offsets on the supported targets (off_t)
pub assume_specification[std::fs::Metadata::len](m: &std::fs::Metadata) -> (r: u64)
    ensures r == md_len(*m), r <= 0x7fff_ffff_ffff_ffff;

// md.len() after the R-SHIM rename of `.len()`
pub trait RwsMdLen {
    fn rws_len(&self) -> (r: u64)
        ensures r <= 0x7fff_ffff_ffff_ffff;
}
impl RwsMdLen for std::fs::Metadata {
    fn rws_len(&self) -> (r: u64)
        ensures r == md_len(*self),
    { self.len() }
}

#[verifier::external_body]
pub fn rws_metadata<P: RwsPath + ?Sized>(path: &P) -> (r: Result<std::fs::Metadata, std::io::Error>)
    requires fs_allowed(path.pview()),
    ensures
        r.is_ok() ==> md_path(r.unwrap()) == path.pview() && md_is_dir(r.unwrap()) == fs_is_dir(path.pview())
            && md_is_file(r.unwrap()) == fs_is_file(path.pview()) && !(md_is_dir(r.unwrap()) && md_is_file(r.unwrap())),
        // ASSUMED (quiescent file system): the length reported for a regular file is the length of its content
        r.is_ok() && fs_is_file(path.pview()) ==> md_len(r.unwrap()) == file_content(path.pview()).len(),
        r.is_ok() <==> (fs_is_dir(path.pview()) || fs_is_file(path.pview())),
{ unimplemented!() }

#[verifier::external_body]
pub fn rws_file_open<P: RwsPath + ?Sized>(path: &P) -> (r: Result<std::fs::File, std::io::Error>)
    requires fs_allowed(path.pview()),
    ensures
        r.is_ok() == fs_openable(path.pview()),
        r.is_ok() ==> (fs_is_dir(path.pview()) || fs_is_file(path.pview())),
{ unimplemented!() }

// things that can be passed where the code passes &String / &&String / &str as a path
pub trait RwsPath {
    spec fn pview(&self) -> Seq<char>;
}
impl RwsPath for String { open spec fn pview(&self) -> Seq<char> { self@ } }
impl RwsPath for str { open spec fn pview(&self) -> Seq<char> { self@ } }
impl<'a> RwsPath for &'a String { open spec fn pview(&self) -> Seq<char> { (**self)@ } }
impl<'a> RwsPath for &'a str { open spec fn pview(&self) -> Seq<char> { (**self)@ } }

// env::current_dir().unwrap(); dir.as_path().to_str().unwrap()
#[verifier::external_body]
pub fn rws_env_current_dir() -> (r: Result<std::path::PathBuf, std::io::Error>)
    ensures r.is_ok(),      // ASSUMED: the working directory exists and is accessible
{ std::env::current_dir() }
pub assume_specification[std::path::PathBuf::as_path](p: &std::path::PathBuf) -> (r: &std::path::Path);
// ASSUMED: the working directory is valid UTF-8
pub assume_specification<'a>[std::path::Path::to_str](p: &'a std::path::Path) -> (r: Option<&'a str>)
    ensures r.is_some(), r.unwrap()@ == cwd();

pub struct FileExt;
impl FileExt {
    // file-ext computes `(end - start) + 1` in u64: start <= end and no wrap are REQUIRED of the caller
    #[verifier::external_body]
    pub fn read_file_partially(filepath: &str, start: u64, end: u64) -> (r: Result<Vec<u8>, String>)
        requires fs_allowed(filepath@), start <= end, end - start < u64::MAX,
        ensures
            r.is_ok() ==> r.unwrap()@ == file_slice(file_content(filepath@), start as int, end as int),
            // ASSUMED: reading a regular file that File::open can open does not fail
            fs_is_file(filepath@) && fs_openable(filepath@) ==> r.is_ok(),
    { unimplemented!() }

    #[verifier::external_body]
    pub fn read_file(filepath: &str) -> (r: Result<Vec<u8>, String>)
        requires fs_allowed(filepath@),
        ensures r.is_ok() ==> r.unwrap()@ == file_content(filepath@),
    { unimplemented!() }

    #[verifier::external_body]
    pub fn does_file_exist(path: &str) -> (r: bool)
        requires fs_allowed(path@),
    { unimplemented!() }

    // this target: "/"
    #[verifier::external_body]
    pub fn get_path_separator() -> (r: String)
        ensures r@ == seq!['/'],
    { unimplemented!() }

    // working directory ++ path
    #[verifier::external_body]
    pub fn get_static_filepath(path: &str) -> (r: Result<String, String>)
        ensures
            r.is_ok(),      // ASSUMED: the working directory exists and is accessible
            r.unwrap()@ == cwd() + path@,
    { unimplemented!() }

    #[verifier::external_body]
    pub fn file_modified_utc(filepath: &str) -> (r: Result<u128, String>)
        requires fs_allowed(filepath@),
    { unimplemented!() }

    // ASSUMED: lstat of a path that metadata() just resolved succeeds
    #[verifier::external_body]
    pub fn is_symlink(path: &str) -> (r: Result<bool, String>)
        requires fs_allowed(path@),
        ensures
            r.is_ok() ==> r.unwrap() == fs_is_symlink(path@),
            fs_is_file(path@) || fs_is_dir(path@) ==> r.is_ok(),
    { unimplemented!() }

    #[verifier::external_body]
    pub fn symlink_points_to(path: &str) -> (r: Result<String, String>)
        requires fs_allowed(path@),
        ensures r.is_ok() ==> r.unwrap()@ == link_target(path@),
    { unimplemented!() }

    // the target of a link: allowed by the symlink exemption of the property (the owner of the served directory placed the link) -
    // but only when it is resolved the way the link means it: against the directory that holds the link, with the text the link holds
    #[verifier::external_body]
    pub fn resolve_symlink_path(symlink_directory: &str, symlink_points_to: &str) -> (r: Result<String, String>)
        requires resolves_a_served_link(symlink_directory@, symlink_points_to@),
        ensures r.is_ok() ==> via_symlink(r.unwrap()@),
    { unimplemented!() }

    // ---- C13: nothing reachable from a request may call these ----
    #[verifier::external_body]
    pub fn write_file(path: &str, content: &[u8]) -> (r: Result<(), String>)
        requires false,
    { unimplemented!() }
    #[verifier::external_body]
    pub fn create_file(path: &str) -> (r: Result<(), String>)
        requires false,
    { unimplemented!() }
    #[verifier::external_body]
    pub fn delete_file(path: &str) -> (r: Result<(), String>)
        requires false,
    { unimplemented!() }
    #[verifier::external_body]
    pub fn read_or_create_and_write(path: &str, content: &[u8]) -> (r: Result<Vec<u8>, String>)
        requires false,
    { unimplemented!() }
    #[verifier::external_body]
    pub fn create_directory(path: &str) -> (r: Result<(), String>)
        requires false,
    { unimplemented!() }
    #[verifier::external_body]
    pub fn delete_directory(path: &str) -> (r: Result<(), String>)
        requires false,
    { unimplemented!() }
    #[verifier::external_body]
    pub fn create_symlink(symlink_path: &str, symlink_name: &str, symlink_points_to: &str) -> (r: Result<(), String>)
        requires false,
    { unimplemented!() }
    #[verifier::external_body]
    pub fn copy_file(from: Vec<&str>, to: Vec<&str>) -> (r: Result<(), String>)
        requires false,
    { unimplemented!() }

    // ---- the rest of the file-ext 12.1.0 API, so that any call resolves: pure helpers are unconstrained,
    //      anything that reads a path requires containment ----
    #[verifier::external_body]
    pub fn working_directory() -> (r: Result<String, String>) { unimplemented!() }
    #[verifier::external_body]
    pub fn absolute_path_to_working_directory() -> (r: Result<String, String>) { unimplemented!() }
    #[verifier::external_body]
    pub fn does_directory_exist(path: &str) -> (r: bool)
        requires fs_allowed(path@),
    { unimplemented!() }
    #[verifier::external_body]
    pub fn does_symlink_exist(path: &str) -> (r: bool)
        requires fs_allowed(path@),
    { unimplemented!() }
    #[verifier::external_body]
    pub fn build_path(list: &[&str]) -> (r: String) { unimplemented!() }
    #[verifier::external_body]
    pub fn root() -> (r: String) { unimplemented!() }
    #[verifier::external_body]
    pub fn folder_up() -> (r: String) { unimplemented!() }
    #[verifier::external_body]
    pub fn get_current_user() -> (r: Result<String, String>) { unimplemented!() }
    #[verifier::external_body]
    pub fn get_temp_folder_path() -> (r: Result<String, String>) { unimplemented!() }
    #[verifier::external_body]
    pub fn file_length(path: Vec<&str>) -> (r: Result<u64, String>)
        requires false,     // takes path segments: no caller on the request path; containment cannot be stated on segments
    { unimplemented!() }
}

// the url-build-parse dependency behind URL::parse: NOTHING is assumed about the components it returns
pub struct UrlComponents {
    pub scheme: String,
    pub path: String,
    pub query: Option<std::collections::HashMap<String, String>>,
}
