// ===== shims/bytes.rs — trusted base: strings <-> bytes, byte container concatenation =====
pub open spec fn utf8_bytes(s: Seq<char>) -> Seq<u8> { vstd::utf8::encode_utf8(s) }

// assumed facts about UTF-8 encoding (true of the real encoding; conformance-tested)
#[verifier::external_body]
pub proof fn axiom_utf8_bytes(a: Seq<char>, b: Seq<char>)
    ensures
        utf8_bytes(a + b) == utf8_bytes(a) + utf8_bytes(b),
        utf8_bytes(a).len() == utf8_len(a),
        utf8_bytes(Seq::<char>::empty()) == Seq::<u8>::empty(),
{
}

pub trait RwsBytes {
    spec fn sv4(&self) -> Seq<char>;
    fn rws_as_bytes<'a>(&'a self) -> (r: &'a [u8])
        ensures r@ == utf8_bytes(self.sv4());
}
impl RwsBytes for str {
    open spec fn sv4(&self) -> Seq<char> { self@ }
    #[verifier::external_body]
    fn rws_as_bytes<'a>(&'a self) -> &'a [u8] { self.as_bytes() }
}
impl RwsBytes for String {
    open spec fn sv4(&self) -> Seq<char> { self@ }
    #[verifier::external_body]
    fn rws_as_bytes<'a>(&'a self) -> &'a [u8] { self.as_bytes() }
}
pub trait RwsIntoBytes {
    spec fn sv5(self) -> Seq<char>;
    fn rws_into_bytes(self) -> (r: Vec<u8>)
        ensures r@ == utf8_bytes(self.sv5());
}
impl RwsIntoBytes for String {
    open spec fn sv5(self) -> Seq<char> { self@ }
    #[verifier::external_body]
    fn rws_into_bytes(self) -> Vec<u8> { self.into_bytes() }
}

pub trait RwsToVec<T> {
    spec fn elems(&self) -> Seq<T>;
    fn rws_to_vec(&self) -> (r: Vec<T>)
        ensures r@ == self.elems();
}
impl RwsToVec<u8> for Vec<u8> {
    open spec fn elems(&self) -> Seq<u8> { self@ }
    #[verifier::external_body]
    fn rws_to_vec(&self) -> Vec<u8> { self.to_vec() }
}
impl RwsToVec<u8> for [u8] {
    open spec fn elems(&self) -> Seq<u8> { self@ }
    #[verifier::external_body]
    fn rws_to_vec(&self) -> Vec<u8> { self.to_vec() }
}

#[verifier::external_body]
pub fn rws_vec_from(b: &[u8]) -> (r: Vec<u8>)
    ensures r@ == b@,
{
    Vec::from(b)
}

// [a, b].concat() on byte containers
pub open spec fn flat(ss: Seq<Seq<u8>>) -> Seq<u8>
    decreases ss.len()
{
    if ss.len() == 0 { Seq::empty() } else { flat(ss.drop_last()) + ss.last() }
}
pub proof fn lemma_flat2(a: Seq<u8>, b: Seq<u8>)
    ensures flat(seq![a, b]) == a + b,
{
    let ss = seq![a, b];
    reveal_with_fuel(flat, 3);
    assert(ss.drop_last() =~= seq![a]);
    assert(seq![a].drop_last() =~= Seq::<Seq<u8>>::empty());
    assert(flat(ss) =~= a + b);
}
pub trait RwsConcat {
    spec fn pieces(&self) -> Seq<Seq<u8>>;
    fn rws_concat(&self) -> (r: Vec<u8>)
        ensures r@ == flat(self.pieces());
}
impl<'a, const N: usize> RwsConcat for [&'a [u8]; N] {
    open spec fn pieces(&self) -> Seq<Seq<u8>> { Seq::new(N as nat, |i: int| self@[i]@) }
    #[verifier::external_body]
    fn rws_concat(&self) -> Vec<u8> { self.concat() }
}
impl<const N: usize> RwsConcat for [Vec<u8>; N] {
    open spec fn pieces(&self) -> Seq<Seq<u8>> { Seq::new(N as nat, |i: int| self@[i]@) }
    #[verifier::external_body]
    fn rws_concat(&self) -> Vec<u8> { self.concat() }
}

pub broadcast proof fn lemma_bflat2(ss: Seq<Seq<u8>>)
    requires ss.len() == 2,
    ensures #[trigger] flat(ss) == ss[0] + ss[1],
{
    reveal_with_fuel(flat, 3);
    let d = ss.drop_last();
    assert(d.len() == 1 && d[0] == ss[0]);
    assert(d.drop_last().len() == 0);
    assert(flat(ss) =~= ss[0] + ss[1]);
}

// R-INCLUDE: an embedded asset; its bytes are not modelled
#[verifier::external_body]
pub fn rws_include_bytes() -> (r: &'static [u8]) { &[] }
