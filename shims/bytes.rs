// ===== shims/bytes.rs — trusted base: strings <-> bytes, byte container concatenation =====
pub open spec fn utf8_bytes(s: Seq<char>) -> Seq<u8> { vstd::utf8::encode_utf8(s) }

// assumed facts about UTF-8 encoding (true of the real encoding; conformance-tested)
#[verifier::external_body]
pub proof fn axiom_utf8_bytes(a: Seq<char>, b: Seq<char>)
    ensures
        utf8_bytes(a + b) == utf8_bytes(a) + utf8_bytes(b),
        utf8_bytes(a).len() == utf8_len(a),
        utf8_bytes(Seq::<char>::empty()) == Seq::<u8>::empty(),
{
}

pub trait RwsBytes {
    spec fn sv4(&self) -> Seq<char>;
    fn rws_as_bytes<'a>(&'a self) -> (r: &'a [u8])
        ensures r@ == utf8_bytes(self.sv4());
}
impl RwsBytes for str {
    open spec fn sv4(&self) -> Seq<char> { self@ }
    #[verifier::external_body]
    fn rws_as_bytes<'a>(&'a self) -> &'a [u8] { self.as_bytes() }
}
impl RwsBytes for String {
    open spec fn sv4(&self) -> Seq<char> { self@ }
    #[verifier::external_body]
    fn rws_as_bytes<'a>(&'a self) -> &'a [u8] { self.as_bytes() }
}
pub trait RwsIntoBytes {
    spec fn sv5(self) -> Seq<char>;
    fn rws_into_bytes(self) -> (r: Vec<u8>)
        ensures r@ == utf8_bytes(self.sv5());
}
impl RwsIntoBytes for String {
    open spec fn sv5(self) -> Seq<char> { self@ }
    #[verifier::external_body]
    fn rws_into_bytes(self) -> Vec<u8> { self.into_bytes() }
}

pub trait RwsToVec<T> {
    spec fn elems(&self) -> Seq<T>;
    fn rws_to_vec(&self) -> (r: Vec<T>)
        ensures r@ == self.elems();
}
impl RwsToVec<u8> for Vec<u8> {
    open spec fn elems(&self) -> Seq<u8> { self@ }
    #[verifier::external_body]
    fn rws_to_vec(&self) -> Vec<u8> { self.to_vec() }
}
impl RwsToVec<u8> for [u8] {
    open spec fn elems(&self) -> Seq<u8> { self@ }
    #[verifier::external_body]
    fn rws_to_vec(&self) -> Vec<u8> { self.to_vec() }
}

#[verifier::external_body]
pub fn rws_vec_from(b: &[u8]) -> (r: Vec<u8>)
    ensures r@ == b@,
{
    Vec::from(b)
}

// [a, b].concat() on byte containers
pub open spec fn flat(ss: Seq<Seq<u8>>) -> Seq<u8>
    decreases ss.len()
{
    if ss.len() == 0 { Seq::empty() } else { flat(ss.drop_last()) + ss.last() }
}
pub proof fn lemma_flat2(a: Seq<u8>, b: Seq<u8>)
    ensures flat(seq![a, b]) == a + b,
{
    let ss = seq![a, b];
    reveal_with_fuel(flat, 3);
    assert(ss.drop_last() =~= seq![a]);
    assert(seq![a].drop_last() =~= Seq::<Seq<u8>>::empty());
    assert(flat(ss) =~= a + b);
}
pub trait RwsConcat {
    spec fn pieces(&self) -> Seq<Seq<u8>>;
    fn rws_concat(&self) -> (r: Vec<u8>)
        ensures r@ == flat(self.pieces());
}
impl<'a, const N: usize> RwsConcat for [&'a [u8]; N] {
    open spec fn pieces(&self) -> Seq<Seq<u8>> { Seq::new(N as nat, |i: int| self@[i]@) }
    #[verifier::external_body]
    fn rws_concat(&self) -> Vec<u8> { self.concat() }
}
impl<const N: usize> RwsConcat for [Vec<u8>; N] {
    open spec fn pieces(&self) -> Seq<Seq<u8>> { Seq::new(N as nat, |i: int| self@[i]@) }
    #[verifier::external_body]
    fn rws_concat(&self) -> Vec<u8> { self.concat() }
}

pub broadcast proof fn lemma_bflat2(ss: Seq<Seq<u8>>)
    requires ss.len() == 2,
    ensures #[trigger] flat(ss) == ss[0] + ss[1],
{
    reveal_with_fuel(flat, 3);
    let d = ss.drop_last();
    assert(d.len() == 1 && d[0] == ss[0]);
    assert(d.drop_last().len() == 0);
    assert(flat(ss) =~= ss[0] + ss[1]);
}

// [a, b, c].join(sep) / vec_of_vecs.join(sep) on byte containers
pub open spec fn bjoin(ss: Seq<Seq<u8>>, sep: Seq<u8>) -> Seq<u8>
    decreases ss.len()
{
    if ss.len() == 0 { Seq::empty() }
    else if ss.len() == 1 { ss[0] }
    else { bjoin(ss.drop_last(), sep) + sep + ss.last() }
}
pub open spec fn bviews(v: Seq<Vec<u8>>) -> Seq<Seq<u8>> { Seq::new(v.len(), |i: int| v[i]@) }
pub trait RwsBJoin {
    spec fn bparts(&self) -> Seq<Seq<u8>>;
    fn rws_join(&self, sep: &[u8]) -> (r: Vec<u8>)
        ensures r@ == bjoin(self.bparts(), sep@);
}
impl<const N: usize> RwsBJoin for [Vec<u8>; N] {
    open spec fn bparts(&self) -> Seq<Seq<u8>> { bviews(self@) }
    #[verifier::external_body]
    fn rws_join(&self, sep: &[u8]) -> Vec<u8> { self.join(sep) }
}
impl RwsBJoin for Vec<Vec<u8>> {
    open spec fn bparts(&self) -> Seq<Seq<u8>> { bviews(self@) }
    #[verifier::external_body]
    fn rws_join(&self, sep: &[u8]) -> Vec<u8> { self.join(sep) }
}
pub broadcast proof fn lemma_bjoin3_empty_sep(ss: Seq<Seq<u8>>, sep: Seq<u8>)
    requires ss.len() == 3, sep.len() == 0,
    ensures #[trigger] bjoin(ss, sep) == ss[0] + ss[1] + ss[2],
{
    reveal_with_fuel(bjoin, 4);
    let d2 = ss.drop_last();
    let d1 = d2.drop_last();
    assert(d2.len() == 2 && d1.len() == 1);
    assert(d2[0] == ss[0] && d2[1] == ss[1] && d1[0] == ss[0]);
    assert(sep =~= Seq::<u8>::empty());
    assert(bjoin(ss, sep) =~= ss[0] + ss[1] + ss[2]);
}

// `a == b` on byte slices: vstd specifies it element-wise; this (proved) lemma restates it on the views
pub broadcast proof fn lemma_slice_eq_u8(a: &[u8], b: &[u8])
    ensures #[trigger] vstd::std_specs::cmp::PartialEqSpec::eq_spec(a, b) == (a@ == b@),
{
    use vstd::std_specs::cmp::PartialEqSpec;
    assert(a.eq_spec(b) == (a@.len() == b@.len() && forall|i: int| 0 <= i < a@.len() ==> (#[trigger] a@[i]).eq_spec(&b@[i])));
    assert(forall|x: u8, y: u8| x.eq_spec(&y) == (x == y));
    if a.eq_spec(b) { assert(a@ =~= b@); }
}

// R-INCLUDE: an embedded asset; its bytes are not modelled
#[verifier::external_body]
pub fn rws_include_bytes() -> (r: &'static [u8]) { &[] }
