// ===== shims/defaults.rs — trusted base for set_default_values: std::env::set_var seen as "give a setting its documented default".
// Only the CORS settings are constrained (property C11: start-up must hand the CORS code the configured values; the other
// settings belong to C12, which is not claimed): a CORS setting may be written only when it is unset, and only with ITS default.
pub open spec fn cors_default(k: Seq<char>) -> Option<Seq<char>> {
    if k == "RWS_CONFIG_CORS_ALLOW_ALL"@ { Some("true"@) }
    else if k == "RWS_CONFIG_CORS_ALLOW_ORIGINS"@ { Some(""@) }
    else if k == "RWS_CONFIG_CORS_ALLOW_CREDENTIALS"@ { Some(""@) }
    else if k == "RWS_CONFIG_CORS_ALLOW_HEADERS"@ { Some(""@) }
    else if k == "RWS_CONFIG_CORS_ALLOW_METHODS"@ { Some(""@) }
    else if k == "RWS_CONFIG_CORS_EXPOSE_HEADERS"@ { Some(""@) }
    else if k == "RWS_CONFIG_CORS_MAX_AGE"@ { Some("86400"@) }
    else { None }
}
#[verifier::external_body]
pub fn rws_env_set_var(k: &str, v: &str)
    requires cors_default(k@).is_some() ==> (cors_default(k@) == Some(v@) && env_value(k@).is_none()),
{
    std::env::set_var(k, v)
}

// ----- evaluation lemmas (generated): the table above on each of the eleven setting names -----
pub proof fn lemma_cors_default_1()
    ensures cors_default("RWS_CONFIG_CORS_ALLOW_ALL"@) == Some("true"@),
{
    reveal_strlit("RWS_CONFIG_CORS_ALLOW_ALL");
    reveal_strlit("RWS_CONFIG_CORS_ALLOW_ORIGINS");
    reveal_strlit("RWS_CONFIG_CORS_ALLOW_CREDENTIALS");
    reveal_strlit("RWS_CONFIG_CORS_ALLOW_HEADERS");
    reveal_strlit("RWS_CONFIG_CORS_ALLOW_METHODS");
    reveal_strlit("RWS_CONFIG_CORS_EXPOSE_HEADERS");
    reveal_strlit("RWS_CONFIG_CORS_MAX_AGE");
    reveal_strlit("RWS_CONFIG_IP");
    reveal_strlit("RWS_CONFIG_PORT");
    reveal_strlit("RWS_CONFIG_THREAD_COUNT");
    reveal_strlit("RWS_CONFIG_REQUEST_ALLOCATION_SIZE_IN_BYTES");
    assert("RWS_CONFIG_CORS_ALLOW_ALL"@.len() == 25 && "RWS_CONFIG_CORS_ALLOW_ORIGINS"@.len() == 29 && "RWS_CONFIG_CORS_ALLOW_CREDENTIALS"@.len() == 33 && "RWS_CONFIG_CORS_ALLOW_HEADERS"@.len() == 29 && "RWS_CONFIG_CORS_ALLOW_METHODS"@.len() == 29 && "RWS_CONFIG_CORS_EXPOSE_HEADERS"@.len() == 30 && "RWS_CONFIG_CORS_MAX_AGE"@.len() == 23 && "RWS_CONFIG_IP"@.len() == 13 && "RWS_CONFIG_PORT"@.len() == 15 && "RWS_CONFIG_THREAD_COUNT"@.len() == 23 && "RWS_CONFIG_REQUEST_ALLOCATION_SIZE_IN_BYTES"@.len() == 43);
    assert("RWS_CONFIG_CORS_ALLOW_ORIGINS"@[22] == 'O' && "RWS_CONFIG_CORS_ALLOW_HEADERS"@[22] == 'H' && "RWS_CONFIG_CORS_ALLOW_METHODS"@[22] == 'M');
}
pub proof fn lemma_cors_default_2()
    ensures cors_default("RWS_CONFIG_CORS_ALLOW_ORIGINS"@) == Some(""@),
{
    reveal_strlit("RWS_CONFIG_CORS_ALLOW_ALL");
    reveal_strlit("RWS_CONFIG_CORS_ALLOW_ORIGINS");
    reveal_strlit("RWS_CONFIG_CORS_ALLOW_CREDENTIALS");
    reveal_strlit("RWS_CONFIG_CORS_ALLOW_HEADERS");
    reveal_strlit("RWS_CONFIG_CORS_ALLOW_METHODS");
    reveal_strlit("RWS_CONFIG_CORS_EXPOSE_HEADERS");
    reveal_strlit("RWS_CONFIG_CORS_MAX_AGE");
    reveal_strlit("RWS_CONFIG_IP");
    reveal_strlit("RWS_CONFIG_PORT");
    reveal_strlit("RWS_CONFIG_THREAD_COUNT");
    reveal_strlit("RWS_CONFIG_REQUEST_ALLOCATION_SIZE_IN_BYTES");
    assert("RWS_CONFIG_CORS_ALLOW_ALL"@.len() == 25 && "RWS_CONFIG_CORS_ALLOW_ORIGINS"@.len() == 29 && "RWS_CONFIG_CORS_ALLOW_CREDENTIALS"@.len() == 33 && "RWS_CONFIG_CORS_ALLOW_HEADERS"@.len() == 29 && "RWS_CONFIG_CORS_ALLOW_METHODS"@.len() == 29 && "RWS_CONFIG_CORS_EXPOSE_HEADERS"@.len() == 30 && "RWS_CONFIG_CORS_MAX_AGE"@.len() == 23 && "RWS_CONFIG_IP"@.len() == 13 && "RWS_CONFIG_PORT"@.len() == 15 && "RWS_CONFIG_THREAD_COUNT"@.len() == 23 && "RWS_CONFIG_REQUEST_ALLOCATION_SIZE_IN_BYTES"@.len() == 43);
    assert("RWS_CONFIG_CORS_ALLOW_ORIGINS"@[22] == 'O' && "RWS_CONFIG_CORS_ALLOW_HEADERS"@[22] == 'H' && "RWS_CONFIG_CORS_ALLOW_METHODS"@[22] == 'M');
}
pub proof fn lemma_cors_default_3()
    ensures cors_default("RWS_CONFIG_CORS_ALLOW_CREDENTIALS"@) == Some(""@),
{
    reveal_strlit("RWS_CONFIG_CORS_ALLOW_ALL");
    reveal_strlit("RWS_CONFIG_CORS_ALLOW_ORIGINS");
    reveal_strlit("RWS_CONFIG_CORS_ALLOW_CREDENTIALS");
    reveal_strlit("RWS_CONFIG_CORS_ALLOW_HEADERS");
    reveal_strlit("RWS_CONFIG_CORS_ALLOW_METHODS");
    reveal_strlit("RWS_CONFIG_CORS_EXPOSE_HEADERS");
    reveal_strlit("RWS_CONFIG_CORS_MAX_AGE");
    reveal_strlit("RWS_CONFIG_IP");
    reveal_strlit("RWS_CONFIG_PORT");
    reveal_strlit("RWS_CONFIG_THREAD_COUNT");
    reveal_strlit("RWS_CONFIG_REQUEST_ALLOCATION_SIZE_IN_BYTES");
    assert("RWS_CONFIG_CORS_ALLOW_ALL"@.len() == 25 && "RWS_CONFIG_CORS_ALLOW_ORIGINS"@.len() == 29 && "RWS_CONFIG_CORS_ALLOW_CREDENTIALS"@.len() == 33 && "RWS_CONFIG_CORS_ALLOW_HEADERS"@.len() == 29 && "RWS_CONFIG_CORS_ALLOW_METHODS"@.len() == 29 && "RWS_CONFIG_CORS_EXPOSE_HEADERS"@.len() == 30 && "RWS_CONFIG_CORS_MAX_AGE"@.len() == 23 && "RWS_CONFIG_IP"@.len() == 13 && "RWS_CONFIG_PORT"@.len() == 15 && "RWS_CONFIG_THREAD_COUNT"@.len() == 23 && "RWS_CONFIG_REQUEST_ALLOCATION_SIZE_IN_BYTES"@.len() == 43);
    assert("RWS_CONFIG_CORS_ALLOW_ORIGINS"@[22] == 'O' && "RWS_CONFIG_CORS_ALLOW_HEADERS"@[22] == 'H' && "RWS_CONFIG_CORS_ALLOW_METHODS"@[22] == 'M');
}
pub proof fn lemma_cors_default_4()
    ensures cors_default("RWS_CONFIG_CORS_ALLOW_HEADERS"@) == Some(""@),
{
    reveal_strlit("RWS_CONFIG_CORS_ALLOW_ALL");
    reveal_strlit("RWS_CONFIG_CORS_ALLOW_ORIGINS");
    reveal_strlit("RWS_CONFIG_CORS_ALLOW_CREDENTIALS");
    reveal_strlit("RWS_CONFIG_CORS_ALLOW_HEADERS");
    reveal_strlit("RWS_CONFIG_CORS_ALLOW_METHODS");
    reveal_strlit("RWS_CONFIG_CORS_EXPOSE_HEADERS");
    reveal_strlit("RWS_CONFIG_CORS_MAX_AGE");
    reveal_strlit("RWS_CONFIG_IP");
    reveal_strlit("RWS_CONFIG_PORT");
    reveal_strlit("RWS_CONFIG_THREAD_COUNT");
    reveal_strlit("RWS_CONFIG_REQUEST_ALLOCATION_SIZE_IN_BYTES");
    assert("RWS_CONFIG_CORS_ALLOW_ALL"@.len() == 25 && "RWS_CONFIG_CORS_ALLOW_ORIGINS"@.len() == 29 && "RWS_CONFIG_CORS_ALLOW_CREDENTIALS"@.len() == 33 && "RWS_CONFIG_CORS_ALLOW_HEADERS"@.len() == 29 && "RWS_CONFIG_CORS_ALLOW_METHODS"@.len() == 29 && "RWS_CONFIG_CORS_EXPOSE_HEADERS"@.len() == 30 && "RWS_CONFIG_CORS_MAX_AGE"@.len() == 23 && "RWS_CONFIG_IP"@.len() == 13 && "RWS_CONFIG_PORT"@.len() == 15 && "RWS_CONFIG_THREAD_COUNT"@.len() == 23 && "RWS_CONFIG_REQUEST_ALLOCATION_SIZE_IN_BYTES"@.len() == 43);
    assert("RWS_CONFIG_CORS_ALLOW_ORIGINS"@[22] == 'O' && "RWS_CONFIG_CORS_ALLOW_HEADERS"@[22] == 'H' && "RWS_CONFIG_CORS_ALLOW_METHODS"@[22] == 'M');
}
pub proof fn lemma_cors_default_5()
    ensures cors_default("RWS_CONFIG_CORS_ALLOW_METHODS"@) == Some(""@),
{
    reveal_strlit("RWS_CONFIG_CORS_ALLOW_ALL");
    reveal_strlit("RWS_CONFIG_CORS_ALLOW_ORIGINS");
    reveal_strlit("RWS_CONFIG_CORS_ALLOW_CREDENTIALS");
    reveal_strlit("RWS_CONFIG_CORS_ALLOW_HEADERS");
    reveal_strlit("RWS_CONFIG_CORS_ALLOW_METHODS");
    reveal_strlit("RWS_CONFIG_CORS_EXPOSE_HEADERS");
    reveal_strlit("RWS_CONFIG_CORS_MAX_AGE");
    reveal_strlit("RWS_CONFIG_IP");
    reveal_strlit("RWS_CONFIG_PORT");
    reveal_strlit("RWS_CONFIG_THREAD_COUNT");
    reveal_strlit("RWS_CONFIG_REQUEST_ALLOCATION_SIZE_IN_BYTES");
    assert("RWS_CONFIG_CORS_ALLOW_ALL"@.len() == 25 && "RWS_CONFIG_CORS_ALLOW_ORIGINS"@.len() == 29 && "RWS_CONFIG_CORS_ALLOW_CREDENTIALS"@.len() == 33 && "RWS_CONFIG_CORS_ALLOW_HEADERS"@.len() == 29 && "RWS_CONFIG_CORS_ALLOW_METHODS"@.len() == 29 && "RWS_CONFIG_CORS_EXPOSE_HEADERS"@.len() == 30 && "RWS_CONFIG_CORS_MAX_AGE"@.len() == 23 && "RWS_CONFIG_IP"@.len() == 13 && "RWS_CONFIG_PORT"@.len() == 15 && "RWS_CONFIG_THREAD_COUNT"@.len() == 23 && "RWS_CONFIG_REQUEST_ALLOCATION_SIZE_IN_BYTES"@.len() == 43);
    assert("RWS_CONFIG_CORS_ALLOW_ORIGINS"@[22] == 'O' && "RWS_CONFIG_CORS_ALLOW_HEADERS"@[22] == 'H' && "RWS_CONFIG_CORS_ALLOW_METHODS"@[22] == 'M');
}
pub proof fn lemma_cors_default_6()
    ensures cors_default("RWS_CONFIG_CORS_EXPOSE_HEADERS"@) == Some(""@),
{
    reveal_strlit("RWS_CONFIG_CORS_ALLOW_ALL");
    reveal_strlit("RWS_CONFIG_CORS_ALLOW_ORIGINS");
    reveal_strlit("RWS_CONFIG_CORS_ALLOW_CREDENTIALS");
    reveal_strlit("RWS_CONFIG_CORS_ALLOW_HEADERS");
    reveal_strlit("RWS_CONFIG_CORS_ALLOW_METHODS");
    reveal_strlit("RWS_CONFIG_CORS_EXPOSE_HEADERS");
    reveal_strlit("RWS_CONFIG_CORS_MAX_AGE");
    reveal_strlit("RWS_CONFIG_IP");
    reveal_strlit("RWS_CONFIG_PORT");
    reveal_strlit("RWS_CONFIG_THREAD_COUNT");
    reveal_strlit("RWS_CONFIG_REQUEST_ALLOCATION_SIZE_IN_BYTES");
    assert("RWS_CONFIG_CORS_ALLOW_ALL"@.len() == 25 && "RWS_CONFIG_CORS_ALLOW_ORIGINS"@.len() == 29 && "RWS_CONFIG_CORS_ALLOW_CREDENTIALS"@.len() == 33 && "RWS_CONFIG_CORS_ALLOW_HEADERS"@.len() == 29 && "RWS_CONFIG_CORS_ALLOW_METHODS"@.len() == 29 && "RWS_CONFIG_CORS_EXPOSE_HEADERS"@.len() == 30 && "RWS_CONFIG_CORS_MAX_AGE"@.len() == 23 && "RWS_CONFIG_IP"@.len() == 13 && "RWS_CONFIG_PORT"@.len() == 15 && "RWS_CONFIG_THREAD_COUNT"@.len() == 23 && "RWS_CONFIG_REQUEST_ALLOCATION_SIZE_IN_BYTES"@.len() == 43);
    assert("RWS_CONFIG_CORS_ALLOW_ORIGINS"@[22] == 'O' && "RWS_CONFIG_CORS_ALLOW_HEADERS"@[22] == 'H' && "RWS_CONFIG_CORS_ALLOW_METHODS"@[22] == 'M');
}
pub proof fn lemma_cors_default_7()
    ensures cors_default("RWS_CONFIG_CORS_MAX_AGE"@) == Some("86400"@),
{
    reveal_strlit("RWS_CONFIG_CORS_ALLOW_ALL");
    reveal_strlit("RWS_CONFIG_CORS_ALLOW_ORIGINS");
    reveal_strlit("RWS_CONFIG_CORS_ALLOW_CREDENTIALS");
    reveal_strlit("RWS_CONFIG_CORS_ALLOW_HEADERS");
    reveal_strlit("RWS_CONFIG_CORS_ALLOW_METHODS");
    reveal_strlit("RWS_CONFIG_CORS_EXPOSE_HEADERS");
    reveal_strlit("RWS_CONFIG_CORS_MAX_AGE");
    reveal_strlit("RWS_CONFIG_IP");
    reveal_strlit("RWS_CONFIG_PORT");
    reveal_strlit("RWS_CONFIG_THREAD_COUNT");
    reveal_strlit("RWS_CONFIG_REQUEST_ALLOCATION_SIZE_IN_BYTES");
    assert("RWS_CONFIG_CORS_ALLOW_ALL"@.len() == 25 && "RWS_CONFIG_CORS_ALLOW_ORIGINS"@.len() == 29 && "RWS_CONFIG_CORS_ALLOW_CREDENTIALS"@.len() == 33 && "RWS_CONFIG_CORS_ALLOW_HEADERS"@.len() == 29 && "RWS_CONFIG_CORS_ALLOW_METHODS"@.len() == 29 && "RWS_CONFIG_CORS_EXPOSE_HEADERS"@.len() == 30 && "RWS_CONFIG_CORS_MAX_AGE"@.len() == 23 && "RWS_CONFIG_IP"@.len() == 13 && "RWS_CONFIG_PORT"@.len() == 15 && "RWS_CONFIG_THREAD_COUNT"@.len() == 23 && "RWS_CONFIG_REQUEST_ALLOCATION_SIZE_IN_BYTES"@.len() == 43);
    assert("RWS_CONFIG_CORS_ALLOW_ORIGINS"@[22] == 'O' && "RWS_CONFIG_CORS_ALLOW_HEADERS"@[22] == 'H' && "RWS_CONFIG_CORS_ALLOW_METHODS"@[22] == 'M');
}
pub proof fn lemma_not_cors_1()
    ensures cors_default("RWS_CONFIG_IP"@).is_none(),
{
    reveal_strlit("RWS_CONFIG_CORS_ALLOW_ALL");
    reveal_strlit("RWS_CONFIG_CORS_ALLOW_ORIGINS");
    reveal_strlit("RWS_CONFIG_CORS_ALLOW_CREDENTIALS");
    reveal_strlit("RWS_CONFIG_CORS_ALLOW_HEADERS");
    reveal_strlit("RWS_CONFIG_CORS_ALLOW_METHODS");
    reveal_strlit("RWS_CONFIG_CORS_EXPOSE_HEADERS");
    reveal_strlit("RWS_CONFIG_CORS_MAX_AGE");
    reveal_strlit("RWS_CONFIG_IP");
    reveal_strlit("RWS_CONFIG_PORT");
    reveal_strlit("RWS_CONFIG_THREAD_COUNT");
    reveal_strlit("RWS_CONFIG_REQUEST_ALLOCATION_SIZE_IN_BYTES");
    assert("RWS_CONFIG_IP"@[11] != 'C');
    assert("RWS_CONFIG_CORS_ALLOW_ALL"@[11] == 'C' && "RWS_CONFIG_CORS_ALLOW_ORIGINS"@[11] == 'C' && "RWS_CONFIG_CORS_ALLOW_CREDENTIALS"@[11] == 'C' && "RWS_CONFIG_CORS_ALLOW_HEADERS"@[11] == 'C' && "RWS_CONFIG_CORS_ALLOW_METHODS"@[11] == 'C' && "RWS_CONFIG_CORS_EXPOSE_HEADERS"@[11] == 'C' && "RWS_CONFIG_CORS_MAX_AGE"@[11] == 'C');
}
pub proof fn lemma_not_cors_2()
    ensures cors_default("RWS_CONFIG_PORT"@).is_none(),
{
    reveal_strlit("RWS_CONFIG_CORS_ALLOW_ALL");
    reveal_strlit("RWS_CONFIG_CORS_ALLOW_ORIGINS");
    reveal_strlit("RWS_CONFIG_CORS_ALLOW_CREDENTIALS");
    reveal_strlit("RWS_CONFIG_CORS_ALLOW_HEADERS");
    reveal_strlit("RWS_CONFIG_CORS_ALLOW_METHODS");
    reveal_strlit("RWS_CONFIG_CORS_EXPOSE_HEADERS");
    reveal_strlit("RWS_CONFIG_CORS_MAX_AGE");
    reveal_strlit("RWS_CONFIG_IP");
    reveal_strlit("RWS_CONFIG_PORT");
    reveal_strlit("RWS_CONFIG_THREAD_COUNT");
    reveal_strlit("RWS_CONFIG_REQUEST_ALLOCATION_SIZE_IN_BYTES");
    assert("RWS_CONFIG_PORT"@[11] != 'C');
    assert("RWS_CONFIG_CORS_ALLOW_ALL"@[11] == 'C' && "RWS_CONFIG_CORS_ALLOW_ORIGINS"@[11] == 'C' && "RWS_CONFIG_CORS_ALLOW_CREDENTIALS"@[11] == 'C' && "RWS_CONFIG_CORS_ALLOW_HEADERS"@[11] == 'C' && "RWS_CONFIG_CORS_ALLOW_METHODS"@[11] == 'C' && "RWS_CONFIG_CORS_EXPOSE_HEADERS"@[11] == 'C' && "RWS_CONFIG_CORS_MAX_AGE"@[11] == 'C');
}
pub proof fn lemma_not_cors_3()
    ensures cors_default("RWS_CONFIG_THREAD_COUNT"@).is_none(),
{
    reveal_strlit("RWS_CONFIG_CORS_ALLOW_ALL");
    reveal_strlit("RWS_CONFIG_CORS_ALLOW_ORIGINS");
    reveal_strlit("RWS_CONFIG_CORS_ALLOW_CREDENTIALS");
    reveal_strlit("RWS_CONFIG_CORS_ALLOW_HEADERS");
    reveal_strlit("RWS_CONFIG_CORS_ALLOW_METHODS");
    reveal_strlit("RWS_CONFIG_CORS_EXPOSE_HEADERS");
    reveal_strlit("RWS_CONFIG_CORS_MAX_AGE");
    reveal_strlit("RWS_CONFIG_IP");
    reveal_strlit("RWS_CONFIG_PORT");
    reveal_strlit("RWS_CONFIG_THREAD_COUNT");
    reveal_strlit("RWS_CONFIG_REQUEST_ALLOCATION_SIZE_IN_BYTES");
    assert("RWS_CONFIG_THREAD_COUNT"@[11] != 'C');
    assert("RWS_CONFIG_CORS_ALLOW_ALL"@[11] == 'C' && "RWS_CONFIG_CORS_ALLOW_ORIGINS"@[11] == 'C' && "RWS_CONFIG_CORS_ALLOW_CREDENTIALS"@[11] == 'C' && "RWS_CONFIG_CORS_ALLOW_HEADERS"@[11] == 'C' && "RWS_CONFIG_CORS_ALLOW_METHODS"@[11] == 'C' && "RWS_CONFIG_CORS_EXPOSE_HEADERS"@[11] == 'C' && "RWS_CONFIG_CORS_MAX_AGE"@[11] == 'C');
}
pub proof fn lemma_not_cors_4()
    ensures cors_default("RWS_CONFIG_REQUEST_ALLOCATION_SIZE_IN_BYTES"@).is_none(),
{
    reveal_strlit("RWS_CONFIG_CORS_ALLOW_ALL");
    reveal_strlit("RWS_CONFIG_CORS_ALLOW_ORIGINS");
    reveal_strlit("RWS_CONFIG_CORS_ALLOW_CREDENTIALS");
    reveal_strlit("RWS_CONFIG_CORS_ALLOW_HEADERS");
    reveal_strlit("RWS_CONFIG_CORS_ALLOW_METHODS");
    reveal_strlit("RWS_CONFIG_CORS_EXPOSE_HEADERS");
    reveal_strlit("RWS_CONFIG_CORS_MAX_AGE");
    reveal_strlit("RWS_CONFIG_IP");
    reveal_strlit("RWS_CONFIG_PORT");
    reveal_strlit("RWS_CONFIG_THREAD_COUNT");
    reveal_strlit("RWS_CONFIG_REQUEST_ALLOCATION_SIZE_IN_BYTES");
    assert("RWS_CONFIG_REQUEST_ALLOCATION_SIZE_IN_BYTES"@[11] != 'C');
    assert("RWS_CONFIG_CORS_ALLOW_ALL"@[11] == 'C' && "RWS_CONFIG_CORS_ALLOW_ORIGINS"@[11] == 'C' && "RWS_CONFIG_CORS_ALLOW_CREDENTIALS"@[11] == 'C' && "RWS_CONFIG_CORS_ALLOW_HEADERS"@[11] == 'C' && "RWS_CONFIG_CORS_ALLOW_METHODS"@[11] == 'C' && "RWS_CONFIG_CORS_EXPOSE_HEADERS"@[11] == 'C' && "RWS_CONFIG_CORS_MAX_AGE"@[11] == 'C');
}
