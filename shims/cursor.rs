// ===== shims/cursor.rs — trusted base: std::io::Cursor<&[u8]> with BufRead::read_until / Read::read_to_end =====
use std::io::{BufRead, Cursor, Read};

#[verifier::external_type_specification]
#[verifier::external_body]
#[verifier::reject_recursive_types(T)]
pub struct ExCursor<T>(std::io::Cursor<T>);

// the bytes not yet consumed
pub uninterp spec fn rem(c: &Cursor<&[u8]>) -> Seq<u8>;

// length of the first line including its '\n' (or of everything when there is none)
pub open spec fn line_len(s: Seq<u8>) -> int
    decreases s.len()
{
    if s.len() == 0 { 0 } else if s[0] == 10u8 { 1 } else { 1 + line_len(s.subrange(1, s.len() as int)) }
}

pub proof fn lemma_line_len(s: Seq<u8>)
    ensures 0 <= line_len(s) <= s.len(), s.len() > 0 ==> line_len(s) > 0,
    decreases s.len()
{
    if s.len() > 0 && s[0] != 10u8 { lemma_line_len(s.subrange(1, s.len() as int)); }
}

pub trait RwsCursor {
    spec fn crem(&self) -> Seq<u8>;
    // a Cursor over a slice never fails
    fn rws_read_until(&mut self, byte: u8, buf: &mut Vec<u8>) -> (r: Result<usize, std::io::Error>)
        requires byte == 10u8,
        ensures
            r.is_ok(),
            r.unwrap() == line_len(old(self).crem()),
            final(buf)@ == old(buf)@ + old(self).crem().subrange(0, line_len(old(self).crem())),
            final(self).crem() == old(self).crem().subrange(line_len(old(self).crem()), old(self).crem().len() as int),
            final(self).crem().len() + r.unwrap() == old(self).crem().len(),
            old(self).crem().len() > 0 ==> r.unwrap() > 0;
    fn rws_read_to_end(&mut self, buf: &mut Vec<u8>) -> (r: Result<usize, std::io::Error>)
        ensures
            r.is_ok(),
            r.unwrap() == old(self).crem().len(),
            final(buf)@ == old(buf)@ + old(self).crem(),
            final(self).crem().len() == 0;
}
impl<'a> RwsCursor for Cursor<&'a [u8]> {
    open spec fn crem(&self) -> Seq<u8> { rem(self) }
    #[verifier::external_body]
    fn rws_read_until(&mut self, byte: u8, buf: &mut Vec<u8>) -> (r: Result<usize, std::io::Error>) { self.read_until(byte, buf) }
    #[verifier::external_body]
    fn rws_read_to_end(&mut self, buf: &mut Vec<u8>) -> (r: Result<usize, std::io::Error>) { self.read_to_end(buf) }
}

#[verifier::external_body]
pub fn rws_cursor_new<'a>(s: &'a [u8]) -> (c: Cursor<&'a [u8]>)
    ensures rem(&c) == s@, s@.len() <= usize::MAX,
{
    Cursor::new(s)
}
