// ===== shims/thread.rs — std::thread::current().name() =====
#[verifier::external_type_specification]
#[verifier::external_body]
pub struct ExThread(std::thread::Thread);

pub mod thread {
    // worker threads are created with thread::Builder::new().name(..) (src/thread_pool/mod.rs); the main thread is named "main"
    #[verifier::external_body]
    pub fn current() -> (r: std::thread::Thread) { std::thread::current() }
}
// ASSUMED: the current thread has a name (true for the pool's workers and for the main thread)
pub assume_specification<'a>[std::thread::Thread::name](t: &'a std::thread::Thread) -> (r: Option<&'a str>)
    ensures r.is_some();

impl RwsDisp for std::net::SocketAddr {
    uninterp spec fn disp(&self) -> Seq<char>;
    #[verifier::external_body]
    fn rws_disp(&self) -> String { self.to_string() }
}
impl RwsDisp for i16 {
    open spec fn disp(&self) -> Seq<char> { dec_i(*self as int) }
    #[verifier::external_body]
    fn rws_disp(&self) -> String { self.to_string() }
}
impl RwsDisp for i32 {
    open spec fn disp(&self) -> Seq<char> { dec_i(*self as int) }
    #[verifier::external_body]
    fn rws_disp(&self) -> String { self.to_string() }
}
impl RwsDisp for &String {
    open spec fn disp(&self) -> Seq<char> { (**self)@ }
    #[verifier::external_body]
    fn rws_disp(&self) -> String { self.to_string() }
}
pub assume_specification[i32::saturating_add](a: i32, b: i32) -> (r: i32)
    ensures
        a + b > i32::MAX ==> r == i32::MAX,
        a + b < i32::MIN ==> r == i32::MIN,
        i32::MIN <= a + b <= i32::MAX ==> r == a + b;
