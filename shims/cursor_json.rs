// ===== shims/cursor_json.rs — trusted base for the JSON scanners: std::io::Cursor over a byte slice or a String,
// with Read::read_exact and BufRead::read_until for ANY delimiter byte =====
use std::io::{BufRead, Cursor, Read};
use std::num::ParseIntError;

#[verifier::external_type_specification]
#[verifier::external_body]
#[verifier::reject_recursive_types(T)]
pub struct ExCursor<T>(std::io::Cursor<T>);

// the bytes not yet consumed
pub uninterp spec fn rem<T>(c: &Cursor<T>) -> Seq<u8>;

// length of the prefix up to and including the first `d` (or of everything when there is none)
pub open spec fn upto_len(s: Seq<u8>, d: u8) -> int
    decreases s.len()
{
    if s.len() == 0 { 0 } else if s[0] == d { 1 } else { 1 + upto_len(s.subrange(1, s.len() as int), d) }
}

pub proof fn lemma_upto_len(s: Seq<u8>, d: u8)
    ensures 0 <= upto_len(s, d) <= s.len(), s.len() > 0 ==> upto_len(s, d) > 0,
    decreases s.len()
{
    if s.len() > 0 && s[0] != d { lemma_upto_len(s.subrange(1, s.len() as int), d); }
}

pub trait RwsCursor {
    spec fn crem(&self) -> Seq<u8>;
    // BufRead::read_until on an in-memory cursor never fails: everything up to and including the delimiter (or the rest)
    fn rws_read_until(&mut self, byte: u8, buf: &mut Vec<u8>) -> (r: Result<usize, std::io::Error>)
        ensures
            r.is_ok(),
            r.unwrap() == upto_len(old(self).crem(), byte),
            final(buf)@ == old(buf)@ + old(self).crem().subrange(0, upto_len(old(self).crem(), byte)),
            final(self).crem() == old(self).crem().subrange(upto_len(old(self).crem(), byte), old(self).crem().len() as int),
            final(self).crem().len() + r.unwrap() == old(self).crem().len();
    // Read::read_exact: fills the whole buffer or fails (then the buffer content and the position are unspecified,
    // but nothing is "un-read": what remains is a suffix of what remained)
    fn rws_read_exact(&mut self, buf: &mut Vec<u8>) -> (r: Result<(), std::io::Error>)
        ensures
            final(buf)@.len() == old(buf)@.len(),
            r.is_ok() <==> old(buf)@.len() <= old(self).crem().len(),
            r.is_ok() ==> final(buf)@ == old(self).crem().subrange(0, old(buf)@.len() as int)
                && final(self).crem() == old(self).crem().subrange(old(buf)@.len() as int, old(self).crem().len() as int),
            final(self).crem().len() <= old(self).crem().len();
}
impl<'a> RwsCursor for Cursor<&'a [u8]> {
    open spec fn crem(&self) -> Seq<u8> { rem(self) }
    #[verifier::external_body]
    fn rws_read_until(&mut self, byte: u8, buf: &mut Vec<u8>) -> (r: Result<usize, std::io::Error>) { self.read_until(byte, buf) }
    #[verifier::external_body]
    fn rws_read_exact(&mut self, buf: &mut Vec<u8>) -> (r: Result<(), std::io::Error>) { self.read_exact(buf) }
}
impl RwsCursor for Cursor<String> {
    open spec fn crem(&self) -> Seq<u8> { rem(self) }
    #[verifier::external_body]
    fn rws_read_until(&mut self, byte: u8, buf: &mut Vec<u8>) -> (r: Result<usize, std::io::Error>) { self.read_until(byte, buf) }
    #[verifier::external_body]
    fn rws_read_exact(&mut self, buf: &mut Vec<u8>) -> (r: Result<(), std::io::Error>) { self.read_exact(buf) }
}

pub trait RwsCursorSrc: Sized {
    spec fn src_bytes(&self) -> Seq<u8>;
}
impl<'a> RwsCursorSrc for &'a [u8] { open spec fn src_bytes(&self) -> Seq<u8> { self@ } }
impl RwsCursorSrc for String { open spec fn src_bytes(&self) -> Seq<u8> { vstd::utf8::encode_utf8(self@) } }

#[verifier::external_body]
pub fn rws_cursor_new<T: RwsCursorSrc>(s: T) -> (c: Cursor<T>)
    ensures rem(&c) == s.src_bytes(), s.src_bytes().len() <= usize::MAX,
{
    Cursor::new(s)
}

// char classification used by the scanners (only totality is needed from them; is_ascii_control is exact)
pub uninterp spec fn is_numeric_c(c: char) -> bool;  // char::is_numeric (Unicode Nd / Nl / No)
pub assume_specification[ char::is_numeric ](c: char) -> (r: bool)
    ensures r == is_numeric_c(c);
pub assume_specification[ char::is_ascii_control ](c: &char) -> (r: bool)
    ensures r == ((*c as u32) < 32 || (*c as u32) == 127);

// ---------- <T as FromStr> for the element types of the typed JSON lists (result or error; the value is not needed for totality) ----------
#[verifier::external_type_specification]
#[verifier::external_body]
pub struct ExParseFloatError(core::num::ParseFloatError);

pub uninterp spec fn parses_f64(s: Seq<char>) -> bool;
pub uninterp spec fn val_f64(s: Seq<char>) -> f64;
pub uninterp spec fn parses_f32(s: Seq<char>) -> bool;
pub uninterp spec fn val_f32(s: Seq<char>) -> f32;

impl RwsFromStr for i128 {
    type E = core::num::ParseIntError;
    open spec fn parses(s: Seq<char>) -> bool { parses_signed(s, i128::MIN as int, i128::MAX as int) }
    open spec fn val(s: Seq<char>) -> i128 { signed_val(s) as i128 }
    #[verifier::external_body]
    fn rws_from_str(s: &str) -> Result<i128, core::num::ParseIntError> { s.parse::<i128>() }
}
impl RwsFromStr for i8 {
    type E = core::num::ParseIntError;
    open spec fn parses(s: Seq<char>) -> bool { parses_signed(s, i8::MIN as int, i8::MAX as int) }
    open spec fn val(s: Seq<char>) -> i8 { signed_val(s) as i8 }
    #[verifier::external_body]
    fn rws_from_str(s: &str) -> Result<i8, core::num::ParseIntError> { s.parse::<i8>() }
}
impl RwsFromStr for u128 {
    type E = core::num::ParseIntError;
    open spec fn parses(s: Seq<char>) -> bool { parses_unsigned(s, u128::MAX as nat) }
    open spec fn val(s: Seq<char>) -> u128 { dec_val(unsigned_digits(s)) as u128 }
    #[verifier::external_body]
    fn rws_from_str(s: &str) -> Result<u128, core::num::ParseIntError> { s.parse::<u128>() }
}
impl RwsFromStr for u32 {
    type E = core::num::ParseIntError;
    open spec fn parses(s: Seq<char>) -> bool { parses_unsigned(s, u32::MAX as nat) }
    open spec fn val(s: Seq<char>) -> u32 { dec_val(unsigned_digits(s)) as u32 }
    #[verifier::external_body]
    fn rws_from_str(s: &str) -> Result<u32, core::num::ParseIntError> { s.parse::<u32>() }
}
impl RwsFromStr for u16 {
    type E = core::num::ParseIntError;
    open spec fn parses(s: Seq<char>) -> bool { parses_unsigned(s, u16::MAX as nat) }
    open spec fn val(s: Seq<char>) -> u16 { dec_val(unsigned_digits(s)) as u16 }
    #[verifier::external_body]
    fn rws_from_str(s: &str) -> Result<u16, core::num::ParseIntError> { s.parse::<u16>() }
}
impl RwsFromStr for u8 {
    type E = core::num::ParseIntError;
    open spec fn parses(s: Seq<char>) -> bool { parses_unsigned(s, u8::MAX as nat) }
    open spec fn val(s: Seq<char>) -> u8 { dec_val(unsigned_digits(s)) as u8 }
    #[verifier::external_body]
    fn rws_from_str(s: &str) -> Result<u8, core::num::ParseIntError> { s.parse::<u8>() }
}
impl RwsFromStr for f64 {
    type E = core::num::ParseFloatError;
    open spec fn parses(s: Seq<char>) -> bool { parses_f64(s) }
    open spec fn val(s: Seq<char>) -> f64 { val_f64(s) }
    #[verifier::external_body]
    fn rws_from_str(s: &str) -> Result<f64, core::num::ParseFloatError> { s.parse::<f64>() }
}
impl RwsFromStr for f32 {
    type E = core::num::ParseFloatError;
    open spec fn parses(s: Seq<char>) -> bool { parses_f32(s) }
    open spec fn val(s: Seq<char>) -> f32 { val_f32(s) }
    #[verifier::external_body]
    fn rws_from_str(s: &str) -> Result<f32, core::num::ParseFloatError> { s.parse::<f32>() }
}
impl RwsFromStr for String {
    type E = core::convert::Infallible;
    open spec fn parses(s: Seq<char>) -> bool { true }
    open spec fn val(s: Seq<char>) -> String { string_of(s) }
    #[verifier::external_body]
    fn rws_from_str(s: &str) -> (r: Result<String, core::convert::Infallible>)
        ensures r.is_ok(), r.unwrap()@ == s@,
    { s.parse::<String>() }
}
// the text of a parse error: some string
impl RwsToString for core::num::ParseIntError {
    uninterp spec fn ts(&self) -> Seq<char>;
    #[verifier::external_body]
    fn rws_to_string(&self) -> String { self.to_string() }
}
impl RwsToString for core::num::ParseFloatError {
    uninterp spec fn ts(&self) -> Seq<char>;
    #[verifier::external_body]
    fn rws_to_string(&self) -> String { self.to_string() }
}
impl RwsToString for core::str::ParseBoolError {
    uninterp spec fn ts(&self) -> Seq<char>;
    #[verifier::external_body]
    fn rws_to_string(&self) -> String { self.to_string() }
}

// Unicode: no numeric character is white space (the two properties are disjoint)
#[verifier::external_body]
pub proof fn axiom_numeric_not_ws()
    ensures forall|c: char| is_numeric_c(c) ==> !is_ws(c),
{
}

// <String as FromStr>::from_str is the identity on the text
pub uninterp spec fn string_of(s: Seq<char>) -> String;
#[verifier::external_body]
pub proof fn axiom_string_of(s: Seq<char>)
    ensures string_of(s)@ == s,
{
}
impl RwsDisp for i128 {
    open spec fn disp(&self) -> Seq<char> { dec_i(*self as int) }
    #[verifier::external_body]
    fn rws_disp(&self) -> String { self.to_string() }
}
