// ===== shims/config_env.rs — std::env::set_var as the configuration reader sees it in the unit that proves its totality (C20) =====
#[verifier::external_body]
pub fn rws_env_set_var(k: &String, v: &String)
    requires valid_env_key(k@), no_char(v@, '\0'),
{
    std::env::set_var(k, v)
}
