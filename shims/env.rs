// ===== shims/env.rs — trusted base: the process environment as seen by one request =====
// The environment is a ghost, immutable map for the duration of one call (assumed).  What bootstrap() wrote into it
// is property C12 and not covered here: CORS contracts are relative to whatever the environment holds.
pub uninterp spec fn env_value(name: Seq<char>) -> Option<Seq<char>>;

#[verifier::external_type_specification]
#[verifier::external_body]
pub struct ExVarError(std::env::VarError);

#[verifier::external_body]
pub fn rws_env_var(name: &str) -> (r: Result<String, std::env::VarError>)
    ensures
        r.is_ok() <==> env_value(name@).is_some(),
        r.is_ok() ==> r.unwrap()@ == env_value(name@).unwrap(),
{
    std::env::var(name)
}
