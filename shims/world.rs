// ===== shims/world.rs — trusted base of the start-up code (property C12): the process environment as a ghost map =====
// R-WORLD (tools/rwsx) gives every function of the unit that reads or writes the environment one more parameter,
// `rws_w: &mut Ghost<RwsWorld>`; the two std functions below are where that ghost state is read and written.
// ASSUMED: nothing else writes the environment between two calls (start-up runs on the main thread before any worker exists);
// the command line and the configuration file do not change while the process starts.
pub ghost struct RwsWorld { pub env: Map<Seq<char>, Seq<char>> }

pub uninterp spec fn process_args() -> Seq<Seq<char>>;                 // std::env::args(), program name included
pub uninterp spec fn fs_text(path: Seq<char>) -> Option<Seq<char>>;   // std::fs::read_to_string: the text of a readable UTF-8 file
pub uninterp spec fn cwd() -> Seq<char>;

#[verifier::external_type_specification]
#[verifier::external_body]
pub struct ExVarError(std::env::VarError);

pub trait RwsEnvText {
    spec fn etext(&self) -> Seq<char>;
    fn et_str(&self) -> &str;
}
impl<'a> RwsEnvText for &'a str {
    open spec fn etext(&self) -> Seq<char> { (**self)@ }
    #[verifier::external_body]
    fn et_str(&self) -> &str { self }
}
impl<'a> RwsEnvText for &'a String {
    open spec fn etext(&self) -> Seq<char> { (**self)@ }
    #[verifier::external_body]
    fn et_str(&self) -> &str { self.as_str() }
}

#[verifier::external_body]
pub fn rws_env_var(name: &str, rws_w: &mut Ghost<RwsWorld>) -> (r: Result<String, std::env::VarError>)
    ensures
        final(rws_w)@ == old(rws_w)@,
        r.is_ok() <==> old(rws_w)@.env.contains_key(name@),
        r.is_ok() ==> r.unwrap()@ == old(rws_w)@.env[name@],
{
    std::env::var(name)
}
// std::env::set_var PANICS when the key is empty or holds '=' or NUL, or when the value holds NUL
#[verifier::external_body]
pub fn rws_env_set_var<K: RwsEnvText, V: RwsEnvText>(k: K, v: V, rws_w: &mut Ghost<RwsWorld>)
    requires valid_env_key(k.etext()), no_char(v.etext(), '\0'),
    ensures final(rws_w)@.env == old(rws_w)@.env.insert(k.etext(), v.etext()),
{
    std::env::set_var(k.et_str(), v.et_str())
}

// std::env::args().collect()
pub struct RwsArgs { pub v: Vec<String> }
impl RwsArgs {
    pub fn collect(self) -> (r: Vec<String>) ensures r == self.v { self.v }
}
#[verifier::external_body]
pub fn rws_env_args() -> (r: RwsArgs)
    ensures
        views(r.v@) == process_args(),
        // the words of a command line are C strings: no NUL inside
        forall|i: int| 0 <= i < r.v@.len() ==> no_char(#[trigger] r.v@[i]@, '\0'),
{
    RwsArgs { v: std::env::args().collect() }
}

#[verifier::external_body]
pub fn rws_fs_read_to_string(path: String) -> (r: Result<String, std::io::Error>)
    ensures
        r.is_ok() <==> fs_text(path@).is_some(),
        r.is_ok() ==> r.unwrap()@ == fs_text(path@).unwrap(),
{
    std::fs::read_to_string(path)
}

pub struct FileExt {}
impl FileExt {
    // working directory ++ path
    #[verifier::external_body]
    pub fn get_static_filepath(path: &str) -> (r: Result<String, String>)
        ensures
            r.is_ok(),      // ASSUMED: the working directory exists and is accessible
            r.unwrap()@ == cwd() + path@,
    { unimplemented!() }
}

// io::Cursor::new(bytes) and the bytes a cursor was made of
#[verifier::external_body]
pub fn rws_cursor_new<'a>(b: &'a [u8]) -> (r: std::io::Cursor<&'a [u8]>)
    ensures cur_text(r) == b@,
{
    std::io::Cursor::new(b)
}

// ----- what Server::setup hands the settings to -----
use std::net::TcpListener;
#[verifier::external_type_specification]
#[verifier::external_body]
pub struct ExTcpListener(std::net::TcpListener);
pub uninterp spec fn listener_addr(l: std::net::TcpListener) -> Seq<char>;     // the text the listener was bound with
#[verifier::external_body]
pub fn rws_tcp_bind(addr: &String) -> (r: Result<std::net::TcpListener, std::io::Error>)
    ensures r.is_ok() ==> listener_addr(r.unwrap()) == addr@,
{
    std::net::TcpListener::bind(addr)
}
// the worker pool (src/thread_pool/mod.rs; its behaviour is C06 / C07, not covered): only its size matters here.
// ThreadPool::new PANICS on size 0 (assert!(size > 0)); a thread count of 0 or below is an operator's configuration error.
#[verifier::external_body]
pub struct ThreadPool { _p: core::marker::PhantomData<()> }
pub uninterp spec fn pool_size(p: ThreadPool) -> int;
impl ThreadPool {
    #[verifier::external_body]
    pub fn new(size: usize) -> (r: ThreadPool)
        ensures pool_size(r) == size,
    { unimplemented!() }
}
