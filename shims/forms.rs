// ===== shims/forms.rs — extra std shims used by the form / upload demo controllers =====
impl<T: Clone, E: Clone> RwsClone for Result<T, E> {
    #[verifier::external_body]
    fn rws_clone(&self) -> Result<T, E> { self.clone() }
}
impl RwsDisp for i64 {
    open spec fn disp(&self) -> Seq<char> { dec_i(*self as int) }
    #[verifier::external_body]
    fn rws_disp(&self) -> String { self.to_string() }
}
// String::eq(&str)
pub trait RwsEq {
    spec fn sv8(&self) -> Seq<char>;
    fn rws_eq(&self, o: &str) -> (r: bool)
        ensures r == (self.sv8() == o@);
}
impl RwsEq for String {
    open spec fn sv8(&self) -> Seq<char> { self@ }
    #[verifier::external_body]
    fn rws_eq(&self, o: &str) -> bool { self.eq(o) }
}
