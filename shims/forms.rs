// ===== shims/forms.rs — extra std shims used by the form / upload demo controllers =====
impl<T: Clone, E: Clone> RwsClone for Result<T, E> {
    #[verifier::external_body]
    fn rws_clone(&self) -> Result<T, E> { self.clone() }
}
impl RwsDisp for i64 {
    open spec fn disp(&self) -> Seq<char> { dec_i(*self as int) }
    #[verifier::external_body]
    fn rws_disp(&self) -> String { self.to_string() }
}
