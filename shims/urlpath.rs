// ===== shims/urlpath.rs — trusted base for UrlPath: characters collected into a String, char classification =====
pub trait RwsIntoIterCollect {
    spec fn chars_spec(&self) -> Seq<char>;
    fn rws_into_iter_collect(&self) -> (r: String)
        ensures r@ == self.chars_spec();
}
impl RwsIntoIterCollect for [char] {
    open spec fn chars_spec(&self) -> Seq<char> { self@ }
    #[verifier::external_body]
    fn rws_into_iter_collect(&self) -> String { self.into_iter().collect() }
}
impl RwsIntoIterCollect for Vec<char> {
    open spec fn chars_spec(&self) -> Seq<char> { self@ }
    #[verifier::external_body]
    fn rws_into_iter_collect(&self) -> String { self.into_iter().collect() }
}
impl RwsClone for char {
    #[verifier::external_body]
    fn rws_clone(&self) -> char { *self }
}
pub uninterp spec fn is_control_c(c: char) -> bool;  // char::is_control (Unicode Cc)
pub assume_specification[ char::is_control ](c: char) -> (r: bool)
    ensures r == is_control_c(c);

impl<T: Clone> RwsClone for Option<T> {
    #[verifier::external_body]
    fn rws_clone(&self) -> Option<T> { self.clone() }
}
pub trait RwsUrlPathStr {
    spec fn sv_up(&self) -> Seq<char>;
    // str::find(char): the byte offset of the first occurrence - a character boundary
    fn rws_find(&self, c: char) -> (r: Option<usize>)
        ensures r.is_some() ==> exists|k: int| 0 <= k < self.sv_up().len() && #[trigger] at_boundary(self.sv_up(), k, r.unwrap() as int) && self.sv_up()[k] == c;
    fn rws_strip_prefix<'a>(&'a self, p: &str) -> (r: Option<&'a str>)
        ensures r.is_some() ==> self.sv_up() == p@ + r.unwrap()@;
    fn rws_replacen(&self, p: &str, to: &str, n: usize) -> (r: String);
    fn rws_chars_skip_collect(&self, n: usize) -> (r: String);
}
impl RwsUrlPathStr for String {
    open spec fn sv_up(&self) -> Seq<char> { self@ }
    #[verifier::external_body]
    fn rws_find(&self, c: char) -> Option<usize> { self.find(c) }
    #[verifier::external_body]
    fn rws_strip_prefix<'a>(&'a self, p: &str) -> Option<&'a str> { self.strip_prefix(p) }
    #[verifier::external_body]
    fn rws_replacen(&self, p: &str, to: &str, n: usize) -> String { self.replacen(p, to, n) }
    #[verifier::external_body]
    fn rws_chars_skip_collect(&self, n: usize) -> String { self.chars().skip(n).collect() }
}
