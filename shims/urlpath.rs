// ===== shims/urlpath.rs — trusted base for UrlPath: characters collected into a String, char classification =====
pub trait RwsIntoIterCollect {
    spec fn chars_spec(&self) -> Seq<char>;
    fn rws_into_iter_collect(&self) -> (r: String)
        ensures r@ == self.chars_spec();
}
impl RwsIntoIterCollect for [char] {
    open spec fn chars_spec(&self) -> Seq<char> { self@ }
    #[verifier::external_body]
    fn rws_into_iter_collect(&self) -> String { self.into_iter().collect() }
}
impl RwsIntoIterCollect for Vec<char> {
    open spec fn chars_spec(&self) -> Seq<char> { self@ }
    #[verifier::external_body]
    fn rws_into_iter_collect(&self) -> String { self.into_iter().collect() }
}
impl RwsClone for char {
    #[verifier::external_body]
    fn rws_clone(&self) -> char { *self }
}
pub uninterp spec fn is_control_c(c: char) -> bool;  // char::is_control (Unicode Cc)
pub assume_specification[ char::is_control ](c: char) -> (r: bool)
    ensures r == is_control_c(c);
