// ===== shims/config.rs — trusted base for the configuration reader: lines of a cursor, env::set_var, char patterns =====
use std::io::{BufRead, Cursor};
#[verifier::external_type_specification]
#[verifier::external_body]
#[verifier::reject_recursive_types(T)]
pub struct ExCursorCfg<T>(std::io::Cursor<T>);

pub open spec fn no_char(s: Seq<char>, c: char) -> bool { forall|i: int| 0 <= i < s.len() ==> #[trigger] s[i] != c }
// std::env::set_var PANICS when the key is empty or holds '=' or NUL, or when the value holds NUL
pub open spec fn valid_env_key(k: Seq<char>) -> bool { k.len() > 0 && no_char(k, '=') && no_char(k, '\0') }

// BufRead::lines() of an in-memory cursor, collected: the lines in order, a function of the bytes the cursor was made of
pub uninterp spec fn cur_text(c: std::io::Cursor<&[u8]>) -> Seq<u8>;
pub uninterp spec fn lines_of(b: Seq<u8>) -> Seq<Result<String, std::io::Error>>;
pub struct RwsLines { pub v: Vec<Result<String, std::io::Error>> }
impl RwsLines {
    pub fn into_iter(self) -> (r: RwsLines) ensures r == self { self }
}
pub trait RwsLinesOf {
    spec fn lines_spec(self) -> Seq<Result<String, std::io::Error>>;
    fn rws_lines(self) -> (r: RwsLines) ensures r.v@ == self.lines_spec();
}
impl<'a> RwsLinesOf for std::io::Cursor<&'a [u8]> {
    open spec fn lines_spec(self) -> Seq<Result<String, std::io::Error>> { lines_of(cur_text(self)) }
    #[verifier::external_body]
    fn rws_lines(self) -> RwsLines { RwsLines { v: self.lines().collect() } }
}
// R-FORCONT: the items of the iterator, reversed, so that pop() hands them out in order
pub fn rws_iter_to_rev_vec(l: RwsLines) -> (r: Vec<Result<String, std::io::Error>>)
    ensures r@.len() == l.v@.len(), forall|j: int| 0 <= j < r@.len() ==> r@[j] == l.v@[l.v@.len() - 1 - j],
{
    let mut v = l.v;
    let mut out: Vec<Result<String, std::io::Error>> = Vec::new();
    while v.len() > 0
        invariant out@.len() + v@.len() == l.v@.len(), v@ == l.v@.take(v@.len() as int),
            forall|j: int| 0 <= j < out@.len() ==> out@[j] == l.v@[l.v@.len() - 1 - j],
        decreases v@.len(),
    {
        let x = v.pop().unwrap();
        out.push(x);
    }
    out
}

// char patterns
pub trait RwsCharPat {
    spec fn sv_cp(&self) -> Seq<char>;
    fn rws_contains_char(&self, c: char) -> (r: bool)
        ensures r == !no_char(self.sv_cp(), c);
    fn rws_replace_char(&self, c: char, to: &str) -> (r: String)
        ensures to@.len() == 0 ==> r@ == without_char(self.sv_cp(), c);
    fn rws_split_once_char<'a>(&'a self, c: char) -> (r: Option<(&'a str, &'a str)>)
        ensures
            r.is_some() ==> self.sv_cp() == r.unwrap().0@ + seq![c] + r.unwrap().1@,
            r.is_none() <==> split_once_spec(self.sv_cp(), seq![c]).is_none(),
            r.is_some() ==> (r.unwrap().0@, r.unwrap().1@) == split_once_spec(self.sv_cp(), seq![c]).unwrap();
}
impl RwsCharPat for String {
    open spec fn sv_cp(&self) -> Seq<char> { self@ }
    #[verifier::external_body]
    fn rws_contains_char(&self, c: char) -> bool { self.contains(c) }
    #[verifier::external_body]
    fn rws_replace_char(&self, c: char, to: &str) -> String { self.replace(c, to) }
    #[verifier::external_body]
    fn rws_split_once_char<'a>(&'a self, c: char) -> Option<(&'a str, &'a str)> { self.split_once(c) }
}
