// ===== shims/time.rs — the clock: an arbitrary u128 (no contract) =====
pub struct DateTimeExt;
impl DateTimeExt {
    #[verifier::external_body]
    pub fn _now_unix_epoch_nanos() -> (r: u128) { unimplemented!() }
}
