import re
"""Unit and property definitions: which /repo functions are extracted, with which shims and contracts."""

SYMBOL_SRC = ("src/symbol/mod.rs", ["struct:Symbol", "const:SYMBOL"])

UNITS = {
    "base64_encode": {
        "uses": [],
        "preludes": ["shims/core.rs"],
        "specs": ["contracts/spec/base64.rs"],
        "sources": [
            SYMBOL_SRC,
            ("src/core/base64/mod.rs", [
                "struct:Base64",
                "fn:Base64::get_base64_char_list",
                "fn:Base64::convert_number_to_base64_char",
                "fn:Base64::encode_sequence",
                "fn:Base64::encode",
            ]),
        ],
        "contracts": ["contracts/base64.vc"],
    },
    "base64_decode": {
        "preludes": ["shims/core.rs"],
        "specs": ["contracts/spec/base64.rs", "contracts/spec/base64_top.rs"],
        "sources": [
            SYMBOL_SRC,
            ("src/core/base64/mod.rs", [
                "struct:Base64",
                "fn:Base64::get_base64_char_list:assume",
                "fn:Base64::encode:assume",
                "fn:Base64::convert_base64_char_to_number",
                "fn:Base64::decode_sequence",
                "fn:Base64::decode",
            ]),
        ],
        "contracts": ["contracts/base64.vc"],
    },
    "range_parse": {
        "preludes": ["shims/core.rs", "shims/fs.rs"],
        "specs": ["contracts/spec/hv.rs", "contracts/spec/frames.rs", "contracts/spec/range.rs"],
        "sources": [
            SYMBOL_SRC,
            ("src/header/mod.rs", ["struct:Header", "consts:Header"]),
            ("src/response/mod.rs", ["struct:Response", "struct:StatusCodeReasonPhrase", "struct:ResponseStatusCodeReasonPhrase",
                                     "const:STATUS_CODE_REASON_PHRASE", "struct:Error"]),
            ("src/mime_type/mod.rs", ["struct:MimeType", "consts:MimeType", "fn:MimeType::detect_mime_type:assume"]),
            ("src/range/mod.rs", ["struct:Range", "struct:ContentRange", "consts:Range",
                                  "fn:Range::parse_range_in_content_range", "fn:Range::parse_content_range"]),
        ],
        "contracts": ["contracts/mime.vc", "contracts/range.vc"],
    },
    "response_gen": {
        "preludes": ["shims/core.rs", "shims/bytes.rs"],
        "specs": ["contracts/spec/hv.rs", "contracts/spec/http.rs", "contracts/spec/names_framing.rs"],
        "sources": [
            SYMBOL_SRC,
            ("src/header/mod.rs", ["struct:Header", "consts:Header"]),
            ("src/range/mod.rs", ["struct:Range", "struct:ContentRange", "consts:Range"]),
            ("src/request/mod.rs", ["struct:Request", "struct:Method", "const:METHOD"]),
            ("src/http/mod.rs", ["struct:Version", "const:VERSION"]),
            ("src/response/mod.rs", ["struct:Response", "fn:Response::generate_body", "fn:Response::generate_response", "fn:Response::generate"]),
        ],
        "contracts": ["contracts/response.vc"],
    },
    "cors": {
        "preludes": ["shims/core.rs", "shims/env.rs"],
        "specs": ["contracts/spec/hv.rs", "contracts/spec/lookup.rs", "contracts/spec/cors.rs", "contracts/spec/names_cors.rs"],
        "sources": [
            SYMBOL_SRC,
            ("src/header/mod.rs", ["struct:Header", "consts:Header"]),
            ("src/range/mod.rs", ["struct:Range", "struct:ContentRange", "consts:Range"]),
            ("src/response/mod.rs", ["struct:StatusCodeReasonPhrase", "struct:Error"]),
            ("src/request/mod.rs", ["struct:Request", "struct:Method", "const:METHOD", "fn:Request::get_header"]),
            ("src/entry_point/mod.rs", ["struct:Config", "consts:Config"]),
            ("src/cors/mod.rs", ["struct:Cors", "consts:Cors", "fn:Cors::get_vary_header_value", "fn:Cors::allow_all",
                                 "fn:Cors::_process", "fn:Cors::process_using_default_config", "fn:Cors::get_headers"]),
        ],
        "contracts": ["contracts/request.vc", "contracts/cors.vc"],
    },
    "header_list": {
        "preludes": ["shims/core.rs", "shims/env.rs", "shims/time.rs"],
        "specs": ["contracts/spec/hv.rs", "contracts/spec/lookup.rs", "contracts/spec/cors.rs", "contracts/spec/headers.rs", "contracts/spec/names_hardening.rs"],
        "sources": [
            SYMBOL_SRC,
            ("src/range/mod.rs", ["struct:Range", "consts:Range"]),
            ("src/request/mod.rs", ["struct:Request", "struct:Method", "const:METHOD", "fn:Request::get_header:assume"]),
            ("src/entry_point/mod.rs", ["struct:Config", "consts:Config"]),
            ("src/cors/mod.rs", ["struct:Cors", "consts:Cors", "fn:Cors::get_vary_header_value:assume", "fn:Cors::get_headers:assume"]),
            ("src/client_hint/mod.rs", ["struct:ClientHint", "consts:ClientHint", "fn:ClientHint::get_client_hint_list",
                                        "fn:ClientHint::get_accept_client_hints_header", "fn:ClientHint::get_critical_client_hints_header",
                                        "fn:ClientHint::get_vary_header_value"]),
            ("src/header/mod.rs", ["struct:Header", "consts:Header", "fn:Header::get_x_content_type_options_header",
                                   "fn:Header::get_accept_ranges_header", "fn:Header::get_x_frame_options_header",
                                   "fn:Header::get_date_iso_8601_header", "fn:Header::get_no_cache_header", "fn:Header::get_header_list"]),
        ],
        "contracts": ["contracts/request.vc", "contracts/cors.vc", "contracts/header.vc"],
    },
    "server": {
        "uses": [],
        "preludes": ["shims/core.rs", "shims/bytes.rs", "shims/env.rs", "shims/io.rs", "shims/cursor.rs"],
        "specs": ["contracts/spec/hv.rs", "contracts/spec/crlf.rs", "contracts/spec/request.rs", "contracts/spec/lines.rs", "contracts/spec/request_read.rs", "contracts/spec/http.rs", "contracts/spec/lookup.rs", "contracts/spec/cors.rs", "contracts/spec/headers.rs", "contracts/spec/frames.rs", "contracts/spec/frame_halves.rs", "contracts/spec/app.rs", "contracts/spec/server.rs", "contracts/spec/names_status.rs", "contracts/spec/c10_thm.rs"],
        "sources": [
            SYMBOL_SRC,
            ("src/http/mod.rs", ["struct:Version", "const:VERSION"]),
            ("src/mime_type/mod.rs", ["struct:MimeType", "consts:MimeType"]),
            ("src/range/mod.rs", ["struct:Range", "struct:ContentRange", "consts:Range"]),
            ("src/request/mod.rs", ["struct:Request", "struct:Method", "const:METHOD", "fn:Request::parse:assume", "fn:Request::parse_request:assume"]),
            ("src/entry_point/mod.rs", ["struct:Config", "consts:Config"]),
            ("src/cors/mod.rs", ["struct:Cors", "consts:Cors"]),
            ("src/client_hint/mod.rs", ["struct:ClientHint", "consts:ClientHint"]),
            ("src/header/mod.rs", ["struct:Header", "consts:Header", "fn:Header::get_header_list:assume"]),
            ("src/response/mod.rs", ["struct:Response", "struct:StatusCodeReasonPhrase", "struct:ResponseStatusCodeReasonPhrase",
                                     "const:STATUS_CODE_REASON_PHRASE", "struct:Error", "fn:Response::get_response", "fn:Response::generate_response:assume"]),
            ("src/application/mod.rs", ["trait:Application"]),
            ("src/log/mod.rs", ["struct:Log", "fn:Log::request_response:assume"]),
            ("src/entry_point/mod.rs", ["fn:get_request_allocation_size:assume"]),
            ("src/app/mod.rs", ["struct:App", "fn:App::handle_request:assume"]),
            ("src/server/mod.rs", ["struct:Server", "struct:ConnectionInfo", "struct:Address", "fn:Server::bad_request_response", "fn:Server::process",
                                   "fn:Server::process_request"]),
        ],
        "contracts": ["contracts/request.vc", "contracts/header.vc", "contracts/response.vc", "contracts/app.vc", "contracts/server.vc"],
    },
    "request_parse": {
        "preludes": ["shims/core.rs", "shims/bytes.rs", "shims/io.rs", "shims/cursor.rs", "shims/ctl.rs"],
        "specs": ["contracts/spec/hv.rs", "contracts/spec/lookup.rs", "contracts/spec/crlf.rs", "contracts/spec/request.rs", "contracts/spec/lines.rs", "contracts/spec/request_read.rs", "contracts/spec/request_gen.rs", "contracts/spec/request_thm.rs", "contracts/spec/names_request.rs"],
        "sources": [
            SYMBOL_SRC,
            ("src/http/mod.rs", ["struct:Version", "const:VERSION", "struct:HTTP", "fn:HTTP::version_list"]),
            ("src/ext/string_ext/mod.rs", ["struct:StringExt", "fn:StringExt::truncate_new_line_carriage_return", "fn:StringExt::filter_ascii_control_characters"]),
            ("src/header/mod.rs", ["struct:Header", "consts:Header"]),
            ("src/request/mod.rs", ["struct:Request", "struct:Method", "const:METHOD", "consts:Request", "fn:Request::get_header", "fn:Request::method_list",
                                    "fn:Request::parse_method_and_request_uri_and_http_version_string", "fn:Request::parse_http_request_header_string",
                                    "fn:Request::cursor_read", "fn:Request::parse_request", "fn:Request::parse"]),
        ],
        "contracts": ["contracts/request.vc"],
    },
    "request_gen": {
        "preludes": ["shims/core.rs", "shims/bytes.rs"],
        "specs": ["contracts/spec/hv.rs", "contracts/spec/request_gen.rs"],
        "sources": [
            SYMBOL_SRC,
            ("src/header/mod.rs", ["struct:Header", "consts:Header"]),
            ("src/request/mod.rs", ["struct:Request", "fn:Request::_generate_request", "fn:Request::generate_request", "fn:Request::generate"]),
        ],
        "contracts": ["contracts/request_gen.vc"],
    },
    "static": {
        "preludes": ["shims/core.rs", "shims/bytes.rs", "shims/fs.rs"],
        "specs": ["contracts/spec/hv.rs", "contracts/spec/lookup.rs", "contracts/spec/range.rs", "contracts/spec/frames.rs", "contracts/spec/frame_halves.rs", "contracts/spec/static.rs"],
        "sources": [
            SYMBOL_SRC,
            ("src/header/mod.rs", ["struct:Header", "consts:Header"]),
            ("src/request/mod.rs", ["struct:Request", "struct:Method", "const:METHOD", "fn:Request::get_header"]),
            ("src/response/mod.rs", ["struct:Response", "struct:StatusCodeReasonPhrase", "struct:ResponseStatusCodeReasonPhrase",
                                     "const:STATUS_CODE_REASON_PHRASE", "struct:Error"]),
            ("src/server/mod.rs", ["struct:ConnectionInfo", "struct:Address"]),
            ("src/mime_type/mod.rs", ["struct:MimeType", "consts:MimeType", "fn:MimeType::detect_mime_type:assume"]),
            ("src/url/mod.rs", ["struct:URL", "fn:URL::parse:assume", "fn:URL::parse_request_target", "fn:URL::is_path_inside_root"]),
            ("src/range/mod.rs", ["struct:Range", "struct:ContentRange", "consts:Range", "fn:Range::parse_content_range:assume",
                                  "fn:Range::get_content_range", "fn:Range::get_content_range_list"]),
            ("src/app/controller/static_resource/mod.rs", ["struct:StaticResourceController", "fn:StaticResourceController::is_matching",
                                  "fn:StaticResourceController::process", "fn:StaticResourceController::is_matching_request",
                                  "fn:StaticResourceController::process_request", "fn:StaticResourceController::process_static_resources"]),
        ],
        "contracts": ["contracts/mime.vc", "contracts/request.vc", "contracts/range.vc", "contracts/static.vc"],
    },
    "app": {
        "preludes": ["shims/core.rs", "shims/bytes.rs", "shims/env.rs", "shims/fs.rs"],
        "specs": ["contracts/spec/hv.rs", "contracts/spec/lookup.rs", "contracts/spec/cors.rs", "contracts/spec/headers.rs", "contracts/spec/frames.rs", "contracts/spec/frame_halves.rs", "contracts/spec/static.rs", "contracts/spec/app.rs", "contracts/spec/dispatch.rs"],
        "sources": [
            SYMBOL_SRC,
            ("src/http/mod.rs", ["struct:Version", "const:VERSION"]),
            ("src/range/mod.rs", ["struct:Range", "struct:ContentRange", "consts:Range"]),
            ("src/request/mod.rs", ["struct:Request", "struct:Method", "const:METHOD"]),
            ("src/entry_point/mod.rs", ["struct:Config", "consts:Config"]),
            ("src/cors/mod.rs", ["struct:Cors", "consts:Cors"]),
            ("src/client_hint/mod.rs", ["struct:ClientHint", "consts:ClientHint"]),
            ("src/server/mod.rs", ["struct:ConnectionInfo", "struct:Address"]),
            ("src/header/mod.rs", ["struct:Header", "consts:Header", "fn:Header::get_header_list:assume"]),
            ("src/response/mod.rs", ["struct:Response", "struct:StatusCodeReasonPhrase", "struct:ResponseStatusCodeReasonPhrase",
                                     "const:STATUS_CODE_REASON_PHRASE", "struct:Error", "fn:Response::get_response:assume", "fn:Response::new"]),
            ("src/app/controller/index/mod.rs", ['struct:IndexController', 'fn:IndexController::is_matching:assume', 'fn:IndexController::process:assume', 'fn:IndexController::is_matching_request:assume', 'fn:IndexController::process_request:assume']),
            ("src/app/controller/style/mod.rs", ['struct:StyleController', 'fn:StyleController::is_matching:assume', 'fn:StyleController::process:assume', 'fn:StyleController::is_matching_request:assume', 'fn:StyleController::process_request:assume']),
            ("src/app/controller/script/mod.rs", ['struct:ScriptController', 'fn:ScriptController::is_matching:assume', 'fn:ScriptController::process:assume', 'fn:ScriptController::is_matching_request:assume', 'fn:ScriptController::process_request:assume']),
            ("src/app/controller/favicon/mod.rs", ['struct:FaviconController', 'fn:FaviconController::is_matching:assume', 'fn:FaviconController::process:assume', 'fn:FaviconController::is_matching_request:assume', 'fn:FaviconController::process_request:assume']),
            ("src/app/controller/not_found/mod.rs", ['struct:NotFoundController', 'fn:NotFoundController::is_matching:assume', 'fn:NotFoundController::process:assume', 'fn:NotFoundController::is_matching_request:assume', 'fn:NotFoundController::process_request:assume']),
            ("src/app/controller/file/initiate/mod.rs", ['struct:FileUploadInitiateController', 'fn:FileUploadInitiateController::is_matching:assume', 'fn:FileUploadInitiateController::process:assume', 'fn:FileUploadInitiateController::is_matching_request:assume', 'fn:FileUploadInitiateController::process_request:assume']),
            ("src/app/controller/form/url_encoded_enctype_post_method/mod.rs", ['struct:FormUrlEncodedEnctypePostMethodController', 'fn:FormUrlEncodedEnctypePostMethodController::is_matching:assume', 'fn:FormUrlEncodedEnctypePostMethodController::process:assume', 'fn:FormUrlEncodedEnctypePostMethodController::is_matching_request:assume', 'fn:FormUrlEncodedEnctypePostMethodController::process_request:assume']),
            ("src/app/controller/form/get_method/mod.rs", ['struct:FormGetMethodController', 'fn:FormGetMethodController::is_matching:assume', 'fn:FormGetMethodController::process:assume', 'fn:FormGetMethodController::is_matching_request:assume', 'fn:FormGetMethodController::process_request:assume']),
            ("src/app/controller/form/multipart_enctype_post_method/mod.rs", ['struct:FormMultipartEnctypePostMethodController', 'fn:FormMultipartEnctypePostMethodController::is_matching:assume', 'fn:FormMultipartEnctypePostMethodController::process:assume', 'fn:FormMultipartEnctypePostMethodController::is_matching_request:assume', 'fn:FormMultipartEnctypePostMethodController::process_request:assume']),
            ("src/app/controller/static_resource/mod.rs", ['struct:StaticResourceController', 'fn:StaticResourceController::is_matching:assume', 'fn:StaticResourceController::process:assume', 'fn:StaticResourceController::is_matching_request:assume', 'fn:StaticResourceController::process_request:assume']),
            ("src/app/mod.rs", ["struct:App", "fn:App::execute", "fn:App::handle_request"]),
        ],
        "contracts": ["contracts/header.vc", "contracts/server.vc", "contracts/static.vc", "contracts/app.vc"],
    },
    "controllers": {
        "preludes": ["shims/core.rs", "shims/bytes.rs", "shims/env.rs", "shims/fs.rs"],
        "specs": ["contracts/spec/hv.rs", "contracts/spec/lookup.rs", "contracts/spec/cors.rs", "contracts/spec/headers.rs", "contracts/spec/frames.rs", "contracts/spec/frame_halves.rs", "contracts/spec/static.rs", "contracts/spec/app.rs"],
        "sources": [
            SYMBOL_SRC,
            ("src/http/mod.rs", ["struct:Version", "const:VERSION"]),
            ("src/mime_type/mod.rs", ["struct:MimeType", "consts:MimeType", "fn:MimeType::detect_mime_type:assume"]),
            ("src/range/mod.rs", ["struct:Range", "struct:ContentRange", "consts:Range", "fn:Range::get_content_range", "fn:Range::get_content_range_of_a_file"]),
            ("src/request/mod.rs", ["struct:Request", "struct:Method", "const:METHOD"]),
            ("src/entry_point/mod.rs", ["struct:Config", "consts:Config"]),
            ("src/cors/mod.rs", ["struct:Cors", "consts:Cors"]),
            ("src/client_hint/mod.rs", ["struct:ClientHint", "consts:ClientHint"]),
            ("src/server/mod.rs", ["struct:ConnectionInfo", "struct:Address"]),
            ("src/header/mod.rs", ["struct:Header", "consts:Header"]),
            ("src/response/mod.rs", ["struct:Response", "struct:StatusCodeReasonPhrase", "struct:ResponseStatusCodeReasonPhrase",
                                     "const:STATUS_CODE_REASON_PHRASE", "struct:Error"]),
            ("src/app/controller/index/mod.rs", ['consts:IndexController', 'struct:IndexController', 'fn:IndexController::is_matching:verify', 'fn:IndexController::process:verify', 'fn:IndexController::is_matching_request', 'fn:IndexController::process_request']),
            ("src/app/controller/style/mod.rs", ['consts:StyleController', 'struct:StyleController', 'fn:StyleController::is_matching:verify', 'fn:StyleController::process:verify', 'fn:StyleController::is_matching_request', 'fn:StyleController::process_request']),
            ("src/app/controller/script/mod.rs", ['consts:ScriptController', 'struct:ScriptController', 'fn:ScriptController::is_matching:verify', 'fn:ScriptController::process:verify', 'fn:ScriptController::is_matching_request', 'fn:ScriptController::process_request']),
            ("src/app/controller/favicon/mod.rs", ['consts:FaviconController', 'struct:FaviconController', 'fn:FaviconController::is_matching:verify', 'fn:FaviconController::process:verify', 'fn:FaviconController::is_matching_request', 'fn:FaviconController::process_request']),
            ("src/app/controller/not_found/mod.rs", ['consts:NotFoundController', 'struct:NotFoundController', 'fn:NotFoundController::is_matching:verify', 'fn:NotFoundController::process:verify', 'fn:NotFoundController::is_matching_request', 'fn:NotFoundController::process_request']),
        ],
        "contracts": ["contracts/mime.vc", "contracts/app.vc", "contracts/static.vc"],
    },
    "log": {
        "preludes": ["shims/core.rs", "shims/io.rs", "shims/thread.rs"],
        "specs": [],
        "sources": [
            SYMBOL_SRC,
            ("src/header/mod.rs", ["struct:Header", "consts:Header"]),
            ("src/range/mod.rs", ["struct:Range", "struct:ContentRange"]),
            ("src/request/mod.rs", ["struct:Request"]),
            ("src/response/mod.rs", ["struct:Response"]),
            ("src/log/mod.rs", ["struct:Log", "fn:Log::request_response"]),
        ],
        "contracts": ["contracts/log.vc"],
    },
    "forms": {
        "preludes": ["shims/core.rs", "shims/bytes.rs", "shims/env.rs", "shims/fs.rs", "shims/forms.rs", "shims/ctl.rs"],
        "specs": ["contracts/spec/hv.rs", "contracts/spec/lookup.rs", "contracts/spec/frames.rs", "contracts/spec/frame_halves.rs", "contracts/spec/static.rs"],
        "sources": [
            SYMBOL_SRC,
            ("src/header/mod.rs", ["struct:Header", "consts:Header"]),
            ("src/mime_type/mod.rs", ["struct:MimeType", "consts:MimeType"]),
            ("src/range/mod.rs", ["struct:Range", "struct:ContentRange", "consts:Range"]),
            ("src/url/mod.rs", ["struct:URL", "fn:URL::parse:assume", "fn:URL::parse_request_target:assume", "fn:URL::parse_query:assume"]),
            ("src/request/mod.rs", ["struct:Request", "struct:Method", "const:METHOD", "fn:Request::get_header:assume", "fn:Request::get_query",
                                    "fn:Request::get_uri_query", "fn:Request::get_uri_path"]),
            ("src/response/mod.rs", ["struct:Response", "struct:StatusCodeReasonPhrase", "struct:ResponseStatusCodeReasonPhrase",
                                     "const:STATUS_CODE_REASON_PHRASE", "struct:Error"]),
            ("src/server/mod.rs", ["struct:ConnectionInfo", "struct:Address"]),
            ("src/entry_point/mod.rs", ["fn:get_request_allocation_size:assume"]),
            ("src/body/form_urlencoded/mod.rs", ["struct:FormUrlEncoded", "fn:FormUrlEncoded::parse"]),
            ("src/app/controller/file/initiate/mod.rs", ["struct:FileUploadInitiateController", "fn:FileUploadInitiateController::is_matching",
                                    "fn:FileUploadInitiateController::process", "fn:FileUploadInitiateController::is_matching_request", "fn:FileUploadInitiateController::process_request"]),
            ("src/app/controller/form/get_method/mod.rs", ["struct:FormGetMethodController", "fn:FormGetMethodController::is_matching",
                                    "fn:FormGetMethodController::process", "fn:FormGetMethodController::is_matching_request", "fn:FormGetMethodController::process_request"]),
            ("src/ext/string_ext/mod.rs", ["struct:StringExt", "fn:StringExt::filter_ascii_control_characters:assume"]),
            ("src/body/multipart_form_data/mod.rs", ["struct:FormMultipartData", "struct:Part", "fn:Part::get_header:assume", "fn:FormMultipartData::parse:assume",
                                                     "fn:FormMultipartData::extract_boundary"]),
            ("src/header/content_disposition/mod.rs", ["struct:ContentDisposition", "struct:DispositionType", "const:DISPOSITION_TYPE", "fn:ContentDisposition::parse:assume"]),
            ("src/app/controller/form/multipart_enctype_post_method/mod.rs", ["struct:FormMultipartEnctypePostMethodController",
                                    "consts:FormMultipartEnctypePostMethodController",
                                    "fn:FormMultipartEnctypePostMethodController::is_matching", "fn:FormMultipartEnctypePostMethodController::process",
                                    "fn:FormMultipartEnctypePostMethodController::is_matching_request", "fn:FormMultipartEnctypePostMethodController::process_request"]),
            ("src/app/controller/form/url_encoded_enctype_post_method/mod.rs", ["struct:FormUrlEncodedEnctypePostMethodController",
                                    "consts:FormUrlEncodedEnctypePostMethodController",
                                    "fn:FormUrlEncodedEnctypePostMethodController::is_matching", "fn:FormUrlEncodedEnctypePostMethodController::process",
                                    "fn:FormUrlEncodedEnctypePostMethodController::is_matching_request", "fn:FormUrlEncodedEnctypePostMethodController::process_request"]),
        ],
        "contracts": ["contracts/request.vc", "contracts/server.vc", "contracts/app.vc", "contracts/forms.vc"],
    },
    "response_parse": {
        "preludes": ["shims/core.rs", "shims/bytes.rs", "shims/cursor.rs", "shims/ctl.rs"],
        "specs": ["contracts/spec/hv.rs", "contracts/spec/frames.rs", "contracts/spec/crlf.rs", "contracts/spec/request.rs", "contracts/spec/response_parse.rs", "contracts/spec/lines.rs", "contracts/spec/response_read.rs", "contracts/spec/http.rs", "contracts/spec/response_thm.rs", "contracts/spec/names_status.rs"],
        "sources": [
            SYMBOL_SRC,
            ("src/http/mod.rs", ["struct:Version", "const:VERSION", "struct:HTTP", "fn:HTTP::version_list"]),
            ("src/ext/string_ext/mod.rs", ["struct:StringExt", "fn:StringExt::truncate_new_line_carriage_return"]),
            ("src/mime_type/mod.rs", ["struct:MimeType", "consts:MimeType"]),
            ("src/header/mod.rs", ["struct:Header", "consts:Header"]),
            ("src/request/mod.rs", ["struct:Method", "const:METHOD"]),
            ("src/body/multipart_form_data/mod.rs", ["struct:FormMultipartData", "fn:FormMultipartData::extract_boundary"]),
            ("src/range/mod.rs", ["struct:Range", "struct:ContentRange", "consts:Range", "fn:ContentRange::new", "fn:Range::parse_line_as_bytes", "fn:Range::convert_bytes_array_to_string",
                                  "fn:Range::_parse_raw_content_range_header_value", "fn:Range::_parse_content_range_header_value",
                                  "fn:Range::parse_multipart_body_with_boundary"]),
            ("src/response/mod.rs", ["struct:Response", "struct:StatusCodeReasonPhrase", "struct:ResponseStatusCodeReasonPhrase",
                                     "const:STATUS_CODE_REASON_PHRASE", "struct:Error", "consts:Response", "fn:Response::status_code_reason_phrase_list",
                                     "fn:Response::_parse_http_version_status_code_reason_phrase_string", "fn:Response::parse_http_response_header_string",
                                     "fn:Response::_parse_http_response_header_string",
                                     "fn:Response::_is_multipart_byteranges_content_type", "fn:Response::_get_header", "fn:Response::get_header",
                                     "fn:Response::parse_raw_response_via_cursor", "fn:Response::parse"]),
        ],
        "contracts": ["contracts/request.vc", "contracts/response_parse.vc"],
    },
    "multipart": {
        "preludes": ["shims/core.rs", "shims/bytes.rs", "shims/cursor.rs", "shims/ctl.rs"],
        "specs": ["contracts/spec/hv.rs", "contracts/spec/crlf.rs", "contracts/spec/multipart.rs", "contracts/spec/multipart_thm.rs"],
        "sources": [
            SYMBOL_SRC,
            ("src/ext/string_ext/mod.rs", ["struct:StringExt", "fn:StringExt::truncate_new_line_carriage_return", "fn:StringExt::filter_ascii_control_characters"]),
            ("src/header/mod.rs", ["struct:Header", "fn:Header::as_string", "fn:Header::parse_header"]),
            ("src/body/multipart_form_data/mod.rs", ["struct:FormMultipartData", "struct:Part", "fn:Part::get_header", "fn:FormMultipartData::is_delimiter", "fn:FormMultipartData::parse",
                                                     "fn:FormMultipartData::parse_form_part_recursively", "fn:FormMultipartData::extract_boundary",
                                                     "fn:FormMultipartData::generate_part", "fn:FormMultipartData::generate"]),
            ("src/header/content_disposition/mod.rs", ["struct:ContentDisposition", "struct:DispositionType", "const:DISPOSITION_TYPE", "fn:ContentDisposition::parse"]),
        ],
        "contracts": ["contracts/request.vc", "contracts/multipart.vc"],
    },
    "mime": {
        "preludes": ["shims/core.rs"],
        "specs": ["contracts/spec/mime.rs"],
        "sources": [
            ("src/mime_type/mod.rs", ["struct:MimeType", "consts:MimeType", "fn:MimeType::get_extension_from_filename", "fn:MimeType::detect_mime_type"]),
        ],
        "contracts": ["contracts/mime.vc"],
    },
    "json_array": {
        "preludes": ["shims/core.rs", "shims/bytes.rs", "shims/cursor_json.rs", "shims/strslice.rs"],
        "specs": ["contracts/spec/json.rs"],
        "sources": [
            SYMBOL_SRC,
            ("src/json/array/mod.rs", ["struct:RawUnprocessedJSONArray", "fn:RawUnprocessedJSONArray::bytes_to_string", "fn:RawUnprocessedJSONArray::byte_to_char",
                                       "fn:RawUnprocessedJSONArray::split_into_vector_of_strings"]),
            ("src/json/array/integer/mod.rs", ["struct:JSONArrayOfIntegers"] + ["fn:JSONArrayOfIntegers::parse_as_list_" + t for t in ("i128", "i64", "i32", "i16", "i8", "u128", "u64", "u32", "u16", "u8")]),
            ("src/json/array/boolean/mod.rs", ["struct:JSONArrayOfBooleans", "fn:JSONArrayOfBooleans::parse_as_list_bool"]),
            ("src/json/array/float/mod.rs", ["struct:JSONArrayOfFloats", "fn:JSONArrayOfFloats::parse_as_list_f64", "fn:JSONArrayOfFloats::parse_as_list_f32"]),
            ("src/json/array/string/mod.rs", ["struct:JSONArrayOfStrings", "fn:JSONArrayOfStrings::parse_as_list_string"]),
        ],
        "contracts": ["contracts/json_array.vc"],
    },
    "json_object": {
        "preludes": ["shims/core.rs", "shims/bytes.rs", "shims/cursor_json.rs", "shims/ctl.rs"],
        "specs": [],
        "sources": [
            SYMBOL_SRC,
            ("src/ext/string_ext/mod.rs", ["struct:StringExt", "fn:StringExt::filter_ascii_control_characters:assume"]),
            ("src/null/mod.rs", ["struct:Null"]),
            ("src/json/mod.rs", ["struct:JSONType", "const:JSON_TYPE"]),
            ("src/json/property/mod.rs", ["struct:JSONProperty", "struct:JSONValue", "fn:JSONProperty::parse"]),
            ("src/json/object/mod.rs", ["struct:JSON", "fn:JSON::parse_as_properties"]),
        ],
        "contracts": ["contracts/json_object.vc"],
    },
    "config": {
        "preludes": ["shims/core.rs", "shims/bytes.rs", "shims/config.rs", "shims/config_env.rs"],
        "specs": ["contracts/spec/config.rs"],
        "sources": [
            SYMBOL_SRC,
            ("src/entry_point/mod.rs", ["struct:Config", "consts:Config"]),
            ("src/entry_point/command_line_args/mod.rs", ["struct:CommandLineArgument", "fn:CommandLineArgument::get_command_line_arg_list", "fn:CommandLineArgument::_parse",
                                                          "fn:CommandLineArgument::set_environment_variable"]),
            ("src/entry_point/config_file/mod.rs", ["fn:read_config_file", "fn:strip_comment", "fn:strip_whitespaces"]),
        ],
        "contracts": ["contracts/config.vc"],
    },
    "defaults": {
        "preludes": ["shims/core.rs", "shims/env.rs", "shims/defaults.rs"],
        "specs": [],
        "sources": [
            SYMBOL_SRC,
            ("src/entry_point/mod.rs", ["struct:Config", "consts:Config", "fn:set_default_values"]),
        ],
        "contracts": ["contracts/defaults.vc"],
    },
    # property C12: the start-up code with the process environment threaded through as ghost state (rwsx rule R-WORLD)
    "settings": {
        "preludes": ["shims/core.rs", "shims/bytes.rs", "shims/config.rs", "shims/world.rs"],
        "specs": ["contracts/spec/config.rs", "contracts/spec/settings_tbl.rs", "contracts/spec/settings.rs", "contracts/spec/settings_toml.rs"],
        "world": ["rws_env_var", "rws_env_set_var", "set_default_values", "bootstrap", "read_system_environment_variables",
                  "override_environment_variables_from_config", "override_environment_variables_from_command_line_args", "read_config_file",
                  "CommandLineArgument::_parse", "CommandLineArgument::set_environment_variable", "get_ip_port_thread_count", "get_request_allocation_size",
                  "Server::setup"],
        "sources": [
            SYMBOL_SRC,
            ("src/entry_point/mod.rs", ["struct:Config", "consts:Config", "fn:bootstrap", "fn:set_default_values", "fn:get_ip_port_thread_count", "fn:get_request_allocation_size"]),
            ("src/entry_point/environment_variables/mod.rs", ["fn:read_system_environment_variables"]),
            ("src/entry_point/command_line_args/mod.rs", ["struct:CommandLineArgument", "fn:override_environment_variables_from_command_line_args",
                                                          "fn:CommandLineArgument::get_command_line_arg_list", "fn:CommandLineArgument::_parse",
                                                          "fn:CommandLineArgument::set_environment_variable"]),
            ("src/entry_point/config_file/mod.rs", ["fn:read_config_file", "fn:strip_comment", "fn:strip_whitespaces", "fn:override_environment_variables_from_config"]),
            ("src/log/mod.rs", ["struct:Log", "fn:Log::info:assume", "fn:Log::usage_information:assume", "fn:Log::server_url_thread_count:assume"]),
            ("src/server/mod.rs", ["struct:Server", "fn:Server::setup"]),
        ],
        "contracts": ["contracts/settings.vc"],
    },
    "urlpath": {
        "preludes": ["shims/core.rs", "shims/bytes.rs", "shims/strslice.rs", "shims/urlpath.rs"],
        "specs": ["contracts/spec/urlpath.rs"],
        "sources": [
            SYMBOL_SRC,
            ("src/url/path/mod.rs", ["struct:UrlPath", "struct:Part", "fn:UrlPath::extract_parts_from_pattern", "fn:UrlPath::is_matching", "fn:UrlPath::build", "fn:UrlPath::extract"]),
        ],
        "contracts": ["contracts/urlpath.vc"],
    },
}
for k, v in UNITS.items():
    v["name"] = k

SAFETY_KINDS = ("precondition", "arithmetic-overflow", "division-by-zero", "index-bounds", "termination", "shift-overflow", "panic")
CONTAINMENT_WORDS = ("fs_allowed", "rel_inside", "harmless_suffix", "under_root", "has_dotdot_seg", "resolves_a_served_link", "dir_part(", "link_target(")


def is_safety(f):
    """A failed obligation about the code's own safety (a callee's precondition, overflow, bounds, termination, panic).
    The precondition of a PROOF lemma (`lemma_*`, `theorem_*`, `axiom_*` called from a proof block) is a step of a functional
    argument, not a safety obligation of the code: it is owned like an assertion."""
    if f.kind not in SAFETY_KINDS:
        return False
    if f.kind == "precondition" and "@" in f.snippet:
        callee = f.snippet.rsplit("@", 1)[1].strip()
        if re.match(r"(lemma_|theorem_|axiom_)", callee):
            return False
    return True


def owner(unit, f):
    """Which property a failing obligation of a SHARED unit is reported under (None: every property using the unit).
    Every failure has exactly one owner or is reported by all users - nothing is dropped."""
    # the wire names pinned in contracts/spec/names_*.rs (failures there are located outside the extracted code)
    if f.fn.startswith("<outside") and ('@=="' in f.snippet.replace(" ", "") or ".status_code==" in f.snippet.replace(" ", "")):
        if unit == "cors":
            return ("C11", "C09")
        if unit == "header_list":
            return "C10"
        if unit == "response_gen":
            return ("C05", "C03", "C15")
        if unit == "response_parse":
            return "C15"
        if unit == "server":
            return "C05"
        if unit == "request_parse":
            return "C14"
    # case-insensitive header lookup: C14 states it; the CORS decision (Origin, Access-Control-Request-*) and the Range header rest on it
    if f.fn == "Request::get_header" and not is_safety(f):
        return ("C14", "C11", "C09", "C03")
    if f.fn.startswith("URL::is_path_inside_root") and f.kind == "postcondition" and f.snippet.replace(" ", "").startswith("inside(path@)==>res"):
        return "C02"        # the guard refuses a path that stays inside: files are not served (C02), containment (C01) is intact
    # a call of a function that creates / deletes / alters files (declared `requires false`): C13, whatever the unit
    if f.kind == "precondition" and f.snippet.startswith("false@"):
        return "C13"
    # the fixed file names of the built-in endpoints (index.html, style.css, ...) are plain names: an absolute or climbing name leaves
    # the served directory (C01) and also makes the endpoint serve something other than the tree's own file (C02)
    if "plain_name(" in f.snippet:
        return ("C01", "C02")
    if any(w in f.snippet for w in CONTAINMENT_WORDS) or f.fn.startswith("URL::is_path_inside_root"):
        return "C01"
    if unit == "static":
        if f.kind == "precondition" and f.snippet.startswith("false@"):
            return "C13"
        if f.fn in ("StaticResourceController::is_matching", "StaticResourceController::is_matching_request") and f.kind == "postcondition":
            return ("C09", "C02")
        if f.fn == "URL::parse_request_target":
            return ("C04", "C02")
        if "static_status" in f.snippet:
            return ("C09", "C03", "C02")
        if "effective_range" in f.snippet:
            return ("C03", "C09")
        if "range_error_kept" in f.snippet:
            return ("C03", "C05", "C02")      # an error of the range pipeline (416) must not be swallowed on the way out of the lookup
        if "error_status_kept" in f.snippet:
            return ("C03", "C05", "C02")
        if is_safety(f):
            return "C04"
        # the controller keeps the header frame and a registered status (C10 / C05 / C04); everything else functional is C02
        if "frame_status" in f.snippet or "err_registered" in f.snippet:
            return "C05"
        return ("C10", "C05") if "frame_headers" in f.snippet or "frame_ok" in f.snippet else "C02"
    if unit == "mime":
        return "C04" if is_safety(f) else "C02"
    if unit == "range_parse":
        # a panic in the range parser is both a crash of the server (C04) and a parser that does not report an error (C20);
        # the whole-file clauses are what C02 needs from it
        if is_safety(f):
            return ("C04", "C20")
        sn = f.snippet.replace(" ", "")
        return ("C03", "C02") if ("s_bytes0" in sn or "num(a)==0" in sn or "part_ok" in sn) else "C03"
    if unit == "response_gen":
        if f.fn == "Response::generate":
            return "C15"
        if is_safety(f):
            return ("C04", "C05")
        # the serialiser: status line, framing headers, Content-Length, the parts and what HEAD / OPTIONS get
        return ("C05", "C03", "C09", "C15", "C02", "C04")
    if unit == "multipart":
        return ("C20", "C04") if is_safety(f) else "C16"
    if f.kind == "precondition" and f.snippet.startswith("false@"):
        return "C13"
    if f.fn == "StringExt::truncate_new_line_carriage_return" and not is_safety(f):
        return ("C14", "C05", "C10", "C15", "C16")       # shared by the request, response and multipart header readers
    if "count_name" in f.snippet or "c10_names" in f.snippet or "not_a_grant_name" in f.snippet:
        return "C10"
    if unit == "defaults":
        return "C11"
    if unit == "cors":
        # which grants a request gets (C11) and that a preflight gets them (C09); panics are C04
        return "C04" if is_safety(f) else ("C11", "C09", "C10")   # C10: the grants must not add a second Vary / hardening header
    if unit == "header_list":
        return "C04" if is_safety(f) else ("C10", "C05")
    if unit == "request_parse":
        # what the request parser hands on: header values without CR / LF feed the echoed CORS headers and so the response head
        if is_safety(f):
            return ("C04", "C20", "C14")
        if f.fn == "StringExt::truncate_new_line_carriage_return" or "no_crlf" in f.snippet:
            return ("C14", "C05", "C10")
        return "C14"
    if unit in ("app", "controllers", "forms", "server", "log"):
        sn = f.snippet.replace(" ", "")
        # the accessors of a parsed request and the url-encoded body reader are library entry points (C20) that the server uses (C04)
        if unit == "forms" and (f.fn.startswith("Request::get_") or f.fn == "FormUrlEncoded::parse"):
            return ("C04", "C20")
        # which target / method a built-in endpoint claims: the lookup (C02) and its independence of GET / HEAD / OPTIONS (C09)
        if f.kind == "postcondition" and (f.fn.endswith("::is_matching") or f.fn.endswith("::is_matching_request")):
            return ("C09", "C02")
        if "serves_whole" in sn or "static_match" in sn or "not_builtin" in sn or "static_status" in sn:
            return ("C02", "C09")
        if is_safety(f):
            return ("C04", "C20") if unit == "forms" else "C04"
        if "forwards_unchanged" in sn:
            return ("C10", "C05", "C03", "C02", "C09", "C11", "C04")
        if "frame_status" in sn:
            return "C05"
        if "frame_headers" in sn or "frame_ok" in sn or "std_headers" in sn or "fixed_headers" in sn:
            return ("C10", "C05")
        if "delivered_in_full" in sn or "one_response" in sn:
            return ("C05", "C04", "C02", "C03")
        if "is_bad_request" in sn or "one_bad_request" in sn:
            return ("C05", "C04", "C10")       # the 400 answer: one complete response that carries the fixed headers
        if "registered(" in sn or "response_bytes" in sn or "status_code==404" in sn:
            return ("C05", "C04")
    return None


def counts_for(pid):
    def flt(unit, f):
        o = owner(unit, f)
        return o is None or o == pid or (isinstance(o, tuple) and pid in o)
    return flt


PROPS = {
    "C15": {
        "units": ["response_gen", "response_parse"],
        "level": "proof",
        "falsifier": ["parsers", "response"],
        "always_explore": ["parsers"],
        "case_prefixes": ["c15_", "generate_response"],
        "known_cases": ["c15_generate_differs"],
        "counts": counts_for("C15"),
        "samples": [
            "Response::_parse_http_version_status_code_reason_phrase_string / postcondition / res.is_ok() <==> status_line_ok(line)  (registered code, its phrase up to case, supported version)",
            "Response::generate / postcondition / res@ == response_bytes(.., GET)  - the SAME specification Response::generate_response is proved against (known finding F10)",
            "Response::parse / termination + panic freedom for every input of at most 2 GiB",
            "Response::parse_raw_response_via_cursor / postcondition / behaves as resp_read(cursor, iteration, response) on the single-body path",
            "theorem_response_roundtrip_single / resp_read(response_bytes(v, code, reason, hs, [p], GET), 0, empty) == Done(true, {v, code, reason, hs ++ framing([p]), [part with p's body and media type]}, empty)",
            "Range::parse_multipart_body_with_boundary / postcondition / behaves as mp_read (one mp_step per part: boundary line, Content-Type line, Content-Range line, blank line, body lines up to a line holding the boundary, two bytes popped)",
            "theorem_response_roundtrip_multi / resp_read(response_bytes(v, code, reason, hs, parts, GET), ..) == Done(true, {v, code, reason, hs ++ [Content-Type: multipart/byteranges; boundary=String_separator], the same parts in order}, empty)",
        ],
        "assumptions": ["single-body round trip: PROVED (theorem_response_roundtrip_single; domain: registered status with its exact phrase, version word of the supported list, headers without CR / LF whose names hold no ': ', do not end in ':' and are not 'Content-Type', part media type without CR / LF that does not start with multipart/byteranges; arbitrary body bytes)",
                        "multipart/byteranges round trip (2 or more parts): PROVED (theorem_response_roundtrip_multi; domain per part: media type non-empty, without CR / LF or white space at the ends and not holding the boundary text; first <= last <= size <= i64::MAX with the size written as a decimal number; no line of the body (as the reader splits it at LF) that is valid UTF-8 holds the text 'String_separator'; arbitrary bytes otherwise)",
                        "stated on the bytes rather than derived: the UTF-8 bytes of the status line, of each header line and of each part header line hold no 0x0A",
                        "assumed std contracts used by the theorems (conformance-tested): str::split / split_once / trim / to_lowercase on text without upper-case letters / parse::<i64> / to_string == decimal, String::from_utf8, Cursor::read_until / read_to_end; UTF-8 encode / decode facts are vstd's proved lemmas",
                        "Response::parse requires input of at most i32::MAX bytes (its byte counters are i32)"],
    },
    "C02": {
        "units": ["static", "range_parse", "mime", "app", "controllers", "response_gen", "server", "forms"],
        "level": "proof",
        "falsifier": ["statics"],
        "case_prefixes": ["c02_"],
        "known_cases": ["c02_fragment_before_query"],   # known finding (dependency): known_findings.txt
        "counts": counts_for("C02"),
        "samples": [
            "StaticResourceController::is_matching / postcondition / res == static_match(method, target): the documented lookup (file, else directory index, else .html) on the path of the parsed target",
            "StaticResourceController::process / postcondition / in the C02 domain without a Range header: 200 and exactly one part = all bytes of the selected file, size label, media type of that file",
            "Range::get_content_range_list / postcondition / which file is read: served directory ++ path of the target",
            "Range::parse_content_range / postcondition / every part is the requested slice of the file; the implicit request bytes=0- always yields one part starting at 0 that reaches the end",
            "MimeType::detect_mime_type / postcondition / mime_listed(name) ==> res@ == mime_of(name): the 76-row registry table (names no row speaks about are unconstrained, so appending a new row is not a violation); lemma_mime_registry_1..9: the value of every suffix / type constant",
            "App::execute / postcondition / a GET / HEAD that no built-in endpoint claims goes to the static lookup (200 + whole file) or to the not-found page (404; 500 only if a custom 404.html exists and cannot be read)",
        ],
        "assumptions": [
            "domain (c02_domain): the target parses; its path starts with '/', has no '..' SEGMENT and holds no '#' (a '#' before the first '?' stays in the path - known finding in the dependency - and would be cut off when the controller re-parses path ++ suffix); the selected file is a regular readable file that is not itself a symbolic link (for a link the resolved target is read; nothing is proved about it)",
            "file system: quiescent during the request; metadata().len() is the content length; reading an openable regular file succeeds; lstat succeeds on an existing path (shims/fs.rs)",
            "url-build-parse dependency: deterministic; a target that starts with '/' and holds neither '?' nor '#' is its own path (axiom_url_plain_path, read off the dependency's source, conformance-tested); that query strings / fragments are cut off is the dependency's behaviour and only assumed in this form",
            "std::path::Path::extension as specified by ext_of (conformance-tested)",
            "the bytes on the wire (status line, Content-Type, Content-Length, body) are Response::generate_response's proved postcondition (C05 / C15); Server::process_request hands App::execute's response to it (C04 unit server)",
            "Range requests are C03; HEAD / OPTIONS are C09",
        ],
    },
    "C16": {
        "units": ["multipart"],
        "level": "proof",
        "falsifier": ["mpform"],
        "case_prefixes": ["c16_"],
        "counts": counts_for("C16"),
        "samples": [
            "FormMultipartData::parse_form_part_recursively / postcondition / the result is parse_rec(rest of the input, boundary bytes, first call?, parts so far) - the line-by-line reader as a recursive spec function",
            "FormMultipartData::generate / postcondition / res@ == gen_spec(parts, boundary bytes); Err exactly for an empty list or a part without headers",
            "theorem_multipart_roundtrip / parse_spec(gen_spec(ps, b), b) == Some(ps) for every non-empty list of well-formed parts and every boundary that does not occur in a header line or a body",
            "theorem_multipart_no_opening_boundary, theorem_multipart_no_closing_boundary, theorem_multipart_parts_have_headers / rejection clauses over parse_spec",
        ],
        "assumptions": [
            "round-trip domain (the theorem's preconditions): at least one part; every part has at least one header; header names and values are non-empty, hold no ASCII control character, no white space at either end, names hold no ':'; the boundary is non-empty and holds no CR / LF; the boundary bytes occur neither in a header line 'name: value' nor in a body. Bodies are arbitrary byte strings (any length, any bytes).",
            "stated on the bytes rather than derived: the UTF-8 bytes of a header line hold no 0x0A (follows from 'no control character' for real UTF-8)",
            "StringExt::filter_ascii_control_characters is assumed to be trim(remove ASCII control characters) (its closure argument is outside the extractor's subset); conformance-tested in the thorough tier",
            "str::trim / split_once / String::from_utf8 / Cursor::read_until are the assumed std contracts of shims/core.rs and shims/cursor.rs; UTF-8 encode/decode facts are vstd's PROVED lemmas (vstd::utf8)",
            "the boundary parameter as browsers send it (Content-Type: ...; boundary=X with '--X' / '--X--' delimiter lines): is_delim accepts these forms (proved postcondition of is_delimiter); FormMultipartData::extract_boundary is proved to return everything after the first 'boundary=' verbatim (a quoted or parameter-followed boundary is therefore returned with its quotes / parameters)",
            "the echo controller /form-multipart-enctype-post-method is proved panic-free and frame-preserving (unit forms); the TEXT it echoes is not specified",
        ],
    },
    "C20": {
        "units": ["response_parse", "range_parse", "base64_decode", "request_parse", "multipart", "json_array", "json_object", "urlpath", "config", "forms"],
        "level": "proof",
        "falsifier": ["parsers", "range", "stack"],
        "always_explore": ["parsers", "stack"],
        "case_prefixes": ["c20_", "panic"],
        "known_cases": ["c20_stack_request", "c20_stack_response", "c20_stack_multipart", "c20_stack_byteranges"],   # known findings: known_findings.txt
        "counts": counts_for("C20"),
        "samples": [
            "Response::parse_raw_response_via_cursor / termination / decreases rem(old(cursor)).len()",
            "Range::parse_multipart_body_with_boundary / termination + no overflow / decreases rem(old(cursor)).len(); loop: rem(cursor).len() + (is_not_boundary ? 1 : 0)",
            "Base64::decode / every input returns Ok or Err (functional contract proved)",
            "JSON::parse_as_properties / termination of the 7 nested scanner loops (measure: bytes left in the cursor), no overflow of the i32 bracket counters, key_value_pair never empty at chars().last().unwrap()",
            "RawUnprocessedJSONArray::split_into_vector_of_strings / termination of 9 loops + postcondition items_ok (every item non-blank, a quoted item has 2+ characters) which JSONArrayOfStrings::parse_as_list_string needs for its slicing string[1..len-1]",
            "read_config_file / precondition of std::env::set_var (key non-empty without '=' / NUL: proved for the 11 setting names; value without NUL: carried from the per-line check through strip_comment, the replace chain, split_once and join) - requires a NUL-free `prefix` argument",
            "UrlPath::extract_parts_from_pattern / postcondition / parts_ok(res): tokens and static texts alternate, static texts are non-empty, tokens have a name",
        ],
        "assumptions": ["entry points NOT under contract (listed so that the claim is not read as complete; explored by the `parsers` routine on every run): JSONArrayOfObjects::from_json / JSONArrayOfNulls (they go through user-implemented traits). All four UrlPath functions, the configuration reader and the request accessors ARE under contract",
                        "JSON scanners (JSON::parse_as_properties, RawUnprocessedJSONArray::split_into_vector_of_strings, the typed list readers): totality is proved for inputs below 2 GiB (i32 bracket counters); std::io::Cursor::read_exact / read_until, char::is_numeric / is_ascii_control / is_whitespace, <T as FromStr> are assumed std contracts",
                        "termination is proved; STACK DEPTH is not expressible in a contract: Request::parse, Response::parse, FormMultipartData::parse and the multipart/byteranges reader recurse once per line / per part and overflow a 2 MiB thread stack for inputs of 0.2 - 1 MB (known findings, reproduced on every run by the `stack` routine in child processes)"],
    },
    "C01": {
        "units": ["static", "controllers", "range_parse"],
        "level": "proof",
        "falsifier": ["e2e"],
        "case_prefixes": ["c01_"],
        "counts": counts_for("C01"),
        "samples": [
            "StaticResourceController::is_matching / precondition / fs_allowed(path.pview()) @ rws_metadata(&static_filepath)",
            "Range::get_content_range_list / precondition / fs_allowed(filepath@) @ Range::parse_content_range(&path, ..)",
            "URL::is_path_inside_root / postcondition / res == inside(path@): starts with '/' and no segment is '..' (two dots inside a name are fine); inside(p) ==> rel_inside(p)",
        ],
        "assumptions": [
            "fs_allowed(path) := path == cwd ++ rel with rel starting with '/' and holding no '..' segment, or the resolution of a symbolic link found under the root (the property's exemption)",
            "nothing is assumed about the path the url-build-parse dependency returns: every path handed to a file-system shim is checked by the code itself",
            "every controller (both entry points) is under contract; IndexController / NotFoundController read the fixed names index.html / 404.html (plain names, resolved against the served directory)",
        ],
    },
    "C13": {
        "units": ["static", "controllers", "forms", "server", "app", "log", "multipart", "range_parse", "request_parse", "response_gen", "cors", "header_list", "mime"],
        "level": "other",
        "falsifier": ["fswatch"],
        "case_prefixes": ["c13_"],
        "counts": counts_for("C13"),
        "explanation": "Effect precondition: every mutating function of file_ext (write_file, create_file, delete_file, read_or_create_and_write, create_directory, delete_directory, create_symlink, copy_file) and the std::fs mutators write, remove_file, remove_dir, remove_dir_all, create_dir, create_dir_all, rename, copy and File::create (shims/core.rs) are declared with `requires false`; Verus proves that none of the functions under contract in the 13 units on the request path (every controller through both entry points, Server::process / process_request, App, the range pipeline, request parser, serialisers, CORS, header list, media types, Log) can call one. Adding such a call to any of them fails a named obligation `precondition false@<callee>`. Code on the request path that is NOT under contract (ThreadPool workers, TcpListener accept loop in Server::run, the url-build-parse dependency) is not covered; level is `other`, not proof of the whole-program property.",
        "samples": ["FileExt::write_file / precondition / false  (no call site exists in any function under contract)"],
        "assumptions": ["std::fs::OpenOptions and every other std API that can write to the file system and is not one of the nine std::fs mutators declared `requires false` in shims/core.rs has no declaration in the shims at all: a call to one is an unsupported construct (exit 2, undecided), not a silent pass", "the `requires false` declarations carry no postcondition and are never assumed anywhere: they can only fail an obligation, never discharge one (no function under contract reaches them on the unchanged tree)"],
    },
    "C09": {
        "units": ["static", "response_gen", "cors", "controllers", "app", "forms"],
        "level": "proof",
        "falsifier": ["e2e", "response", "cors", "ranges"],
        "case_prefixes": ["c09_", "generate_response", "get_headers", "_process"],
        "counts": counts_for("C09"),
        "samples": [
            "StaticResourceController::is_matching / postcondition / res == static_match(method, uri)  + lemma: static_match does not depend on which of GET/HEAD/OPTIONS asks",
            "Response::generate_response / postcondition / head computed from the response alone; body dropped for HEAD/OPTIONS after Content-Length was computed from it",
            "Cors::allow_all / postcondition / preflight grants on OPTIONS",
        ],
        "assumptions": ["StaticResourceController::process: the status of a successful answer is proved to depend on the method and the presence of a Range header only (OPTIONS 204, Range 206, else 200) and the parts come from process_static_resources, which does not look at the method"],
    },
    "C14": {
        "units": ["request_parse", "request_gen"],
        "level": "proof",
        "falsifier": ["request"],
        "samples": [
            "Request::parse_method_and_request_uri_and_http_version_string / postcondition / res.is_ok() <==> request_line_ok(line)",
            "Request::get_header / postcondition / first header whose name matches up to letter case",
            "Request::parse_http_request_header_string / postcondition / hv(res) == header_of_line(line)  (value = everything after the first ': ')",
            "Request::generate / postcondition / res@ == utf8_bytes(request_head(..)) + body",
            "Request::cursor_read / postcondition / (Ok?, request afterwards, cursor afterwards) == req_read(cursor, iteration, request before): the recursive line reader as a spec function; Request::parse == parse_request_spec",
            "theorem_request_accept_iff / parsing succeeds exactly when the first line is valid UTF-8 and a well-formed request line",
            "theorem_request_roundtrip / parse_request_spec(utf8(request_head(m, u, v, hs)) ++ body) == Some(m, u, v, hs, body) for every well-formed request",
        ],
        "assumptions": [
            "round-trip domain (the theorem's preconditions): method, target and version are non-empty words without space / CR / LF that start and end with a non-blank character, method and version are registered (up to letter case); header names and values hold no CR / LF, names hold no ': ' and do not end in ':'; any number of headers; the body is an arbitrary byte string",
            "stated on the bytes rather than derived: the UTF-8 bytes of the request line and of each header line hold no 0x0A (follows from 'no LF character' for real UTF-8)",
            "the request line is rejected as a whole only on the FIRST line: a later line that is not UTF-8 ends the header section (the reader swallows that error and reads the rest as body) - this is what req_read says and the code does",
            "str::trim / split_once / String::from_utf8 / Cursor::read_until / read_to_end as assumed in shims (conformance-tested); UTF-8 facts are vstd's proved lemmas",
        ],
    },
    "C04": {
        "units": ["server", "request_parse", "range_parse", "static", "app", "controllers", "log", "forms", "multipart", "cors", "header_list", "response_gen", "mime"],
        "level": "proof",
        "falsifier": ["e2e"],
        "case_prefixes": ["c04_"],
        "counts": counts_for("C04"),
        "samples": ["Server::process / every unwrap, index, cast and arithmetic operation / panic-freedom for an arbitrary transport and Application",
                    "Request::cursor_read / termination / decreases rem(old(cursor)).len()"],
        "assumptions": ["stack depth of the per-header recursion in Request::cursor_read is not expressible (termination is proved, a stack bound is not): with the default 10000-byte request buffer the depth stays below 5000 frames, which fits the 2 MiB worker stack in optimised builds (probed on every C20 run: case c20_stack_request_within_default_buffer must not fire; an unoptimised debug build overflows at about 2000 header lines); a configured buffer of 40 KB or more makes the overflow reachable from the network (known finding listed under C20)",
                        "the url-build-parse dependency is NOT total: parse_url unwraps a failed port number. Its shim carries the precondition dep_url_safe (the text of the target before its first '/' holds no ':'), which URL::parse_request_target establishes and every other caller proves; read off the dependency's source and conformance-tested both ways (no panic inside, the documented panic outside). url-search-params and the file-ext functions on the request path were read and are total",
                        "CONFIGURATION assumption: get_request_allocation_size() is assumed to return 0..=usize::MAX; an operator who configures a NEGATIVE request buffer size makes every connection panic at the buffer allocation (outside this property's quantifier - client bytes and handlers -, inside C12, which is not claimed)",
                        "C10 - C04 interplay: Server::process is generic in the Application; what is proved is that it forwards the application's response unchanged and that the default App produces the header frame"],
    },
    "C10": {
        "units": ["header_list", "cors", "server", "app", "controllers", "forms", "static", "response_gen", "request_parse"],
        "level": "proof",
        "falsifier": ["e2e"],
        "case_prefixes": ["c10_"],
        "samples": [
            "Header::get_header_list / postcondition / exists now: hvs(res@) == cors_headers_expected(*request) + fixed_headers(now)",
            "Server::bad_request_response / postcondition / is_bad_request(res@, message@)  (the 400 answer serialises exactly fixed_headers)",
            "theorem_c10_exactly_once / for every header list of the proved shape std_headers and each of X-Content-Type-Options, X-Frame-Options, Cache-Control, Accept-Ranges, Accept-CH, Critical-CH, Vary: count_name(hs, name) == 1",
        ],
        "assumptions": [],
    },
    "C05": {
        "units": ["response_gen", "server", "header_list", "cors", "request_parse", "app", "controllers", "forms", "static"],
        "level": "proof",
        "falsifier": ["response", "e2e"],
        "case_prefixes": ["c05_", "generate_response"],
        "samples": [
            "Response::generate_response / postcondition / res@ == response_bytes(...)  (status-line CRLF *(name ': ' value CRLF) CRLF body; Content-Length == dec(body.len()); no body for HEAD/OPTIONS)",
            "Server::process / assertion / one_response(sent0, stream.sent())  at every exit that follows a successful write_all (arbitrary Read+Write transport, arbitrary Application)",
        ],
        "assumptions": [
            "std::io::Write::write_all delivers the whole buffer or fails (trait contract in shims/io.rs)",
        ],
    },
    "C11": {
        "units": ["cors", "defaults"],
        "level": "proof",
        "falsifier": ["cors"],
        "samples": [
            "Cors::_process / postcondition / res.is_ok() && hvs(res.unwrap()@) == cors_expected(*request, *cors)",
            "Cors::process_using_default_config / postcondition / hvs(res.unwrap()@) == cors_env_expected(*request)  (membership in split(env ALLOW_ORIGINS, ','))",
            "Cors::get_headers / postcondition / hvs(res@) == cors_headers_expected(*request)  (no Origin header => no grants)",
        ],
        "assumptions": [
            "the process environment is what bootstrap() wrote (precedence of sources is property C12, decided by its own check over unit `settings`): grants are proved relative to the values env::var returns",
            "Request::get_header returns the first header matching up to letter case (assumed here, proved in unit request_parse)",
        ],
    },
    "C12": {
        "units": ["settings"],
        "level": "proof",
        "falsifier": ["settings"],
        "always_explore": ["settings"],
        "case_prefixes": ["c12_"],
        "samples": [
            "theorem_c12 / for every setting i: after set_default_values(); bootstrap() the environment holds effective(i) = command line value if any, else configuration file value if any, else the environment's value if any, else the documented default",
            "CommandLineArgument::_parse / postcondition / final(env) == apply_args(old(env), words)  (each word p=v whose p is a documented spelling sets that setting's variable, in order)",
            "read_config_file / postcondition / file_ok ==> final(env) == apply_args(old(env), file_args(lines, prefix)); otherwise Err and the environment untouched",
            "set_default_values / postcondition / defaults_applied(old(env), final(env))",
        ],
        "assumptions": [
            "the process environment is modelled as ghost state threaded through the start-up functions by the extractor (rule R-WORLD); nothing else writes it during start-up (single thread, before the pool exists)",
            "std::env::args / std::fs::read_to_string / BufRead::lines / FileExt::get_static_filepath: uninterpreted functions of the process and the file system (the theorem is relative to what they return)",
            "the table of settings (spellings, variables, defaults, TOML keys) is transcribed from the repository's documentation files",
        ],
    },
    "C03": {
        "units": ["range_parse", "response_gen", "static", "server"],
        "level": "proof",
        "falsifier": ["range", "response", "ranges"],
        "case_prefixes": ["range_ok", "accept", "is_416", "panic", "end<len", "generate_response", "c03_"],
        "counts": counts_for("C03"),
        "known_cases": ["end<len"],   # falsifier cases that are the known findings F2 (known_findings.txt)
        "samples": [
            "Range::parse_range_in_content_range / postcondition / res.is_ok() ==> range_ok(filelength, range_str@, res.unwrap())",
            "Range::parse_content_range / postcondition / forall j: part_ok(filepath, filelength, range_specs(raw)[j], res[j])",
            "Response::generate_response / postcondition / res@ == response_bytes(version, code, reason, headers, list, method)  (Content-Range: bytes s-e/size, Content-Length: dec(body.len()), multipart/byteranges parts in order)",
        ],
        "assumptions": [
            "FileExt::read_file_partially returns bytes [start, min(end+1, len)) of the named file (contract read off file-ext 12.1.0)",
            "file sizes are below u64::MAX (parse_content_range requires filelength < u64::MAX)",
        ],
    },
    "C18": {
        "units": ["base64_encode", "base64_decode"],
        "falsifier": "base64",
        "level": "proof",
        "kani": True,
        "samples": [
            "Base64::encode / postcondition / res.is_ok() && res.unwrap()@ == b64(bytes@)",
            "Base64::encode_sequence / postcondition / 1 <= bytes@.len() <= 3 ==> res.is_ok() && res.unwrap()@ == group(bytes@)",
        ],
        "assumptions": [],
    },
}


def _fn_modes():
    out = {}
    for un, u in UNITS.items():
        for _src, items in u["sources"]:
            for it in items:
                if it.startswith("fn:"):
                    body, mode = it[3:], "verify"
                    for m in ("assume", "verify", "plain"):
                        if body.endswith(":" + m):
                            mode, body = m, body[:-len(m) - 1]
                    out.setdefault(body, {}).setdefault(mode, []).append(un)
    return out


def proved_in(fn):
    """units in which the rws function fn is extracted WITH its body and verified against its contract"""
    return _fn_modes().get(fn, {}).get("verify", [])
