// rwsx — mechanical extractor for the rws verification units.
//
// Usage: rwsx <source.rs> <item-spec>...
//   item-spec:  fn:Type::name[:verify|assume|plain]   associated function (inherent or trait impl)
//               fn:name[:mode]                        free function
//               struct:Name | enum:Name               type definition (derives filtered)
//               const:NAME | const:Type::NAME         a constant
//               consts:Type                           every associated const of `impl Type`
//
// Output (stdout): a plain-Rust text (marker macros included) followed by a line
//   "//@@META " + JSON describing each emitted item: source lines, rule applications, markers.
// The Python driver formats the text, splices contracts at the markers, and hands it to Verus.
//
// The rewrite rules are the closed list of DESIGN.md section 3.2; every application is logged.
// A construct that no rule covers is left untouched (Verus then rejects it -> exit 2 in the driver).

use proc_macro2::{Span, TokenStream};
use quote::{format_ident, quote, ToTokens};
use std::collections::HashMap;
use syn::punctuated::Punctuated;
use syn::visit_mut::{self, VisitMut};
use syn::{parse_quote, Block, Expr, ExprMethodCall, ImplItem, Item, Stmt, Token};

#[derive(Clone, Debug)]
struct RuleApp {
    rule: &'static str,
    line: usize,
    detail: String,
}

struct Rw {
    rules: Vec<RuleApp>,
    loop_no: usize,
    tmp_no: usize,
    markers: Vec<String>,
    names: HashMap<String, usize>,
    ret_no: usize,
    in_closure: usize,
    fn_tag: String,
}

fn line_of(sp: Span) -> usize {
    sp.start().line
}

fn sanitize(s: &str, max: usize) -> String {
    let mut out = String::new();
    let mut last_us = true;
    for c in s.chars() {
        if c.is_ascii_alphanumeric() {
            out.push(c);
            last_us = false;
        } else if !last_us {
            out.push('_');
            last_us = true;
        }
        if out.len() >= max {
            break;
        }
    }
    while out.ends_with('_') {
        out.pop();
    }
    out
}

const PRINT_MACROS: [&str; 4] = ["println", "eprintln", "print", "eprint"];

// method -> renamed shim method (dispatch by shim trait on the receiver type)
const SHIM_METHODS: [&str; 36] = [
    "len", "read_until", "read_to_end", "read_exact",
    "to_string", "join", "trim", "parse", "replace", "to_lowercase", "to_uppercase", "starts_with",
    "ends_with", "contains", "split_once", "to_vec", "concat", "borrow", "eq", "as_ref", "as_bytes",
    "as_str", "extend", "copied", "strip_prefix", "strip_suffix", "trim_matches", "lines", "find",
    "rfind", "is_char_boundary", "to_owned", "into_bytes", "chars_unsupported", "replacen", "remove",
];

// path calls renamed to free shim functions
const SHIM_PATHS: [(&str, &str); 16] = [
    ("metadata", "rws_metadata"),
    ("File::open", "rws_file_open"),
    ("IpAddr::from_str", "rws_ipaddr_from_str"),
    ("SocketAddr::new", "rws_socketaddr_new"),
    ("env::var", "rws_env_var"),
    ("env::set_var", "rws_env_set_var"),
    ("env::current_dir", "rws_env_current_dir"),
    ("String::from_utf8", "rws_string_from_utf8"),
    ("String::from_utf8_lossy", "rws_string_from_utf8_lossy"),
    ("Vec::from", "rws_vec_from"),
    ("io::Cursor::new", "rws_cursor_new"),
    ("Cursor::new", "rws_cursor_new"),
    ("String::from", "rws_string_from"),
    ("env::args", "rws_env_args"),
    ("std::fs::read_to_string", "rws_fs_read_to_string"),
    ("TcpListener::bind", "rws_tcp_bind"),
];

// R-WORLD: the functions that read or write the process environment (the one piece of global state of the start-up code) get
// one more parameter, the ghost world `rws_w: &mut Ghost<RwsWorld>`, and every call of such a function passes it on.  The list
// of function names comes from the unit definition (RWSX_WORLD, comma separated); nothing else about the functions changes.
fn world_list() -> Vec<String> {
    match std::env::var("RWSX_WORLD") {
        Ok(v) => v.split(',').map(|x| x.trim().to_string()).filter(|x| !x.is_empty()).collect(),
        Err(_) => vec![],
    }
}
fn in_world(name: &str) -> bool {
    world_list().iter().any(|w| w == name || name.ends_with(&format!("::{}", w)))
}

impl Rw {
    fn new(fn_tag: &str) -> Self {
        Rw {
            rules: vec![],
            loop_no: 0,
            tmp_no: 0,
            markers: vec![],
            names: HashMap::new(),
            ret_no: 0,
            in_closure: 0,
            fn_tag: fn_tag.to_string(),
        }
    }
    fn log(&mut self, rule: &'static str, sp: Span, detail: impl Into<String>) {
        self.rules.push(RuleApp { rule, line: line_of(sp), detail: detail.into() });
    }
    fn alloc(&mut self, base: &str) -> usize {
        let n = self.names.entry(base.to_string()).or_insert(0);
        *n += 1;
        *n
    }
    fn marker(&mut self, prefix: &str, base: &str, n: usize) -> Stmt {
        let name = format!("{}_{}_{}", prefix, base, n);
        self.markers.push(name.clone());
        let id = format_ident!("{}", name);
        parse_quote! { __rws_pt!(#id); }
    }
    fn next_loop(&mut self) -> usize {
        self.loop_no += 1;
        self.loop_no
    }
    fn loop_marker(&mut self, k: usize) -> Stmt {
        let lit = proc_macro2::Literal::usize_unsuffixed(k);
        parse_quote! { __rws_loop!(#lit); }
    }

    fn stmt_base(&self, s: &Stmt) -> String {
        match s {
            Stmt::Local(l) => {
                let mut ids = vec![];
                collect_pat_idents(&l.pat, &mut ids);
                format!("let_{}", sanitize(&ids.join("_"), 48))
            }
            Stmt::Expr(e, _) => match e {
                Expr::If(_) => "if".to_string(),
                Expr::While(_) => "while".to_string(),
                Expr::ForLoop(_) => "for".to_string(),
                Expr::Loop(_) => "loop".to_string(),
                Expr::Match(_) => "match".to_string(),
                Expr::Return(r) => match &r.expr {
                    Some(x) => format!("return_{}", sanitize(&x.to_token_stream().to_string(), 40)),
                    None => "return".to_string(),
                },
                Expr::Block(_) => "block".to_string(),
                Expr::Assign(a) => format!("set_{}", sanitize(&a.left.to_token_stream().to_string(), 40)),
                other => format!("do_{}", sanitize(&other.to_token_stream().to_string(), 40)),
            },
            Stmt::Macro(m) => {
                format!("mac_{}", sanitize(&m.mac.path.to_token_stream().to_string(), 30))
            }
            Stmt::Item(_) => "item".to_string(),
        }
    }

    // R-PRINT
    fn rewrite_print(&mut self, mac: &syn::Macro) -> Option<Expr> {
        let name = mac.path.segments.last()?.ident.to_string();
        if !PRINT_MACROS.contains(&name.as_str()) {
            return None;
        }
        let args: Punctuated<Expr, Token![,]> =
            mac.parse_body_with(Punctuated::parse_terminated).ok()?;
        let mut stmts: Vec<Stmt> = vec![];
        for (i, a) in args.iter().enumerate() {
            if i == 0 {
                continue;
            }
            let mut a = a.clone();
            self.visit_expr_mut(&mut a);
            stmts.push(parse_quote! { let _ = &(#a); });
        }
        self.log("R-PRINT", mac.path.segments[0].ident.span(), format!("{}! with {} evaluated argument(s)", name, stmts.len()));
        Some(parse_quote! { { #(#stmts)* } })
    }

    // R-FMT / R-FMT-OPAQUE
    fn rewrite_format(&mut self, mac: &syn::Macro) -> Option<Expr> {
        let name = mac.path.segments.last()?.ident.to_string();
        if name != "format" {
            return None;
        }
        let args: Punctuated<Expr, Token![,]> =
            mac.parse_body_with(Punctuated::parse_terminated).ok()?;
        let mut it = args.iter();
        let first = it.next()?;
        let fmt = match first {
            Expr::Lit(syn::ExprLit { lit: syn::Lit::Str(s), .. }) => s.value(),
            _ => return None,
        };
        let rest: Vec<Expr> = it.cloned().collect();
        // split the format string at "{}" only; anything else inside braces is opaque
        let mut pieces: Vec<String> = vec![];
        let mut cur = String::new();
        let mut simple = true;
        let mut holes = 0usize;
        let cs: Vec<char> = fmt.chars().collect();
        let mut i = 0;
        while i < cs.len() {
            if cs[i] == '{' {
                if i + 1 < cs.len() && cs[i + 1] == '{' {
                    cur.push('{');
                    i += 2;
                    continue;
                }
                if i + 1 < cs.len() && cs[i + 1] == '}' {
                    pieces.push(std::mem::take(&mut cur));
                    holes += 1;
                    i += 2;
                    continue;
                }
                simple = false;
                break;
            }
            if cs[i] == '}' {
                if i + 1 < cs.len() && cs[i + 1] == '}' {
                    cur.push('}');
                    i += 2;
                    continue;
                }
                simple = false;
                break;
            }
            cur.push(cs[i]);
            i += 1;
        }
        pieces.push(cur);
        let sp = mac.path.segments[0].ident.span();
        if !simple || holes != rest.len() {
            let mut stmts: Vec<Stmt> = vec![];
            for a in rest.iter() {
                let mut a = a.clone();
                self.visit_expr_mut(&mut a);
                stmts.push(parse_quote! { let _ = &(#a); });
            }
            self.log("R-FMT-OPAQUE", sp, format!("format!({:?}, ..): content of the string dropped", fmt));
            return Some(parse_quote! { { #(#stmts)* rws_fmt_opaque() } });
        }
        let mut parts: Vec<Expr> = vec![];
        for (k, p) in pieces.iter().enumerate() {
            if !p.is_empty() {
                let lit = syn::LitStr::new(p, sp);
                parts.push(parse_quote! { (#lit).rws_disp() });
            }
            if k < rest.len() {
                let mut a = rest[k].clone();
                self.visit_expr_mut(&mut a);
                parts.push(parse_quote! { (#a).rws_disp() });
            }
        }
        self.log("R-FMT", sp, format!("format!({:?}, ..) -> rws_concat of {} part(s)", fmt, parts.len()));
        Some(parse_quote! { rws_concat(vec![ #(#parts),* ]) })
    }

    fn is_method(e: &Expr, name: &str, nargs: usize) -> Option<ExprMethodCall> {
        if let Expr::MethodCall(m) = e {
            if m.method == name && m.args.len() == nargs {
                return Some(m.clone());
            }
        }
        None
    }

    // chains of iterator adapters with a direct shim
    fn rewrite_chain(&mut self, m: &ExprMethodCall) -> Option<Expr> {
        let sp = m.method.span();
        let name = m.method.to_string();
        let recv = &*m.receiver;
        // X.chars().nth(i) / .count() / .last()
        if let Some(inner) = Self::is_method(recv, "chars", 0) {
            let x = &inner.receiver;
            let new = match (name.as_str(), m.args.len()) {
                ("nth", 1) => {
                    let a = &m.args[0];
                    Some(quote! { (#x).rws_chars_nth(#a) })
                }
                ("count", 0) => Some(quote! { (#x).rws_chars_count() }),
                ("last", 0) => Some(quote! { (#x).rws_chars_last() }),
                _ => None,
            };
            if let Some(ts) = new {
                self.log("R-SHIM", sp, format!(".chars().{}() -> rws_chars_{}", name, name));
                return syn::parse2(ts).ok();
            }
        }
        // R-CTLFILTER: X.replace(|c: char| c.is_ascii_control(), E)  (exactly this predicate; any other closure stays and is rejected)
        if name == "replace" && m.args.len() == 2 {
            if let Expr::Closure(cl) = &m.args[0] {
                if cl.inputs.len() == 1 {
                    let mut pname: Option<String> = None;
                    match &cl.inputs[0] {
                        syn::Pat::Type(pt) => { if let syn::Pat::Ident(pi) = &*pt.pat { if pt.ty.to_token_stream().to_string() == "char" { pname = Some(pi.ident.to_string()); } } }
                        syn::Pat::Ident(pi) => { pname = Some(pi.ident.to_string()); }
                        _ => {}
                    }
                    if let Some(pn) = pname {
                        let body = cl.body.to_token_stream().to_string().replace(' ', "");
                        if body == format!("{}.is_ascii_control()", pn) {
                            let x = &m.receiver;
                            let to = &m.args[1];
                            self.log("R-CTLFILTER", sp, "X.replace(|c: char| c.is_ascii_control(), E) -> (X).rws_replace_ascii_control(E)");
                            return syn::parse2(quote! { (#x).rws_replace_ascii_control(#to) }).ok();
                        }
                    }
                }
            }
        }
        // R-STRSLICE: X[a..b].to_string() / .to_owned()  (only a str can be sliced and then turned into a String this way)
        if (name == "to_string" || name == "to_owned") && m.args.is_empty() {
            if let Expr::Index(ix) = recv {
                if let Expr::Range(rg) = &*ix.index {
                    if let syn::RangeLimits::HalfOpen(_) = rg.limits {
                        let x = &ix.expr;
                        let new = match (&rg.start, &rg.end) {
                            (Some(a), Some(b)) => Some(quote! { (#x).rws_substring(#a, #b) }),
                            (None, Some(b)) => Some(quote! { (#x).rws_substring(0, #b) }),
                            (Some(a), None) => Some(quote! { (#x).rws_substring_from(#a) }),
                            _ => None,
                        };
                        if let Some(ts) = new {
                            self.log("R-STRSLICE", sp, "X[a..b].to_string() -> (X).rws_substring(a, b)");
                            return syn::parse2(ts).ok();
                        }
                    }
                }
            }
        }
        // X.chars().rev().collect::<String>()
        if name == "collect" && m.args.is_empty() {
            if let Some(rev) = Self::is_method(recv, "rev", 0) {
                if let Some(ch) = Self::is_method(&rev.receiver, "chars", 0) {
                    let x = &ch.receiver;
                    self.log("R-SHIM", sp, ".chars().rev().collect() -> rws_chars_rev_collect");
                    return syn::parse2(quote! { (#x).rws_chars_rev_collect() }).ok();
                }
            }
            // X.chars().skip(n).collect::<String>()
            if let Some(sk) = Self::is_method(recv, "skip", 1) {
                if let Some(ch) = Self::is_method(&sk.receiver, "chars", 0) {
                    let x = &ch.receiver;
                    let n = &sk.args[0];
                    self.log("R-SHIM", sp, ".chars().skip(n).collect() -> rws_chars_skip_collect(n)");
                    return syn::parse2(quote! { (#x).rws_chars_skip_collect(#n) }).ok();
                }
            }
            // X.chars().collect::<Vec<char>>()   (only the Vec<char> target is supported)
            if let Some(ch) = Self::is_method(recv, "chars", 0) {
                let x = &ch.receiver;
                self.log("R-SHIM", sp, ".chars().collect() -> rws_chars_collect");
                return syn::parse2(quote! { (#x).rws_chars_collect() }).ok();
            }
            // X.split(p).collect()
            if let Some(sp_call) = Self::is_method(recv, "split", 1) {
                let x = &sp_call.receiver;
                let p = &sp_call.args[0];
                self.log("R-SHIM", sp, ".split(p).collect() -> rws_split_collect");
                return syn::parse2(quote! { (#x).rws_split_collect(#p) }).ok();
            }
            // (a..=b).into_iter().collect::<Vec<char>>()
            if let Some(ii) = Self::is_method(recv, "into_iter", 0) {
                let mut r = &*ii.receiver;
                if let Expr::Paren(p) = r {
                    r = &*p.expr;
                }
                if let Expr::Range(rg) = r {
                    if let (Some(a), Some(b), syn::RangeLimits::Closed(_)) = (&rg.start, &rg.end, &rg.limits) {
                        self.log("R-SHIM", sp, "(a..=b).into_iter().collect() -> rws_char_range_collect");
                        return syn::parse2(quote! { rws_char_range_collect(#a, #b) }).ok();
                    }
                } else {
                    // X.into_iter().collect()  (characters collected into a String; the shim trait exists for [char] / Vec<char> only)
                    let x = &ii.receiver;
                    self.log("R-SHIM", sp, "X.into_iter().collect() -> (X).rws_into_iter_collect()");
                    return syn::parse2(quote! { (#x).rws_into_iter_collect() }).ok();
                }
            }
        }
        // Path::new(X).extension().and_then(OsStr::to_str)
        if name == "and_then" && m.args.len() == 1 {
            if let Some(ext) = Self::is_method(recv, "extension", 0) {
                if let Expr::Call(c) = &*ext.receiver {
                    if let Expr::Path(pp) = &*c.func {
                        let ps = pp.path.segments.iter().map(|s| s.ident.to_string()).collect::<Vec<_>>().join("::");
                        let arg_ok = if let Expr::Path(ap) = &m.args[0] { ap.path.segments.iter().map(|s| s.ident.to_string()).collect::<Vec<_>>().join("::") == "OsStr::to_str" } else { false };
                        if ps == "Path::new" && c.args.len() == 1 && arg_ok {
                            let x = &c.args[0];
                            self.log("R-SHIM", sp, "Path::new(x).extension().and_then(OsStr::to_str) -> rws_path_extension(x)");
                            return syn::parse2(quote! { rws_path_extension(#x) }).ok();
                        }
                    }
                }
            }
        }
        // X.matches(p).count()
        if name == "count" && m.args.is_empty() {
            if let Some(mm) = Self::is_method(recv, "matches", 1) {
                let x = &mm.receiver;
                let p = &mm.args[0];
                self.log("R-SHIM", sp, ".matches(p).count() -> rws_matches_count");
                return syn::parse2(quote! { (#x).rws_matches_count(#p) }).ok();
            }
        }
        None
    }

    // R-FIND: E.iter().find(|x| P)
    fn rewrite_find(&mut self, m: &ExprMethodCall) -> Option<Expr> {
        if m.method != "find" || m.args.len() != 1 {
            return None;
        }
        let it = Self::is_method(&m.receiver, "iter", 0)?;
        let cl = match &m.args[0] {
            Expr::Closure(c) => c.clone(),
            _ => return None,
        };
        if cl.inputs.len() != 1 {
            return None;
        }
        let pat = cl.inputs[0].clone();
        let mut body: Expr = (*cl.body).clone();
        // |x| { return P } or |x| { P }
        if let Expr::Block(b) = &body {
            if b.block.stmts.len() == 1 {
                match &b.block.stmts[0] {
                    Stmt::Expr(Expr::Return(r), _) => {
                        if let Some(e) = &r.expr {
                            body = (**e).clone();
                        }
                    }
                    Stmt::Expr(e, None) => body = e.clone(),
                    _ => return None,
                }
            } else {
                // |x| { let a = ..; ..; P }: the block is evaluated into a condition variable
                match b.block.stmts.last() {
                    Some(Stmt::Expr(_, None)) => {}
                    _ => return None,
                }
            }
        }
        self.visit_expr_mut(&mut body);
        let k = self.next_loop();
        self.tmp_no += 1;
        let v = format_ident!("__rws_fv{}", self.tmp_no);
        let i = format_ident!("__rws_fi{}", self.tmp_no);
        let r = format_ident!("__rws_fr{}", self.tmp_no);
        let c = format_ident!("__rws_fc{}", self.tmp_no);
        let lm = self.loop_marker(k);
        let e = &it.receiver;
        // a point after the search loop where its index variable is still in scope
        let nfind = self.alloc("find_loop");
        let after = self.marker("after", "find_loop", nfind);
        self.log("R-FIND", m.method.span(), format!(".iter().find(closure) -> indexed loop #{}", k));
        Some(parse_quote! {
            {
                let #v = &#e;
                let mut #i: usize = 0;
                let mut #r = #v.rws_find_init();
                while #i < #v.len() {
                    #lm
                    let #pat = &#v[#i];
                    let #c: bool = #body;
                    if #c {
                        #r = Some(#pat);
                        break;
                    }
                    #i += 1;
                }
                #after
                #r
            }
        })
    }
}

// does the block `continue` its OWN loop (not one nested inside it, not inside a closure)?
fn has_own_continue(b: &syn::Block) -> bool {
    struct V { found: bool }
    impl<'ast> syn::visit::Visit<'ast> for V {
        fn visit_expr(&mut self, e: &'ast Expr) {
            match e {
                Expr::Continue(c) => { if c.label.is_none() { self.found = true; } }
                Expr::ForLoop(_) | Expr::While(_) | Expr::Loop(_) | Expr::Closure(_) => {}
                _ => syn::visit::visit_expr(self, e),
            }
        }
    }
    let mut v = V { found: false };
    syn::visit::Visit::visit_block(&mut v, b);
    v.found
}

fn collect_pat_idents(p: &syn::Pat, out: &mut Vec<String>) {
    match p {
        syn::Pat::Ident(i) => out.push(i.ident.to_string()),
        syn::Pat::Tuple(t) => {
            for e in t.elems.iter() {
                collect_pat_idents(e, out)
            }
        }
        syn::Pat::Type(t) => collect_pat_idents(&t.pat, out),
        syn::Pat::Reference(r) => collect_pat_idents(&r.pat, out),
        syn::Pat::TupleStruct(t) => {
            for e in t.elems.iter() {
                collect_pat_idents(e, out)
            }
        }
        syn::Pat::Wild(_) => out.push("wild".to_string()),
        _ => out.push("pat".to_string()),
    }
}

// a &'static str constant: string literal, FIELD of an upper-case const (SYMBOL.slash, METHOD.get), or Type::CONST
fn is_static_str(e: &Expr) -> bool {
    match e {
        Expr::Lit(syn::ExprLit { lit: syn::Lit::Str(_), .. }) => true,
        Expr::Field(f) => {
            if let Expr::Path(p) = &*f.base {
                let n = path_string(&p.path);
                return n == "SYMBOL" || n == "METHOD" || n == "VERSION";
            }
            false
        }
        Expr::Path(p) => {
            if p.path.segments.len() == 2 {
                let last = p.path.segments[1].ident.to_string();
                let first = p.path.segments[0].ident.to_string();
                let upper = last.chars().all(|c| c.is_ascii_uppercase() || c == '_' || c.is_ascii_digit());
                return upper && ["Header", "Range", "MimeType", "Request", "Response", "Config", "Cors"].contains(&first.as_str());
            }
            false
        }
        Expr::Reference(r) => is_static_str(&r.expr),
        Expr::Paren(p) => is_static_str(&p.expr),
        _ => false,
    }
}

fn path_string(p: &syn::Path) -> String {
    p.segments.iter().map(|s| s.ident.to_string()).collect::<Vec<_>>().join("::")
}

impl VisitMut for Rw {
    fn visit_expr_mut(&mut self, e: &mut Expr) {
        // macros in expression position
        if let Expr::Macro(em) = e {
            if let Some(n) = self.rewrite_print(&em.mac) {
                *e = n;
                return;
            }
            if let Some(n) = self.rewrite_format(&em.mac) {
                *e = n;
                return;
            }
            // vec![a, b, ..] / vec![x; n]: the rules are applied to the element expressions as well
            if em.mac.path.is_ident("vec") {
                if let Ok(args) = em.mac.parse_body_with(Punctuated::<Expr, Token![,]>::parse_terminated) {
                    let mut elems: Vec<Expr> = args.into_iter().collect();
                    for x in elems.iter_mut() {
                        self.visit_expr_mut(x);
                    }
                    *e = parse_quote! { vec![ #(#elems),* ] };
                    return;
                }
                let ts = em.mac.tokens.clone();
                if let Ok((mut a, mut b)) = syn::parse::Parser::parse2(|input: syn::parse::ParseStream| {
                    let a: Expr = input.parse()?;
                    let _: Token![;] = input.parse()?;
                    let b: Expr = input.parse()?;
                    Ok((a, b))
                }, ts) {
                    self.visit_expr_mut(&mut a);
                    self.visit_expr_mut(&mut b);
                    *e = parse_quote! { vec![ #a; #b ] };
                    return;
                }
                return;
            }
            // R-INCLUDE: include_bytes!("file") -> an opaque &'static [u8] (the embedded asset's content is not modelled)
            if em.mac.path.segments.last().map(|s| s.ident == "include_bytes").unwrap_or(false) {
                self.log("R-INCLUDE", em.mac.path.segments[0].ident.span(), "include_bytes!(..) -> rws_include_bytes() (content opaque)");
                *e = parse_quote! { rws_include_bytes() };
                return;
            }
            return;
        }
        if let Expr::Closure(_) = e {
            // closures that survive are reported by the driver (Verus rejects most of them)
            self.in_closure += 1;
            visit_mut::visit_expr_mut(self, e);
            self.in_closure -= 1;
            return;
        }
        if let Expr::MethodCall(m) = e {
            if let Some(n) = self.rewrite_find(m) {
                *e = n;
                return;
            }
            if let Some(mut n) = self.rewrite_chain(m) {
                // rewrite inside the new receiver/arguments as well
                if let Expr::MethodCall(nm) = &mut n {
                    self.visit_expr_mut(&mut nm.receiver);
                    for a in nm.args.iter_mut() {
                        self.visit_expr_mut(a);
                    }
                } else if let Expr::Call(nc) = &mut n {
                    for a in nc.args.iter_mut() {
                        self.visit_expr_mut(a);
                    }
                }
                *e = n;
                return;
            }
        }
        // R-ENUM on for loops is handled in visit_expr_for_loop_mut via the generic walk
        visit_mut::visit_expr_mut(self, e);
        match e {
            Expr::MethodCall(m) => {
                let name = m.method.to_string();
                if name == "clone" && m.args.is_empty() {
                    self.log("R-CLONE", m.method.span(), ".clone() -> .rws_clone()");
                    m.method = format_ident!("rws_clone", span = m.method.span());
                } else if (name == "replace" || name == "contains" || name == "split_once") && m.args.len() >= 1
                    && matches!(&m.args[0], Expr::Lit(syn::ExprLit { lit: syn::Lit::Char(_), .. })) {
                    self.log("R-SHIM", m.method.span(), format!(".{}(char, ..) -> .rws_{}_char(..)", name, name));
                    m.method = format_ident!("rws_{}_char", name, span = m.method.span());
                } else if SHIM_METHODS.contains(&name.as_str()) {
                    self.log("R-SHIM", m.method.span(), format!(".{}() -> .rws_{}()", name, name));
                    m.method = format_ident!("rws_{}", name, span = m.method.span());
                }
            }
            Expr::Call(c) => {
                if let Expr::Path(p) = &*c.func {
                    let ps = path_string(&p.path);
                    let mut final_name = ps.clone();
                    let sp0 = p.path.segments[0].ident.span();
                    for (from, to) in SHIM_PATHS.iter() {
                        if ps == *from {
                            self.log("R-SHIM", sp0, format!("{}() -> {}()", from, to));
                            let id = format_ident!("{}", to);
                            c.func = Box::new(parse_quote! { #id });
                            final_name = to.to_string();
                            break;
                        }
                    }
                    if in_world(&final_name) {
                        self.log("R-WORLD", sp0, format!("{}(..) -> {}(.., rws_w)", final_name, final_name));
                        c.args.push(parse_quote! { rws_w });
                    }
                }
            }
            Expr::Binary(b) if matches!(b.op, syn::BinOp::Eq(_) | syn::BinOp::Ne(_)) && (is_static_str(&b.left) || is_static_str(&b.right)) => {
                // R-STREQ: comparison with a &'static str constant -> shim with the obvious spec (Verus has none for String == &str)
                let ne = matches!(b.op, syn::BinOp::Ne(_));
                let (a, c) = if is_static_str(&b.right) { ((*b.left).clone(), (*b.right).clone()) } else { ((*b.right).clone(), (*b.left).clone()) };
                let sp = match &b.op { syn::BinOp::Eq(t) => t.spans[0], syn::BinOp::Ne(t) => t.spans[0], _ => Span::call_site() };
                self.log("R-STREQ", sp, "comparison with a &'static str constant -> rws_eq_str");
                if ne {
                    *e = parse_quote! { !(#a).rws_eq_str(#c) };
                } else {
                    *e = parse_quote! { (#a).rws_eq_str(#c) };
                }
            }
            Expr::Binary(b) => {
                use syn::BinOp::*;
                let bit = matches!(b.op, Shl(_) | Shr(_) | BitAnd(_) | BitOr(_) | BitXor(_));
                if bit {
                    for side in [&mut b.left, &mut b.right] {
                        if let Expr::Path(p) = &**side {
                            if p.path.segments.len() == 1 {
                                let sp = p.path.segments[0].ident.span();
                                let inner = (**side).clone();
                                **side = parse_quote! { #inner.rwsv() };
                                self.log("R-VAL", sp, "identifier operand of a bit operator -> .rwsv()");
                            }
                        }
                    }
                }
            }
            _ => {}
        }
    }

    fn visit_expr_while_mut(&mut self, w: &mut syn::ExprWhile) {
        let k = self.next_loop();
        visit_mut::visit_expr_while_mut(self, w);
        let lm = self.loop_marker(k);
        w.body.stmts.insert(0, lm);
    }

    fn visit_expr_loop_mut(&mut self, w: &mut syn::ExprLoop) {
        let k = self.next_loop();
        visit_mut::visit_expr_loop_mut(self, w);
        let lm = self.loop_marker(k);
        w.body.stmts.insert(0, lm);
    }

    fn visit_block_mut(&mut self, b: &mut Block) {
        // first rewrite nested things, converting R-ENUM for-loops at statement level
        let old = std::mem::take(&mut b.stmts);
        let mut out: Vec<Stmt> = vec![];
        let n = old.len();
        for (idx, mut s) in old.into_iter().enumerate() {
            let base = self.stmt_base(&s);
            // statement-position macros
            if let Stmt::Macro(sm) = &s {
                if let Some(ne) = self.rewrite_print(&sm.mac) {
                    s = Stmt::Expr(ne, None);
                } else if let Some(ne) = self.rewrite_format(&sm.mac) {
                    s = Stmt::Expr(ne, Some(Default::default()));
                }
            }
            // R-ENUM / for loops
            let mut replaced: Option<Vec<Stmt>> = None;
            if let Stmt::Expr(Expr::ForLoop(fl), _) = &mut s {
                replaced = self.rewrite_for(fl);
            }
            let is_tail = idx + 1 == n && matches!(&s, Stmt::Expr(_, None)) && replaced.is_none();
            let is_item = matches!(&s, Stmt::Item(_));
            let base = if is_tail { format!("tail_{}", base) } else { base };
            let num = self.alloc(&base);
            if self.in_closure == 0 && !is_item {
                let mk = self.marker("before", &base, num);
                out.push(mk);
            }
            match replaced {
                Some(v) => out.extend(v),
                None => {
                    self.visit_stmt_mut(&mut s);
                    out.push(s.clone());
                }
            }
            let diverges = matches!(&s, Stmt::Expr(Expr::Return(_), _) | Stmt::Expr(Expr::Break(_), _) | Stmt::Expr(Expr::Continue(_), _));
            if self.in_closure == 0 && !is_tail && !is_item && !diverges {
                // a statement without trailing semicolon that is not last (e.g. `if .. {}`) is fine to follow
                let mk = self.marker("after", &base, num);
                out.push(mk);
            }
        }
        b.stmts = out;
    }
}

impl Rw {
    // for loops: R-ENUM (enumerate -> indexed while), otherwise name the iterator through __rws_iter!
    fn rewrite_for(&mut self, fl: &mut syn::ExprForLoop) -> Option<Vec<Stmt>> {
        let sp = fl.for_token.span;
        // R-ENUM
        if let Some(en) = Self::is_method(&fl.expr, "enumerate", 0) {
            if let Some(it) = Self::is_method(&en.receiver, "iter", 0) {
                if let syn::Pat::Tuple(t) = &*fl.pat {
                    if t.elems.len() == 2 {
                        let pi = t.elems[0].clone();
                        let px = t.elems[1].clone();
                        let k = self.next_loop();
                        let mut e = (*it.receiver).clone();
                        self.visit_expr_mut(&mut e);
                        let mut body = fl.body.clone();
                        self.visit_block_mut(&mut body);
                        let v = format_ident!("__rws_v{}", k);
                        let i = format_ident!("__rws_i{}", k);
                        let lm = self.loop_marker(k);
                        let stmts = &body.stmts;
                        self.log("R-ENUM", sp, format!("for (i, x) in E.iter().enumerate() -> indexed while loop #{}", k));
                        let blk: Stmt = parse_quote! {
                            {
                                let #v = &#e;
                                let mut #i: usize = 0;
                                while #i < #v.len() {
                                    #lm
                                    let #pi = #i;
                                    let #px = &#v[#i];
                                    #i += 1;
                                    #(#stmts)*
                                }
                            }
                        };
                        return Some(vec![blk]);
                    }
                }
            }
        }
        // R-FORCONT: Verus has no `continue` in for-loops. `for P in E { B }` whose body continues is iterated through a vector of
        // the iterator's items in REVERSED order, popped from the back (same items, same order), in a `while` loop
        if has_own_continue(&fl.body) {
            let k = self.next_loop();
            let mut e = (*fl.expr).clone();
            self.visit_expr_mut(&mut e);
            let mut body = fl.body.clone();
            self.visit_block_mut(&mut body);
            let q = format_ident!("__rws_q{}", k);
            let lm = self.loop_marker(k);
            let pat = &fl.pat;
            let stmts = &body.stmts;
            self.log("R-FORCONT", sp, format!("for-loop #{} with `continue` -> while loop popping the reversed item vector", k));
            let blk: Stmt = parse_quote! {
                {
                    let mut #q = rws_iter_to_rev_vec(#e);
                    while #q.len() > 0 {
                        #lm
                        let #pat = #q.pop().unwrap();
                        #(#stmts)*
                    }
                }
            };
            return Some(vec![blk]);
        }
        // plain for: name the iterator expression so that a contract can attach a ghost iterator
        let k = self.next_loop();
        let mut e = (*fl.expr).clone();
        self.visit_expr_mut(&mut e);
        if let Expr::MethodCall(mc) = &mut e {
            if mc.method == "into_iter" && mc.args.is_empty() {
                // R-SHIM: Vec<T> -> itself, HashMap<K, V> -> Vec<(K, V)> in unspecified order
                self.log("R-SHIM", mc.method.span(), "for .. in E.into_iter() -> E.rws_into_iter()");
                mc.method = format_ident!("rws_into_iter", span = mc.method.span());
            }
        }
        self.visit_block_mut(&mut fl.body);
        let lm = self.loop_marker(k);
        fl.body.stmts.insert(0, lm);
        let lit = proc_macro2::Literal::usize_unsuffixed(k);
        // R-FORTMP: `for c in <call>.chars()` iterates over a temporary; Verus' expansion of the loop cannot borrow it, so the
        // temporary gets a name (its lifetime is the loop either way)
        let mut hoisted: Option<Stmt> = None;
        if let Expr::MethodCall(mc) = &mut e {
            if mc.method == "chars" && mc.args.is_empty() && matches!(&*mc.receiver, Expr::MethodCall(_) | Expr::Call(_)) {
                let t = format_ident!("__rws_t{}", k);
                let recv = (*mc.receiver).clone();
                hoisted = Some(parse_quote! { let #t = #recv; });
                mc.receiver = Box::new(parse_quote! { #t });
                self.log("R-FORTMP", sp, format!("for-loop #{}: temporary receiver of .chars() named", k));
            }
        }
        fl.expr = Box::new(parse_quote! { __rws_iter!(#lit, #e) });
        self.log("R-FOR", sp, format!("for-loop #{}: iterator expression named for the contract", k));
        if let Some(h) = hoisted {
            let f = Stmt::Expr(Expr::ForLoop(fl.clone()), None);
            let blk: Stmt = parse_quote! { { #h #f } };
            return Some(vec![blk]);
        }
        Some(vec![Stmt::Expr(Expr::ForLoop(fl.clone()), None)])
    }
}

// ------------------------------------------------------------------------------------------

fn json_str(s: &str) -> String {
    let mut o = String::from("\"");
    for c in s.chars() {
        match c {
            '"' => o.push_str("\\\""),
            '\\' => o.push_str("\\\\"),
            '\n' => o.push_str("\\n"),
            '\r' => o.push_str("\\r"),
            '\t' => o.push_str("\\t"),
            c if (c as u32) < 0x20 => o.push_str(&format!("\\u{:04x}", c as u32)),
            c => o.push(c),
        }
    }
    o.push('"');
    o
}

struct Emitted {
    text: String,
    meta: String,
}

fn filter_derives(attrs: &[syn::Attribute]) -> Vec<syn::Attribute> {
    // keep only #[derive(...)] restricted to PartialEq, Eq, Clone, Copy, Debug (all structural)
    let mut out = vec![];
    for a in attrs {
        if a.path().is_ident("derive") {
            out.push(a.clone());
        }
    }
    out
}

fn strip_fn_attrs(attrs: &mut Vec<syn::Attribute>) {
    attrs.retain(|a| !(a.path().is_ident("doc") || a.path().is_ident("cfg") || a.path().is_ident("allow") || a.path().is_ident("inline")));
}

fn emit_fn(
    self_ty: Option<&str>,
    from_trait: Option<String>,
    vis: &syn::Visibility,
    sig: &syn::Signature,
    block: &Block,
    mode: &str,
    src: &str,
    span: Span,
    end_line: usize,
) -> Emitted {
    let name = sig.ident.to_string();
    let tag = match self_ty {
        Some(t) => format!("{}__{}", t, name),
        None => name.clone(),
    };
    let mut rw = Rw::new(&tag);
    let mut body = block.clone();
    let mut sig = sig.clone();
    // name the return type so that the driver can introduce `-> (res: T)`
    let has_ret = matches!(sig.output, syn::ReturnType::Type(..));
    if let syn::ReturnType::Type(_, t) = &sig.output {
        let t = t.clone();
        sig.output = parse_quote! { -> __RwsRet<#t> };
    }
    let entry = format_ident!("entry_{}", tag);
    // R-MUTPARAM: `mut x: T` by-value parameters become `x: T` + `let mut x = x;` so that a contract can name the argument
    let mut rebinds: Vec<Stmt> = vec![];
    for a in sig.inputs.iter_mut() {
        if let syn::FnArg::Typed(pt) = a {
            if let syn::Pat::Ident(pi) = &mut *pt.pat {
                if pi.mutability.is_some() && pi.by_ref.is_none() {
                    pi.mutability = None;
                    let id = pi.ident.clone();
                    rebinds.push(parse_quote! { let mut #id = #id; });
                    rw.rules.push(RuleApp { rule: "R-MUTPARAM", line: line_of(id.span()), detail: format!("mut {}: T -> {}: T; let mut {} = {};", id, id, id, id) });
                }
            }
        }
    }
    let qual_name = match self_ty {
        Some(t) => format!("{}::{}", t, name),
        None => name.clone(),
    };
    if in_world(&qual_name) {
        sig.inputs.push(parse_quote! { rws_w: &mut Ghost<RwsWorld> });
        rw.rules.push(RuleApp { rule: "R-WORLD", line: line_of(sig.ident.span()), detail: format!("fn {} gets the ghost world parameter rws_w", qual_name) });
    }
    let text;
    if mode == "assume" {
        let ts = quote! {
            #vis #sig { __rws_pt!(#entry); unimplemented!() }
        };
        text = ts.to_string();
    } else {
        rw.visit_block_mut(&mut body);
        let stmts = &body.stmts;
        let ts = quote! {
            #vis #sig { __rws_pt!(#entry); #(#rebinds)* #(#stmts)* }
        };
        text = ts.to_string();
    }
    let rules_json: Vec<String> = rw
        .rules
        .iter()
        .map(|r| format!("{{\"rule\":{},\"line\":{},\"detail\":{}}}", json_str(r.rule), r.line, json_str(&r.detail)))
        .collect();
    let markers_json: Vec<String> = rw.markers.iter().map(|m| json_str(m)).collect();
    let qual = match self_ty {
        Some(t) => format!("{}::{}", t, name),
        None => name.clone(),
    };
    let meta = format!(
        "{{\"kind\":\"fn\",\"name\":{},\"tag\":{},\"self_ty\":{},\"from_trait\":{},\"mode\":{},\"src\":{},\"line\":{},\"end_line\":{},\"has_ret\":{},\"loops\":{},\"rules\":[{}],\"markers\":[{}]}}",
        json_str(&qual),
        json_str(&tag),
        self_ty.map(json_str).unwrap_or("null".into()),
        from_trait.as_deref().map(json_str).unwrap_or("null".into()),
        json_str(mode),
        json_str(src),
        line_of(span),
        end_line,
        has_ret,
        rw.loop_no,
        rules_json.join(","),
        markers_json.join(",")
    );
    Emitted { text, meta }
}

fn type_name(t: &syn::Type) -> Option<String> {
    if let syn::Type::Path(p) = t {
        return p.path.segments.last().map(|s| s.ident.to_string());
    }
    None
}

fn main() {
    let args: Vec<String> = std::env::args().collect();
    if args.len() < 3 {
        eprintln!("usage: rwsx <source.rs> <item-spec>...");
        std::process::exit(2);
    }
    let src_path = &args[1];
    let code = match std::fs::read_to_string(src_path) {
        Ok(c) => c,
        Err(e) => {
            eprintln!("rwsx: cannot read {}: {}", src_path, e);
            std::process::exit(2);
        }
    };
    let file = match syn::parse_file(&code) {
        Ok(f) => f,
        Err(e) => {
            eprintln!("rwsx: cannot parse {}: {}", src_path, e);
            std::process::exit(2);
        }
    };
    let mut out_text: Vec<String> = vec![];
    let mut out_meta: Vec<String> = vec![];
    // group emitted associated items per type so that one `impl T {}` holds them
    let mut impl_items: Vec<(String, String)> = vec![]; // (type, text)
    let mut missing: Vec<String> = vec![];

    for spec in &args[2..] {
        let parts: Vec<&str> = spec.splitn(2, ':').collect();
        if parts.len() != 2 {
            eprintln!("rwsx: bad item spec {}", spec);
            std::process::exit(2);
        }
        let kind = parts[0];
        let rest = parts[1];
        match kind {
            "struct" | "enum" => {
                let mut found = false;
                for it in &file.items {
                    match it {
                        Item::Struct(s) if kind == "struct" && s.ident == rest => {
                            let mut s = s.clone();
                            s.attrs = filter_derives(&s.attrs);
                            for f in s.fields.iter_mut() {
                                f.attrs.clear();
                            }
                            out_text.push(s.to_token_stream().to_string());
                            out_meta.push(format!(
                                "{{\"kind\":\"struct\",\"name\":{},\"src\":{},\"line\":{}}}",
                                json_str(rest),
                                json_str(src_path),
                                line_of(s.ident.span())
                            ));
                            found = true;
                        }
                        Item::Enum(s) if kind == "enum" && s.ident == rest => {
                            let mut s = s.clone();
                            s.attrs = filter_derives(&s.attrs);
                            out_text.push(s.to_token_stream().to_string());
                            out_meta.push(format!(
                                "{{\"kind\":\"enum\",\"name\":{},\"src\":{},\"line\":{}}}",
                                json_str(rest),
                                json_str(src_path),
                                line_of(s.ident.span())
                            ));
                            found = true;
                        }
                        _ => {}
                    }
                }
                if !found {
                    missing.push(spec.clone());
                }
            }
            "trait" => {
                let mut found = false;
                for it in &file.items {
                    if let Item::Trait(t) = it {
                        if t.ident == rest {
                            let mut t = t.clone();
                            t.attrs.clear();
                            out_text.push(t.to_token_stream().to_string());
                            out_meta.push(format!("{{\"kind\":\"trait\",\"name\":{},\"src\":{},\"line\":{}}}", json_str(rest), json_str(src_path), line_of(t.ident.span())));
                            found = true;
                        }
                    }
                }
                if !found {
                    missing.push(spec.clone());
                }
            }
            "const" => {
                let mut found = false;
                if let Some((ty, name)) = rest.split_once("::") {
                    for it in &file.items {
                        if let Item::Impl(im) = it {
                            if im.trait_.is_none() && type_name(&im.self_ty).as_deref() == Some(ty) {
                                for ii in &im.items {
                                    if let ImplItem::Const(c) = ii {
                                        if c.ident == name {
                                            let mut c = c.clone();
                                            c.attrs.clear();
                                            impl_items.push((ty.to_string(), c.to_token_stream().to_string()));
                                            out_meta.push(format!(
                                                "{{\"kind\":\"const\",\"name\":{},\"src\":{},\"line\":{}}}",
                                                json_str(rest),
                                                json_str(src_path),
                                                line_of(c.ident.span())
                                            ));
                                            found = true;
                                        }
                                    }
                                }
                            }
                        }
                    }
                } else {
                    for it in &file.items {
                        if let Item::Const(c) = it {
                            if c.ident == rest {
                                let mut c = c.clone();
                                c.attrs.clear();
                                out_text.push(c.to_token_stream().to_string());
                                out_meta.push(format!(
                                    "{{\"kind\":\"const\",\"name\":{},\"src\":{},\"line\":{}}}",
                                    json_str(rest),
                                    json_str(src_path),
                                    line_of(c.ident.span())
                                ));
                                found = true;
                            }
                        }
                    }
                }
                if !found {
                    missing.push(spec.clone());
                }
            }
            "consts" => {
                let mut found = false;
                for it in &file.items {
                    if let Item::Impl(im) = it {
                        if im.trait_.is_none() && type_name(&im.self_ty).as_deref() == Some(rest) {
                            for ii in &im.items {
                                if let ImplItem::Const(c) = ii {
                                    let mut c = c.clone();
                                    c.attrs.clear();
                                    impl_items.push((rest.to_string(), c.to_token_stream().to_string()));
                                    found = true;
                                }
                            }
                        }
                    }
                }
                out_meta.push(format!("{{\"kind\":\"consts\",\"name\":{},\"src\":{}}}", json_str(rest), json_str(src_path)));
                if !found {
                    missing.push(spec.clone());
                }
            }
            "fn" => {
                let (path, mode) = match rest.rsplit_once(':') {
                    Some((p, m)) if m == "verify" || m == "assume" || m == "plain" => (p, m),
                    _ => (rest, "verify"),
                };
                let mut found = false;
                if let Some((ty, name)) = path.split_once("::") {
                    for it in &file.items {
                        if let Item::Impl(im) = it {
                            if type_name(&im.self_ty).as_deref() == Some(ty) {
                                for ii in &im.items {
                                    if let ImplItem::Fn(f) = ii {
                                        if f.sig.ident == name && !found {
                                            let from_trait = im.trait_.as_ref().map(|(_, p, _)| path_string(p));
                                            let mut f2 = f.clone();
                                            strip_fn_attrs(&mut f2.attrs);
                                            // trait impl fns carry no `pub`; as inherent fns they are made pub (R-INHERENT)
                                            let vis: syn::Visibility = if from_trait.is_some() { parse_quote! { pub } } else { f2.vis.clone() };
                                            let end_line = f.block.brace_token.span.close().end().line;
                                            let em = emit_fn(Some(ty), from_trait, &vis, &f2.sig, &f2.block, mode, src_path, f.sig.ident.span(), end_line);
                                            // generic impl blocks keep their header: impl<T: A + B> Ty<T> where ..
                                            let hdr = if im.generics.params.is_empty() { ty.to_string() } else {
                                                let (ig, _tg, wc) = im.generics.split_for_impl();
                                                format!("{} {} {}", ig.to_token_stream(), im.self_ty.to_token_stream(), wc.map(|w| w.to_token_stream().to_string()).unwrap_or_default())
                                            };
                                            impl_items.push((hdr, em.text));
                                            out_meta.push(em.meta);
                                            found = true;
                                        }
                                    }
                                }
                            }
                        }
                    }
                } else {
                    for it in &file.items {
                        if let Item::Fn(f) = it {
                            if f.sig.ident == path && !found {
                                let mut f2 = f.clone();
                                strip_fn_attrs(&mut f2.attrs);
                                let end_line = f.block.brace_token.span.close().end().line;
                                let em = emit_fn(None, None, &f2.vis, &f2.sig, &f2.block, mode, src_path, f.sig.ident.span(), end_line);
                                out_text.push(em.text);
                                out_meta.push(em.meta);
                                found = true;
                            }
                        }
                    }
                }
                if !found {
                    missing.push(spec.clone());
                }
            }
            _ => {
                eprintln!("rwsx: unknown item kind in {}", spec);
                std::process::exit(2);
            }
        }
    }
    if !missing.is_empty() {
        eprintln!("rwsx: LOST-ANCHOR in {}: {}", src_path, missing.join(" "));
        std::process::exit(3);
    }
    // assemble impl blocks in first-seen order
    let mut order: Vec<String> = vec![];
    for (t, _) in &impl_items {
        if !order.contains(t) {
            order.push(t.clone());
        }
    }
    for t in order {
        let mut s = format!("impl {} {{\n", t);
        for (tt, text) in &impl_items {
            if *tt == t {
                s.push_str(text);
                s.push('\n');
            }
        }
        s.push_str("}\n");
        out_text.push(s);
    }
    let _ = TokenStream::new();
    println!("{}", out_text.join("\n\n"));
    println!("//@@META [{}]", out_meta.join(","));
}
