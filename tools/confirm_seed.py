#!/usr/bin/env python3
"""Confirm a seeded property-breaking change in a scratch worktree of /repo and file it under /verif/seeded/<id>/.

usage: confirm_seed.py <dir with patch.diff demo.rs meta.json> <id>

Confirms, independently of whoever wrote the change: the patch applies to /repo's HEAD, the crate compiles and the whole
existing test suite passes with it (single-threaded: the suite has env-var races), the demonstration FAILS with the change
and PASSES without it.  The scratch worktree and its build output are removed afterwards.
"""
import json
import os
import re
import shutil
import subprocess
import sys


def sh(cmd, cwd=None, timeout=1800):
    p = subprocess.run(cmd, shell=True, cwd=cwd, capture_output=True, text=True, timeout=timeout,
                       env=dict(os.environ, CARGO_NET_OFFLINE="true", RUST_BACKTRACE="0"))
    return p.returncode, p.stdout + p.stderr


def main():
    src, sid = sys.argv[1], sys.argv[2]
    wt = "/tmp/confirm-wt-%s" % sid
    sh("git -C /repo worktree remove --force %s" % wt)
    rc, out = sh("git -C /repo worktree add -q --detach %s HEAD" % wt)
    if rc != 0:
        print("cannot create worktree", out)
        return 2
    res = {"id": sid, "repo_head": sh("git -C /repo rev-parse --short HEAD")[1].strip()}
    try:
        demo = open(os.path.join(src, "demo.rs")).read()
        m = re.search(r">>\s*(src/\S+)", demo) or re.search(r"append[^\n]*?(src/[\w/]+\.rs)", demo)
        f = re.search(r"cargo test --offline\s+([\w:]+)", demo)
        if not m or not f:
            res["error"] = "cannot find demo target/filter in demo.rs header"
            return 2
        target, flt = m.group(1), f.group(1)
        res["demo_target"], res["demo_filter"] = target, flt
        rc, out = sh("git apply --3way %s" % os.path.join(src, "patch.diff"), cwd=wt)
        if rc != 0:
            rc, out = sh("git apply %s" % os.path.join(src, "patch.diff"), cwd=wt)
        res["patch_applies"] = rc == 0
        if rc != 0:
            res["error"] = "patch does not apply: " + out[-500:]
            return 1
        sh("git reset -q", cwd=wt)
        rc, out = sh("cargo test --workspace --no-fail-fast --offline -- --test-threads=1", cwd=wt)
        tr = re.findall(r"test result: (\w+)\. (\d+) passed; (\d+) failed", out)
        res["suite_with_change"] = tr
        res["suite_passes_with_change"] = rc == 0 and all(t[0] == "ok" for t in tr) and len(tr) > 0
        open(os.path.join(wt, target), "a").write("\n" + demo)
        rc1, out1 = sh("cargo test --offline %s -- --test-threads=1" % flt, cwd=wt)
        tr1 = re.findall(r"test result: (\w+)\. (\d+) passed; (\d+) failed", out1)
        res["demo_with_change"] = tr1
        # revert the patch only (keep the appended demo)
        rc, out = sh("git apply -R %s" % os.path.join(src, "patch.diff"), cwd=wt)
        if rc != 0:
            sh("git checkout -- src", cwd=wt)
            open(os.path.join(wt, target), "a").write("\n" + demo)
        rc2, out2 = sh("cargo test --offline %s -- --test-threads=1" % flt, cwd=wt)
        tr2 = re.findall(r"test result: (\w+)\. (\d+) passed; (\d+) failed", out2)
        res["demo_without_change"] = tr2
        ran1 = any(int(t[1]) + int(t[2]) > 0 for t in tr1)
        ran2 = any(int(t[1]) + int(t[2]) > 0 for t in tr2)
        res["demo_fails_with_change"] = ran1 and any(int(t[2]) > 0 for t in tr1)
        res["demo_passes_without_change"] = ran2 and all(int(t[2]) == 0 for t in tr2) and rc2 == 0
        res["confirmed"] = bool(res["patch_applies"] and res["suite_passes_with_change"] and res["demo_fails_with_change"]
                                and res["demo_passes_without_change"])
        return 0
    finally:
        sh("git -C /repo worktree remove --force %s" % wt)
        shutil.rmtree(wt, ignore_errors=True)
        out_dir = "/verif/seeded/%s" % sid
        if res.get("confirmed"):
            os.makedirs(out_dir, exist_ok=True)
            for fn in ("patch.diff", "demo.rs"):
                shutil.copy(os.path.join(src, fn), os.path.join(out_dir, fn))
            meta = json.load(open(os.path.join(src, "meta.json")))
            meta["confirmation"] = res
            meta["what_was_run"] = ("scratch worktree of /repo HEAD %s: git apply patch.diff; cargo test --workspace --no-fail-fast --offline -- "
                                    "--test-threads=1 (all pass); demo appended to %s, `cargo test --offline %s` fails with the change and passes "
                                    "with the patch reverted" % (res["repo_head"], res.get("demo_target"), res.get("demo_filter")))
            json.dump(meta, open(os.path.join(out_dir, "meta.json"), "w"), indent=1)
        print(json.dumps(res))


if __name__ == "__main__":
    sys.exit(main())
