import sys; sys.path.insert(0,'/verif'); sys.path.insert(0,'/verif/lib')
import compose, units
u=units.UNITS[sys.argv[1]]
out,info=compose.compose(u,'/verif/build/'+sys.argv[1])
print(out, [ (r['fn'],r['start'],r['end']) for r in info['ranges']])
