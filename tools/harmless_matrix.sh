#!/bin/bash
# Runs behaviour-preserving changes (harmless/<id>/patch.diff) against EVERY claimed check on a scratch worktree: a false-alarm
# measurement.  exit 1 on such a change is a false alarm; exit 2 (undecided) is not an alarm but is listed.
cd /verif
W=/tmp/rws-harmless-repo; B=/tmp/rws-harmless-build
git -C /repo worktree remove --force $W 2>/dev/null; rm -rf $W $B $S
git -C /repo worktree add -q --detach $W HEAD || exit 2
# the checks run from a SNAPSHOT of /verif, so that contracts can be edited while a matrix runs
S=/tmp/rws-harmless-verif; rm -rf $S; mkdir -p $S; rsync -a --exclude build --exclude .git --exclude seeded --exclude seeded_obsolete --exclude harmless --exclude "falsify/docroot" /verif/ $S/
mkdir -p $B
props=$(python3 -c "import json;print(' '.join(c['property_id'] for c in json.load(open('MANIFEST.json'))['checks']))")
for d in harmless/*/; do
  id=$(basename $d)
  if ! git -C $W apply /verif/harmless/$id/patch.diff >/dev/null 2>&1; then echo "$id patch-does-not-apply"; git -C $W checkout -- .; continue; fi
  line="$id"
  for p in $props; do
    out=$(RWS_REPO=$W RWS_BUILD_DIR=$B RWS_EVIDENCE_DIR=$B/evidence $S/check $p 2>&1); rc=$?
    if [ $rc -ne 0 ]; then line="$line | $p exit=$rc: $(echo "$out" | grep -E "^(FAILED-OBLIGATION|FAILED-ON-REAL-CODE|UNDECIDED)" | head -1 | cut -c1-200)"; fi
  done
  echo "$line"
  git -C $W checkout -- .
done
git -C /repo worktree remove --force $W; rm -rf $W $B $S
