#!/bin/bash
# runs every claimed check on the (clean) tree, validates evidence + manifest
cd /verif
if [ -n "$(git -C /repo status --porcelain)" ]; then echo "/repo working tree is not clean"; exit 9; fi
rc=0
for p in $(python3 -c "import json;print(' '.join(c['property_id'] for c in json.load(open('MANIFEST.json'))['checks']))"); do
  ./check $p --tier ${1:-quick} | grep -E "^(OK|VIOLATION|UNDECIDED)" ; [ ${PIPESTATUS[0]} -ne 0 ] && rc=1
done
/opt/veriftools/pyvenv/bin/python - <<'PY'
import json,jsonschema
m=json.load(open('/verif/MANIFEST.json'))
jsonschema.validate(m,json.load(open('/root/.vp/MANIFEST.schema.json')))
for c in m['checks']:
    e=json.load(open(c['evidence_file']))
    jsonschema.validate(e,json.load(open('/root/.vp/EVIDENCE.schema.json')))
    cov=e['coverage']
    assert e['level']!='proof' or cov['obligations']==cov['discharged'], (c['property_id'],cov['obligations'],cov['discharged'])
    assert e.get('violations',0)==0
print('manifest+evidence valid')
PY
[ $rc -ne 0 ] && echo "SOME CHECK DID NOT PASS - do not commit this evidence"
exit $rc
