#!/bin/bash
# re-confirm every seeded change against /repo's current HEAD; obsolete ones (no longer applying / no longer breaking) are moved aside
cd /verif
mkdir -p seeded_obsolete
for d in seeded/*/; do
  id=$(basename $d)
  rm -rf /tmp/reseed-$id; cp -r $d /tmp/reseed-$id
  out=$(python3 tools/confirm_seed.py /tmp/reseed-$id $id.tmp | tail -1)
  ok=$(echo "$out" | python3 -c "import sys,json; print(json.loads(sys.stdin.read()).get('confirmed'))" 2>/dev/null)
  if [ "$ok" == "True" ]; then rm -rf seeded/$id; mv seeded/$id.tmp seeded/$id; echo "$id still-confirmed";
  else rm -rf seeded/$id.tmp; rm -rf seeded_obsolete/$id; mv seeded/$id seeded_obsolete/$id; echo "$out" > seeded_obsolete/$id/reconfirm.json; echo "$id OBSOLETE"; fi
  rm -rf /tmp/reseed-$id
done
