#!/usr/bin/env python3
"""Cross matrix: every seeded change against EVERY check that can see the files it touches (not only the check of its own property):
check that has a unit extracting from a file the patch touches (the other checks cannot see the change: their text is
identical), each worker on its own scratch worktree of /repo and snapshot of /verif under /tmp.  One line per patch."""
import json, os, re, subprocess, sys, shutil
from concurrent.futures import ThreadPoolExecutor
sys.path.insert(0, "/verif"); sys.path.insert(0, "/verif/lib")
import units
WORKERS = int(os.environ.get("WORKERS", "4"))
claimed = [c["property_id"] for c in json.load(open("/verif/MANIFEST.json"))["checks"]]
def props_for(files):
    ps = []
    for p in claimed:
        hit = False
        for un in units.PROPS[p]["units"]:
            for (src, _items) in units.UNITS[un]["sources"]:
                if src in files:
                    hit = True
        if hit or p in ("C04", "C13"):      # end-to-end routines of these two see every file
            ps.append(p)
    return ps
def sh(cmd, **kw):
    return subprocess.run(cmd, shell=True, capture_output=True, text=True, **kw)
def worker(args):
    k, ids = args
    W, B, S = "/tmp/rws-xm-repo-%d" % k, "/tmp/rws-xm-build-%d" % k, "/tmp/rws-xm-verif-%d" % k
    sh("git -C /repo worktree remove --force %s; rm -rf %s %s %s" % (W, W, B, S))
    sh("git -C /repo worktree add -q --detach %s HEAD" % W)
    os.makedirs(B); os.makedirs(S)
    sh("rsync -a --exclude build --exclude .git --exclude seeded --exclude seeded_obsolete --exclude harmless --exclude falsify/docroot /verif/ %s/" % S)
    out = []
    for hid in ids:
        patch = "/verif/seeded/%s/patch.diff" % hid
        files = set(re.findall(r"^\+\+\+ b/(\S+)", open(patch).read(), re.M))
        if sh("git -C %s apply %s" % (W, patch)).returncode != 0:
            out.append("%s patch-does-not-apply" % hid); sh("git -C %s checkout -- ." % W); continue
        line = hid
        ps = props_for(files)
        for p in ps:
            r = sh("RWS_REPO=%s RWS_BUILD_DIR=%s RWS_EVIDENCE_DIR=%s/evidence %s/check %s" % (W, B, B, S, p))
            if r.returncode != 0:
                first = [l for l in r.stdout.split("\n") if re.match(r"^(FAILED-OBLIGATION|FAILED-ON-REAL-CODE|UNDECIDED)", l)]
                line += " | %s exit=%d: %s" % (p, r.returncode, (first[0] if first else "")[:200])
        line += "   [checks run: %s]" % " ".join(ps)
        out.append(line); print(line, flush=True)
        sh("git -C %s checkout -- ." % W)
    sh("git -C /repo worktree remove --force %s; rm -rf %s %s %s" % (W, W, B, S))
    return out
ids = sorted([d for d in os.listdir("/verif/seeded") if os.path.isdir("/verif/seeded/" + d)], key=lambda s: s)
if len(sys.argv) > 1: ids = [i for i in ids if i in sys.argv[1:]]
chunks = [(k, ids[k::WORKERS]) for k in range(WORKERS)]
with ThreadPoolExecutor(WORKERS) as ex:
    list(ex.map(worker, chunks))
