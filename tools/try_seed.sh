#!/bin/bash
# usage: tools/try_seed.sh <seed-id> <property> [<property>...]   -- applies /verif/seeded/<id>/patch.diff to /repo, runs the checks
# (evidence goes to build/seed-evidence so that committed evidence always comes from the unchanged tree), then restores /repo.
id=$1; shift
cd /verif
if ! git -C /repo apply --3way /verif/seeded/$id/patch.diff >/dev/null 2>&1; then echo "$id: patch does not apply"; git -C /repo reset -q; git -C /repo checkout -- . ; exit 3; fi
git -C /repo reset -q
for p in "$@"; do
  out=$(RWS_EVIDENCE_DIR=/verif/build/seed-evidence ./check $p 2>&1); rc=$?
  echo "== $id vs $p: exit $rc"; echo "$out" | grep -E "^(VIOLATION|FAILED|OK|UNDECIDED)" | cut -c1-260 | head -6
done
git -C /repo checkout -- .
