#!/usr/bin/env python3
"""Regenerates the table of DESIGN.md section 0.5 from a seed-matrix log (tools/seed_matrix.sh) and the seeds' meta.json.
usage: tools/seeds_table.py build/seed_matrix_full3.log [more logs: later lines win]"""
import json, os, re, sys
rows = {}
for log in sys.argv[1:]:
    for l in open(log):
        m = re.match(r"(\S+) (C\d\d) exit=(\d) :: (.*)", l.strip())
        if m:
            rows[m.group(1)] = (m.group(2), int(m.group(3)), m.group(4))
# seeds that the check of the property they were written for passes, and why (verified by running the named check on them)
ELSEWHERE = {
    "C03-r8-2": "a panic of the access logger: reported by the C04 check (`Log::request_response / precondition / boxed_parse.unwrap()`)",
    "C11-r6-1": "what the settings are after start-up: reported by the C12 check (`read_config_file / assertion / file_step`)",
    "C11-r8-1": "what the settings are after start-up: reported by the C12 check (`read_config_file / assertion / value@ == clean_value(v0)`)",
    "C11-r10-1": "what the settings are after start-up: reported by the C12 check (`strip_whitespaces / postcondition`)",
    "C04-r10-1": "one response is still written, its head is malformed: reported by the C05 / C10 / C14 checks (`truncate_new_line_carriage_return / postcondition`)",
    "C12-r11a-3": "the settings are as they should be, the CORS code reads the wrong one: reported by the C11 check (`Cors::process_using_default_config / postcondition`)",
    "C03-r6-3": "`Response::generate`, the twin the server does not call; its postconditions already fail (known finding F10, owned by C15)",
    "C03-r12-1": "`Response::generate`, the twin the server does not call; its postconditions already fail (known finding F10, owned by C15)",
    "C04-r6-3": "a schedule property (one connection at a time): C06 / C07, not applicable to this technique",
}
out = ["| seed | what it changes | verdict | how |", "|---|---|---|---|"]
n = {"obligation": 0, "counterexample": 0, "missed": 0}
for sid in sorted(rows, key=lambda s: (s[:3], "r" in s, s)):
    pid, rc, how = rows[sid]
    try:
        meta = json.load(open("/verif/seeded/%s/meta.json" % sid))
    except Exception:
        continue
    what = meta.get("summary", "").replace("\n", " ").replace("|", "\\|")[:150]
    if rc == 1 and how.startswith("FAILED-OBLIGATION"):
        ob = re.search(r"<<(.*?)(>>|$)", how).group(1)
        parts = [p.strip() for p in ob.split(" / ")]
        verdict, desc = "caught", "obligation: %s / %s" % (parts[0], parts[1] if len(parts) > 1 else "")
        n["obligation"] += 1
    elif rc == 1:
        why = re.search(r"\((.*?)\) witness", how)
        verdict, desc = "caught", "counterexample on the real code (%s)" % (why.group(1)[:110].replace("|", "\\|") if why else how[:80])
        n["counterexample"] += 1
    else:
        verdict, desc = "**missed**", ("check passes" if rc == 0 else "undecided, no failing input found: " + how[:90].replace("|", "\\|"))
        if sid in ELSEWHERE:
            verdict = "**not by this check**"
            desc += "; " + ELSEWHERE[sid]
        n["missed"] += 1
    out.append("| %s | %s | %s | %s |" % (sid, what, verdict, desc))
print("\n".join(out))
print()
print("Totals: %d seeds; %d caught by a named obligation, %d by a counterexample on the real code, %d missed." % (sum(n.values()), n["obligation"], n["counterexample"], n["missed"]))
