#!/bin/bash
# Runs every seeded change against the check of its property ON A SCRATCH COPY of /repo (git worktree under /tmp) with its
# own build directory, so that /repo and /verif/build stay untouched.  One line per seed in build/seed_matrix.log.
# optional argument: a shell pattern of seed ids (e.g. "*-r[23]-*")
cd /verif
W=/tmp/rws-matrix-repo$MATRIX_SUFFIX; B=/tmp/rws-matrix-build$MATRIX_SUFFIX
git -C /repo worktree remove --force $W 2>/dev/null; rm -rf $W $B $S
git -C /repo worktree add -q --detach $W HEAD || exit 2
# the checks run from a SNAPSHOT of /verif, so that contracts can be edited while a matrix runs
S=/tmp/rws-matrix-verif$MATRIX_SUFFIX; rm -rf $S; mkdir -p $S; rsync -a --exclude build --exclude .git --exclude seeded --exclude seeded_obsolete --exclude harmless --exclude "falsify/docroot" /verif/ $S/
mkdir -p $B
for d in seeded/${1:-*}/; do
  id=$(basename $d); p=${id%%-*}
  if [ -n "$SKIP_FILE" ] && grep -q "^$id " "$SKIP_FILE"; then continue; fi
  if ! grep -q "\"property_id\": \"$p\"" MANIFEST.json; then echo "$id $p not-claimed"; continue; fi
  if ! git -C $W apply --3way /verif/seeded/$id/patch.diff >/dev/null 2>&1; then echo "$id $p patch-does-not-apply"; git -C $W reset -q; git -C $W checkout -- .; continue; fi
  git -C $W reset -q
  out=$(RWS_REPO=$W RWS_BUILD_DIR=$B RWS_EVIDENCE_DIR=$B/evidence $S/check $p 2>&1); rc=$?
  how=$(echo "$out" | grep -E "^(FAILED-OBLIGATION|FAILED-ON-REAL-CODE|UNDECIDED|OK)" | head -1 | cut -c1-170)
  echo "$id $p exit=$rc :: $how"
  git -C $W checkout -- .
done
git -C /repo worktree remove --force $W; rm -rf $W $B $S
