#!/bin/bash
# usage: tools/try_seed_scratch.sh <seed-id> <property>...   -- like try_seed.sh, but on a scratch worktree of /repo (safe while other checks read /repo)
id=$1; shift
cd /verif
W=/tmp/rws-try-$id; B=/tmp/rws-try-$id-build
git -C /repo worktree remove --force $W 2>/dev/null; rm -rf $W $B
git -C /repo worktree add -q --detach $W HEAD || exit 2
if ! git -C $W apply --3way /verif/seeded/$id/patch.diff >/dev/null 2>&1; then echo "$id: patch does not apply"; else
  git -C $W reset -q
  for p in "$@"; do
    out=$(RWS_REPO=$W RWS_BUILD_DIR=$B RWS_EVIDENCE_DIR=$B/evidence ./check $p 2>&1); rc=$?
    echo "== $id vs $p: exit $rc"; echo "$out" | grep -E "^(VIOLATION|FAILED|OK|UNDECIDED)" | cut -c1-260 | head -4
  done
fi
git -C /repo worktree remove --force $W; rm -rf $W $B
