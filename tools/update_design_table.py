#!/usr/bin/env python3
"""Splices the output of tools/seeds_table.py between the SEEDS-TABLE markers of DESIGN.md.  usage: update_design_table.py log [log..]"""
import subprocess, sys
t = subprocess.run([sys.executable, "/verif/tools/seeds_table.py"] + sys.argv[1:], capture_output=True, text=True).stdout
s = open("/verif/DESIGN.md").read()
a = s.index("<!-- SEEDS-TABLE-BEGIN -->") + len("<!-- SEEDS-TABLE-BEGIN -->")
b = s.index("<!-- SEEDS-TABLE-END -->")
open("/verif/DESIGN.md", "w").write(s[:a] + "\n" + t + s[b:])
print(t.strip().split("\n")[-1])
