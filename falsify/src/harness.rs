// Native falsifier / replay harness (DESIGN.md 4.3).  Compiled together with the REAL modules of /repo/src
// (main.rs of this crate is generated: one `#[path = "/repo/src/<m>/mod.rs"] pub mod <m>;` per module of /repo/src/main.rs).
// It never decides a verdict; it only looks for a concrete input on which the real code violates the executable
// form of a contract clause, and replays a recorded one.
#![allow(dead_code)]
use std::panic;

pub struct Rng(pub u64);
impl Rng {
    pub fn next(&mut self) -> u64 {
        self.0 ^= self.0 << 13;
        self.0 ^= self.0 >> 7;
        self.0 ^= self.0 << 17;
        self.0
    }
    pub fn below(&mut self, n: u64) -> u64 { if n == 0 { 0 } else { self.next() % n } }
}

fn hex(b: &[u8]) -> String { b.iter().map(|x| format!("{:02x}", x)).collect() }
fn unhex(s: &str) -> Vec<u8> { (0..s.len() / 2).map(|i| u8::from_str_radix(&s[2 * i..2 * i + 2], 16).unwrap()).collect() }
fn jstr(s: &str) -> String {
    let mut o = String::from("\"");
    for c in s.chars() {
        match c {
            '"' => o.push_str("\\\""), '\\' => o.push_str("\\\\"), '\n' => o.push_str("\\n"), '\r' => o.push_str("\\r"),
            c if (c as u32) < 0x20 => o.push_str(&format!("\\u{:04x}", c as u32)),
            c => o.push(c),
        }
    }
    o.push('"');
    o
}

// first failing input per (routine, case); the driver ignores cases listed as known findings
pub struct Hits { seen: Vec<String>, pub n: usize }
impl Hits {
    pub fn new() -> Self { Hits { seen: vec![], n: 0 } }
    pub fn hit(&mut self, routine: &str, case: &str, func: &str, input: &str, observed: &str) {
        let key = format!("{}/{}", routine, case);
        if self.seen.contains(&key) { return; }
        self.seen.push(key);
        self.n += 1;
        report(routine, case, func, input, observed);
    }
}

fn report(routine: &str, case: &str, func: &str, input: &str, observed: &str) {
    println!("{{\"routine\":{},\"case\":{},\"function\":{},\"input\":{},\"observed\":{}}}", jstr(routine), jstr(case), jstr(func), jstr(input), jstr(observed));
}

// ---------------------------------------------------------------- base64 (C18)
mod b64 {
    use super::*;
    use crate::core::base64::Base64;

    const T: &[u8; 64] = b"ABCDEFGHIJKLMNOPQRSTUVWXYZabcdefghijklmnopqrstuvwxyz0123456789+/";
    pub fn reference(x: &[u8]) -> String {
        let mut o = String::new();
        for ch in x.chunks(3) {
            let w = ((ch[0] as u32) << 16) | ((*ch.get(1).unwrap_or(&0) as u32) << 8) | (*ch.get(2).unwrap_or(&0) as u32);
            o.push(T[(w >> 18) as usize & 63] as char);
            o.push(T[(w >> 12) as usize & 63] as char);
            o.push(if ch.len() > 1 { T[(w >> 6) as usize & 63] as char } else { '=' });
            o.push(if ch.len() > 2 { T[w as usize & 63] as char } else { '=' });
        }
        o
    }
    fn ok_char(c: char) -> bool { c == '=' || (c.is_ascii() && T.contains(&(c as u8))) }

    // returns Some(description) when the clause is violated on this input
    pub fn check_encode(x: &[u8]) -> Option<String> {
        let r = panic::catch_unwind(|| Base64::encode(x));
        match r {
            Err(_) => Some("panic".into()),
            Ok(Err(e)) => Some(format!("Err({})", e)),
            Ok(Ok(s)) => if s != reference(x) { Some(format!("Ok({}) but RFC 4648 text is {}", s, reference(x))) } else { None },
        }
    }
    pub fn check_roundtrip(x: &[u8]) -> Option<String> {
        let t = reference(x);
        let r = panic::catch_unwind(|| Base64::decode(t.clone()));
        match r {
            Err(_) => Some("panic".into()),
            Ok(Err(e)) => Some(format!("decode({}) = Err({})", t, e)),
            Ok(Ok(v)) => if v != x { Some(format!("decode({}) = {:?}", t, v)) } else { None },
        }
    }
    pub fn check_foreign(t: &str) -> Option<String> {
        if t.chars().all(ok_char) { return None; }
        let tt = t.to_string();
        let r = panic::catch_unwind(move || Base64::decode(tt));
        match r {
            Err(_) => Some("panic".into()),
            Ok(Err(_)) => None,
            Ok(Ok(v)) => Some(format!("decode returned Ok({:?}) for text with a character outside the alphabet", v)),
        }
    }
    pub fn check_foreign_seq(t: &str) -> Option<String> {
        if t.chars().all(ok_char) || t.chars().count() > 4 || !t.is_ascii() { return None; }
        let tt = t.to_string();
        let r = panic::catch_unwind(move || Base64::decode_sequence(tt));
        match r {
            Err(_) => Some("panic".into()),
            Ok(Err(_)) => None,
            Ok(Ok(v)) => Some(format!("decode_sequence returned Ok({:?}) for a group with a character outside the alphabet", v)),
        }
    }

    pub fn search(seed: u64) -> bool {
        let mut rng = Rng(seed | 1);
        // exhaustive 0..2 bytes, sampled 3 bytes and longer
        let mut inputs: Vec<Vec<u8>> = vec![vec![]];
        for a in 0..=255u8 { inputs.push(vec![a]); }
        for a in 0..=255u8 { for b in 0..=255u8 { inputs.push(vec![a, b]); } }
        for _ in 0..200000 { inputs.push(vec![rng.next() as u8, rng.next() as u8, rng.next() as u8]); }
        for _ in 0..2000 { let n = rng.below(300) as usize; inputs.push((0..n).map(|_| rng.next() as u8).collect()); }
        for base in [1024usize, 4096, 8192, 16384, 65536] { for d in 0..6 { let n = base - 2 + d; inputs.push((0..n).map(|_| rng.next() as u8).collect()); } }
        let mut h = Hits::new();
        for x in &inputs {
            if let Some(o) = check_encode(x) { h.hit("base64", "encode", "Base64::encode", &hex(x), &o); }
            if let Some(o) = check_roundtrip(x) { h.hit("base64", "roundtrip", "Base64::decode", &hex(x), &o); }
            if h.n >= 2 { break; }
        }
        // foreign characters: every position of valid texts, padding-only groups, non-ASCII
        let foreign = ['!', '-', '_', ' ', '\n', '\u{0}', '\u{7f}', 'é', 'Ł', '\u{1F600}', '.', '*'];
        let mut texts: Vec<String> = vec![];
        for base in ["QUJD", "QUI=", "QQ==", "QUJDREVG", "QUJDRA==", "====", "A===", "==", "="] {
            let cs: Vec<char> = base.chars().collect();
            for i in 0..cs.len() { for f in foreign { let mut c2 = cs.clone(); c2[i] = f; texts.push(c2.into_iter().collect()); } }
            for f in foreign { let mut s = base.to_string(); s.push(f); texts.push(s); }
        }
        for t in &texts {
            if let Some(o) = check_foreign_seq(t) { h.hit("base64", "foreign_seq", "Base64::decode_sequence", t, &o); }
            if let Some(o) = check_foreign(t) { h.hit("base64", "foreign", "Base64::decode", t, &o); }
        }
        h.n > 0
    }
    pub fn replay(case: &str, input: &str) -> bool {
        let o = match case {
            "encode" => check_encode(&unhex(input)),
            "roundtrip" => check_roundtrip(&unhex(input)),
            "foreign" => check_foreign(input),
            "foreign_seq" => check_foreign_seq(input),
            _ => None,
        };
        if let Some(o) = o { report("base64", case, "", input, &o); true } else { false }
    }
}

// ---------------------------------------------------------------- byte ranges (C03)
mod rng {
    use super::*;
    use crate::range::Range;

    // executable forms of the clauses of contracts/range.vc for one range-spec
    pub fn check_spec(len: u64, spec: &str) -> Vec<(String, String)> {
        let mut out = vec![];
        check_spec_into(len, spec, &mut out);
        out
    }
    fn check_spec_into(len: u64, spec: &str, out: &mut Vec<(String, String)>) {
        let s = spec.to_string();
        let r = panic::catch_unwind(move || Range::parse_range_in_content_range(len, &s));
        let parts: Vec<&str> = spec.split('-').collect();
        let a = parts[0].trim();
        let b = if parts.len() > 1 { parts[1].trim() } else { "" };
        let na = a.parse::<u64>().ok();
        let nb = b.parse::<u64>().ok();
        let strict = |t: &str| !t.is_empty() && t.chars().all(|c| c.is_ascii_digit());
        match r {
            Err(_) => out.push(("panic".into(), "panicked".into())),
            Ok(Ok(r)) => {
                if !(r.start <= r.end && r.end <= len) { out.push(("range_ok".into(), format!("Ok({}-{}) violates start<=end<=len", r.start, r.end))); }
                if !a.is_empty() && Some(r.start) != na { out.push(("range_ok".into(), format!("Ok start {} for first-byte-pos {}", r.start, a))); }
                if !a.is_empty() && !b.is_empty() && Some(r.end) != nb { out.push(("range_ok".into(), format!("Ok end {} for last-byte-pos {}", r.end, b))); }
                if a.is_empty() && !b.is_empty() { let n = nb.unwrap_or(0); let want = if n <= len { len - n } else { 0 }; if r.start != want { out.push(("range_ok".into(), format!("suffix {}: start {} expected {}", n, r.start, want))); } }
                if r.end >= len { out.push(("end<len".into(), format!("Ok({}-{}) names offset {} which is not inside a file of {} bytes", r.start, r.end, r.end, len))); }
            }
            Ok(Err(e)) => {
                if *e.status_code_reason_phrase.status_code != 416 { out.push(("is_416".into(), format!("error status {}", e.status_code_reason_phrase.status_code))); }
                // in-file ranges must be accepted
                let inside = match (na, nb, a.is_empty(), b.is_empty()) {
                    (Some(x), Some(y), false, false) => strict(a) && strict(b) && x <= y && y < len,
                    (Some(x), _, false, true) => strict(a) && x < len,
                    (_, Some(y), true, false) => strict(b) && 0 < y && y <= len,
                    _ => false,
                };
                if inside { out.push(("accept".into(), format!("Err({}) for a range inside the file", e.message))); }
            }
        }
    }

    pub fn search(seed: u64) -> bool {
        let mut rng = Rng(seed | 1);
        let mut h = Hits::new();
        let lens = [1380u64, 5, 0, 1, 2, 8191, 8192, 8193, u64::MAX - 1, u64::MAX];
        for &len in lens.iter() {
            let mut vals: Vec<String> = vec!["".into(), "0".into(), "1".into(), "x".into(), " 3 ".into(), "+2".into(), "-".into(), "18446744073709551615".into(), "18446744073709551616".into()];
            for d in [len.wrapping_sub(2), len.wrapping_sub(1), len, len.wrapping_add(1)] { vals.push(d.to_string()); }
            for _ in 0..4 { vals.push(rng.below(len.max(1)).to_string()); }
            for a in &vals { for b in &vals {
                let spec = format!("{}-{}", a, b);
                for (clause, o) in check_spec(len, &spec) {
                    h.hit("range", &clause, "Range::parse_range_in_content_range", &format!("{}|{}", len, spec), &o);
                }
            } }
        }
        h.n > 0
    }
    pub fn replay(_case: &str, input: &str) -> bool {
        let (l, spec) = input.split_once('|').unwrap();
        let mut found = false;
        for (clause, o) in check_spec(l.parse().unwrap(), spec) { if clause == _case { report("range", &clause, "", input, &o); found = true; } }
        found
    }
}

pub fn dispatch(args: &[String]) -> i32 {
    panic::set_hook(Box::new(|_| {}));
    if args.len() < 2 { eprintln!("usage: falsify search <routine> <seed> | replay <routine> <case> <input>"); return 2; }
    let found = match (args[0].as_str(), args[1].as_str()) {
        ("search", "base64") => b64::search(args.get(2).and_then(|s| s.parse().ok()).unwrap_or(1)),
        ("replay", "base64") => b64::replay(&args[2], &args[3]),
        ("search", "range") => rng::search(args.get(2).and_then(|s| s.parse().ok()).unwrap_or(1)),
        ("replay", "range") => rng::replay(&args[2], &args[3]),
        _ => { eprintln!("unknown routine"); return 2; }
    };
    if found { 1 } else { 0 }
}
