// Native falsifier / replay harness (DESIGN.md 4.3).  Compiled together with the REAL modules of /repo/src
// (main.rs of this crate is generated: one `#[path = "/repo/src/<m>/mod.rs"] pub mod <m>;` per module of /repo/src/main.rs).
// It never decides a verdict; it only looks for a concrete input on which the real code violates the executable
// form of a contract clause, and replays a recorded one.
#![allow(dead_code)]
use std::panic;

pub struct Rng(pub u64);
impl Rng {
    pub fn next(&mut self) -> u64 {
        self.0 ^= self.0 << 13;
        self.0 ^= self.0 >> 7;
        self.0 ^= self.0 << 17;
        self.0
    }
    pub fn below(&mut self, n: u64) -> u64 { if n == 0 { 0 } else { self.next() % n } }
}

fn hex(b: &[u8]) -> String { b.iter().map(|x| format!("{:02x}", x)).collect() }
fn unhex(s: &str) -> Vec<u8> { (0..s.len() / 2).map(|i| u8::from_str_radix(&s[2 * i..2 * i + 2], 16).unwrap()).collect() }
fn jstr(s: &str) -> String {
    let mut o = String::from("\"");
    for c in s.chars() {
        match c {
            '"' => o.push_str("\\\""), '\\' => o.push_str("\\\\"), '\n' => o.push_str("\\n"), '\r' => o.push_str("\\r"),
            c if (c as u32) < 0x20 => o.push_str(&format!("\\u{:04x}", c as u32)),
            c => o.push(c),
        }
    }
    o.push('"');
    o
}

// first failing input per (routine, case); the driver ignores cases listed as known findings
pub struct Hits { seen: Vec<String>, per_case: Vec<(String, usize)>, pub n: usize }
impl Hits {
    pub fn new() -> Self { Hits { seen: vec![], per_case: vec![], n: 0 } }
    // reports every distinct (case, input), at most 25 per case
    pub fn hit(&mut self, routine: &str, case: &str, func: &str, input: &str, observed: &str) {
        let key = format!("{}/{}/{}", routine, case, input);
        if self.seen.contains(&key) { return; }
        let ck = format!("{}/{}", routine, case);
        let mut found = false;
        for pc in self.per_case.iter_mut() { if pc.0 == ck { found = true; if pc.1 >= 25 { return; } pc.1 += 1; } }
        if !found { self.per_case.push((ck, 1)); }
        self.seen.push(key);
        self.n += 1;
        report(routine, case, func, input, observed);
    }
}

fn report(routine: &str, case: &str, func: &str, input: &str, observed: &str) {
    println!("{{\"routine\":{},\"case\":{},\"function\":{},\"input\":{},\"observed\":{}}}", jstr(routine), jstr(case), jstr(func), jstr(input), jstr(observed));
}

// ---------------------------------------------------------------- base64 (C18)
mod b64 {
    use super::*;
    use crate::core::base64::Base64;

    const T: &[u8; 64] = b"ABCDEFGHIJKLMNOPQRSTUVWXYZabcdefghijklmnopqrstuvwxyz0123456789+/";
    pub fn reference(x: &[u8]) -> String {
        let mut o = String::new();
        for ch in x.chunks(3) {
            let w = ((ch[0] as u32) << 16) | ((*ch.get(1).unwrap_or(&0) as u32) << 8) | (*ch.get(2).unwrap_or(&0) as u32);
            o.push(T[(w >> 18) as usize & 63] as char);
            o.push(T[(w >> 12) as usize & 63] as char);
            o.push(if ch.len() > 1 { T[(w >> 6) as usize & 63] as char } else { '=' });
            o.push(if ch.len() > 2 { T[w as usize & 63] as char } else { '=' });
        }
        o
    }
    fn ok_char(c: char) -> bool { c == '=' || (c.is_ascii() && T.contains(&(c as u8))) }

    // returns Some(description) when the clause is violated on this input
    pub fn check_encode(x: &[u8]) -> Option<String> {
        let r = panic::catch_unwind(|| Base64::encode(x));
        match r {
            Err(_) => Some("panic".into()),
            Ok(Err(e)) => Some(format!("Err({})", e)),
            Ok(Ok(s)) => if s != reference(x) { Some(format!("Ok({}) but RFC 4648 text is {}", s, reference(x))) } else { None },
        }
    }
    pub fn check_roundtrip(x: &[u8]) -> Option<String> {
        let t = reference(x);
        let r = panic::catch_unwind(|| Base64::decode(t.clone()));
        match r {
            Err(_) => Some("panic".into()),
            Ok(Err(e)) => Some(format!("decode({}) = Err({})", t, e)),
            Ok(Ok(v)) => if v != x { Some(format!("decode({}) = {:?}", t, v)) } else { None },
        }
    }
    pub fn check_foreign(t: &str) -> Option<String> {
        if t.chars().all(ok_char) { return None; }
        let tt = t.to_string();
        let r = panic::catch_unwind(move || Base64::decode(tt));
        match r {
            Err(_) => Some("panic".into()),
            Ok(Err(_)) => None,
            Ok(Ok(v)) => Some(format!("decode returned Ok({:?}) for text with a character outside the alphabet", v)),
        }
    }
    pub fn check_foreign_seq(t: &str) -> Option<String> {
        if t.chars().all(ok_char) || t.chars().count() > 4 || !t.is_ascii() { return None; }
        let tt = t.to_string();
        let r = panic::catch_unwind(move || Base64::decode_sequence(tt));
        match r {
            Err(_) => Some("panic".into()),
            Ok(Err(_)) => None,
            Ok(Ok(v)) => Some(format!("decode_sequence returned Ok({:?}) for a group with a character outside the alphabet", v)),
        }
    }

    pub fn search(seed: u64) -> bool {
        let mut rng = Rng(seed | 1);
        // exhaustive 0..2 bytes, sampled 3 bytes and longer
        let mut inputs: Vec<Vec<u8>> = vec![vec![]];
        for a in 0..=255u8 { inputs.push(vec![a]); }
        for a in 0..=255u8 { for b in 0..=255u8 { inputs.push(vec![a, b]); } }
        for _ in 0..60000 { inputs.push(vec![rng.next() as u8, rng.next() as u8, rng.next() as u8]); }
        for _ in 0..2000 { let n = rng.below(300) as usize; inputs.push((0..n).map(|_| rng.next() as u8).collect()); }
        for base in [1024usize, 4096, 8192, 16384] { for d in 0..4 { let n = base - 2 + d; inputs.push((0..n).map(|_| rng.next() as u8).collect()); } }
        let mut h = Hits::new();
        for x in &inputs {
            if let Some(o) = check_encode(x) { h.hit("base64", "encode", "Base64::encode", &hex(x), &o); }
            if x.len() <= 9000 { if let Some(o) = check_roundtrip(x) { h.hit("base64", "roundtrip", "Base64::decode", &hex(x), &o); } }
            if h.n >= 6 { break; }
        }
        // foreign characters: every position of valid texts, padding-only groups, non-ASCII
        let foreign = ['!', '-', '_', ' ', '\n', '\u{0}', '\u{7f}', 'é', 'Ł', '\u{1F600}', '.', '*'];
        let mut texts: Vec<String> = vec![];
        for base in ["QUJD", "QUI=", "QQ==", "QUJDREVG", "QUJDRA==", "====", "A===", "==", "="] {
            let cs: Vec<char> = base.chars().collect();
            for i in 0..cs.len() { for f in foreign { let mut c2 = cs.clone(); c2[i] = f; texts.push(c2.into_iter().collect()); } }
            for f in foreign { let mut s = base.to_string(); s.push(f); texts.push(s); }
        }
        for t in &texts {
            if let Some(o) = check_foreign_seq(t) { h.hit("base64", "foreign_seq", "Base64::decode_sequence", t, &o); }
            if let Some(o) = check_foreign(t) { h.hit("base64", "foreign", "Base64::decode", t, &o); }
        }
        h.n > 0
    }
    pub fn replay(case: &str, input: &str) -> bool {
        let o = match case {
            "encode" => check_encode(&unhex(input)),
            "roundtrip" => check_roundtrip(&unhex(input)),
            "foreign" => check_foreign(input),
            "foreign_seq" => check_foreign_seq(input),
            _ => None,
        };
        if let Some(o) = o { report("base64", case, "", input, &o); true } else { false }
    }
}

// ---------------------------------------------------------------- byte ranges (C03)
mod rng {
    use super::*;
    use crate::range::Range;

    // executable forms of the clauses of contracts/range.vc for one range-spec
    pub fn check_spec(len: u64, spec: &str) -> Vec<(String, String)> {
        let mut out = vec![];
        check_spec_into(len, spec, &mut out);
        out
    }
    fn check_spec_into(len: u64, spec: &str, out: &mut Vec<(String, String)>) {
        let s = spec.to_string();
        let r = panic::catch_unwind(move || Range::parse_range_in_content_range(len, &s));
        let parts: Vec<&str> = spec.split('-').collect();
        let a = parts[0].trim();
        let b = if parts.len() > 1 { parts[1].trim() } else { "" };
        let na = a.parse::<u64>().ok();
        let nb = b.parse::<u64>().ok();
        let strict = |t: &str| !t.is_empty() && t.chars().all(|c| c.is_ascii_digit());
        match r {
            Err(_) => out.push(("panic".into(), "panicked".into())),
            Ok(Ok(r)) => {
                if !(r.start <= r.end && r.end <= len) { out.push(("range_ok".into(), format!("Ok({}-{}) violates start<=end<=len", r.start, r.end))); }
                if !a.is_empty() && Some(r.start) != na { out.push(("range_ok".into(), format!("Ok start {} for first-byte-pos {}", r.start, a))); }
                if !a.is_empty() && !b.is_empty() && Some(r.end) != nb { out.push(("range_ok".into(), format!("Ok end {} for last-byte-pos {}", r.end, b))); }
                if a.is_empty() && !b.is_empty() { let n = nb.unwrap_or(0); let want = if n <= len { len - n } else { 0 }; if r.start != want { out.push(("range_ok".into(), format!("suffix {}: start {} expected {}", n, r.start, want))); } }
                if r.end >= len { out.push(("end<len".into(), format!("Ok({}-{}) names offset {} which is not inside a file of {} bytes", r.start, r.end, r.end, len))); }
            }
            Ok(Err(e)) => {
                if *e.status_code_reason_phrase.status_code != 416 { out.push(("is_416".into(), format!("error status {}", e.status_code_reason_phrase.status_code))); }
                // in-file ranges must be accepted
                let inside = match (na, nb, a.is_empty(), b.is_empty()) {
                    (Some(x), Some(y), false, false) => strict(a) && strict(b) && x <= y && y < len,
                    (Some(x), _, false, true) => strict(a) && x < len,
                    (_, Some(y), true, false) => strict(b) && 0 < y && y <= len,
                    _ => false,
                };
                if inside { out.push(("accept".into(), format!("Err({}) for a range inside the file", e.message))); }
            }
        }
    }

    pub fn search(seed: u64) -> bool {
        let mut rng = Rng(seed | 1);
        let mut h = Hits::new();
        let lens = [1380u64, 5, 0, 1, 2, 8191, 8192, 8193, u64::MAX - 1, u64::MAX];
        for &len in lens.iter() {
            let mut vals: Vec<String> = vec!["".into(), "0".into(), "1".into(), "x".into(), " 3 ".into(), "+2".into(), "-".into(), "18446744073709551615".into(), "18446744073709551616".into()];
            for d in [len.wrapping_sub(2), len.wrapping_sub(1), len, len.wrapping_add(1)] { vals.push(d.to_string()); }
            for _ in 0..4 { vals.push(rng.below(len.max(1)).to_string()); }
            for a in &vals { for b in &vals {
                let spec = format!("{}-{}", a, b);
                for (clause, o) in check_spec(len, &spec) {
                    h.hit("range", &clause, "Range::parse_range_in_content_range", &format!("{}|{}", len, spec), &o);
                }
            } }
        }
        h.n > 0
    }
    pub fn replay(_case: &str, input: &str) -> bool {
        let (l, spec) = input.split_once('|').unwrap();
        let mut found = false;
        for (clause, o) in check_spec(l.parse().unwrap(), spec) { if clause == _case { report("range", &clause, "", input, &o); found = true; } }
        found
    }
}

// ---------------------------------------------------------------- response serialiser (C03, C05, C09, C15)
mod resp {
    use super::*;
    use crate::header::Header;
    use crate::range::{ContentRange, Range};
    use crate::request::Request;
    use crate::response::Response;

    fn part(rng: &mut Rng, binary: bool) -> ContentRange {
        let n = if rng.below(5) == 0 { 0 } else { rng.below(40) as usize };
        let mut body: Vec<u8> = (0..n).map(|_| if binary { rng.next() as u8 } else { b'a' + (rng.below(26) as u8) }).collect();
        // bodies that themselves end in line breaks: the reader must give back exactly these bytes, not a trimmed version
        match rng.below(8) { 0 => body.extend(b"\r\n"), 1 => body.extend(b"\n"), 2 => body.extend(b"\r"), 3 => body.extend(b"\n\r\n\n"), _ => {} }
        let start = rng.below(1000);
        // resource sizes beyond 32 bits as well (a part of a file of 2 GiB and more)
        let size: u64 = match rng.below(6) { 0 => 2147483648, 1 => 4294967296 + rng.below(1000), 2 => 9000000000000000000, _ => 5000 + rng.below(100) };
        ContentRange { unit: "bytes".to_string(), range: Range { start, end: start + rng.below(60) }, size: size.to_string(), body, content_type: "text/plain".to_string() }
    }
    // independent rendering of the message (RFC 9112 2.1, RFC 9110 14.6)
    pub fn reference(r: &Response, method: &str) -> Vec<u8> {
        let mut headers: Vec<(String, String)> = r.headers.iter().map(|h| (h.name.clone(), h.value.clone())).collect();
        let l = &r.content_range_list;
        let mut body: Vec<u8> = vec![];
        if l.len() == 1 {
            headers.push(("Content-Type".into(), l[0].content_type.clone()));
            headers.push(("Content-Range".into(), format!("bytes {}-{}/{}", l[0].range.start, l[0].range.end, l[0].size)));
            headers.push(("Content-Length".into(), l[0].body.len().to_string()));
            body = l[0].body.clone();
        } else if l.len() > 1 {
            headers.push(("Content-Type".into(), "multipart/byteranges; boundary=String_separator".into()));
            for (i, p) in l.iter().enumerate() {
                if i != 0 { body.extend(b"\r\n"); }
                body.extend(format!("--String_separator\r\nContent-Type:  {}\r\nContent-Range:  bytes {}-{}/{}\r\n\r\n", p.content_type, p.range.start, p.range.end, p.size).as_bytes());
                body.extend(&p.body);
            }
            body.extend(b"\r\n--String_separator");
        }
        let mut out = format!("{} {} {}\r\n", r.http_version, r.status_code, r.reason_phrase).into_bytes();
        for (n, v) in headers { out.extend(format!("{}: {}\r\n", n, v).as_bytes()); }
        out.extend(b"\r\n");
        if method != "HEAD" && method != "OPTIONS" { out.extend(body); }
        out
    }
    pub fn case(seed: u64) -> (Response, String) {
        let mut rng = Rng(seed.wrapping_mul(2654435761) | 1);
        let nparts = rng.below(4) as usize;
        let binary = rng.below(2) == 0;
        let list: Vec<ContentRange> = (0..nparts).map(|_| part(&mut rng, binary)).collect();
        let nh = rng.below(4) as usize;
        let mut headers: Vec<Header> = (0..nh).map(|i| Header { name: format!("X-H{}", i), value: format!("v{}", rng.below(100)) }).collect();
        // values that quote other header lines (a serialiser that searches its own output for "Name: " must not be fooled)
        match rng.below(6) {
            0 => { headers.insert(0, Header { name: "X-Echo".into(), value: "https://a.example X-H0: spoof Content-Type: x Content-Length: 1".into() }); }
            1 => { headers.push(Header { name: "X-H0".into(), value: "same name twice".into() }); }
            2 => { headers.push(Header { name: "X-Columns".into(), value: "name\tsize\tmodified \u{7f} \u{1}".into() }); }     // control characters other than CR / LF survive
            _ => {}
        }
        let codes = [(200i16, "OK"), (206, "Partial Content"), (404, "Not Found"), (416, "Range Not Satisfiable"), (204, "No Content")];
        let (c, p) = codes[rng.below(5) as usize];
        let methods = ["GET", "HEAD", "OPTIONS", "POST", "get"];
        let m = methods[rng.below(5) as usize].to_string();
        // every protocol version the library knows (a response of each is written and must be read back)
        let ver = ["HTTP/1.1", "HTTP/1.1", "HTTP/1.0", "HTTP/0.9", "HTTP/2.0"][rng.below(5) as usize];
        (Response { http_version: ver.into(), status_code: c, reason_phrase: p.into(), headers, content_range_list: list }, m)
    }
    pub fn check(seed: u64) -> Option<String> {
        let (r, m) = case(seed);
        let want = reference(&r, &m);
        let req = Request { method: m.clone(), request_uri: "/".into(), http_version: "HTTP/1.1".into(), headers: vec![], body: vec![] };
        let r2 = r.clone();
        let got = panic::catch_unwind(move || Response::generate_response(r2, req));
        match got {
            Err(_) => Some("panic".into()),
            Ok(g) => if g != want { Some(format!("method {} parts {}: got {} bytes {:?}.. expected {} bytes {:?}..", m, r.content_range_list.len(), g.len(), String::from_utf8_lossy(&g[..g.len().min(120)]), want.len(), String::from_utf8_lossy(&want[..want.len().min(120)]))) } else { None },
        }
    }
    pub fn search(seed: u64) -> bool {
        let mut h = Hits::new();
        for i in 0..3000u64 {
            if let Some(o) = check(seed.wrapping_add(i)) { h.hit("response", "generate_response", "Response::generate_response", &seed.wrapping_add(i).to_string(), &o); break; }
        }
        h.n > 0
    }
    pub fn replay(_case: &str, input: &str) -> bool {
        if let Some(o) = check(input.parse().unwrap()) { report("response", "generate_response", "", input, &o); true } else { false }
    }
}

// ---------------------------------------------------------------- CORS (C11)
mod cors {
    use super::*;
    use crate::cors::Cors;
    use crate::header::Header;
    use crate::request::Request;

    fn hv(hs: &Vec<Header>) -> Vec<(String, String)> { hs.iter().map(|h| (h.name.clone(), h.value.clone())).collect() }
    fn find<'a>(req: &'a Request, n: &str) -> Option<&'a Header> { req.headers.iter().find(|h| h.name.to_lowercase() == n.to_lowercase()) }

    fn grants(origin: &str, creds: bool, options: bool, m: Option<String>, h: Option<String>, e: Option<String>, a: Option<String>) -> Vec<(String, String)> {
        let mut v = vec![("Access-Control-Allow-Origin".to_string(), origin.to_string())];
        if creds { v.push(("Access-Control-Allow-Credentials".into(), "true".into())); }
        if options {
            if let Some(m) = m { v.push(("Access-Control-Allow-Methods".into(), m)); }
            if let Some(h) = h { v.push(("Access-Control-Allow-Headers".into(), h.to_lowercase())); }
            if let Some(e) = e { v.push(("Access-Control-Expose-Headers".into(), e.to_lowercase())); }
            if let Some(a) = a { v.push(("Access-Control-Max-Age".into(), a)); }
        }
        v
    }
    pub struct Case { pub switch: Option<&'static str>, pub origins: Vec<&'static str>, pub methods: &'static str, pub headers: &'static str, pub expose: &'static str,
                      pub creds: bool, pub max_age: &'static str, pub origin: Option<&'static str>, pub method: &'static str, pub preflight: bool }
    pub fn cases() -> Vec<Case> {
        let mut out = vec![];
        let origin_sets: Vec<Vec<&'static str>> = vec![vec![], vec!["https://foo.example"], vec!["https://foo.example", "https://bar.example:8443"]];
        let origins: Vec<Option<&'static str>> = vec![None, Some("https://foo.example"), Some("https://bar.example:8443"), Some("https://foo.exampl"), Some("ttps://foo.example"),
            Some("foo"), Some(""), Some("https://foo.example,https://bar.example:8443"), Some("HTTPS://FOO.EXAMPLE"), Some("https://foo.example.evil.com"),
            Some("https://bar.example"), Some("https://evil.example"), Some(",")];
        for switch in [Some("false"), Some("true"), None, Some("junk")] {
            for os in &origin_sets { for o in &origins { for method in ["GET", "OPTIONS", "options", "POST"] { for creds in [true, false] { for preflight in [true, false] {
                out.push(Case { switch, origins: os.clone(), methods: "GET,POST,PUT", headers: "Content-Type,X-Custom", expose: "X-Exposed,ETag", creds, max_age: "600", origin: *o, method, preflight });
            } } } } }
        }
        out
    }
    fn request(c: &Case) -> Request {
        let mut headers = vec![Header { name: "Host".into(), value: "localhost".into() }];
        if let Some(o) = c.origin { headers.push(Header { name: "oRiGin".into(), value: o.into() }); }
        if c.preflight {
            headers.push(Header { name: "Access-Control-Request-Method".into(), value: "PUT".into() });
            headers.push(Header { name: "Access-Control-Request-Headers".into(), value: "X-Asked, Content-Type".into() });
        }
        Request { method: c.method.into(), request_uri: "/".into(), http_version: "HTTP/1.1".into(), headers, body: vec![] }
    }
    // (a) _process with an explicit configuration   (b) get_headers with the configuration in the environment
    pub fn check(c: &Case) -> Option<(String, String)> {
        let req = request(c);
        let options = c.method == "OPTIONS";
        let cors = Cors { allow_all: false, allow_origins: c.origins.iter().map(|s| s.to_string()).collect(), allow_methods: c.methods.split(',').map(|s| s.to_string()).collect(),
            allow_headers: c.headers.split(',').map(|s| s.to_string()).collect(), allow_credentials: c.creds, expose_headers: c.expose.split(',').map(|s| s.to_string()).collect(), max_age: c.max_age.into() };
        let allowed = c.origin.map(|o| c.origins.iter().any(|a| *a == o)).unwrap_or(false);
        let want_off = if allowed { grants(c.origin.unwrap(), c.creds, options, Some(c.methods.into()), Some(c.headers.into()), Some(c.expose.into()), Some(c.max_age.into())) } else { vec![] };
        let got = panic::catch_unwind(|| Cors::_process(&req, &cors));
        match got {
            Err(_) => return Some(("_process".into(), "panic".into())),
            Ok(Err(_)) => return Some(("_process".into(), "Err".into())),
            Ok(Ok(hs)) => if hv(&hs) != want_off { return Some(("_process".into(), format!("got {:?} expected {:?}", hv(&hs), want_off))); }
        }
        // environment variant
        std::env::set_var("RWS_CONFIG_CORS_ALLOW_ORIGINS", c.origins.join(","));
        std::env::set_var("RWS_CONFIG_CORS_ALLOW_METHODS", c.methods);
        std::env::set_var("RWS_CONFIG_CORS_ALLOW_HEADERS", c.headers);
        std::env::set_var("RWS_CONFIG_CORS_EXPOSE_HEADERS", c.expose);
        std::env::set_var("RWS_CONFIG_CORS_ALLOW_CREDENTIALS", if c.creds { "true" } else { "false" });
        std::env::set_var("RWS_CONFIG_CORS_MAX_AGE", c.max_age);
        match c.switch { Some(v) => std::env::set_var("RWS_CONFIG_CORS_ALLOW_ALL", v), None => std::env::remove_var("RWS_CONFIG_CORS_ALLOW_ALL") }
        let env_allowed = c.origin.map(|o| !o.is_empty() && c.origins.iter().any(|a| *a == o)).unwrap_or(false);
        let want = if c.switch == Some("false") {
            if env_allowed { grants(c.origin.unwrap(), c.creds, options, Some(c.methods.into()), Some(c.headers.into()), Some(c.expose.into()), Some(c.max_age.into())) } else { vec![] }
        } else {
            match c.origin { None => vec![], Some(o) => {
                let m = find(&req, "Access-Control-Request-Method").map(|h| h.value.clone());
                let h = find(&req, "Access-Control-Request-Headers").map(|h| h.value.clone());
                grants(o, true, options, m, h.clone(), h, Some("86400".into())) } }
        };
        let got = panic::catch_unwind(|| Cors::get_headers(&req));
        match got {
            Err(_) => Some(("get_headers".into(), "panic".into())),
            Ok(hs) => if hv(&hs) != want { Some(("get_headers".into(), format!("got {:?} expected {:?}", hv(&hs), want))) } else { None },
        }
    }
    fn describe(c: &Case) -> String { format!("switch={:?} origins={:?} creds={} Origin={:?} method={} preflight={}", c.switch, c.origins, c.creds, c.origin, c.method, c.preflight) }
    pub fn search(_seed: u64) -> bool {
        let mut h = Hits::new();
        for (i, c) in cases().iter().enumerate() {
            if let Some((case, o)) = check(c) { h.hit("cors", &case, "Cors", &i.to_string(), &format!("{} :: {}", describe(c), o)); }
        }
        h.n > 0
    }
    pub fn replay(case: &str, input: &str) -> bool {
        let cs = cases();
        let c = &cs[input.parse::<usize>().unwrap()];
        if let Some((k, o)) = check(c) { if k == case { report("cors", &k, "", input, &format!("{} :: {}", describe(c), o)); return true; } }
        false
    }
}

// ---------------------------------------------------------------- end-to-end through Server::process (C04, C05, C09, C10, C01, C02)
mod e2e {
    use super::*;
    use crate::app::App;
    use crate::core::New;
    use crate::server::{Address, ConnectionInfo, Server};
    use std::io::{Read, Write};

    pub struct Mock { pub input: Vec<u8>, pub pos: usize, pub out: Vec<u8>, pub chunk: usize, pub flush_fails: bool }
    impl Read for Mock {
        fn read(&mut self, buf: &mut [u8]) -> std::io::Result<usize> {
            let n = std::cmp::min(self.input.len() - self.pos, buf.len());
            buf[..n].copy_from_slice(&self.input[self.pos..self.pos + n]);
            self.pos += n;
            Ok(n)
        }
    }
    impl Write for Mock {
        fn write(&mut self, buf: &[u8]) -> std::io::Result<usize> {
            let n = if self.chunk == 0 { buf.len() } else { std::cmp::min(self.chunk, buf.len()) };
            self.out.extend_from_slice(&buf[..n]);
            Ok(n)
        }
        fn flush(&mut self) -> std::io::Result<()> {
            if self.flush_fails { Err(std::io::Error::new(std::io::ErrorKind::ConnectionReset, "reset")) } else { Ok(()) }
        }
    }

    pub struct Parsed { pub status: u16, pub reason: String, pub headers: Vec<(String, String)>, pub body: Vec<u8>, pub head_ok: bool }
    pub fn parse(out: &[u8]) -> Option<Parsed> {
        let pos = out.windows(4).position(|w| w == b"\r\n\r\n")?;
        let head = std::str::from_utf8(&out[..pos]).ok()?;
        let mut lines = head.split("\r\n");
        let sl = lines.next()?;
        let mut it = sl.splitn(3, ' ');
        let _v = it.next()?;
        let status = it.next()?.parse::<u16>().ok()?;
        let reason = it.next().unwrap_or("").to_string();
        let mut headers = vec![];
        let mut head_ok = true;
        for l in lines {
            match l.split_once(": ") { Some((n, v)) => headers.push((n.to_string(), v.to_string())), None => head_ok = false }
            if l.contains('\r') || l.contains('\n') { head_ok = false; }
        }
        Some(Parsed { status, reason, headers, body: out[pos + 4..].to_vec(), head_ok })
    }

    pub fn root() -> std::path::PathBuf { std::path::PathBuf::from(env!("CARGO_MANIFEST_DIR")).join("docroot") }
    pub fn setup() {
        let r = root();
        let www = r.join("www");
        let _ = std::fs::remove_dir_all(&r);
        std::fs::create_dir_all(www.join("dir")).unwrap();
        std::fs::create_dir_all(www.join("empty")).unwrap();
        std::fs::write(r.join("secret.txt"), b"TOPSECRET-OUTSIDE-ROOT").unwrap();
        std::fs::create_dir_all(r.join("www-private")).unwrap();
        std::fs::write(r.join("www-private").join("secret.txt"), b"TOPSECRET-SIBLING-DIRECTORY").unwrap();
        std::fs::write(www.join("index.html"), b"<html>index</html>").unwrap();
        std::fs::write(www.join("a.txt"), (0..100u8).map(|i| b'a' + (i % 26)).collect::<Vec<u8>>()).unwrap();
        std::fs::write(www.join("page.html"), b"<html>page</html>").unwrap();
        std::fs::write(www.join("dir").join("index.html"), b"<html>dir index</html>").unwrap();
        std::fs::write(www.join("bin.dat"), (0..20000u32).map(|i| (i * 7 % 256) as u8).collect::<Vec<u8>>()).unwrap();
        // a link below the root that climbs one level and stays inside; a file of the same relative name sits above the served directory
        let _ = std::os::unix::fs::symlink("../a.txt", www.join("dir").join("up.txt"));
        std::fs::write(r.join("a.txt"), b"TOPSECRET-SAME-NAME-ABOVE-ROOT").unwrap();
        // anything written to the system's temporary directory lands inside the watched tree
        std::fs::create_dir_all(r.join("tmp")).unwrap();
        std::env::set_var("TMPDIR", r.join("tmp"));
        std::env::set_current_dir(&www).unwrap();
    }
    pub fn corpus() -> Vec<(String, Vec<u8>)> {
        let mut v: Vec<(String, Vec<u8>)> = vec![];
        let mut add = |n: &str, r: String| v.push((n.to_string(), r.into_bytes()));
        // every protocol version the parser accepts gets a full response (status line, headers)
        for v in ["HTTP/0.9", "HTTP/1.0", "HTTP/1.1", "HTTP/2.0"] {
            for t in ["/", "/a.txt", "/missing"] { add(&format!("version {} {}", v, t), format!("GET {} {}\r\nHost: localhost\r\n\r\n", t, v)); }
        }
        for m in ["GET", "HEAD", "OPTIONS", "POST", "DELETE"] {
            for t in ["/", "/a.txt", "/page", "/dir", "/dir/", "/missing", "/empty", "/a.txt?x=1#f", "/script.js", "/favicon.svg", "/dir/up.txt"] {
                add(&format!("{} {}", m, t), format!("{} {} HTTP/1.1\r\nHost: localhost\r\n\r\n", m, t));
                add(&format!("{} {} origin", m, t), format!("{} {} HTTP/1.1\r\nHost: localhost\r\nOrigin: https://foo.example\r\nAccess-Control-Request-Method: PUT\r\nAccess-Control-Request-Headers: X-A\r\n\r\n", m, t));
            }
        }
        for r in ["bytes=0-3", "bytes=5-", "bytes=-5", "bytes=0-0,2-3", "bytes=200-300", "bytes=x-y", "bytes", "bytes=3-1", "bytes=0-99", "bytes=0-8191", "bytes=-999999"] {
            add(&format!("range {}", r), format!("GET /a.txt HTTP/1.1\r\nHost: localhost\r\nRange: {}\r\n\r\n", r));
            add(&format!("range bin {}", r), format!("GET /bin.dat HTTP/1.1\r\nRange: {}\r\n\r\n", r));
        }
        for t in ["/../secret.txt", "/dir/../../secret.txt", "/%2e%2e/secret.txt", "/..%2Fsecret.txt", "../secret.txt", "/....//secret.txt", "/..././secret.txt", "//../secret.txt", "/dir/..", "x", "..",
                  "/./../secret.txt", "/dir/./../../secret.txt", "/.//./../secret.txt", "/../www-private/secret.txt", "/dir/../../www-private/secret.txt",
                  "/%2e%2e/secret.txt", "/.%2E/secret.txt", "/%2e%2e%2fsecret.txt", "/dir/%2e%2e/%2e%2e/secret.txt", "/..;/secret.txt", "/.../secret.txt", "/dir/..%5c..%5csecret.txt"] {
            add(&format!("traversal {}", t), format!("GET {} HTTP/1.1\r\nHost: localhost\r\n\r\n", t));
        }
        for raw in ["", "\r\n", "GET", "GET /", "GET / HTTP/9.9\r\n\r\n", "BREW / HTTP/1.1\r\n\r\n", "GET  /  HTTP/1.1\r\n\r\n", "get / http/1.1\r\n\r\n",
                    "GET / HTTP/1.1\r\nContent-Length: abc\r\n\r\n", "GET / HTTP/1.1\r\nNoColonHere\r\n\r\n", "POST /form-url-encoded-enctype-post-method HTTP/1.1\r\nContent-Length: 3\r\n\r\na=b",
                    "GET / HTTP/1.1\r\nOrigin: https://a.example\rSet-Cookie:x=1\r\n\r\n", "GET / HTTP/1.1\r\nRange: bytes=0-1\r\nX: \u{7f}\r\n\r\n"] {
            add(&format!("raw {:?}", raw), raw.to_string());
        }
        for v in ["https://a.example X-Frame-Options: ALLOWALL", "https://a.example Cache-Control: public", "x X-Content-Type-Options: none Vary: * Accept-Ranges: none", "Content-Length: 0"] {
            add(&format!("origin quoting a header: {}", v), format!("GET /a.txt HTTP/1.1\r\nHost: localhost\r\nOrigin: {}\r\nAccess-Control-Request-Method: X-Frame-Options: x\r\n\r\n", v));
            add(&format!("options origin quoting a header: {}", v), format!("OPTIONS /a.txt HTTP/1.1\r\nHost: localhost\r\nOrigin: {}\r\nAccess-Control-Request-Method: Cache-Control: x\r\nAccess-Control-Request-Headers: Date-Unix-Epoch-Nanos: 1\r\n\r\n", v));
        }
        // request targets that are not origin-form: authority / absolute form, odd ports, userinfo, empty components
        for t in [":x/", "http://example.com/", "http://example.com:80/a.txt", "http://example.com:/a.txt", "http://example.com:x/", "//example.com/a.txt", "//:x/a", "http://user:pw@host/a.txt",
                  "http://[::1]/a.txt", "http://[::1]:x/", "example.com:443", "*", "http://", "http:///", "://", "/a.txt:80", "/:x", "//", "///", "http://a:99999999999999999999/", "/a.txt?x=http://b:x/",
                  "ftp://a/b", "a://b:c@d:e/f?g#h", "/@", "//@:/", "http://@/", "http://:@:/", "a:b", "mailto:x", "urn:x", ":", "a:", ":b", "x:1", "?a=:b", "#:x"] {
            add(&format!("target {}", t), format!("GET {} HTTP/1.1\r\nHost: localhost\r\n\r\n", t));
            add(&format!("target post {}", t), format!("POST {} HTTP/1.1\r\nHost: localhost\r\nContent-Length: 0\r\n\r\n", t));
        }
        for n in [63usize, 127, 255, 256, 511, 1023, 4095] {
            for fill in ["a", "\u{e9}", "\u{20ac}"] {
                let val: String = format!("{}{}{}", "a".repeat(n), fill, "b".repeat(20));
                v.push((format!("long header value {}+{:?}", n, fill), format!("GET /a.txt HTTP/1.1\r\nHost: localhost\r\nX-Long: {}\r\n\r\n", val).into_bytes()));
                v.push((format!("long target {}+{:?}", n, fill), format!("GET /{} HTTP/1.1\r\nHost: localhost\r\n\r\n", val).into_bytes()));
            }
        }
        // the form / upload demo endpoints with hostile bodies and queries
        let mut bad_form = b"POST /form-url-encoded-enctype-post-method HTTP/1.1\r\nContent-Type: application/x-www-form-urlencoded\r\nContent-Length: 4\r\n\r\n".to_vec();
        bad_form.extend([b'a', b'=', 0xff, 0xfe]);
        v.push(("urlencoded non-utf8 body".into(), bad_form));
        for q in ["", "?", "?name=a.txt&lastModified=1&size=2", "?name=a.txt", "?name=%zz&lastModified=x&size=-1", "?a=b#frag", "?name=a@b:c/d&lastModified=1&size=2", "?=&&=", "?name=\u{e9}&lastModified=1&size=2"] {
            v.push((format!("file-upload initiate {:?}", q), format!("POST /file-upload/initiate{} HTTP/1.1\r\nHost: localhost\r\n\r\n", q).into_bytes()));
            v.push((format!("form-get {:?}", q), format!("GET /form-get-method{} HTTP/1.1\r\nHost: localhost\r\n\r\n", q).into_bytes()));
        }
        for (b, body) in [("xyz", "--xyz\r\nContent-Disposition: form-data; name=\"a\"\r\n\r\nv\r\n--xyz--\r\n"), ("xyz", "--xyz\r\n\r\n--xyz--"), ("xyz", "garbage"), ("----", "------\r\nContent-Disposition: form-data; name=\"a\"\r\n\r\nv\r\n------\r\n"),
                          ("xyz", "--xyz\r\nContent-Disposition: form-data; name=\"a\"\r\n\r\n\n--xyz--\r\n"), ("xyz", "--xyz\nContent-Disposition: form-data; name=\"a\"\n\n\n--xyz--\n"), ("", "x")] {
            v.push((format!("multipart boundary {:?} body {:?}", b, body), format!("POST /form-multipart-enctype-post-method HTTP/1.1\r\nContent-Type: multipart/form-data; boundary={}\r\nContent-Length: {}\r\n\r\n{}", b, body.len(), body).into_bytes()));
        }
        for (name, body) in [("binary part body", b"--xyz\r\nContent-Disposition: form-data; name=\"a\"\r\n\r\n\xff\xfe\x00\r\n--xyz--\r\n".to_vec()),
                             ("part without a field name", b"--xyz\r\nContent-Disposition: form-data\r\n\r\nv\r\n--xyz--\r\n".to_vec()),
                             ("attachment part without a field name", b"--xyz\r\nContent-Disposition: attachment\r\n\r\nv\r\n--xyz--\r\n".to_vec()),
                             ("part with a file name only", b"--xyz\r\nContent-Disposition: form-data; filename=\"f.bin\"\r\n\r\nv\r\n--xyz--\r\n".to_vec())] {
            let mut raw = format!("POST /form-multipart-enctype-post-method HTTP/1.1\r\nContent-Type: multipart/form-data; boundary=xyz\r\nContent-Length: {}\r\n\r\n", body.len()).into_bytes();
            raw.extend(body);
            v.push((format!("multipart {}", name), raw));
        }
        v.push(("non-utf8".into(), vec![0xff, 0xfe, b'G', b'E', b'T', b' ', b'/', b'\r', b'\n']));
        v.push(("zeros".into(), vec![0u8; 64]));
        let mut many = b"GET / HTTP/1.1\r\n".to_vec();
        for i in 0..300 { many.extend(format!("X-H{}: v\r\n", i).as_bytes()); }
        many.extend(b"\r\n");
        v.push(("300 headers".into(), many));
        v
    }
    pub fn run(raw: &[u8], chunk: usize, flush_fails: bool) -> Result<Vec<u8>, String> {
        let mut m = Mock { input: raw.to_vec(), pos: 0, out: vec![], chunk, flush_fails };
        let conn = ConnectionInfo { client: Address { ip: "127.0.0.1".into(), port: 4000 }, server: Address { ip: "127.0.0.1".into(), port: 7878 }, request_size: 16000 };
        let r = panic::catch_unwind(panic::AssertUnwindSafe(|| { let _ = Server::process(&mut m, conn, App::new()); }));
        match r { Ok(()) => Ok(m.out), Err(_) => Err("panic".into()) }
    }
    fn count<'a>(p: &'a Parsed, n: &str) -> Vec<&'a String> { p.headers.iter().filter(|(k, _)| k.eq_ignore_ascii_case(n)).map(|(_, v)| v).collect() }

    // every response-level clause that should hold for any request; returns (case, observation)
    // an application handler that reports an error: the connection still gets exactly one response, with an error status
    pub struct FailingApp;
    impl crate::application::Application for FailingApp {
        fn execute(&self, _request: &crate::request::Request, _connection: &ConnectionInfo) -> Result<crate::response::Response, String> { Err("the handler failed".to_string()) }
    }
    pub fn check_failing_handler(raw: &[u8]) -> Option<(String, String)> {
        let mut m = Mock { input: raw.to_vec(), pos: 0, out: vec![], chunk: 0, flush_fails: false };
        let conn = ConnectionInfo { client: Address { ip: "127.0.0.1".into(), port: 4000 }, server: Address { ip: "127.0.0.1".into(), port: 7878 }, request_size: 16000 };
        let r = panic::catch_unwind(panic::AssertUnwindSafe(|| { let _ = Server::process(&mut m, conn, FailingApp); }));
        if r.is_err() { return Some(("c04_panic".into(), "panic with a handler that returns Err".into())); }
        if m.out.is_empty() { return Some(("c04_no_response".into(), "nothing written when the handler returns Err".into())); }
        match parse(&m.out) {
            None => Some(("c05_unparseable".into(), format!("handler returns Err: {:?}", String::from_utf8_lossy(&m.out[..m.out.len().min(120)])))),
            Some(p) => if p.status < 400 { Some(("c04_error_status".into(), format!("handler returns Err, status {}", p.status))) } else { None },
        }
    }
    // the legacy entry point (Server::process_request: one read into the configured buffer, App::handle_request)
    pub fn run_legacy(raw: &[u8], chunk: usize, flush_fails: bool) -> Result<Vec<u8>, String> {
        let mut m = Mock { input: raw.to_vec(), pos: 0, out: vec![], chunk, flush_fails };
        let peer = std::net::SocketAddr::new(std::net::IpAddr::V4(std::net::Ipv4Addr::new(127, 0, 0, 1)), 4000);
        let r = panic::catch_unwind(panic::AssertUnwindSafe(|| { let _ = Server::process_request(&mut m, peer); }));
        match r { Ok(()) => Ok(m.out), Err(_) => Err("panic".into()) }
    }
    pub fn check(name: &str, raw: &[u8]) -> Vec<(String, String)> { check_entry(name, raw, false) }
    pub fn check_entry(name: &str, raw: &[u8], legacy: bool) -> Vec<(String, String)> {
        let mut bad = vec![];
        let go = |raw: &[u8], chunk: usize, flush_fails: bool| if legacy { run_legacy(raw, chunk, flush_fails) } else { run(raw, chunk, flush_fails) };
        let out = match go(raw, 0, false) { Ok(o) => o, Err(e) => { bad.push(("c04_panic".to_string(), e)); return bad; } };
        if out.is_empty() { bad.push(("c04_no_response".into(), "nothing written".into())); return bad; }
        let p = match parse(&out) { Some(p) => p, None => {
            let shown = format!("{:?}", String::from_utf8_lossy(&out[..out.len().min(200)]));
            bad.push(("c05_unparseable".into(), shown.clone()));
            // bytes with no status line and header section carry none of the required header fields either
            bad.push(("c10_once".into(), format!("no header section at all: {}", shown)));
            return bad; } };
        if !p.head_ok { bad.push(("c05_header_line".into(), format!("malformed header line in {:?}", p.headers))); }
        // C10
        for (n, want) in [("X-Content-Type-Options", Some("nosniff")), ("X-Frame-Options", Some("SAMEORIGIN")), ("Accept-Ranges", Some("bytes")),
                          ("Cache-Control", Some("no-store, no-cache, private, max-age=0, must-revalidate, proxy-revalidate")), ("Accept-CH", None), ("Vary", None)] {
            let vs = count(&p, n);
            if vs.len() != 1 { bad.push(("c10_once".into(), format!("{} occurs {} times", n, vs.len()))); continue; }
            if let Some(w) = want { if vs[0] != w { bad.push(("c10_value".into(), format!("{}: {}", n, vs[0]))); } }
            if n == "Vary" && !vs[0].split(',').any(|x| x.trim() == "Origin") { bad.push(("c10_value".into(), format!("Vary: {}", vs[0]))); }
        }
        // C05
        let cl = count(&p, "Content-Length");
        if cl.len() > 1 || count(&p, "Content-Type").len() > 1 || count(&p, "Content-Range").len() > 1 { bad.push(("c05_dup_framing".into(), format!("{:?}", p.headers))); }
        let method = std::str::from_utf8(raw).ok().and_then(|s| s.split(' ').next().map(|x| x.to_string())).unwrap_or_default();
        let bodiless = method == "HEAD" || method == "OPTIONS";
        if bodiless && !p.body.is_empty() { bad.push(("c05_body_on_head".into(), format!("{} body bytes", p.body.len()))); }
        if !bodiless { if let Some(v) = cl.get(0) { if v.parse::<usize>().ok() != Some(p.body.len()) { bad.push(("c05_content_length".into(), format!("Content-Length {} but {} body bytes", v, p.body.len()))); } } }
        let known = [(200, "OK"), (204, "No Content"), (206, "Partial Content"), (400, "Bad Request"), (404, "Not Found"), (416, "Range Not Satisfiable"), (500, "Internal Server Error"), (501, "Not Implemented")];
        if !known.iter().any(|(c, r)| *c == p.status && *r == p.reason) { bad.push(("c05_status_line".into(), format!("{} {}", p.status, p.reason))); }
        // delivery under short writes
        match go(raw, 1, false) { Ok(o1) => { if o1.len() != out.len() { bad.push(("c05_short_write".into(), format!("{} of {} bytes delivered with 1-byte writes", o1.len(), out.len()))); } }
                                   Err(e) => bad.push(("c04_panic".into(), e)) }
        if let Err(e) = go(raw, 0, true) { bad.push(("c04_panic_flush".into(), e)); }
        // C09: HEAD answers like GET without a body; OPTIONS on a servable path is a bodiless success
        if method == "HEAD" || method == "OPTIONS" {
            let as_get = [b"GET".as_ref(), &raw[method.len()..]].concat();
            if let Ok(og) = go(&as_get, 0, false) { if let Some(pg) = parse(&og) {
                let strip = |p: &Parsed| -> Vec<(String, String)> { p.headers.iter().filter(|(k, _)| k != "Date-Unix-Epoch-Nanos" && !k.starts_with("Access-Control-")).cloned().collect() };
                if method == "HEAD" && (pg.status == 200 || pg.status == 206) {
                    if p.status != pg.status { bad.push(("c09_head_status".into(), format!("HEAD {} but GET {}", p.status, pg.status))); }
                    else if strip(&p) != strip(&pg) { bad.push(("c09_head_headers".into(), format!("HEAD {:?} vs GET {:?}", strip(&p), strip(&pg)))); }
                }
                if method == "OPTIONS" && pg.status == 200 && !(p.status == 200 || p.status == 204) { bad.push(("c09_options_status".into(), format!("OPTIONS {} but GET {}", p.status, pg.status))); }
            } }
        }
        // C01
        if out.windows(9).any(|w| w == b"TOPSECRET") { bad.push(("c01_outside_root".into(), format!("{}: response carries the file outside the served directory", name))); }
        bad
    }
    pub fn search(_seed: u64) -> bool {
        setup();
        let mut h = Hits::new();
        for (i, (name, raw)) in corpus().iter().enumerate() {
            for (case, o) in check(name, raw) { h.hit("e2e", &case, "Server::process", &i.to_string(), &format!("{} :: {}", name, o)); }
        }
        // a handler that fails, on a few well-formed requests
        for (i, t) in ["GET / HTTP/1.1\r\nHost: localhost\r\n\r\n", "POST /x HTTP/1.1\r\nHost: localhost\r\nContent-Length: 3\r\n\r\nabc", "HEAD /a.txt HTTP/1.0\r\n\r\n"].iter().enumerate() {
            if let Some((case, o)) = check_failing_handler(t.as_bytes()) { h.hit("e2e", &case, "Server::process", &format!("E{}", i), &o); }
        }
        // the same requests through the legacy entry point (requests that fit its single read)
        for (i, (name, raw)) in corpus().iter().enumerate() {
            if raw.len() > 9000 { continue; }
            for (case, o) in check_entry(name, raw, true) { h.hit("e2e", &case, "Server::process_request", &format!("L{}", i), &format!("legacy entry point, {} :: {}", name, o)); }
        }
        h.n > 0
    }
    pub fn replay(case: &str, input: &str) -> bool {
        setup();
        let c = corpus();
        if input.starts_with('E') {
            let t = ["GET / HTTP/1.1\r\nHost: localhost\r\n\r\n", "POST /x HTTP/1.1\r\nHost: localhost\r\nContent-Length: 3\r\n\r\nabc", "HEAD /a.txt HTTP/1.0\r\n\r\n"];
            let i: usize = input[1..].parse().unwrap_or(0);
            return match check_failing_handler(t[i % 3].as_bytes()) { Some((k, o)) => { if k == case { report("e2e", &k, "", input, &o); true } else { false } }, None => false };
        }
        let legacy = input.starts_with('L');
        let (name, raw) = &c[input.trim_start_matches('L').parse::<usize>().unwrap()];
        let mut found = false;
        for (k, o) in check_entry(name, raw, legacy) { if k == case { report("e2e", &k, "", input, &format!("{} :: {}", name, o)); found = true; } }
        found
    }
}

// ---------------------------------------------------------------- request parsing / serialising (C14)
mod req {
    use super::*;
    use crate::header::Header;
    use crate::request::Request;

    const METHODS: [&str; 9] = ["GET", "HEAD", "POST", "PUT", "DELETE", "CONNECT", "OPTIONS", "TRACE", "PATCH"];
    const VERSIONS: [&str; 4] = ["HTTP/0.9", "HTTP/1.0", "HTTP/1.1", "HTTP/2.0"];

    fn line_ok(line: &str) -> Option<(String, String, String)> {
        let t = line.trim();
        let (m, r) = t.split_once(' ')?;
        let (u, v) = r.split_once(' ')?;
        if METHODS.contains(&m.to_uppercase().as_str()) && VERSIONS.contains(&v.to_uppercase().as_str()) { Some((m.into(), u.into(), v.into())) } else { None }
    }
    pub fn check_line(line: &str) -> Option<String> {
        let l = line.to_string();
        let got = panic::catch_unwind(move || Request::parse_method_and_request_uri_and_http_version_string(&l));
        let want = line_ok(line);
        match got {
            Err(_) => Some("panic".into()),
            Ok(Ok(t)) => if Some(t.clone()) != want { Some(format!("accepted as {:?}, expected {:?}", t, want)) } else { None },
            Ok(Err(_)) => if want.is_some() { Some(format!("rejected, expected {:?}", want)) } else { None },
        }
    }
    pub fn lines() -> Vec<String> {
        let mut v = vec![];
        for m in ["GET", "get", "Post", "BREW", "", "OPTIONS"] { for u in ["/", "/a b", "", "*", "/x?y=1"] { for ver in ["HTTP/1.1", "http/1.0", "HTTP/3.0", "", "HTTP/1.1 x", " HTTP/1.1", "HTTP/1.1 "] {
            v.push(format!("{} {} {}", m, u, ver)); v.push(format!("{} {}  {}", m, u, ver)); v.push(format!("{} {}\t{}", m, u, ver)); v.push(format!("  {} {} {}\r\n", m, u, ver));
        } } }
        v.push("GET /".into()); v.push("GET".into()); v.push("".into()); v.push("GET / HTTP/1.1 extra".into());
        v
    }
    pub fn check_lookup(i: u64) -> Option<String> {
        let mut rng = Rng(i.wrapping_mul(7919) | 1);
        let names = ["Host", "host", "HOST", "X-A", "x-a", "Origin", "oRiGiN", "Range"];
        let n = rng.below(6) as usize;
        let headers: Vec<Header> = (0..n).map(|k| Header { name: names[rng.below(8) as usize].into(), value: format!("v{}", k) }).collect();
        let r = Request { method: "GET".into(), request_uri: "/".into(), http_version: "HTTP/1.1".into(), headers: headers.clone(), body: vec![] };
        for q in names {
            let want = headers.iter().find(|h| h.name.to_lowercase() == q.to_lowercase()).map(|h| h.value.clone());
            let got = r.get_header(q.to_string()).map(|h| h.value.clone());
            if got != want { return Some(format!("headers {:?} lookup {:?}: got {:?} expected {:?}", headers.iter().map(|h| &h.name).collect::<Vec<_>>(), q, got, want)); }
        }
        None
    }
    pub fn gen(i: u64) -> Request {
        let mut rng = Rng(i.wrapping_mul(104729) | 1);
        let n = rng.below(6) as usize;
        let vals = ["v", "a: b", "x=y; z", "", " lead", "trail ", "a: b: c", "tab\tin", "ünï"];
        // names with blanks, tabs and other control characters at their ends and inside: the reader keeps a name as it is written
        let names = ["Host", "X-A", "Cookie", "Content-Length", "Accept", "X:Y", "X-Trailing ", " X-Leading", "X\tTabbed ", "X-\u{1}Ctl", "X-Bell\u{7}"];
        let headers = (0..n).map(|_| Header { name: names[rng.below(11) as usize].into(), value: vals[rng.below(9) as usize].into() }).collect();
        let bl = rng.below(40) as usize;
        let body: Vec<u8> = (0..bl).map(|_| [b'a', b'\r', b'\n', 0u8, 0xff, 0x89, b':', b' '][rng.below(8) as usize]).collect();
        Request { method: METHODS[rng.below(9) as usize].into(), request_uri: ["/", "/a/b?c=d", "*", "/x#f"][rng.below(4) as usize].into(),
                  http_version: VERSIONS[rng.below(4) as usize].into(), headers, body }
    }
    pub fn check_roundtrip(i: u64) -> Option<String> {
        let r = gen(i);
        let bytes = r.generate();
        let got = panic::catch_unwind(move || Request::parse(&bytes));
        match got {
            Err(_) => Some("panic".into()),
            Ok(Err(e)) => Some(format!("parse(generate(r)) = Err({}) for {:?}", e, r)),
            Ok(Ok(p)) => if p != r { Some(format!("parse(generate(r)) = {:?} for r = {:?}", p, r)) } else { None },
        }
    }
    pub fn search(seed: u64) -> bool {
        let mut h = Hits::new();
        for (i, l) in lines().iter().enumerate() { if let Some(o) = check_line(l) { h.hit("request", "request_line", "Request::parse_method_and_request_uri_and_http_version_string", &i.to_string(), &format!("{:?} :: {}", l, o)); } }
        for i in 0..400u64 { if let Some(o) = check_lookup(seed + i) { h.hit("request", "lookup", "Request::get_header", &(seed + i).to_string(), &o); break; } }
        for i in 0..600u64 { if let Some(o) = check_roundtrip(seed + i) { h.hit("request", "roundtrip", "Request::parse", &(seed + i).to_string(), &o); break; } }
        h.n > 0
    }
    pub fn replay(case: &str, input: &str) -> bool {
        let o = match case {
            "request_line" => check_line(&lines()[input.parse::<usize>().unwrap()]),
            "lookup" => check_lookup(input.parse().unwrap()),
            "roundtrip" => check_roundtrip(input.parse().unwrap()),
            _ => None,
        };
        if let Some(o) = o { report("request", case, "", input, &o); true } else { false }
    }
}

// ---------------------------------------------------------------- shim conformance: the ASSUMED std contracts, tested (thorough tier)
// Executable twins of the spec functions in /verif/shims are compared with the real std functions.  A mismatch means an
// assumption of the proofs is wrong; it is reported as case "shim_<name>".
mod shimtest {
    use super::*;
    use std::io::{BufRead, Cursor, Read};

    fn dec(mut n: u128) -> String { if n == 0 { return "0".into(); } let mut v = vec![]; while n > 0 { v.push((b'0' + (n % 10) as u8) as char); n /= 10; } v.iter().rev().collect() }
    fn has_sub(s: &[char], p: &[char]) -> bool { (0..=s.len().saturating_sub(p.len())).any(|k| k + p.len() <= s.len() && &s[k..k + p.len()] == p) }
    fn without_char(s: &str, c: char) -> String { s.chars().filter(|x| *x != c).collect() }
    fn parses_unsigned(s: &str, max: u128) -> Option<u128> {
        let d = s.strip_prefix('+').unwrap_or(s);
        if d.is_empty() || !d.chars().all(|c| c.is_ascii_digit()) { return None; }
        let mut v: u128 = 0;
        for c in d.chars() { v = v.checked_mul(10)?.checked_add(c as u128 - '0' as u128)?; if v > max { return None; } }
        Some(v)
    }
    fn parses_signed(s: &str, min: i128, max: i128) -> Option<i128> {
        let (neg, d) = if let Some(r) = s.strip_prefix('-') { (true, r) } else { (false, s.strip_prefix('+').unwrap_or(s)) };
        if d.is_empty() || !d.chars().all(|c| c.is_ascii_digit()) { return None; }
        let mut v: i128 = 0;
        for c in d.chars() { v = v.checked_mul(10)?.checked_add(c as i128 - '0' as i128)?; if v > (1i128 << 100) { return None; } }
        let v = if neg { -v } else { v };
        if v < min || v > max { None } else { Some(v) }
    }
    fn line_len(s: &[u8]) -> usize { match s.iter().position(|b| *b == b'\n') { Some(i) => i + 1, None => s.len() } }

    pub fn strings(rng: &mut Rng) -> Vec<String> {
        let mut v: Vec<String> = ["", " ", "a", "a-b", "-", "--", "a--b", " 12 ", "+5", "-5", "18446744073709551615", "18446744073709551616", "007", "1 2", "\t3\n", "x: y: z", ": ", "a,b,,c", ",", "é", "a\u{3000}", "\r\nA\r\n", "..", "a..b", "/a/../b"].iter().map(|s| s.to_string()).collect();
        let alphabet: Vec<char> = "ab-, :+019/.=\r\n\té ".chars().collect();
        for _ in 0..400 { let n = rng.below(9) as usize; v.push((0..n).map(|_| alphabet[rng.below(alphabet.len() as u64) as usize]).collect()); }
        v
    }
    pub fn search(seed: u64) -> bool {
        let mut h = Hits::new();
        let mut rng = Rng(seed | 1);
        let ss = strings(&mut rng);
        for s in &ss {
            let cs: Vec<char> = s.chars().collect();
            for sep in ["-", ",", "=", ": ", " ", "/"] {
                let parts: Vec<&str> = s.split(sep).collect();
                let sc: Vec<char> = sep.chars().collect();
                if parts.is_empty() || parts.join(sep) != *s || parts.iter().any(|p| has_sub(&p.chars().collect::<Vec<_>>(), &sc)) { h.hit("shims", "shim_split", "str::split", s, sep); }
                // axiom_split_step2 (two different characters) and axiom_lower_plain
                if sc.len() == 2 && sc[0] != sc[1] {
                    match s.find(sep) {
                        None => if parts != vec![s.as_str()] { h.hit("shims", "shim_split_step2", "str::split", s, sep); },
                        Some(k) => { let mut want = vec![&s[..k]]; want.extend(s[k + sep.len()..].split(sep)); if parts != want { h.hit("shims", "shim_split_step2", "str::split", s, sep); } }
                    }
                }
                if s.chars().all(|c| (c as u32) < 128 && !c.is_ascii_uppercase()) && s.to_lowercase() != *s { h.hit("shims", "shim_lower_plain", "str::to_lowercase", s, ""); }
                // axiom_split_step: the first piece ends at the first separator, the rest is the split of what follows; no separator: one piece
                if sc.len() == 1 {
                    match s.find(sep) {
                        None => if parts != vec![s.as_str()] { h.hit("shims", "shim_split_step", "str::split", s, sep); },
                        Some(k) => { let mut want = vec![&s[..k]]; want.extend(s[k + sep.len()..].split(sep)); if parts != want { h.hit("shims", "shim_split_step", "str::split", s, sep); } }
                    }
                }
                match s.split_once(sep) {
                    None => if has_sub(&cs, &sc) { h.hit("shims", "shim_split_once", "str::split_once", s, sep); },
                    Some((a, b)) => if format!("{}{}{}", a, sep, b) != *s || has_sub(&a.chars().collect::<Vec<_>>(), &sc) || (parts.len() > 1 && (a != parts[0] || b != parts[1..].join(sep))) { h.hit("shims", "shim_split_once", "str::split_once", s, sep); },
                }
                if s.starts_with(sep) != (cs.len() >= sc.len() && cs[..sc.len()] == sc[..]) { h.hit("shims", "shim_starts_with", "str::starts_with", s, sep); }
                if s.ends_with(sep) != (cs.len() >= sc.len() && cs[cs.len() - sc.len()..] == sc[..]) { h.hit("shims", "shim_ends_with", "str::ends_with", s, sep); }
                if s.contains(sep) != has_sub(&cs, &sc) { h.hit("shims", "shim_contains", "str::contains", s, sep); }
            }
            let t = s.trim();
            let ok_trim = s.find(t).map(|a| { let a_chars = s[..a].chars().all(|c| c.is_whitespace()); let b = &s[a + t.len()..]; a_chars && b.chars().all(|c| c.is_whitespace()) }).unwrap_or(false)
                && (t.is_empty() || (!t.chars().next().unwrap().is_whitespace() && !t.chars().last().unwrap().is_whitespace()));
            if !ok_trim { h.hit("shims", "shim_trim", "str::trim", s, t); }
            if ('!'..='~').any(|c| c.is_whitespace()) || !' '.is_whitespace() || !'\t'.is_whitespace() || !'\r'.is_whitespace() || !'\n'.is_whitespace() { h.hit("shims", "shim_is_ws", "char::is_whitespace", "", "printable ASCII"); }
            if s.parse::<u64>().ok().map(|x| x as u128) != parses_unsigned(s, u64::MAX as u128) { h.hit("shims", "shim_parse_u64", "str::parse::<u64>", s, ""); }
            if s.parse::<usize>().ok().map(|x| x as u128) != parses_unsigned(s, usize::MAX as u128) { h.hit("shims", "shim_parse_usize", "str::parse::<usize>", s, ""); }
            if s.parse::<i64>().ok().map(|x| x as i128) != parses_signed(s, i64::MIN as i128, i64::MAX as i128) { h.hit("shims", "shim_parse_i64", "str::parse::<i64>", s, ""); }
            if s.parse::<i16>().ok().map(|x| x as i128) != parses_signed(s, i16::MIN as i128, i16::MAX as i128) { h.hit("shims", "shim_parse_i16", "str::parse::<i16>", s, ""); }
            if s.parse::<bool>().ok() != (if s == "true" { Some(true) } else if s == "false" { Some(false) } else { None }) { h.hit("shims", "shim_parse_bool", "str::parse::<bool>", s, ""); }
            if s.replace("\r", "") != without_char(s, '\r') || s.replace("\n", "") != without_char(s, '\n') || s.replace("/", "/") != *s { h.hit("shims", "shim_replace", "str::replace", s, ""); }
            if s.len() < cs.len() || (s.len() == cs.len()) != s.is_ascii() { h.hit("shims", "shim_utf8_len", "str::len", s, ""); }
            if s.as_bytes() != s.clone().into_bytes().as_slice() || String::from_utf8(s.as_bytes().to_vec()).ok().as_deref() != Some(s.as_str()) { h.hit("shims", "shim_bytes", "as_bytes/from_utf8", s, ""); }
            for i in 0..cs.len() + 2 { if s.chars().nth(i) != cs.get(i).copied() { h.hit("shims", "shim_chars_nth", "chars().nth", s, ""); } }
            if s.chars().count() != cs.len() || s.chars().last() != cs.last().copied() || s.matches("=").count() != cs.iter().filter(|c| **c == '=').count() { h.hit("shims", "shim_chars", "chars()", s, ""); }
            if s.chars().rev().collect::<String>() != cs.iter().rev().collect::<String>() { h.hit("shims", "shim_rev", "chars().rev()", s, ""); }
            // assumed contract of StringExt::filter_ascii_control_characters: trim(remove every char below 0x20 and 0x7f)
            let twin: String = cs.iter().filter(|c| !((**c as u32) < 0x20 || **c as u32 == 0x7f)).collect();
            if crate::ext::string_ext::StringExt::filter_ascii_control_characters(s) != twin.trim() { h.hit("shims", "shim_filter_ctl", "StringExt::filter_ascii_control_characters", s, ""); }
            // slice equality, join of byte vectors, Vec::remove / append as specified by vstd
            let bv = s.as_bytes().to_vec();
            if [bv.clone(), vec![1u8], bv.clone()].join(&b""[..]) != [bv.as_slice(), &[1u8], bv.as_slice()].concat() || vec![bv.clone(), bv.clone()].join(&b"\r\n"[..]) != [bv.as_slice(), b"\r\n", bv.as_slice()].concat() { h.hit("shims", "shim_bjoin", "[Vec<u8>]::join", s, ""); }
            // Cursor::read_until / read_to_end
            let b = s.as_bytes();
            let mut c = Cursor::new(b);
            let mut buf = vec![7u8];
            let n = c.read_until(b'\n', &mut buf).unwrap();
            if n != line_len(b) || buf[1..] != b[..n] { h.hit("shims", "shim_read_until", "Cursor::read_until", s, ""); }
            let mut rest = vec![9u8];
            let m = c.read_to_end(&mut rest).unwrap();
            if m != b.len() - n || rest[1..] != b[n..] { h.hit("shims", "shim_read_to_end", "Cursor::read_to_end", s, ""); }
        }
        for x in [0u64, 1, 9, 10, 99, 100, 12345, u64::MAX, u64::MAX - 1] { if x.to_string() != dec(x as u128) || (x as usize).to_string() != dec(x as u128) { h.hit("shims", "shim_to_string", "u64::to_string", &x.to_string(), ""); } }
        for x in [0i64, -1, 1, i64::MIN, i64::MAX, -400] { let want = if x < 0 { format!("-{}", dec((-(x as i128)) as u128)) } else { dec(x as u128) }; if x.to_string() != want { h.hit("shims", "shim_to_string", "i64::to_string", &x.to_string(), ""); } }
        if true.to_string() != "true" || false.to_string() != "false" || 'x'.to_string() != "x" { h.hit("shims", "shim_to_string", "bool/char::to_string", "", ""); }
        if ["a", "b", "c"].join("-") != "a-b-c" || vec!["x".to_string()].join(",") != "x" || Vec::<String>::new().join(",") != "" || [vec![1u8], vec![2, 3]].concat() != vec![1, 2, 3] { h.hit("shims", "shim_join", "join/concat", "", ""); }
        if ('A'..='Z').into_iter().collect::<Vec<char>>().len() != 26 || ('0'..='9').into_iter().collect::<Vec<char>>()[9] != '9' { h.hit("shims", "shim_char_range", "RangeInclusive<char>", "", ""); }
        // file-ext read_file_partially == file_slice
        let dir = std::path::PathBuf::from(env!("CARGO_MANIFEST_DIR")).join("shimtest");
        let _ = std::fs::create_dir_all(&dir);
        let f = dir.join("f.bin");
        let content: Vec<u8> = (0..300u32).map(|i| (i % 251) as u8).collect();
        std::fs::write(&f, &content).unwrap();
        for (a, b) in [(0u64, 0u64), (0, 299), (0, 300), (5, 9), (299, 299), (299, 1000), (300, 300), (301, 400), (10, 10)] {
            let got = file_ext::FileExt::read_file_partially(f.to_str().unwrap(), a, b).unwrap();
            let want: Vec<u8> = if a as usize >= content.len() { vec![] } else { content[a as usize..std::cmp::min(b as usize + 1, content.len())].to_vec() };
            if got != want { h.hit("shims", "shim_read_file_partially", "FileExt::read_file_partially", &format!("{}-{}", a, b), &format!("{} bytes, expected {}", got.len(), want.len())); }
        }
        // assumed about url-build-parse: "http://localhost/" ++ x always parses
        for x in ss.iter().chain(["?a=[", ":@/", "#", "??", "%zz", "a:b@c:d/e?f#g", "//", " "].iter().map(|s| s.to_string()).collect::<Vec<_>>().iter()) {
            if crate::url::URL::parse(&format!("http://localhost/{}", x)).is_err() { h.hit("shims", "shim_url_localhost_slash", "URL::parse", x, "Err"); }
        }
        // axiom_url_plain_path: "http://localhost" ++ q, q starting with '/' and holding neither '?' nor '#', parses to the path q
        for x in ss.iter().map(|s| s.as_str()).chain(["", "a/b.html", "a//b", "%2e%2e/x", "a b", "caf\u{e9}.txt", "x;y=1", "a:b@c", "..", "a..html", "index.html/", "a%23b", "\\"]) {
            if x.contains('?') || x.contains('#') { continue; }
            let q = format!("/{}", x);
            match crate::url::URL::parse(&format!("http://localhost{}", q)) { Ok(c) if c.path == q => {}, other => h.hit("shims", "shim_url_plain_path", "URL::parse", &q, &format!("{:?}", other.map(|c| c.path))) }
        }
        // ext_of: std::path::Path::extension of a path that does not end in '/'
        for x in ss.iter().map(|s| s.as_str()).chain(["a.txt", "a.tar.gz", ".hidden", "dir.d/file", "dir.d/.x", "a.", "..", "a..b", "x/..", "/abs/p.html", "noext", "a/b.c/d", ".", "a.b/", "\u{e9}.\u{e9}", "a.b.c.d.e"]) {
            if x.is_empty() || x.ends_with('/') || x.contains('\0') { continue; }
            let cs: Vec<char> = x.chars().collect();
            let start = cs.iter().rposition(|c| *c == '/').map(|k| k + 1).unwrap_or(0);
            let name: Vec<char> = cs[start..].to_vec();
            let k = name.iter().rposition(|c| *c == '.');
            let want: Option<String> = match k { Some(k) if k > 0 && name != vec!['.', '.'] => Some(name[k + 1..].iter().collect()), _ => None };
            let got = std::path::Path::new(x).extension().and_then(std::ffi::OsStr::to_str).map(|s| s.to_string());
            if got != want { h.hit("shims", "shim_path_extension", "Path::extension", x, &format!("{:?} expected {:?}", got, want)); }
        }
        // file-system assumptions: metadata().len() == content length; a regular file's path does not end in '/'; lstat of an existing path succeeds
        {
            let f2 = dir.join("g.bin");
            std::fs::write(&f2, vec![1u8; 4097]).unwrap();
            if std::fs::metadata(&f2).map(|m| m.len()).ok() != Some(4097) { h.hit("shims", "shim_metadata_len", "fs::metadata", "g.bin", "len"); }
            let with_slash = format!("{}/", f2.to_str().unwrap());
            if std::fs::metadata(&with_slash).map(|m| m.is_file()).unwrap_or(false) { h.hit("shims", "shim_file_path_slash", "fs::metadata", &with_slash, "a path ending in '/' is reported as a regular file"); }
            if file_ext::FileExt::is_symlink(f2.to_str().unwrap()).ok() != Some(false) { h.hit("shims", "shim_is_symlink", "FileExt::is_symlink", "g.bin", ""); }
            if file_ext::FileExt::read_file_partially(f2.to_str().unwrap(), 0, 4097).map(|v| v.len()).ok() != Some(4097) { h.hit("shims", "shim_read_whole", "FileExt::read_file_partially", "g.bin 0-4097", ""); }
        }
        // ---- session 3: the shims behind the JSON / UrlPath / config units and the dependency precondition ----
        // dep_url_safe: no panic when the text before the target's first '/' holds no ':'; (and the panic IS real for ":x/")
        for t in ss.iter().map(|s| s.as_str()).chain(["", "/", "/a:b", "?a=b", "#f", "a", "a/b:c", "?x/:y", "/:x", "//:x", "a@b/c:d", "[x]/", "]/:"]) {
            let lead = t.split('/').next().unwrap_or("");
            if lead.contains(':') { continue; }
            let u = format!("http://localhost{}", t);
            if panic::catch_unwind(|| { let _ = crate::url::URL::parse(&u); }).is_err() { h.hit("shims", "shim_dep_url_safe", "url_build_parse::parse_url", t, "panic although the leading part holds no ':'"); }
        }
        if panic::catch_unwind(|| { let _ = crate::url::URL::parse("http://localhost:x/"); }).is_ok() { h.hit("shims", "shim_dep_url_unsafe", "url_build_parse::parse_url", ":x/", "expected the documented panic (the precondition would be unnecessary)"); }
        // Cursor::read_exact / read_until(any delimiter) on in-memory cursors
        {
            use std::io::{BufRead, Read};
            let data: Vec<u8> = (0..=255u8).chain([b'{', b'"', b',', b'{']).collect();
            for d in [b'{', b'"', b',', b'\n', 0u8, 255u8] {
                let mut c = std::io::Cursor::new(&data[..]);
                let mut pos = 0usize;
                loop {
                    let mut buf = vec![7u8];
                    let n = c.read_until(d, &mut buf).unwrap();
                    let want = data[pos..].iter().position(|b| *b == d).map(|k| k + 1).unwrap_or(data.len() - pos);
                    if n != want || buf[1..] != data[pos..pos + want] { h.hit("shims", "shim_read_until_any", "Cursor::read_until", &d.to_string(), &format!("{} expected {}", n, want)); break; }
                    pos += n;
                    if n == 0 { break; }
                }
            }
            for (len, k) in [(0usize, 1usize), (1, 1), (3, 1), (3, 3), (3, 4), (2, 3), (5, 0)] {
                let src = String::from_utf8(vec![b'a'; len]).unwrap();
                let mut c = std::io::Cursor::new(src.clone());
                let mut buf = vec![0u8; k];
                let r = c.read_exact(&mut buf);
                if r.is_ok() != (k <= len) || buf.len() != k || (r.is_ok() && buf != src.as_bytes()[..k]) { h.hit("shims", "shim_read_exact", "Cursor::read_exact", &format!("{}/{}", len, k), ""); }
                let mut rest = vec![];
                let _ = c.read_to_end(&mut rest);
                if r.is_ok() && rest.len() != len - k { h.hit("shims", "shim_read_exact", "Cursor::read_exact", &format!("{}/{}", len, k), "position after a successful read"); }
                if rest.len() > len { h.hit("shims", "shim_read_exact", "Cursor::read_exact", &format!("{}/{}", len, k), "un-read bytes"); }
            }
        }
        // char classes: numeric and white space are disjoint; is_ascii_control == (< 0x20 or 0x7f)
        for u in 0u32..0x11_0000 { if let Some(c) = char::from_u32(u) {
            if c.is_numeric() && c.is_whitespace() { h.hit("shims", "shim_numeric_not_ws", "char", &u.to_string(), ""); }
            if c.is_ascii_control() != (u < 0x20 || u == 0x7f) { h.hit("shims", "shim_is_ascii_control", "char", &u.to_string(), ""); }
        } }
        // s[a..b] at character boundaries; find(char) returns a boundary; strip_prefix; String::remove(0); replace / contains / split_once with a char
        for x in ss.iter().map(|s| s.as_str()).chain(["", "\"ab\"", "\"\u{e9}\"", "a\u{20ac}b/c", "//", "\u{e9}"]) {
            let idx: Vec<usize> = x.char_indices().map(|(i, _)| i).chain([x.len()]).collect();
            for (j, a) in idx.iter().enumerate() { for b in idx[j..].iter() {
                let cs: Vec<char> = x.chars().collect();
                let k = idx.iter().position(|i| i == b).unwrap();
                if x[*a..*b].to_string() != cs[j..k].iter().collect::<String>() { h.hit("shims", "shim_substring", "str index", x, ""); }
            } }
            for c in ['/', 'a', '\u{e9}', '"'] {
                match x.find(c) { Some(i) => if !x.is_char_boundary(i) || x[i..].chars().next() != Some(c) || x[..i].contains(c) { h.hit("shims", "shim_find_char", "str::find", x, ""); }, None => if x.contains(c) { h.hit("shims", "shim_find_char", "str::find", x, ""); } }
                if x.contains(c) != x.chars().any(|d| d == c) { h.hit("shims", "shim_contains_char", "str::contains", x, ""); }
                if x.replace(c, "") != x.chars().filter(|d| *d != c).collect::<String>() { h.hit("shims", "shim_replace_char", "str::replace", x, ""); }
                // the split is at the FIRST occurrence, and there is one exactly when the character occurs
                match x.split_once(c) {
                    Some((a, b)) => if format!("{}{}{}", a, c, b) != x || a.contains(c) || x.split_once(c.to_string().as_str()) != Some((a, b)) { h.hit("shims", "shim_split_once_char", "str::split_once", x, ""); },
                    None => if x.contains(c) { h.hit("shims", "shim_split_once_char", "str::split_once", x, "None although the character occurs"); },
                }
            }
            if x.replace("_", "-") != x.chars().map(|d| if d == '_' { '-' } else { d }).collect::<String>() { h.hit("shims", "shim_replace_1_1", "str::replace", x, ""); }
            if let Some(r) = x.strip_prefix("a") { if format!("a{}", r) != x { h.hit("shims", "shim_strip_prefix", "str::strip_prefix", x, ""); } }
            if !x.is_empty() { let mut y = x.to_string(); let c = y.remove(0); if Some(c) != x.chars().next() || y != x.chars().skip(1).collect::<String>() { h.hit("shims", "shim_string_remove0", "String::remove", x, ""); } }
            if x.replace(|c: char| c.is_ascii_control(), "") != x.chars().filter(|c| !c.is_ascii_control()).collect::<String>() { h.hit("shims", "shim_replace_ctl", "str::replace", x, ""); }
        }
        // the process environment behaves as a map (shims/world.rs): a written value is read back, other variables keep theirs
        std::env::set_var("RWS_VERIF_SHIM_A", "one"); std::env::set_var("RWS_VERIF_SHIM_B", "two"); std::env::set_var("RWS_VERIF_SHIM_A", "");
        if std::env::var("RWS_VERIF_SHIM_A").ok().as_deref() != Some("") || std::env::var("RWS_VERIF_SHIM_B").ok().as_deref() != Some("two") || std::env::var("RWS_VERIF_SHIM_UNSET").is_ok() {
            h.hit("shims", "shim_env_map", "env::var / env::set_var", "", "the environment does not behave as a map");
        }
        std::env::remove_var("RWS_VERIF_SHIM_A"); std::env::remove_var("RWS_VERIF_SHIM_B");
        if std::env::args().any(|a| a.contains('\0')) { h.hit("shims", "shim_args_nul", "env::args", "", "a command line word holds NUL"); }
        // BufRead::lines of a text: no line holds the line feed; i32 texts; i32 to text
        for t in ["a\nb", "a\r\nb\r\n", "", "\n\n", "x"] {
            let ls: Vec<String> = Cursor::new(t.as_bytes()).lines().map(|l| l.unwrap()).collect();
            if ls.iter().any(|l| l.contains('\n')) || ls.join("") != t.replace("\r\n", "").replace('\n', "") { h.hit("shims", "shim_lines", "BufRead::lines", t, ""); }
        }
        for s in &ss { if s.parse::<i32>().ok().map(|x| x as i128) != parses_signed(s, i32::MIN as i128, i32::MAX as i128) { h.hit("shims", "shim_parse_i32", "str::parse::<i32>", s, ""); } }
        for n in [0i32, 7, -7, i32::MAX, i32::MIN, 7878] { let want = if n < 0 { format!("-{}", dec((n as i128).unsigned_abs())) } else { dec(n as u128) }; if n.to_string() != want { h.hit("shims", "shim_i32_to_string", "i32::to_string", &n.to_string(), ""); } }
        // std::env::set_var: fine for a valid key and a NUL-free value; panics on NUL in the value, on '=' / NUL / empty in the key
        if panic::catch_unwind(|| std::env::set_var("RWS_VERIF_SHIM_TEST", "a=b \u{e9}")).is_err() { h.hit("shims", "shim_set_var_ok", "env::set_var", "", "panic on a valid pair"); }
        for (k, v) in [("RWS_VERIF_SHIM_TEST", "a\0b"), ("", "x"), ("A=B", "x"), ("A\0B", "x")] {
            if panic::catch_unwind(|| std::env::set_var(k, v)).is_ok() { h.hit("shims", "shim_set_var_panics", "env::set_var", k, "expected the documented panic (the precondition would be unnecessary)"); }
        }
        // <T as FromStr>: a Result for any text
        for x in ss.iter() { let _ = x.parse::<i128>(); let _ = x.parse::<u128>(); let _ = x.parse::<f64>(); let _ = x.parse::<f32>(); let _ = x.parse::<i8>(); let _ = x.parse::<bool>(); if x.parse::<String>().ok().as_deref() != Some(x.as_str()) { h.hit("shims", "shim_parse_string", "String::from_str", x, ""); } }
        if file_ext::FileExt::get_path_separator() != "/" { h.hit("shims", "shim_separator", "FileExt::get_path_separator", "", ""); }
        let cwd = std::env::current_dir().unwrap();
        if file_ext::FileExt::get_static_filepath("/x").ok() != Some(format!("{}/x", cwd.to_str().unwrap())) { h.hit("shims", "shim_static_filepath", "FileExt::get_static_filepath", "", ""); }
        h.n > 0
    }
}

// ---------------------------------------------------------------- library parsers: totality (C20) and response round trip (C15)
mod parsers {
    use super::*;
    use crate::response::Response;
    use crate::header::Header;
    use crate::range::{ContentRange, Range};

    pub fn response_inputs() -> Vec<Vec<u8>> {
        let mut v: Vec<Vec<u8>> = vec![];
        let base = "HTTP/1.1 200 OK\r\nHost: x\r\nContent-Type: text/plain\r\nContent-Length: 3\r\n\r\nabc";
        v.push(base.as_bytes().to_vec());
        for i in 0..base.len() { v.push(base.as_bytes()[..i].to_vec()); }
        for s in ["HTTP/1.1 200 OK\r\nContent-Length: abc\r\n\r\n", "HTTP/1.1 200 OK\r\nContent-Length: -1\r\n\r\n", "HTTP/1.1 200 OK\r\nContent-Length: 99999999999999999999999\r\n\r\nx",
                  "HTTP/1.1 999 OK\r\n\r\n", "HTTP/1.1 200 Nope\r\n\r\n", "HTTP/9.9 200 OK\r\n\r\n", "HTTP/1.1 200\r\n\r\n", "HTTP/1.1  200 OK\r\n\r\n", "\r\n", "", "HTTP/1.1 200 OK", "HTTP/1.1 200 OK\r\nNoColon\r\n\r\n",
                  "HTTP/1.1 206 Partial Content\r\nContent-Type: multipart/byteranges; boundary=String_separator\r\n\r\n--String_separator\r\nContent-Type: text/plain\r\nContent-Range: bytes 0-1/9\r\n\r\nab\r\n--String_separator",
                  "HTTP/1.1 206 Partial Content\r\nContent-Type: multipart/byteranges; boundary=String_separator\r\n\r\n--String_separator\r\nContent-Type: text/plain\r\nContent-Range\r\n\r\nab\r\n--String_separator",
                  "HTTP/1.1 206 Partial Content\r\nContent-Type: multipart/byteranges; boundary=String_separator\r\n\r\n--String_separator\r\nContent-Type: text/plain\r\nContent-Range: bytes x-y/z\r\n\r\nab\r\n--String_separator",
                  "HTTP/1.1 206 Partial Content\r\nContent-Type: multipart/byteranges; boundary=String_separator\r\n\r\nab\r\n",
                  "HTTP/1.1 206 Partial Content\r\nContent-Type: multipart/byteranges\r\n\r\n--String_separator\r\n",
                  "HTTP/1.1 206 Partial Content\r\nContent-Type: multipart/byteranges; boundary=\r\n\r\n\r\n",
                  "HTTP/1.1 206 Partial Content\r\nContent-Type: multipart/byteranges; boundary=b\r\n\r\n--b\r\nContent-Type: t\r\nContent-Range: bytes 5-1/9\r\n\r\n"] {
            v.push(s.as_bytes().to_vec());
        }
        v.push(vec![0xff, 0xfe, 0x00]);
        v.push(b"HTTP/1.1 200 OK\r\nX: \xff\r\n\r\n".to_vec());
        v
    }
    pub fn search(seed: u64) -> bool {
        let mut h = Hits::new();
        for (i, inp) in response_inputs().iter().enumerate() {
            let x = inp.clone();
            if panic::catch_unwind(move || { let _ = Response::parse(&x); }).is_err() { h.hit("parsers", "c20_panic_response_parse", "Response::parse", &i.to_string(), &format!("panic on {:?}", String::from_utf8_lossy(inp))); }
        }
        // ---- every other parsing entry point: mutated valid documents, panic = hit, hang (JSON) = hit ----
        fn mutations(doc: &str) -> Vec<Vec<u8>> {
            let b = doc.as_bytes();
            let mut v: Vec<Vec<u8>> = vec![b.to_vec()];
            for i in 0..b.len() { v.push(b[..i].to_vec()); }
            for i in 0..b.len() { for r in [b'"', b'\\', 0xc3, 0xff, b'\n', b'-', b'{', b'}', b'[', b',', b':', b'='] { let mut m = b.to_vec(); m[i] = r; v.push(m); } }
            for i in (0..b.len()).step_by(3) { let mut m = b.to_vec(); m.insert(i, 0xe2); m.insert(i + 1, 0x82); m.insert(i + 2, 0xac); v.push(m); }
            v
        }
        let strs = |doc: &str| -> Vec<String> { mutations(doc).into_iter().filter_map(|m| String::from_utf8(m).ok()).collect() };
        for t in strs("QUJDREU=").into_iter().chain(strs("QQ==")).chain(["QUJ\u{e9}".to_string(), "\u{e9}UJD".to_string(), "QU\u{20ac}".to_string(), "====".to_string()]) {
            let tt = t.clone();
            if panic::catch_unwind(move || { let _ = crate::core::base64::Base64::decode(tt); }).is_err() { h.hit("parsers", "c20_panic_base64_decode", "Base64::decode", &t, "panic"); }
        }
        for t in strs("Content-Type: text/html; charset=utf-8\r\n") {
            let tt = t.clone();
            if panic::catch_unwind(move || { let _ = Header::parse_header(&tt); }).is_err() { h.hit("parsers", "c20_panic_header_parse", "Header::parse_header", &t, "panic"); }
        }
        for t in strs("form-data; name=\"field\"; filename=\"a.txt\"").into_iter().chain(strs("attachment; filename=\"x\"")).chain(strs("inline")) {
            let tt = t.clone();
            if panic::catch_unwind(move || { let _ = crate::header::content_disposition::ContentDisposition::parse(&tt); }).is_err() { h.hit("parsers", "c20_panic_content_disposition", "ContentDisposition::parse", &t, "panic"); }
        }
        for t in strs("multipart/form-data; boundary=----abc") {
            let tt = t.clone();
            if panic::catch_unwind(move || { let _ = crate::body::multipart_form_data::FormMultipartData::extract_boundary(&tt); }).is_err() { h.hit("parsers", "c20_panic_extract_boundary", "FormMultipartData::extract_boundary", &t, "panic"); }
        }
        let mp = "--xyz\r\nContent-Disposition: form-data; name=\"a\"\r\n\r\nvalue\r\n--xyz\r\nContent-Disposition: form-data; name=\"b\"\r\n\r\n\r\n--xyz--\r\n";
        let mut mps = mutations(mp);
        mps.push(b"--xyz\nContent-Disposition: form-data; name=\"a\"\n\n\n--xyz--\n".to_vec());
        mps.push(b"--xyz\nContent-Disposition: form-data; name=\"a\"\n\nv\n--xyz--\n".to_vec());
        for (k, m) in mps.iter().enumerate() {
            for bd in ["xyz", "--xyz", "----", "", "x-y-z", "-"] {
                let mm = m.clone();
                if panic::catch_unwind(move || { let _ = crate::body::multipart_form_data::FormMultipartData::parse(&mm, bd.to_string()); }).is_err() {
                    h.hit("parsers", "c20_panic_multipart_parse", "FormMultipartData::parse", &format!("{}/{}", k, bd), &format!("panic; boundary {:?} body {:?}", bd, String::from_utf8_lossy(m)));
                }
            }
        }
        for t in strs("/users/[[user_id]]/posts/[[post_id]]").into_iter().chain(strs("/a/[[b]]")) {
            let tt = t.clone();
            if panic::catch_unwind(move || { let _ = crate::url::path::UrlPath::extract_parts_from_pattern(&tt); let _ = crate::url::path::UrlPath::extract("/users/1/posts/2", &tt); let _ = crate::url::path::UrlPath::is_matching(&tt, "/a/[[b]]");
                let _ = crate::url::path::UrlPath::is_matching("/a/1", &tt); let _ = crate::url::path::UrlPath::is_matching("/users/1/posts/2", &tt); let _ = crate::url::path::UrlPath::extract("/a/1", &tt);
                let mut hm = std::collections::HashMap::new(); hm.insert("b".to_string(), "1".to_string()); hm.insert("user_id".to_string(), "1".to_string()); hm.insert("post_id".to_string(), "2".to_string());
                let _ = crate::url::path::UrlPath::build(hm, &tt); }).is_err() {
                h.hit("parsers", "c20_panic_url_path", "UrlPath", &t, "panic");
            }
        }
        for t in strs("[1, 2.5, \"a\", null, true, [1], {\"k\": 1}]").into_iter().chain(strs("[\"x\",\"y\"]")) {
            let tt = t.clone();
            if panic::catch_unwind(move || { let _ = crate::json::array::RawUnprocessedJSONArray::split_into_vector_of_strings(tt); }).is_err() { h.hit("parsers", "c20_panic_json_array", "RawUnprocessedJSONArray::split_into_vector_of_strings", &t, "panic"); }
        }
        // the typed list readers built on the splitter
        for t in strs("[1, 2, 3]").into_iter().chain(strs("[true, false]")).chain(strs("[\"a\", \"b\"]")).chain(strs("[1.5, -2e3]")).chain(strs("[null, null]"))
            .chain(["[\"]", "[ ]", "[,]", "[\"\"]", "[\"a\",]", "[\"", "[\"\\\"]", "[ \" ]", "[\"\u{e9}\"]", "[\u{e9}]", "[1,,2]", "[ , ]"].iter().map(|x| x.to_string())) {
            use crate::json::array::{boolean::JSONArrayOfBooleans, float::JSONArrayOfFloats, integer::JSONArrayOfIntegers, null::JSONArrayOfNulls, string::JSONArrayOfStrings};
            let readers: Vec<(&str, Box<dyn Fn(String) + std::panic::RefUnwindSafe>)> = vec![
                ("parse_as_list_i128", Box::new(|x| { let _ = JSONArrayOfIntegers::parse_as_list_i128(x); })), ("parse_as_list_i64", Box::new(|x| { let _ = JSONArrayOfIntegers::parse_as_list_i64(x); })),
                ("parse_as_list_i32", Box::new(|x| { let _ = JSONArrayOfIntegers::parse_as_list_i32(x); })), ("parse_as_list_i16", Box::new(|x| { let _ = JSONArrayOfIntegers::parse_as_list_i16(x); })),
                ("parse_as_list_i8", Box::new(|x| { let _ = JSONArrayOfIntegers::parse_as_list_i8(x); })), ("parse_as_list_u128", Box::new(|x| { let _ = JSONArrayOfIntegers::parse_as_list_u128(x); })),
                ("parse_as_list_u64", Box::new(|x| { let _ = JSONArrayOfIntegers::parse_as_list_u64(x); })), ("parse_as_list_u32", Box::new(|x| { let _ = JSONArrayOfIntegers::parse_as_list_u32(x); })),
                ("parse_as_list_u16", Box::new(|x| { let _ = JSONArrayOfIntegers::parse_as_list_u16(x); })), ("parse_as_list_u8", Box::new(|x| { let _ = JSONArrayOfIntegers::parse_as_list_u8(x); })),
                ("parse_as_list_bool", Box::new(|x| { let _ = JSONArrayOfBooleans::parse_as_list_bool(x); })), ("parse_as_list_f64", Box::new(|x| { let _ = JSONArrayOfFloats::parse_as_list_f64(x); })),
                ("parse_as_list_f32", Box::new(|x| { let _ = JSONArrayOfFloats::parse_as_list_f32(x); })), ("parse_as_list_null", Box::new(|x| { let _ = JSONArrayOfNulls::parse_as_list_null(x); })),
                ("parse_as_list_string", Box::new(|x| { let _ = JSONArrayOfStrings::parse_as_list_string(x); })),
            ];
            for (name, f) in readers.iter() {
                let tt = t.clone();
                if panic::catch_unwind(|| f(tt)).is_err() { h.hit("parsers", &format!("c20_panic_json_{}", name), name, &t, "panic"); }
            }
        }
        // JSON objects: run on a helper thread with a time limit (non-termination counts)
        let mut jsons = strs("{\"name\": \"rws\", \"port\": 7878, \"ok\": true, \"f\": 1.5, \"n\": null, \"o\": {\"a\": 1}, \"l\": [1, 2]}");
        jsons.truncate(600);
        for t in jsons {
            let tt = t.clone();
            let (tx, rx) = std::sync::mpsc::channel();
            std::thread::spawn(move || { let r = panic::catch_unwind(move || { let _ = crate::json::object::JSON::parse_as_properties(tt); }); let _ = tx.send(r.is_ok()); });
            match rx.recv_timeout(std::time::Duration::from_secs(5)) {
                Ok(true) => {}
                Ok(false) => h.hit("parsers", "c20_panic_json_object", "JSON::parse_as_properties", &t, "panic"),
                Err(_) => { h.hit("parsers", "c20_hang_json_object", "JSON::parse_as_properties", &t, "no result within 5 s"); break; }
            }
        }
        let mut cfgs: Vec<Vec<u8>> = mutations("[cors]\nallow_all = true # c\nallow_origins = [\"a\", \"b\"]\n\nport=80\n").into_iter().take(400).collect();
        // values that cannot be stored in an environment variable (NUL), '=' in odd places, table names that look like settings
        for t in ["port=80\0\n", "port=\0", "[cors]\nallow_all=tr\0ue\n", "ip=1\0.2.3.4\n", "[port=]\na\0=1\n", "# c\0\nport=1", "[a\0]\n", "port==\n", "=\n", "[=]\n=\n", "[port]\n=1\n", "ip=\n", "port=1=2=3\n", "[cors\nallow_all=true"] {
            cfgs.push(t.as_bytes().to_vec());
        }
        for m in cfgs {
            let mm = m.clone();
            if panic::catch_unwind(move || { let c = std::io::Cursor::new(&mm[..]); let _ = crate::entry_point::config_file::read_config_file(c, "".to_string()); }).is_err() {
                h.hit("parsers", "c20_panic_config_file", "read_config_file", &String::from_utf8_lossy(&m), "panic");
            }
        }
        // the accessors of a parsed request (library entry points): any target text
        for t in ["/", "/a?x=1#f", "", ":x/?a=b", "http://example.com/search?q=rust", "a:b", "?a=:b/c", "#", "?", "//", "/a b", "http://[::1]:x/?q", "x:99999999999999999999/?a"] {
            let req = crate::request::Request { method: "GET".into(), request_uri: t.to_string(), http_version: "HTTP/1.1".into(), headers: vec![], body: vec![] };
            if panic::catch_unwind(|| { let _ = req.get_query(); let _ = req.get_uri_query(); let _ = req.get_uri_path(); let _ = req.get_path(); }).is_err() {
                h.hit("parsers", "c20_panic_request_accessors", "Request::get_query / get_uri_path", t, "panic");
            }
        }
        // C15: status lines that are not "<supported version> <registered code> <its phrase>" are rejected, the exact ones accepted
        for (line, ok) in [("HTTP/1.1 200 OK", true), ("HTTP/1.1 200 ok", true), ("HTTP/1.1 404 Not Found", true), ("HTTP/1.1 200 OKAY", false), ("HTTP/1.1 200 OK ", false),
                           ("HTTP/1.1 404 Not Found Anywhere", false), ("HTTP/1.1 404 Not", false), ("HTTP/1.1 200 O", false), ("HTTP/1.1 200 ", false), ("HTTP/1.1 299 OK", false),
                           ("HTTP/1.1 404 OK", false), ("HTTP/9.9 200 OK", false), ("HTTP/1.1 206 Partial Content", true),
                           ("HTTP/1.1 206 Partial ContentX", false), ("HTTP/1.1 206 Partial", false), ("HTTP/1.1 200 OK OK", false)] {
            let raw = format!("{}\r\nContent-Length: 0\r\n\r\n", line).into_bytes();
            match panic::catch_unwind(|| Response::parse(&raw).is_ok()) {
                Err(_) => h.hit("parsers", "c15_status_line_panic", "Response::parse", line, "panic"),
                Ok(got) => if got != ok { h.hit("parsers", "c15_status_line", "Response::parse", line, &format!("accepted: {}, expected: {}", got, ok)); }
            }
        }
        // C15: both serialisers, read back
        let mut rng = Rng(seed | 1);
        for i in 0..300u64 {
            let (mut r, _m) = super::resp::case(seed.wrapping_add(i));
            if r.content_range_list.is_empty() { continue; }
            if r.content_range_list.len() == 1 {
                // "a single body": the value the library itself builds for one body (Range::get_content_range): range 0..len, size len
                let n = r.content_range_list[0].body.len() as u64;
                r.content_range_list[0].range = Range { start: 0, end: n };
                r.content_range_list[0].size = n.to_string();
            }
            let req = crate::request::Request { method: "GET".into(), request_uri: "/".into(), http_version: "HTTP/1.1".into(), headers: vec![], body: vec![] };
            // both serialisers must agree (known finding F10: generate() drops the single part's Content-Type and mutates self)
            let mut r2 = r.clone();
            let g = r2.generate();
            let bytes = Response::generate_response(r.clone(), req);
            if g != bytes || r2.headers != r.headers {
                h.hit("parsers", "c15_generate_differs", "Response::generate", &i.to_string(),
                      &format!("generate() wrote {:?}... but generate_response wrote {:?}...; self.headers afterwards {:?}", String::from_utf8_lossy(&g[..g.len().min(160)]), String::from_utf8_lossy(&bytes[..bytes.len().min(160)]), r2.headers));
            }
            let back = panic::catch_unwind(|| Response::parse(&bytes));
            let _ = &mut rng;
            match back {
                Err(_) => h.hit("parsers", "c15_roundtrip_panic", "Response::parse", &i.to_string(), "panic"),
                Ok(Err(e)) => h.hit("parsers", "c15_roundtrip", "Response::parse", &i.to_string(), &format!("Err({}) for {:?}", e, r)),
                Ok(Ok(p)) => {
                    // the caller's headers come back first, in order, with their values (the framing headers follow them)
                    let headers_back = p.headers.len() >= r.headers.len() && p.headers.iter().zip(r.headers.iter()).all(|(a, b)| a.name == b.name && a.value == b.value);
                    let same = headers_back && p.status_code == r.status_code && p.reason_phrase == r.reason_phrase && p.content_range_list.len() == r.content_range_list.len()
                        && p.content_range_list.iter().zip(r.content_range_list.iter()).all(|(a, b)| a.body == b.body && a.range == b.range && a.content_type == b.content_type);
                    if !same { h.hit("parsers", "c15_roundtrip", "Response::parse", &i.to_string(), &format!("read back {:?} for {:?}", p, r)); }
                }
            }
        }
        h.n > 0
    }
}

// ---------------------------------------------------------------- static resources: right file, exact bytes, media type (C02)
mod statics {
    use super::*;
    // an independent statement of the documented lookup and of the registry rows for the extensions in the tree
    fn tree() -> Vec<(&'static str, Vec<u8>)> {
        let all: Vec<u8> = (0..=255u8).collect();
        vec![("empty.txt", vec![]), ("one.bin", vec![7]), ("all.dat", all.clone()), ("app.min.js", b"js".to_vec()), ("report.2024.html", b"<p>r</p>".to_vec()),
             ("page.html.gz", vec![0x1f, 0x8b, 0]), ("notes.htmx.json", b"{}".to_vec()), ("photo.v1.2.jpeg", vec![0xff, 0xd8]), ("noext", b"plain".to_vec()),
             ("sub/deep/file.css", b"a{}".to_vec()), ("sub/index.html", b"<p>sub</p>".to_vec()), ("sub/deep/x.tar.gz", vec![1, 2, 3]), ("configure.html", b"<p>c</p>".to_vec()),
             ("caf\u{e9}.txt", b"non-ascii name".to_vec()), ("noindex/readme.md", b"# r".to_vec()), ("sound.oga", vec![b'O', b'g', b'g', b'S']), ("big.bin", (0..70000u32).map(|i| (i % 253) as u8).collect()),
             ("we#ird/index.html", b"<p>hash dir</p>".to_vec()), ("we", b"the file named we".to_vec()), ("dot./x.txt", b"in dot-dir".to_vec()), ("trail..html", b"trailing dot page".to_vec()),
             ("..notes.txt", b"name starts with two dots".to_vec()), ("report..", b"name ends with two dots".to_vec()), ("sub/..b/c.txt", b"directory name starts with two dots".to_vec()), ("sub/a../c.txt", b"directory name ends with two dots".to_vec()),
             ("edge8191.bin", vec![b'e'; 8191]), ("edge8192.bin", vec![b'f'; 8192]), ("edge8193.bin", vec![b'g'; 8193]), (".hidden", b"h".to_vec()), ("x.HTML", b"upper".to_vec())]
    }
    fn mime(name: &str) -> &'static str {
        let ext = name.rsplit('/').next().unwrap().rsplit_once('.').map(|(a, b)| if a.is_empty() { "" } else { b }).unwrap_or("");
        match ext { "txt" => "text/plain", "js" => "text/javascript", "html" => "text/html", "gz" => "application/gzip", "json" => "application/json", "jpeg" => "image/jpeg",
                    "css" => "text/css", "oga" => "audio/ogg", "bin" => "application/octet-stream", _ => "application/octet-stream" }
    }
    pub fn setup() {
        e2e::setup();
        for (n, c) in tree() { let p = std::path::Path::new(n); if let Some(d) = p.parent() { let _ = std::fs::create_dir_all(d); } std::fs::write(p, c).unwrap(); }
        let _ = std::os::unix::fs::symlink("all.dat", "link-to-all.dat");
    }
    // the documented lookup, stated independently: cut the target at the first '?' or '#', then the file itself, else index.html
    // inside the named directory, else the file with .html appended
    fn lookup(target: &str) -> Option<String> {
        let path = target.split(|c| c == '?' || c == '#').next().unwrap();
        if !path.starts_with('/') || path == "/" || path.split('/').any(|seg| seg == "..") { return None; }
        let rel = &path[1..];
        let p = std::path::Path::new(rel);
        if rel.is_empty() { return None; }
        if p.is_dir() { let idx = p.join("index.html"); return if idx.is_file() { Some(format!("{}/index.html", rel.trim_end_matches('/'))) } else { None }; }
        if rel.ends_with('/') { return None; }
        if p.is_file() { return Some(rel.to_string()); }
        if !rel.ends_with(".html") { let h = format!("{}.html", rel); if std::path::Path::new(&h).is_file() { return Some(h); } }
        None
    }
    fn cases() -> Vec<(String, Option<String>)> {
        let mut v: Vec<String> = vec![];
        for (n, _) in tree() {
            v.push(format!("/{}", n));
            v.push(format!("/{}?v=1", n));
            v.push(format!("/{}?from=/static/index.html", n));
            v.push(format!("/{}?a=b#frag.html", n));
            v.push(format!("/{}x", n));
        }
        for t in ["/sub", "/sub/", "/sub?x=1", "/sub/?x=/a.html", "/configure", "/configure?from=/static/index.html", "/configure?tab=2#top.html", "/report.2024", "/noindex", "/noindex/",
                  "/sub/deep", "/missing", "/missing.html", "/sub/missing", "/empty", "/noext/", "/configure.htm", "/link-to-all.dat", "/we#ird", "/we#ird/", "/trail.", "/dot./x.txt", "/sub/deep/file.css#x?y"] {
            v.push(t.to_string());
        }
        v.into_iter().map(|t| { let w = lookup(&t); (t, w) }).collect()
    }
    pub fn check(target: &str, want: &Option<String>) -> Option<(String, String)> {
        let raw = format!("GET {} HTTP/1.1\r\nHost: localhost\r\n\r\n", target).into_bytes();
        let out = match e2e::run(&raw, 0, false) { Ok(o) => o, Err(e) => return Some(("c02_panic".into(), e)) };
        let p = match e2e::parse(&out) { Some(p) => p, None => return Some(("c02_unparseable".into(), format!("{} bytes", out.len()))) };
        let ct = p.headers.iter().find(|(k, _)| k == "Content-Type").map(|(_, v)| v.clone());
        let cl = p.headers.iter().find(|(k, _)| k == "Content-Length").map(|(_, v)| v.clone());
        match want {
            Some(f) => {
                let content = std::fs::read(f).unwrap();
                // a '#' that precedes the first '?' : the url-build-parse dependency cuts the path at the '?', RFC 3986 at the '#'
                let frag_first = match (target.find('#'), target.find('?')) { (Some(h), Some(q)) => h < q, _ => false };
                if frag_first && (p.status != 200 || p.body != content) { return Some(("c02_fragment_before_query".into(), format!("{} for {} (RFC 3986 path selects {}): the dependency takes everything up to the '?' as the path", p.status, target, f))); }
                if p.status != 200 { return Some(("c02_status".into(), format!("{} for {} (selects {})", p.status, target, f))); }
                if p.body != content { return Some(("c02_body".into(), format!("{}: {} body bytes, file {} has {}", target, p.body.len(), f, content.len()))); }
                if cl.as_deref() != Some(content.len().to_string().as_str()) { return Some(("c02_content_length".into(), format!("{}: Content-Length {:?} for {} bytes", target, cl, content.len()))); }
                if !target.starts_with("/link") { if ct.as_deref() != Some(mime(f)) { return Some(("c02_media_type".into(), format!("{}: Content-Type {:?}, registered for {}: {}", target, ct, f, mime(f)))); } }
                None
            }
            None => {
                if p.status != 404 { return Some(("c02_not_found".into(), format!("{} for {} (nothing selected)", p.status, target))); }
                for (n, c) in tree() { if c.len() > 3 && p.body == c { return Some(("c02_other_file".into(), format!("404 for {} carries the content of {}", target, n))); } }
                None
            }
        }
    }
    pub fn search(_seed: u64) -> bool {
        setup();
        let mut h = Hits::new();
        for (t, w) in cases() { if let Some((c, o)) = check(&t, &w) { h.hit("statics", &c, "Server::process", &t, &o); } }
        h.n > 0
    }
    pub fn replay(_case: &str, input: &str) -> bool {
        setup();
        for (t, w) in cases() { if t == input { if let Some((c, o)) = check(&t, &w) { println!("{} {}", c, o); return true; } } }
        false
    }

    // ---- byte ranges read from real files (C03) and request histories (C03: file changed between requests; C09: HEAD after GET)
    fn get(target: &str, range: Option<&str>, method: &str) -> Option<e2e::Parsed> {
        let raw = match range { Some(r) => format!("{} {} HTTP/1.1\r\nHost: localhost\r\nRange: {}\r\n\r\n", method, target, r), None => format!("{} {} HTTP/1.1\r\nHost: localhost\r\n\r\n", method, target) };
        e2e::run(raw.as_bytes(), 0, false).ok().and_then(|o| e2e::parse(&o))
    }
    fn hdr(p: &e2e::Parsed, n: &str) -> Option<String> { p.headers.iter().find(|(k, _)| k == n).map(|(_, v)| v.clone()) }
    pub fn check_range(file: &str, a: u64, b: u64) -> Option<(String, String)> {
        let content = std::fs::read(file).unwrap();
        let p = get(&format!("/{}", file), Some(&format!("bytes={}-{}", a, b)), "GET")?;
        if (b as usize) < content.len() && a <= b {
            let want = &content[a as usize..=b as usize];
            if p.status != 206 { return Some(("c03_status".into(), format!("{} for bytes={}-{} of {} ({} bytes)", p.status, a, b, file, content.len()))); }
            if p.body != want { return Some(("c03_body".into(), format!("bytes={}-{} of {}: {} body bytes, expected {}", a, b, file, p.body.len(), want.len()))); }
            if hdr(&p, "Content-Length").as_deref() != Some(want.len().to_string().as_str()) { return Some(("c03_content_length".into(), format!("bytes={}-{} of {}: Content-Length {:?}", a, b, file, hdr(&p, "Content-Length")))); }
        }
        None
    }
    pub fn search_ranges(_seed: u64) -> bool {
        setup();
        let mut h = Hits::new();
        for f in ["big.bin", "edge8193.bin", "all.dat"] {
            let len = std::fs::metadata(f).unwrap().len();
            for (a, b) in [(0u64, 8191u64), (100, 8291), (5, 16388), (0, 0), (1, 8192), (0, 16383), (8192, 16383), (0, 8190), (0, 8192), (3, 10), (0, 255), (len - 1, len - 1)] {
                if b < len { if let Some((c, o)) = check_range(f, a, b) { h.hit("ranges", &c, "Server::process", &format!("{}|{}-{}", f, a, b), &o); } }
            }
        }
        // a relative symbolic link below the root (dir/up.txt -> ../a.txt): the bytes are those of the file the link points to,
        // resolved against the link's own directory
        for (a, b) in [(0u64, 3u64), (10, 40), (99, 99), (0, 99)] {
            if let Some((c, o)) = check_range("dir/up.txt", a, b) { h.hit("ranges", &c, "Server::process", &format!("dir/up.txt|{}-{}", a, b), &o); }
        }
        // an unsatisfiable or malformed Range is answered 416 whichever way the lookup found the file: the file itself, the
        // directory's index.html, the target with .html appended
        for t in ["/all.dat", "/sub/", "/sub", "/configure", "/configure?tab=2"] {
            for r in ["bytes=999999999-", "bytes=10-5", "lines=0-5", "bytes=abc-"] {
                if let Some(p) = get(t, Some(r), "GET") {
                    if p.status != 416 { h.hit("ranges", "c03_bad_range_status", "Server::process", &format!("{}|{}", t, r), &format!("{} instead of 416", p.status)); }
                }
            }
        }
        // history 1 (C03): the file grows / shrinks between two requests
        std::fs::write("hist.bin", vec![b'1'; 100]).unwrap();
        let _ = get("/hist.bin", None, "GET");
        let _ = get("/hist.bin", Some("bytes=0-9"), "GET");
        std::fs::write("hist.bin", vec![b'2'; 300]).unwrap();
        if let Some(p) = get("/hist.bin", Some("bytes=150-199"), "GET") {
            if p.status != 206 || p.body != vec![b'2'; 50] { h.hit("ranges", "c03_history", "Server::process", "hist.bin grown 100->300, bytes=150-199", &format!("{} with {} body bytes", p.status, p.body.len())); }
            else if let Some(cr) = hdr(&p, "Content-Range") { if !cr.ends_with("/300") { h.hit("ranges", "c03_history", "Server::process", "hist.bin grown 100->300, bytes=150-199", &format!("Content-Range {}", cr)); } }
        }
        std::fs::write("hist.bin", vec![b'3'; 20]).unwrap();
        if let Some(p) = get("/hist.bin", Some("bytes=50-60"), "GET") { if p.status == 206 || p.status == 200 { h.hit("ranges", "c03_history", "Server::process", "hist.bin truncated to 20, bytes=50-60", &format!("{} with {} body bytes", p.status, p.body.len())); } }
        // history 2 (C09): HEAD after a GET of the same target with a different Range header answers like the matching GET
        let _ = get("/all.dat", Some("bytes=0-9"), "GET");
        if let (Some(hd), Some(g)) = (get("/all.dat", None, "HEAD"), get("/all.dat", None, "GET")) {
            if hd.status != g.status || hdr(&hd, "Content-Length") != hdr(&g, "Content-Length") || hdr(&hd, "Content-Range") != hdr(&g, "Content-Range") {
                h.hit("ranges", "c09_history", "Server::process", "GET /all.dat bytes=0-9; HEAD /all.dat", &format!("HEAD {} Content-Length {:?}, GET {} Content-Length {:?}", hd.status, hdr(&hd, "Content-Length"), g.status, hdr(&g, "Content-Length")));
            }
        }
        let _ = get("/all.dat", None, "GET");
        if let (Some(hd), Some(g)) = (get("/all.dat", Some("bytes=0-9"), "HEAD"), get("/all.dat", Some("bytes=0-9"), "GET")) {
            if hd.status != g.status || hdr(&hd, "Content-Length") != hdr(&g, "Content-Length") {
                h.hit("ranges", "c09_history", "Server::process", "GET /all.dat; HEAD /all.dat bytes=0-9", &format!("HEAD {} Content-Length {:?}, GET {} Content-Length {:?}", hd.status, hdr(&hd, "Content-Length"), g.status, hdr(&g, "Content-Length")));
            }
        }
        h.n > 0
    }
}

// ---------------------------------------------------------------- the served directory is never modified (C13)
mod fswatch {
    use super::*;
    fn snapshot(dir: &std::path::Path, out: &mut Vec<(String, u64, u64)>) {
        let mut entries: Vec<_> = match std::fs::read_dir(dir) { Ok(r) => r.filter_map(|e| e.ok()).collect(), Err(_) => return };
        entries.sort_by_key(|e| e.path());
        for e in entries {
            let p = e.path();
            let md = match std::fs::symlink_metadata(&p) { Ok(m) => m, Err(_) => continue };
            if md.is_dir() { out.push((format!("{}/", p.display()), 0, 0)); snapshot(&p, out); }
            else {
                let content = std::fs::read(&p).unwrap_or_default();
                let mut hsh: u64 = 1469598103934665603;
                for b in &content { hsh = (hsh ^ (*b as u64)).wrapping_mul(1099511628211); }
                out.push((p.display().to_string(), content.len() as u64, hsh));
            }
        }
    }
    pub fn search() -> bool {
        statics::setup();
        let root = e2e::root();
        let mut before = vec![];
        snapshot(&root, &mut before);
        // every request of the end-to-end corpus, the static-file cases, form posts and malformed input
        for (_n, raw) in e2e::corpus().iter() { let _ = e2e::run(raw, 0, false); }
        let _ = statics::search(1);
        for raw in [&b"\xff\xfeGET / HTTP/1.1\r\n\r\n"[..], &b"GET\r\n\r\n"[..], &b""[..], &b"POST /file-upload/initiate?name=a.txt&lastModified=1&size=2 HTTP/1.1\r\n\r\n"[..],
                    &b"POST /form-multipart-enctype-post-method HTTP/1.1\r\nContent-Type: multipart/form-data; boundary=xyz\r\nContent-Length: 80\r\n\r\n--xyz\r\nContent-Disposition: form-data; name=\"f\"; filename=\"index.html\"\r\n\r\nX\r\n--xyz--\r\n"[..],
                    &b"POST /form-multipart-enctype-post-method HTTP/1.1\r\nContent-Type: multipart/form-data; boundary=xyz\r\nContent-Length: 70\r\n\r\n--xyz\r\nContent-Disposition: form-data; name=\"f\"; filename=\"a.txt\"\r\n\r\nunfinished body"[..],
                    &b"GET /a.txt HTTP/1.1\r\nRange: items=0-1\r\n\r\n"[..], &b"GET /a.txt HTTP/1.1\r\nRange: Bytes=0-3\r\n\r\n"[..], &b"GET /a.txt HTTP/1.1\r\nRange: \r\n\r\n"[..],
                    &b"POST /file-upload/initiate?name=page.html&lastModified=1&size=2 HTTP/1.1\r\n\r\n"[..], &b"POST /file-upload/initiate?name=dir/index.html&lastModified=1&size=2 HTTP/1.1\r\n\r\n"[..],
                    &b"PUT /a.txt HTTP/1.1\r\nContent-Length: 3\r\n\r\nabc"[..], &b"DELETE /a.txt HTTP/1.1\r\n\r\n"[..], &b"GET /nothing-here HTTP/1.1\r\n\r\n"[..]] {
            let _ = e2e::run(raw, 0, false);
        }
        // requests that fill (and exceed) the default 10000-byte request buffer
        for total in [9999usize, 10000, 10001, 20000] {
            let head = "POST /form-multipart-enctype-post-method HTTP/1.1\r\nContent-Type: multipart/form-data; boundary=xyz\r\n\r\n--xyz\r\nContent-Disposition: form-data; name=\"f\"; filename=\"big.bin\"\r\n\r\n";
            let mut raw = head.as_bytes().to_vec();
            while raw.len() < total { raw.push(b'x'); }
            let _ = e2e::run(&raw, 0, false);
            let mut get = format!("GET /a.txt HTTP/1.1\r\nX-Fill: ").into_bytes();
            while get.len() < total { get.push(b'y'); }
            let _ = e2e::run(&get, 0, false);
        }
        // statics::search sets the tree up again: compare against a snapshot of a fresh setup
        let mut expected = vec![];
        {
            // what a fresh setup looks like (the requests above must not have added, removed or changed anything)
            let mut after = vec![];
            snapshot(&root, &mut after);
            statics::setup();
            snapshot(&root, &mut expected);
            let mut h = Hits::new();
            let names = |v: &Vec<(String, u64, u64)>| v.iter().map(|x| x.0.clone()).collect::<std::collections::BTreeSet<_>>();
            for n in names(&after).difference(&names(&expected)) { h.hit("fswatch", "c13_created", "Server::process", n, "a file or directory appeared in the served tree"); }
            for n in names(&expected).difference(&names(&after)) { h.hit("fswatch", "c13_removed", "Server::process", n, "a file or directory disappeared from the served tree"); }
            for a in &after { if let Some(e) = expected.iter().find(|e| e.0 == a.0) { if e != a { h.hit("fswatch", "c13_modified", "Server::process", &a.0, &format!("{} bytes (hash {:x}) instead of {} bytes (hash {:x})", a.1, a.2, e.1, e.2)); } } }
            let _ = before;
            return h.n > 0;
        }
    }
}

// ---------------------------------------------------------------- multipart/form-data round trip (C16)
mod mpform {
    use super::*;
    use crate::body::multipart_form_data::{FormMultipartData, Part};
    use crate::header::Header;

    // lines that look like the boundary but differ from it in their hyphens (they do not contain it)
    pub fn near_boundary_bodies(boundary: &str) -> Vec<Vec<u8>> {
        let core = boundary.trim_start_matches('-');
        let mut v = vec![];
        if core.len() < boundary.len() && !core.is_empty() {
            v.push(core.as_bytes().to_vec());
            v.push(format!("-{}", core).into_bytes());
            v.push(format!("first\r\n{}\r\nlast line", core).into_bytes());
            v.push(format!("{}--", core).into_bytes());
        }
        v
    }
    pub fn bodies() -> Vec<Vec<u8>> {
        vec![b"".to_vec(), b"x".to_vec(), b"value".to_vec(), b"\n".to_vec(), b"\r\n".to_vec(), b"a\n".to_vec(), b"a\r\n".to_vec(), b"\r".to_vec(), b"line1\r\nline2".to_vec(),
             b"--".to_vec(), b"-- not a boundary --".to_vec(), vec![0, 255, 254, 13, 10, 0], (0..=255u8).collect(), b"ends with cr\r".to_vec()]
    }
    pub fn boundaries() -> Vec<&'static str> {
        vec!["xyz", "----WebKitFormBoundary7MA4YWxkTrZu0gW", "a-b", "b.o,u:n'd(a)r+y_=?", "0123456789012345678901234567890123456789012345678901234567890123456789", "X", "--lead"]
    }
    pub fn case(i: u64) -> (Vec<(Vec<(String, String)>, Vec<u8>)>, &'static str) {
        let mut rng = Rng(i.wrapping_mul(6364136223846793005) | 1);
        let bs = bodies();
        let n = 1 + rng.below(3) as usize;
        let mut parts = vec![];
        for k in 0..n {
            let mut hs = vec![("Content-Disposition".to_string(), format!("form-data; name=\"f{}\"", k))];
            if rng.below(2) == 0 { hs.push(("Content-Type".to_string(), "application/octet-stream".to_string())); }
            if rng.below(4) == 0 { hs.push(("X-Extra".to_string(), "a: b".to_string())); }
            // an empty value, and a value with a C1 control character (U+0096): only ASCII control characters may be filtered
            if rng.below(6) == 0 { hs.push(("X-Empty".to_string(), "".to_string())); }
            if rng.below(6) == 0 { hs.push(("X-Note".to_string(), "report \u{96} final \u{e9}".to_string())); }
            parts.push((hs, bs[rng.below(bs.len() as u64) as usize].clone()));
        }
        let bd = boundaries();
        let b = bd[rng.below(bd.len() as u64) as usize];
        let near = near_boundary_bodies(b);
        if !near.is_empty() && rng.below(3) == 0 {
            let k = rng.below(parts.len() as u64) as usize;
            parts[k].1 = near[rng.below(near.len() as u64) as usize].clone();
        }
        (parts, b)
    }
    pub fn check(i: u64) -> Option<(String, String)> {
        let (parts, boundary) = case(i);
        let list: Vec<Part> = parts.iter().map(|(hs, b)| Part { headers: hs.iter().map(|(n, v)| Header { name: n.clone(), value: v.clone() }).collect(), body: b.clone() }).collect();
        let gen = panic::catch_unwind(move || FormMultipartData::generate(list, boundary));
        let bytes = match gen { Err(_) => return Some(("c16_panic".into(), "generate panicked".into())), Ok(Err(e)) => return Some(("c16_generate".into(), format!("generate Err({})", e))), Ok(Ok(b)) => b };
        let b2 = bytes.clone();
        let back = panic::catch_unwind(move || FormMultipartData::parse(&b2, boundary.to_string()));
        match back {
            Err(_) => Some(("c16_panic".into(), format!("parse panicked; boundary {:?}", boundary))),
            Ok(Err(e)) => Some((if boundary.trim_start_matches('-').contains('-') { "c16_interior_hyphen_boundary".into() } else { "c16_roundtrip".into() }, format!("parse Err({}) boundary {:?} parts {:?}", e, boundary, parts))),
            Ok(Ok(ps)) => {
                let got: Vec<(Vec<(String, String)>, Vec<u8>)> = ps.iter().map(|p| (p.headers.iter().map(|h| (h.name.clone(), h.value.clone())).collect(), p.body.clone())).collect();
                if got != parts { Some(("c16_roundtrip".into(), format!("boundary {:?}: wrote {:?} read back {:?}", boundary, parts, got))) } else { None }
            }
        }
    }
    pub fn search(seed: u64) -> bool {
        let mut h = Hits::new();
        for i in 0..1500u64 { if let Some((c, o)) = check(seed.wrapping_add(i)) { h.hit("mpform", &c, "FormMultipartData", &seed.wrapping_add(i).to_string(), &o); } }
        // rejection of broken bodies
        let good = b"xyz\r\nContent-Disposition: form-data; name=\"a\"\r\n\r\nv\r\nxyz".to_vec();
        for (name, body) in [("no opening boundary", b"Content-Disposition: form-data; name=\"a\"\r\n\r\nv\r\nxyz".to_vec()), ("no closing boundary", b"xyz\r\nContent-Disposition: form-data; name=\"a\"\r\n\r\nv\r\n".to_vec()),
                             ("part without headers", b"xyz\r\n\r\nv\r\nxyz".to_vec()),
                             ("second part cut in its headers", b"xyz\r\nContent-Disposition: form-data; name=\"a\"\r\n\r\nv\r\nxyz\r\nContent-Disposition: form-data; name=\"b\"".to_vec()),
                             ("second part cut after its headers", b"xyz\r\nContent-Disposition: form-data; name=\"a\"\r\n\r\nv\r\nxyz\r\nContent-Disposition: form-data; name=\"b\"\r\n\r\n".to_vec()),
                             ("only part cut in its headers", b"xyz\r\nContent-Disposition: form-data; name=\"a\"\r\n".to_vec()),
                             ("no closing boundary, body without line break", b"xyz\r\nContent-Disposition: form-data; name=\"a\"\r\n\r\nv".to_vec())] {
            let r = panic::catch_unwind(move || FormMultipartData::parse(&body, "xyz".to_string()));
            match r { Err(_) => h.hit("mpform", "c16_panic", "FormMultipartData::parse", name, "panic"), Ok(Ok(ps)) => h.hit("mpform", "c16_not_rejected", "FormMultipartData::parse", name, &format!("accepted with {} part(s)", ps.len())), Ok(Err(_)) => {} }
        }
        for (ct, want) in [("multipart/form-data; boundary=----WebKitFormBoundary7MA4YWxkTrZu0gW", "----WebKitFormBoundary7MA4YWxkTrZu0gW"), ("multipart/form-data; boundary=AbC-dEf", "AbC-dEf"), ("multipart/form-data;boundary=x", "x")] {
            let r = panic::catch_unwind(move || FormMultipartData::extract_boundary(ct));
            match r { Ok(Ok(b)) if b == want => {}, other => h.hit("mpform", "c16_extract_boundary", "FormMultipartData::extract_boundary", ct, &format!("{:?}, expected {:?}", other.ok(), want)) }
        }
        // the framing browsers send for `boundary=B`: lines "--B" between parts and "--B--" at the end (RFC 7578 / 2046)
        for b in ["xyz", "----WebKitFormBoundary7MA4YWxkTrZu0gW", "a-b"] {
            for (name, tail) in [("closing --B--CRLF", "--\r\n"), ("closing --B-- at end of input", "--"), ("closing --B (no final dashes)", "\r\n")] {
                let body = format!("--{b}\r\nContent-Disposition: form-data; name=\"a\"\r\n\r\nv1\r\n--{b}\r\nContent-Disposition: form-data; name=\"f\"; filename=\"x.bin\"\r\nContent-Type: application/octet-stream\r\n\r\n\u{1}\u{2}\r\n--{b}{tail}", b = b, tail = tail).into_bytes();
                let bb = b.to_string();
                let r = panic::catch_unwind(move || FormMultipartData::parse(&body, bb));
                match r {
                    Err(_) => h.hit("mpform", "c16_panic", "FormMultipartData::parse", name, "panic"),
                    Ok(Err(e)) => h.hit("mpform", "c16_browser_framing", "FormMultipartData::parse", &format!("{} / {}", b, name), &format!("rejected: {}", e)),
                    Ok(Ok(ps)) => if ps.len() != 2 || ps[0].body != b"v1" || ps[1].body != [1u8, 2u8] { h.hit("mpform", "c16_browser_framing", "FormMultipartData::parse", &format!("{} / {}", b, name), &format!("{} part(s), bodies {:?}", ps.len(), ps.iter().map(|p| p.body.clone()).collect::<Vec<_>>())); }
                }
            }
        }
        let g2 = good.clone();
        if let Ok(Ok(ps)) = panic::catch_unwind(move || FormMultipartData::parse(&g2, "xyz".to_string())) { if ps.len() != 1 || ps[0].body != b"v" { h.hit("mpform", "c16_roundtrip", "FormMultipartData::parse", "control", "control body misread"); } }
        h.n > 0
    }
}

mod probe2 {
    pub fn run() {
        std::panic::set_hook(Box::new(|i| { eprintln!("PANIC {}", i); }));
        for t in ["/users/[", "/users/[[", "/a/[[b]]]", "/a/]]", "]]", "[[]]", "/a/[[b]][[c]]", "/[[a", "a]]b]]", "/a]]/b]]", "/[[a]]x]]", "]]]]", "/a/[[b]]/c]]"] {
            let r1 = std::panic::catch_unwind(|| crate::url::path::UrlPath::extract_parts_from_pattern(t).is_ok());
            let r2 = std::panic::catch_unwind(|| crate::url::path::UrlPath::extract("/users/1/posts/2", t).is_ok());
            let r3 = std::panic::catch_unwind(|| crate::url::path::UrlPath::is_matching(t, "/a/[[b]]").is_ok());
            let r4 = std::panic::catch_unwind(|| crate::url::path::UrlPath::is_matching("/a/1", t).is_ok());
            println!("{:?}: parts {:?} extract {:?} is_matching(as path) {:?} is_matching(as pattern) {:?}", t, r1, r2, r3, r4);
        }
        for t in ["port=80\0\n", "port=\0", "[cors]\nallow_all=tr\0ue\n", "ip=1\0.2.3.4\n", "thread_count='\0'\n", "[port=]\na\0=1\n", "# c\0\nport=1", "[a\0]\n"] {
            let tt = t.to_string();
            let r = std::panic::catch_unwind(move || { let c = std::io::Cursor::new(tt.as_bytes()); crate::entry_point::config_file::read_config_file(c, "".to_string()).is_ok() });
            println!("config {:?}: {:?}", t, r);
        }
        for t in ["\u{20ac}[1]", "[1]\u{20ac}", "[\u{20ac}]", " [1]", "\u{e9}", ""] {
            let tt = t.to_string();
            let r = std::panic::catch_unwind(move || crate::json::array::RawUnprocessedJSONArray::split_into_vector_of_strings(tt).is_ok());
            println!("json array {:?}: {:?}", t, r);
        }
    }
}
mod probe {
    use crate::request::Request;
    pub fn run() {
        for uri in ["/form-get-method?a=b", "/form-get-method?a=[", "/x?@", "/x?a=b#", "/x?%", "/x?a=%zz", "/x?a=b&&", "/x?#", "/x?a=b#f#g", "/x??", "/x?a=b?c", "//x?a", "/x?a=\u{e9}", "/x? ", "/x?a b", "/form-get-method?a=1%", "/x?=", "/x?&", "/x?a=b;c", "/x?:@/", "/x?a=b#%"] {
            let r = Request { method: "GET".into(), request_uri: uri.into(), http_version: "HTTP/1.1".into(), headers: vec![], body: vec![] };
            let q = std::panic::catch_unwind(|| r.get_uri_query());
            println!("{:?} -> {:?}", uri, q.map(|x| x.map(|o| o.map(|m| m.len()))));
        }
    }
}

// deep recursion of the recursive readers inside a thread with the default 2 MiB stack (what the worker pool uses).
// A stack overflow aborts the process, so every probe runs in a child process of this executable.
pub fn stack_probe(entry: &str, n: usize) {
    let entry = entry.to_string();
    let h = std::thread::Builder::new().stack_size(2 * 1024 * 1024).spawn(move || {
        match entry.as_str() {
            "request" => { let mut raw = b"GET / HTTP/1.1\r\n".to_vec(); for _ in 0..n { raw.extend(b"a\n"); } raw.extend(b"\r\n"); let _ = crate::request::Request::parse(&raw); }
            "response" => { let mut raw = b"HTTP/1.1 200 OK\r\n".to_vec(); for _ in 0..n { raw.extend(b"a: b\n"); } raw.extend(b"\r\nbody"); let _ = crate::response::Response::parse(&raw); }
            "multipart" => { let mut raw = b"xyz\r\n".to_vec(); for _ in 0..n { raw.extend(b"a: b\r\n\r\nv\r\nxyz\r\n"); } let _ = crate::body::multipart_form_data::FormMultipartData::parse(&raw, "xyz".to_string()); }
            "byteranges" => { let mut raw = b"HTTP/1.1 206 Partial Content\r\nContent-Type: multipart/byteranges; boundary=String_separator\r\n\r\n--String_separator\r\n".to_vec();
                              for _ in 0..n { raw.extend(b"Content-Type: text/plain\r\nContent-Range: bytes 0-1/9\r\n\r\nab\r\n--String_separator\r\n"); } let _ = crate::response::Response::parse(&raw); }
            _ => {}
        }
    }).unwrap();
    let _ = h.join();
}
mod stack {
    use super::*;
    pub fn search() -> bool {
        let mut h = Hits::new();
        let exe = std::env::current_exe().unwrap();
        // inputs of at most 1 MiB; the server's default request buffer is 10000 bytes (about 4990 two-byte lines)
        for (entry, n) in [("request", 4990usize), ("request", 100000), ("response", 100000), ("multipart", 50000), ("byteranges", 15000)] {
            let st = std::process::Command::new(&exe).args(["stackprobe", entry, &n.to_string()]).stderr(std::process::Stdio::null()).status();
            let ok = st.map(|s| s.success()).unwrap_or(false);
            if !ok {
                let case = if entry == "request" && n <= 4990 { "c20_stack_request_within_default_buffer".to_string() } else { format!("c20_stack_{}", entry) };
                h.hit("stack", &case, entry, &n.to_string(), "the process was killed by a stack overflow (2 MiB thread)");
            }
        }
        h.n > 0
    }
}


// ---------------------------------------------------------------- settings (C12)
// Each scenario runs the REAL start-up sequence (set_default_values(); bootstrap(); then the readers) in a child process of this
// binary: its environment, its command line and the rws.config.toml in its working directory are the three sources.  The
// expected values come from the table of the documentation (kept here independently of the code and of the contracts).
mod settings {
    use super::*;
    use std::process::Command;

    // variable, short, long, default, TOML table, TOML key, kind (t = text, n = number, l = list)
    pub const T: [(&str, &str, &str, &str, &str, &str, char); 11] = [
        ("RWS_CONFIG_IP", "-i", "--ip", "127.0.0.1", "", "ip", 't'),
        ("RWS_CONFIG_PORT", "-p", "--port", "7878", "", "port", 'n'),
        ("RWS_CONFIG_THREAD_COUNT", "-t", "--thread-count", "200", "", "thread_count", 'n'),
        ("RWS_CONFIG_CORS_ALLOW_ALL", "-a", "--cors-allow-all", "true", "cors", "allow_all", 't'),
        ("RWS_CONFIG_CORS_ALLOW_ORIGINS", "-o", "--cors-allow-origins", "", "cors", "allow_origins", 'l'),
        ("RWS_CONFIG_CORS_ALLOW_METHODS", "-m", "--cors-allow-methods", "", "cors", "allow_methods", 'l'),
        ("RWS_CONFIG_CORS_ALLOW_HEADERS", "-h", "--cors-allow-headers", "", "cors", "allow_headers", 'l'),
        ("RWS_CONFIG_CORS_ALLOW_CREDENTIALS", "-c", "--cors-allow-credentials", "", "cors", "allow_credentials", 't'),
        ("RWS_CONFIG_CORS_EXPOSE_HEADERS", "-e", "--cors-expose-headers", "", "cors", "expose_headers", 'l'),
        ("RWS_CONFIG_CORS_MAX_AGE", "-g", "--cors-max-age", "86400", "cors", "max_age", 'n'),
        ("RWS_CONFIG_REQUEST_ALLOCATION_SIZE_IN_BYTES", "-r", "--request-allocation-size-in-bytes", "10000", "", "request-allocation-size-in-bytes", 'n'),
    ];

    // the child: the real start-up code, then one line per setting and one line for the readers
    pub fn probe() {
        if std::env::args().any(|a| a == "@setup") {
            // the real Server::setup: what the listener is bound to and how many workers the pool has
            match crate::server::Server::setup() {
                Ok((listener, _pool)) => {
                    let threads = std::fs::read_to_string("/proc/self/status").ok()
                        .and_then(|t| t.lines().find(|l| l.starts_with("Threads:")).map(|l| l[8..].trim().to_string())).unwrap_or_default();
                    println!("@@setup ip={} threads={}", listener.local_addr().map(|a| a.ip().to_string()).unwrap_or_default(), threads);
                }
                Err(e) => println!("@@setup failed {}", e),
            }
            for t in T.iter() {
                match std::env::var(t.0) { Ok(v) => println!("@@{}={}", t.0, v), Err(_) => println!("@@{} UNSET", t.0) }
            }
            return;
        }
        crate::entry_point::set_default_values();
        crate::entry_point::bootstrap();
        for t in T.iter() {
            match std::env::var(t.0) { Ok(v) => println!("@@{}={}", t.0, v), Err(_) => println!("@@{} UNSET", t.0) }
        }
        let (ip, port, threads) = crate::entry_point::get_ip_port_thread_count();
        let alloc = crate::entry_point::get_request_allocation_size();
        println!("@@readers ip={} port={} threads={} alloc={}", ip, port, threads, alloc);
    }

    #[derive(Clone)]
    pub struct Scenario { pub name: String, pub env: Vec<(usize, String)>, pub file: Option<String>, pub file_vals: Vec<(usize, String)>, pub cli: Vec<String>, pub cli_vals: Vec<(usize, String)> }

    fn val(i: usize, src: usize) -> String {
        match T[i].6 {
            'n' => format!("{}", 1000 * (src + 1) + i),
            'l' => format!("v{}s{}-a,v{}s{}-b", i, src, i, src),
            _ => if i == 0 { format!("10.{}.0.{}", src, i + 1) } else { format!("text{}s{}", i, src) },
        }
    }
    // one TOML line for setting i in one of the documented shapes
    fn toml_line(i: usize, v: &str, shape: usize) -> String {
        let k = T[i].5;
        let list: Vec<&str> = v.split(',').collect();
        match (T[i].6, shape % 6) {
            ('l', 0) => format!("{} = [{}]", k, list.iter().map(|x| format!("\"{}\"", x)).collect::<Vec<_>>().join(", ")),
            ('l', 1) => format!("{} = [{}] # a comment", k, list.iter().map(|x| format!("'{}'", x)).collect::<Vec<_>>().join(",")),
            ('l', 2) => format!("  {}   =   [ {} ]  ", k, list.iter().map(|x| format!("\"{}\"", x)).collect::<Vec<_>>().join(" , ")),
            (_, 0) => format!("{} = {}", k, v),
            (_, 1) => format!("{} = '{}'", k, v),
            (_, 2) => format!("{} = \"{}\" # a comment = with signs", k, v),
            (_, 3) => format!("{}={}", k, v),
            (_, 4) => format!("   {}    =    {}    ", k, v),
            _ => format!("{} = \"{}\"", k, v),
        }
    }
    fn toml(vals: &Vec<(usize, String)>, shape: usize, reverse: bool) -> String {
        let mut top: Vec<String> = vec![]; let mut cors: Vec<String> = vec![];
        for (i, v) in vals { let l = toml_line(*i, v, shape); if T[*i].4 == "cors" { cors.push(l) } else { top.push(l) } }
        if reverse { top.reverse(); cors.reverse(); }
        let mut out = String::from("# configuration\n\n");
        for l in top { out.push_str(&l); out.push('\n'); if shape % 2 == 1 { out.push('\n'); } }
        if !cors.is_empty() { out.push_str(if shape % 3 == 0 { "[cors]\n" } else { "\n[cors] # cross origin\n" }); }
        for l in cors { out.push_str(&l); out.push('\n'); if shape % 2 == 0 { out.push_str("# between\n"); } }
        out
    }
    pub fn scenarios() -> Vec<Scenario> {
        let mut out = vec![];
        // every setting x every subset of the three sources x both command line spellings
        for i in 0..11 { for mask in 0..8usize { for long in [false, true] {
            if mask & 4 == 0 && long { continue; }
            let mut s = Scenario { name: format!("setting {} sources {}{}{} {}", T[i].0, if mask & 1 != 0 { "E" } else { "-" }, if mask & 2 != 0 { "F" } else { "-" }, if mask & 4 != 0 { "C" } else { "-" }, if long { "long" } else { "short" }),
                env: vec![], file: None, file_vals: vec![], cli: vec![], cli_vals: vec![] };
            if mask & 1 != 0 { s.env.push((i, val(i, 0))); }
            if mask & 2 != 0 { s.file_vals.push((i, val(i, 1))); s.file = Some(toml(&s.file_vals, i + mask, false)); }
            if mask & 4 != 0 { s.cli_vals.push((i, val(i, 2))); s.cli.push(format!("{}={}", if long { T[i].2 } else { T[i].1 }, val(i, 2))); }
            out.push(s);
        } } }
        // all settings at once, each from its own mix of sources; every file shape; both key orders
        for shape in 0..12usize { for reverse in [false, true] {
            let mut s = Scenario { name: format!("all settings, file shape {}{}", shape, if reverse { " reversed" } else { "" }), env: vec![], file: None, file_vals: vec![], cli: vec![], cli_vals: vec![] };
            for i in 0..11 {
                let mask = (i + shape) % 8;
                if mask & 1 != 0 { s.env.push((i, val(i, 0))); }
                if mask & 2 != 0 { s.file_vals.push((i, val(i, 1))); }
                if mask & 4 != 0 { s.cli_vals.push((i, val(i, 2))); s.cli.push(format!("{}={}", if (i + shape) % 2 == 0 { T[i].2 } else { T[i].1 }, val(i, 2))); }
            }
            // the whole file: all eleven keys when the shape says so
            if shape >= 6 { s.file_vals = (0..11).map(|i| (i, val(i, 1))).collect(); }
            s.file = Some(toml(&s.file_vals, shape, reverse));
            out.push(s);
        } }
        // a word given twice: the last one counts; values holding '=' ; an unknown word is ignored
        let mut s = Scenario { name: "repeated and odd words".into(), env: vec![], file: None, file_vals: vec![], cli: vec!["--port=1".into(), "-p=2".into(), "--unknown=9".into(), "--ip=a=b".into(), "port=5".into(), "---port=6".into(), "-port=7".into(), "--p=8".into()], cli_vals: vec![(1, "2".into()), (0, "a=b".into())] };
        out.push(s.clone());
        // an explicitly empty value is a value: it overrides what a weaker source says
        for i in [4usize, 5, 6, 8] {
            let mut e = Scenario { name: format!("empty command line value for {}", T[i].0), env: vec![(i, val(i, 0))], file: None, file_vals: vec![], cli: vec![format!("{}=", T[i].2)], cli_vals: vec![(i, String::new())] };
            out.push(e.clone());
            e.name = format!("empty list in the file for {}", T[i].0); e.cli = vec![]; e.cli_vals = vec![]; e.file_vals = vec![(i, String::new())];
            e.file = Some(format!("[cors]\n{} = []\n", T[i].5));
            out.push(e);
        }
        // TOML white space is the space and the tab
        for (n, f) in ["port\t=\t4001\n", "\tport = 4001\n", "port =\t'4001'\t# comment\n", "\t[cors]\t\n\tmax_age\t=\t4001\n"].iter().enumerate() {
            let i = if n == 3 { 9 } else { 1 };
            out.push(Scenario { name: format!("tab as white space #{}", n), env: vec![(i, "1".into())], file: Some(f.to_string()), file_vals: vec![(i, "4001".into())], cli: vec![], cli_vals: vec![] });
        }
        s.name = "no source at all".into(); s.cli = vec![]; s.cli_vals = vec![]; out.push(s.clone());
        s.name = "unreadable file ignored".into(); s.file = None; s.env = vec![(2, "17".into())]; out.push(s);
        out
    }
    pub fn expected(s: &Scenario) -> Vec<String> {
        (0..11).map(|i| {
            if let Some((_, v)) = s.cli_vals.iter().rev().find(|(j, _)| *j == i) { return v.clone(); }
            if let Some((_, v)) = s.file_vals.iter().rev().find(|(j, _)| *j == i) { return v.clone(); }
            if let Some((_, v)) = s.env.iter().find(|(j, _)| *j == i) { return v.clone(); }
            T[i].3.to_string()
        }).collect()
    }
    pub fn run(s: &Scenario, n: usize) -> Result<(Vec<Option<String>>, String), String> {
        let dir = std::env::temp_dir().join(format!("rws-settings-{}-{}", std::process::id(), n));
        let _ = std::fs::remove_dir_all(&dir);
        std::fs::create_dir_all(&dir).map_err(|e| e.to_string())?;
        if let Some(f) = &s.file { std::fs::write(dir.join("rws.config.toml"), f).map_err(|e| e.to_string())?; }
        let exe = std::env::current_exe().map_err(|e| e.to_string())?;
        let mut c = Command::new(exe);
        c.arg("settingsprobe").args(&s.cli).current_dir(&dir);
        for t in T.iter() { c.env_remove(t.0); }
        for (i, v) in &s.env { c.env(T[*i].0, v); }
        let out = c.output().map_err(|e| e.to_string());
        let _ = std::fs::remove_dir_all(&dir);
        let out = out?;
        if !out.status.success() { return Err(format!("start-up ended with {:?}", out.status)); }
        let text = String::from_utf8_lossy(&out.stdout).to_string();
        let mut vals = vec![];
        for t in T.iter() {
            let pre = format!("@@{}=", t.0);
            vals.push(text.lines().find(|l| l.starts_with(&pre)).map(|l| l[pre.len()..].to_string()));
        }
        let readers = text.lines().find(|l| l.starts_with("@@readers")).unwrap_or("").to_string();
        Ok((vals, readers))
    }
    fn show(s: &Scenario) -> String {
        format!("env {:?}; file {:?}; command line {:?}", s.env.iter().map(|(i, v)| format!("{}={}", T[*i].0, v)).collect::<Vec<_>>(), s.file, s.cli)
    }
    pub fn check(s: &Scenario, n: usize, h: &mut Hits) {
        let exp = expected(s);
        match run(s, n) {
            Err(e) => h.hit("settings", "c12_startup_failed", "Server::setup", &n.to_string(), &format!("{}: {} [{}]", s.name, e, show(s))),
            Ok((vals, readers)) => {
                for i in 0..11 {
                    let supplied = s.env.iter().any(|(j, _)| *j == i) || s.file_vals.iter().any(|(j, _)| *j == i) || s.cli_vals.iter().any(|(j, _)| *j == i);
                    if vals[i].as_deref() != Some(exp[i].as_str()) {
                        let case = if supplied { "c12_precedence" } else { "c12_independent" };
                        h.hit("settings", case, "bootstrap", &n.to_string(), &format!("{}: {} is {:?}, expected {:?} [{}]", s.name, T[i].0, vals[i], exp[i], show(s)));
                    }
                }
                // the readers hand the running server the same values
                let num = |v: &str, d: i64| v.parse::<i64>().unwrap_or(d);
                let want = format!("@@readers ip={} port={} threads={} alloc={}", exp[0], num(&exp[1], 7878), num(&exp[2], 200), num(&exp[10], 10000));
                if readers != want { h.hit("settings", "c12_reader", "get_ip_port_thread_count", &n.to_string(), &format!("{}: readers say {:?}, expected {:?} [{}]", s.name, readers, want, show(s))); }
            }
        }
    }
    // The documentation's own examples (rws.command_line, rws.variables, rws.config.toml in the working directory = the repository):
    // every spelling they use must be one of the table, and running start-up with exactly these sources must give their values.
    fn documented(h: &mut Hits) -> Vec<Scenario> {
        let mut out = vec![];
        let unq = |v: &str| v.trim().trim_matches('"').trim_matches('\'').to_string();
        if let Ok(t) = std::fs::read_to_string("rws.command_line") {
            for (ln, line) in t.lines().enumerate() {
                if !line.starts_with("rws ") { continue; }
                let mut s = Scenario { name: format!("rws.command_line line {}", ln + 1), env: vec![], file: None, file_vals: vec![], cli: vec![], cli_vals: vec![] };
                for w in line.split_whitespace().skip(1) {
                    s.cli.push(w.to_string());
                    if let Some((p, v)) = w.split_once('=') {
                        match T.iter().position(|t| t.1 == p || t.2 == p) {
                            Some(i) => s.cli_vals.push((i, v.to_string())),
                            None => h.hit("settings", "c12_documented_spelling", "CommandLineArgument::get_command_line_arg_list", &format!("rws.command_line:{}", ln + 1), &format!("the documented word {:?} is not a spelling of any setting", w)),
                        }
                    }
                }
                out.push(s);
            }
        }
        if let Ok(t) = std::fs::read_to_string("rws.variables") {
            let mut s = Scenario { name: "rws.variables".into(), env: vec![], file: None, file_vals: vec![], cli: vec![], cli_vals: vec![] };
            for (ln, line) in t.lines().enumerate() {
                if let Some(rest) = line.strip_prefix("export ") {
                    if let Some((n, v)) = rest.split_once('=') {
                        match T.iter().position(|t| t.0 == n) {
                            Some(i) => s.env.push((i, unq(v))),
                            None => h.hit("settings", "c12_documented_spelling", "Config", &format!("rws.variables:{}", ln + 1), &format!("the documented variable {:?} is not the variable of any setting", n)),
                        }
                    }
                }
            }
            out.push(s);
        }
        if let Ok(t) = std::fs::read_to_string("rws.config.toml") {
            let mut s = Scenario { name: "rws.config.toml".into(), env: vec![], file: Some(t.clone()), file_vals: vec![], cli: vec![], cli_vals: vec![] };
            let mut table = String::new();
            for (ln, line) in t.lines().enumerate() {
                let l = line.split('#').next().unwrap_or("").trim();
                if l.starts_with('[') { table = l.trim_matches(|c| c == '[' || c == ']').trim().to_string(); continue; }
                if let Some((k, v)) = l.split_once('=') {
                    let k = k.trim();
                    let v = v.trim();
                    // a TOML string, number, boolean, or array of strings (joined with commas)
                    let val = if v.starts_with('[') { v.trim_matches(|c| c == '[' || c == ']').split(',').map(|x| unq(x)).filter(|x| !x.is_empty()).collect::<Vec<_>>().join(",") } else { unq(v) };
                    match T.iter().position(|t| t.4 == table && t.5 == k) {
                        Some(i) => s.file_vals.push((i, val)),
                        None => h.hit("settings", "c12_documented_spelling", "read_config_file", &format!("rws.config.toml:{}", ln + 1), &format!("the documented key {:?} in table {:?} is not the key of any setting", k, table)),
                    }
                }
            }
            out.push(s);
        }
        // each documentation file names every setting
        for (what, sc) in [("rws.command_line", out.iter().find(|s| s.name.starts_with("rws.command_line"))), ("rws.variables", out.iter().find(|s| s.name == "rws.variables")), ("rws.config.toml", out.iter().find(|s| s.name == "rws.config.toml"))] {
            if let Some(sc) = sc {
                for i in 0..11 {
                    if !sc.env.iter().chain(sc.file_vals.iter()).chain(sc.cli_vals.iter()).any(|(j, _)| *j == i) {
                        h.hit("settings", "c12_documented_spelling", "documentation", what, &format!("{} does not mention the setting {}", what, T[i].0));
                    }
                }
            }
        }
        out
    }
    // Server::setup itself: the listener and the pool are made from the effective values (file over environment here)
    pub fn check_setup(h: &mut Hits) {
        let s = Scenario { name: "Server::setup".into(), env: vec![(0, "127.0.0.3".into()), (2, "5".into())], file: Some("ip = '127.0.0.2'\nport = 0\nthread_count = 3\n".into()),
            file_vals: vec![], cli: vec!["@setup".into()], cli_vals: vec![] };
        let dir = std::env::temp_dir().join(format!("rws-settings-{}-setup", std::process::id()));
        let _ = std::fs::remove_dir_all(&dir);
        if std::fs::create_dir_all(&dir).is_err() { return; }
        let _ = std::fs::write(dir.join("rws.config.toml"), s.file.clone().unwrap());
        let exe = match std::env::current_exe() { Ok(e) => e, Err(_) => return };
        let mut c = Command::new(exe);
        c.arg("settingsprobe").args(&s.cli).current_dir(&dir);
        for t in T.iter() { c.env_remove(t.0); }
        for (i, v) in &s.env { c.env(T[*i].0, v); }
        let out = c.output();
        let _ = std::fs::remove_dir_all(&dir);
        if let Ok(out) = out {
            let text = String::from_utf8_lossy(&out.stdout).to_string();
            let line = text.lines().find(|l| l.starts_with("@@setup")).unwrap_or("").to_string();
            // 3 workers + the main thread
            // the settings themselves after the real Server::setup: file over environment, defaults elsewhere
            let want: Vec<String> = (0..11).map(|i| match i { 0 => "127.0.0.2".to_string(), 1 => "0".to_string(), 2 => "3".to_string(), _ => T[i].3.to_string() }).collect();
            for i in 0..11 {
                let pre = format!("@@{}=", T[i].0);
                let got = text.lines().find(|l| l.starts_with(&pre)).map(|l| l[pre.len()..].to_string());
                if got.as_deref() != Some(want[i].as_str()) {
                    h.hit("settings", "c12_setup", "Server::setup", "setup", &format!("after Server::setup {} is {:?}, expected {:?} (environment ip 127.0.0.3 / 5 threads, file ip 127.0.0.2 port 0 thread_count 3)", T[i].0, got, want[i]));
                }
            }
            if line != "@@setup ip=127.0.0.2 threads=4" && !line.starts_with("@@setup failed") {
                h.hit("settings", "c12_setup", "Server::setup", "setup", &format!("environment ip 127.0.0.3 / 5 threads, file ip 127.0.0.2 port 0 thread_count 3: {:?}, expected \"@@setup ip=127.0.0.2 threads=4\"", line));
            }
        }
    }
    pub fn search() -> bool {
        let mut h = Hits::new();
        for (n, s) in scenarios().iter().enumerate() { check(s, n, &mut h); }
        let docs = documented(&mut h);
        for (n, s) in docs.iter().enumerate() { check(s, 1000 + n, &mut h); }
        check_setup(&mut h);
        h.n > 0
    }
    pub fn replay(_case: &str, input: &str) -> bool {
        let mut h = Hits::new();
        if input == "setup" { check_setup(&mut h); return h.n > 0; }
        if input.starts_with("rws.") { let _ = documented(&mut h); return h.n > 0; }
        let n: usize = input.parse().unwrap_or(0);
        if n >= 1000 { let mut h0 = Hits::new(); let docs = documented(&mut h0); if n - 1000 < docs.len() { check(&docs[n - 1000], n, &mut h); } return h.n > 0; }
        let sc = scenarios();
        if n < sc.len() { check(&sc[n], n, &mut h); }
        h.n > 0
    }
}

pub fn dispatch(args: &[String]) -> i32 {
    if args.len() > 2 && args[0] == "stackprobe" { stack_probe(&args[1], args[2].parse().unwrap_or(1000)); return 0; }
    if args.len() > 0 && args[0] == "settingsprobe" { settings::probe(); return 0; }
    if args.len() > 0 && args[0] == "probe" { probe::run(); return 0; }
    if args.len() > 0 && args[0] == "probe2" { probe2::run(); return 0; }
    panic::set_hook(Box::new(|_| {}));
    if args.len() < 2 { eprintln!("usage: falsify search <routine> <seed> | replay <routine> <case> <input>"); return 2; }
    let found = match (args[0].as_str(), args[1].as_str()) {
        ("search", "base64") => b64::search(args.get(2).and_then(|s| s.parse().ok()).unwrap_or(1)),
        ("replay", "base64") => b64::replay(&args[2], &args[3]),
        ("search", "response") => resp::search(args.get(2).and_then(|s| s.parse().ok()).unwrap_or(1)),
        ("replay", "response") => resp::replay(&args[2], &args[3]),
        ("search", "cors") => cors::search(1),
        ("replay", "cors") => cors::replay(&args[2], &args[3]),
        ("search", "e2e") => e2e::search(1),
        ("replay", "e2e") => e2e::replay(&args[2], &args[3]),
        ("search", "request") => req::search(args.get(2).and_then(|s| s.parse().ok()).unwrap_or(1)),
        ("replay", "request") => req::replay(&args[2], &args[3]),
        ("search", "shims") => shimtest::search(args.get(2).and_then(|s| s.parse().ok()).unwrap_or(1)),
        ("search", "parsers") => parsers::search(args.get(2).and_then(|s| s.parse().ok()).unwrap_or(1)),
        ("search", "stack") => stack::search(),
        ("search", "fswatch") => fswatch::search(),
        ("search", "statics") => statics::search(1),
        ("replay", "statics") => statics::replay(&args[2], &args[3]),
        ("search", "ranges") => statics::search_ranges(1),
        ("search", "mpform") => mpform::search(args.get(2).and_then(|s| s.parse().ok()).unwrap_or(1)),
        ("search", "settings") => settings::search(),
        ("replay", "settings") => settings::replay(&args[2], &args[3]),
        ("search", "range") => rng::search(args.get(2).and_then(|s| s.parse().ok()).unwrap_or(1)),
        ("replay", "range") => rng::replay(&args[2], &args[3]),
        _ => { eprintln!("unknown routine"); return 2; }
    };
    if found { 1 } else { 0 }
}
