"""Replay / falsifier glue (DESIGN.md 4.3).  Verus gives no counterexample; for a failed obligation the native
falsifier (falsify/, built against /repo's sources through a path dependency-free #[path] include) looks for an input
on which the real code violates the executable form of the contract clause.  It never decides a verdict."""
import json
import os
import subprocess

import driver


def falsify(pid, prop, failure, rep):
    fz = prop.get("falsifier")
    if not fz:
        return None
    try:
        import falsify_run
        return falsify_run.search(pid, fz, failure, rep)
    except Exception as e:  # the falsifier is best effort
        rep["falsifier_error"] = str(e)
        return None


def replay(pid, path):
    rep = json.load(open(path))
    print("replay of %s: obligation %s" % (path, rep.get("obligation")))
    print(rep.get("verus_output", ""))
    w = rep.get("failing_input")
    if not w:
        print("no failing input recorded (no-failing-input-found); the failed obligation above is the evidence")
        return 1
    import falsify_run
    ok = falsify_run.rerun(pid, w)
    return 1 if not ok else 0
