"""Driver: extract -> splice -> Verus -> classify -> verdict + evidence.  See DESIGN.md sections 3.1 and 4."""
import concurrent.futures
import glob
import hashlib
import json
import os
import re
import shutil
import subprocess
import sys
import time

sys.path.insert(0, os.path.dirname(os.path.abspath(__file__)))
import compose  # noqa: E402
from compose import Undecided, VERIF, REPO  # noqa: E402

BUILD = os.environ.get("RWS_BUILD_DIR") or os.path.join(VERIF, "build")
KNOWN = os.path.join(VERIF, "known_findings.txt")

KINDS = [
    ("postcondition not satisfied", "postcondition"),
    ("precondition not satisfied", "precondition"),
    ("possible arithmetic underflow/overflow", "arithmetic-overflow"),
    ("possible division by zero", "division-by-zero"),
    ("assertion failed", "assertion"),
    ("invariant not satisfied at end of loop body", "invariant-preserved"),
    ("invariant not satisfied before loop", "invariant-on-entry"),
    ("loop invariant not satisfied", "invariant"),
    ("decreases not satisfied at end of loop", "termination"),
    ("decreases not satisfied at continue", "termination"),
    ("decreases not satisfied at recursive call", "termination"),
    ("could not prove termination", "termination"),
    ("possible bit shift underflow/overflow", "shift-overflow"),
    ("index out of bounds", "index-bounds"),
    ("recommendation not met", "recommendation"),
    ("possible overflow", "arithmetic-overflow"),
    ("unable to prove that the integer", "cast-range"),
    ("value may be out of range of the target type", "cast-range"),
    ("loop ensures not satisfied", "loop-ensures"),
    ("unable to prove assertion", "assertion"),
    ("may panic", "panic"),
]
RESOURCE = ("Resource limit (rlimit) exceeded", "rlimit exceeded", "timed out", "canceled", "solver resource")


def sh(cmd, **kw):
    return subprocess.run(cmd, capture_output=True, text=True, **kw)


def ensure_tools():
    rwsx = compose.RWSX
    src = os.path.join(VERIF, "tools", "rwsx", "src", "main.rs")
    if (not os.path.exists(rwsx)) or os.path.getmtime(rwsx) < os.path.getmtime(src):
        env = dict(os.environ, CARGO_NET_OFFLINE="true")
        p = sh(["cargo", "build", "--release", "--offline"], cwd=os.path.join(VERIF, "tools", "rwsx"), env=env)
        if p.returncode != 0:
            raise Undecided("cannot build rwsx: " + p.stderr[-2000:])


def norm(s):
    return re.sub(r"\s+", "", s or "")


def span_text(sp):
    return " ".join(t["text"][t["highlight_start"] - 1:t["highlight_end"] - 1] if len(sp["text"]) == 1 else t["text"].strip()
                    for t in sp["text"]) if sp.get("text") else ""


class Failure:
    def __init__(self, fn, kind, snippet, message, rendered, line, canary=False):
        self.fn, self.kind, self.snippet, self.message, self.rendered, self.line = fn, kind, snippet, message, rendered, line
        self.canary = canary

    @property
    def oid(self):
        return "%s / %s / %s" % (self.fn, self.kind, self.snippet)


def fn_of_line(ranges, line):
    for r in ranges:
        if r["start"] <= line <= r["end"]:
            return r["fn"]
    return None


def add_canaries(text, info):
    """insert, before every function under contract that has a `requires`, a canary that must FAIL to verify;
    for assumed callees additionally a canary after a call (contradictory `ensures` would make callers vacuous)."""
    canaries = []
    out = []
    lines = text.split("\n")
    i = 0
    metas = {m["name"]: m for m in info["metas"] if m["kind"] == "fn"}
    while i < len(lines):
        mm = re.match(r"(\s*)// @@FN (.*)$", lines[i])
        if not mm:
            out.append(lines[i])
            i += 1
            continue
        name = mm.group(2)
        c = info["contracts"].get(name)
        m = metas.get(name)
        # gather header text up to the opening "{" line of the body
        j = i + 1
        hdr = []
        while j < len(lines) and lines[j].strip() != "{":
            hdr.append(lines[j])
            j += 1
        header = "\n".join(hdr)
        short = name.split("::")[-1]
        pm = re.search(r"fn\s+%s\s*(<[^>(]*>)?\s*\(" % re.escape(short), header)
        can_txt = ""
        if pm and c is not None and m is not None:
            # balanced parameter list
            k = pm.end()
            depth = 1
            while k < len(header) and depth > 0:
                depth += {"(": 1, ")": -1}.get(header[k], 0)
                k += 1
            params = header[pm.end():k - 1]
            generics = pm.group(1) or ""
            tag = m["tag"]
            if c["requires"].strip():
                cname = "__rws_canary_req_%s" % tag
                can_txt += "// @@FN %s\nfn %s%s(%s)\n    requires\n%s{\n    assert(false);\n}\n" % (
                    cname, cname, generics, params, compose._indent(c["requires"], 8))
                canaries.append(cname)
            if m["mode"] == "assume" and c["ensures"].strip() and m["has_ret"]:
                # call the assumed function and try to derive false from its postcondition
                names = []
                depth = 0
                cur = ""
                for ch in params + ",":
                    if ch in "(<[":
                        depth += 1
                    if ch in ")>]":
                        depth -= 1
                    if ch == "," and depth == 0:
                        if cur.strip():
                            names.append(cur.strip())
                        cur = ""
                    else:
                        cur += ch
                args = []
                is_method = False
                ok = True
                for p in names:
                    if re.match(r"^(&\s*(mut\s+)?)?self$", p) or p.startswith("self"):
                        is_method = True
                        continue
                    nm = p.split(":")[0].strip()
                    nm = re.sub(r"^mut\s+", "", nm)
                    if not re.match(r"^[A-Za-z_][A-Za-z0-9_]*$", nm):
                        ok = False
                    args.append(nm)
                if ok:
                    cname = "__rws_canary_ens_%s" % tag
                    call = ("self.%s(%s)" % (short, ", ".join(args))) if is_method else ("Self::%s(%s)" % (short, ", ".join(args))) if m["self_ty"] else ("%s(%s)" % (short, ", ".join(args)))
                    req = ("    requires\n" + compose._indent(c["requires"], 8)) if c["requires"].strip() else ""
                    can_txt += "// @@FN %s\nfn %s%s(%s)\n%s{\n    let __r = %s;\n    assert(false);\n}\n" % (
                        cname, cname, generics, params, req, call)
                    canaries.append(cname)
        if can_txt:
            out.append(can_txt)
        out.append(lines[i])
        i += 1
    return "\n".join(out), canaries


def scan_trusted(text):
    """every assumption left in the generated file"""
    trusted = []
    lines = text.split("\n")
    for i, l in enumerate(lines):
        s = l.strip()
        if "external_body" in s or s.startswith("pub assume_specification") or s.startswith("assume_specification"):
            # find the next fn/struct name
            nm = None
            for j in range(i, min(i + 6, len(lines))):
                mm = re.search(r"\b(fn|struct)\s+([A-Za-z_][A-Za-z0-9_]*)", lines[j])
                if mm:
                    nm = mm.group(2)
                    break
                mm = re.search(r"assume_specification(?:<[^\[]*>)?\s*\[\s*([^\]]+)\]", lines[j])
                if mm:
                    nm = mm.group(1).strip()
                    break
            # qualify trait impl methods with the impl type
            ctx = ""
            for j in range(i, -1, -1):
                mm = re.match(r"^impl(?:<[^>]*>)?\s+(.*?)\s*\{", lines[j])
                if mm:
                    ctx = mm.group(1) + " :: "
                    break
                if re.match(r"^\}", lines[j]) or re.match(r"^(pub )?(fn|proof fn|spec fn|open spec fn)", lines[j]):
                    break
            kind = "assume_specification" if "assume_specification" in s else "external_body"
            trusted.append("%s %s%s" % (kind, ctx, nm))
        elif re.search(r"\buninterp\s+spec\s+fn\s+(\w+)", s):
            trusted.append("uninterp spec fn " + re.search(r"\buninterp\s+spec\s+fn\s+(\w+)", s).group(1))
    return sorted(set(trusted))


def forbidden_in_units(info):
    """assume()/admit() must not appear in contracts"""
    bad = []
    for name, c in info["contracts"].items():
        blob = json.dumps(c)
        if re.search(r"\b(assume|admit)\s*\(", blob):
            bad.append(name)
    return bad


def count_obligations(logdir, crate):
    """(location ..) nodes per Function-Def in the final AIR, plus one per separate bit-vector/nonlinear query file"""
    per = {}
    root = os.path.join(logdir, "root-final.air")
    if os.path.exists(root):
        cur = None
        for l in open(root, errors="replace"):
            if l.startswith(";; Function-Def "):
                cur = l[len(";; Function-Def "):].strip()
                per.setdefault(cur, 0)
            elif cur is not None and "(location" in l:
                per[cur] += l.count("(location")
    for f in glob.glob(os.path.join(logdir, "root*-final.air")):
        b = os.path.basename(f)
        if b == "root-final.air":
            continue
        mm = re.match(r"root(.*?)\._\d+-final\.air", b)
        if mm:
            fn = mm.group(1).replace("!", "::")
            n = open(f, errors="replace").read().count("(location")
            per[fn] = per.get(fn, 0) + n
    return per


def air_name_matches(air_fn, crate, fn):
    """AIR names look like crate::Type::name or crate::impl&%7::name"""
    short = fn.split("::")[-1]
    tail = air_fn.split("::")[-1].split(".")[-1]
    if tail != short:
        return False
    if "::" in fn:
        ty = fn.split("::")[0]
        return ("::%s::" % ty) in air_fn or "impl&%" in air_fn
    return True


def run_verus(path, workdir, rlimit=None, seed=None, log=True, threads=None):
    logdir = os.path.join(workdir, "vlog")
    if log:
        shutil.rmtree(logdir, ignore_errors=True)
    cmd = ["verus", path, "--output-json", "--time", "--error-format=json", "--multiple-errors", "100"]
    if log:
        cmd += ["--log", "air-final", "--log-dir", logdir]
    if rlimit:
        cmd += ["--rlimit", str(rlimit)]
    if threads:
        cmd += ["--num-threads", str(threads)]
    if seed:
        cmd += ["-V", "smt.random_seed=%d" % seed] if False else []
    t0 = time.time()
    p = sh(cmd, cwd=workdir)
    wall = time.time() - t0
    try:
        out = json.loads(p.stdout)
    except Exception:
        out = None
    diags = []
    for l in p.stderr.split("\n"):
        l = l.strip()
        if l.startswith("{"):
            try:
                diags.append(json.loads(l))
            except Exception:
                pass
    return {"cmd": " ".join(cmd), "rc": p.returncode, "out": out, "diags": diags, "stderr": p.stderr, "wall": wall, "logdir": logdir}


def classify(res, info, canaries):
    """-> (failures, undecided_reasons)"""
    failures, undecided = [], []
    ranges = info["ranges_c"]
    if res["out"] is None:
        undecided.append("verus produced no JSON (rc=%s): %s" % (res["rc"], res["stderr"][-1500:]))
        return failures, undecided
    for d in res["diags"]:
        if d.get("level") != "error":
            continue
        msg = d.get("message", "")
        if msg.startswith("aborting due to"):
            continue
        if any(r in msg for r in RESOURCE):
            sp = [s for s in d.get("spans", []) if s.get("is_primary")]
            fn = fn_of_line(ranges, sp[0]["line_start"]) if sp else None
            undecided.append("resource limit in %s: %s" % (fn, msg))
            continue
        kind = None
        for pat, k in KINDS:
            if pat in msg:
                kind = k
                break
        spans = d.get("spans", [])
        if kind is None:
            where = ""
            if spans:
                where = " at generated line %d: %s" % (spans[0]["line_start"], span_text(spans[0])[:160])
            undecided.append("front-end/unsupported: %s%s" % (msg, where))
            continue
        failed = [s for s in spans if (s.get("label") or "").startswith("failed")]
        site = [s for s in spans if not (s.get("label") or "").startswith("failed")]
        prim = [s for s in spans if s.get("is_primary")]
        site_sp = (site or prim or spans)[0]
        fn = fn_of_line(ranges, site_sp["line_start"]) or "<outside-extracted-code>"
        if kind in ("postcondition", "precondition") and failed:
            site_txt = norm(span_text(site_sp))
            if "end of the function body" in (site_sp.get("label") or "") or site_sp["line_end"] > site_sp["line_start"] + 3:
                site_txt = "end-of-function-body"
            snippet = norm(span_text(failed[0])) + "@" + site_txt
        else:
            snippet = norm(span_text((prim or spans)[0]))
        f = Failure(fn, kind, snippet[:300], msg, d.get("rendered", ""), site_sp["line_start"], canary=fn.startswith("__rws_canary_"))
        failures.append(f)
    # number duplicates (#k) so that ids are unique and stable in source order
    seen = {}
    for f in sorted(failures, key=lambda x: x.line):
        n = seen.get(f.oid, 0) + 1
        seen[f.oid] = n
        if n > 1:
            f.snippet += " #%d" % n
    vr = res["out"].get("verification-results", {})
    if vr.get("encountered-vir-error"):
        undecided.append("verus reported a VIR (front-end) error")
    return failures, undecided


def load_known():
    known, fixed = [], []
    if os.path.exists(KNOWN):
        for l in open(KNOWN):
            l = l.rstrip("\n")
            if l.startswith("known: "):
                mm = re.match(r"known: property=(\S+) obligation=<<(.*?)>> (.*)$", l)
                if mm:
                    known.append({"property": mm.group(1), "oid": mm.group(2), "what": mm.group(3)})
            elif l.startswith("fixed: "):
                fixed.append(l)
    return known, fixed


# each check verifies its units in its own directory (build/units-<property>/<unit>), so that two checks that share a unit can run
# at the same time without writing over each other's generated text and solver logs
UNIT_SCOPE = ""


def run_unit(unit, tier, seed):
    name = unit["name"]
    workdir = os.path.join(BUILD, "units-" + UNIT_SCOPE, name) if UNIT_SCOPE else os.path.join(BUILD, name)
    shutil.rmtree(workdir, ignore_errors=True)
    os.makedirs(workdir)
    t0 = time.time()
    path, info = compose.compose(unit, workdir)
    bad = forbidden_in_units(info)
    if bad:
        raise Undecided("assume()/admit() found in contract text of: " + ", ".join(bad))
    text_c, canaries = add_canaries(info["text"], info)
    open(path, "w").write(text_c)
    # recompute function ranges on the file with canaries
    ranges = []
    cur = None
    lines = text_c.split("\n")
    for i, l in enumerate(lines, 1):
        mm = re.match(r"\s*// @@FN (.*)$", l)
        if mm:
            if cur:
                cur["end"] = i - 1
            cur = {"fn": mm.group(1), "start": i, "end": len(lines)}
            ranges.append(cur)
    info["ranges_c"] = ranges
    res = run_verus(path, workdir, threads=unit.get("threads", 4))
    failures, undecided = classify(res, info, canaries)
    if any("resource limit" in u for u in undecided) :
        # retry with a 4x resource limit (a pass under any limit is sound)
        res2 = run_verus(path, workdir, rlimit=40, threads=unit.get("threads", 4))
        f2, u2 = classify(res2, info, canaries)
        if not any("resource limit" in u for u in u2):
            res, failures, undecided = res2, f2, u2
    # canaries must fail
    failed_canaries = set(f.fn for f in failures if f.canary)
    verified_something = bool(res["out"]) and not any(u.startswith("front-end/unsupported") or u.startswith("verus produced no JSON") for u in undecided)
    vacuous = [c for c in canaries if c not in failed_canaries] if verified_something else []
    real_failures = [f for f in failures if not f.canary]
    crate = name
    obl = count_obligations(res["logdir"], crate)
    fn_metas = [m for m in info["metas"] if m["kind"] == "fn"]
    per_fn = {}
    times = {}
    if res["out"]:
        for mod in res["out"].get("times-ms", {}).get("smt", {}).get("smt-run-module-times", []):
            for fb in mod.get("function-breakdown", []):
                times[fb["function"]] = fb
    for m in fn_metas:
        n = 0
        for air_fn, cnt in obl.items():
            if "__rws_canary_" in air_fn:
                continue
            if air_name_matches(air_fn, crate, m["name"]):
                n += cnt
        t = None
        for tf, fb in times.items():
            if "__rws_canary_" in tf:
                continue
            if air_name_matches(tf, crate, m["name"]):
                t = fb
        per_fn[m["name"]] = {
            "mode": m["mode"], "src": m["src"].replace(REPO + "/", ""), "lines": [m["line"], m["end_line"]],
            "obligations": n, "smt_ms": t["time"] if t else None, "rlimit": t["rlimit"] if t else None,
            "rules": m["rules"], "loops": m["loops"], "from_trait": m["from_trait"],
            "contract": bool(info["contracts"].get(m["name"])),
        }
    lemma_obl = sum(c for a, c in obl.items() if "__rws_canary_" not in a) - sum(v["obligations"] for v in per_fn.values())
    trusted = scan_trusted(text_c)
    return {
        "unit": name, "file": path, "info": info, "res": res, "failures": real_failures, "undecided": undecided,
        "vacuous": vacuous, "canaries": canaries, "per_fn": per_fn, "lemma_obligations": max(lemma_obl, 0),
        "trusted": trusted, "wall": time.time() - t0,
        "verus_version": (res["out"] or {}).get("verus", {}).get("version"),
        "smt_total_ms": ((res["out"] or {}).get("times-ms", {}).get("smt", {}) or {}).get("total"),
    }


def map_to_repo(unit_res, f):
    """best-effort /repo location of a failure: search the normalised snippet in the original function text"""
    m = None
    for mm in unit_res["info"]["metas"]:
        if mm["kind"] == "fn" and mm["name"] == f.fn:
            m = mm
    if not m:
        return None
    try:
        src = open(m["src"]).read().split("\n")
    except Exception:
        return None
    snip = f.snippet.split("@")[-1].split(" #")[0]
    snip = snip.replace(".rws_", ".").replace(".rwsv()", "")
    for ln in range(m["line"], min(m["end_line"], len(src)) + 1):
        if snip and snip[:60] in norm(src[ln - 1]):
            return "%s:%d" % (m["src"], ln)
    return "%s:%d-%d" % (m["src"], m["line"], m["end_line"])
