"""Extraction + contract splicing: /repo sources -> one Verus file per unit.

The text handed to Verus is produced on every run from /repo's working tree by tools/rwsx
(syn-based; rewrite rules of DESIGN.md 3.2), formatted by rustfmt, and then the contracts kept in
/verif/contracts are spliced in at the markers rwsx left.  Nothing in this file edits executable
statements: it only (a) introduces `-> (res: T)` + requires/ensures at the function header,
(b) turns `{ __rws_loop!(k);` into `invariant .. decreases .. {`, (c) names for-loop iterators,
(d) inserts proof blocks / ghost lets at named markers, (e) deletes unused markers.
"""
import json
import os
import re
import subprocess

VERIF = os.path.dirname(os.path.dirname(os.path.abspath(__file__)))
RWSX = os.path.join(VERIF, "tools", "rwsx", "target", "release", "rwsx")
REPO = os.environ.get("RWS_REPO", "/repo")


class Undecided(Exception):
    """tool limit / lost anchor / unsupported construct: exit 2, never a violation"""


KEYWORDS = ("fn", "requires", "ensures", "returns", "at", "loop", "invariant", "invariant_except_break",
            "ensures_loop", "decreases", "body", "iter", "end", "attr", "resname", "opens_invariants", "no_unwind")


def parse_contracts(path):
    """-> {fn name: {'requires': str, 'ensures': str, 'at': {marker: str}, 'loops': {k: {...}}, 'attr': [..]}}"""
    out = {}
    cur = None
    sect = None  # (kind, key)
    loop = None
    if not os.path.exists(path):
        raise Undecided("contract file missing: " + path)
    for raw in open(path).read().split("\n"):
        line = raw.rstrip()
        st = line.strip()
        if st.startswith("#") and (len(line) - len(line.lstrip())) <= 2:
            continue
        indent = len(line) - len(line.lstrip())
        first = st.split(" ", 1)[0] if st else ""
        if st and indent <= 2 and first in KEYWORDS:
            arg = st[len(first):].strip()
            if first == "fn":
                cur = {"requires": "", "ensures": "", "returns": "", "at": {}, "loops": {}, "attr": [], "resname": "res",
                       "decreases": ""}
                out[arg] = cur
                sect = None
                loop = None
            elif cur is None:
                raise Undecided("contract text before any fn in " + path)
            elif first in ("requires", "ensures", "returns"):
                if loop is None or indent == 0:
                    loop = None if indent == 0 else loop
                if loop is not None and first == "ensures":
                    sect = ("loopfield", "ensures")
                    loop["ensures"] = loop.get("ensures", "") + arg + "\n"
                else:
                    sect = ("fnfield", first)
                    loop = None
                    cur[first] += arg + ("\n" if arg else "")
            elif first == "decreases":
                if loop is not None and indent > 0:
                    loop["decreases"] = loop.get("decreases", "") + arg
                    sect = ("loopfield", "decreases")
                else:
                    cur["decreases"] += arg
                    sect = ("fnfield", "decreases")
                    loop = None
            elif first == "attr":
                cur["attr"].append(arg)
            elif first == "resname":
                cur["resname"] = arg
            elif first == "at":
                loop = None
                sect = ("at", arg)
                cur["at"].setdefault(arg, "")
            elif first == "loop":
                loop = {"invariant": "", "decreases": "", "body": "", "iter": None, "ensures": "", "invariant_except_break": ""}
                cur["loops"][int(arg)] = loop
                sect = None
            elif first in ("invariant", "invariant_except_break", "ensures_loop"):
                key = "ensures" if first == "ensures_loop" else first
                loop[key] = loop.get(key, "") + arg + ("\n" if arg else "")
                sect = ("loopfield", key)
            elif first == "body":
                sect = ("loopfield", "body")
            elif first == "iter":
                loop["iter"] = arg
            elif first == "end":
                cur = None
                sect = None
                loop = None
            continue
        # content line
        if cur is None or sect is None:
            if st:
                raise Undecided("stray contract text in %s: %r" % (path, st))
            continue
        if sect[0] == "fnfield":
            cur[sect[1]] += line + "\n"
        elif sect[0] == "at":
            cur["at"][sect[1]] += line + "\n"
        elif sect[0] == "loopfield":
            loop[sect[1]] = loop.get(sect[1], "") + line + "\n"
    return out


def run_rwsx(src_rel, items, world=()):
    src = os.path.join(REPO, src_rel)
    if not os.path.exists(src):
        raise Undecided("LOST-ANCHOR: source file missing: " + src)
    env = dict(os.environ)
    env["RWSX_WORLD"] = ",".join(world)     # R-WORLD: the functions that get the ghost world parameter (unit definition)
    p = subprocess.run([RWSX, src] + items, capture_output=True, text=True, env=env)
    if p.returncode != 0:
        raise Undecided("rwsx failed on %s: %s" % (src_rel, p.stderr.strip()))
    text, _, meta = p.stdout.rpartition("//@@META ")
    return text, json.loads(meta)


def rustfmt(text, workdir, name):
    path = os.path.join(workdir, name + ".pre.rs")
    open(path, "w").write(text)
    p = subprocess.run(["rustfmt", "--edition", "2021", "--config", "max_width=160", path], capture_output=True, text=True)
    if p.returncode != 0:
        raise Undecided("rustfmt failed on extracted text of %s: %s" % (name, p.stderr[:2000]))
    return open(path).read()


def _find_fn_start(text, pos, name):
    """start offset of the line holding `fn name` that precedes pos"""
    short = name.split("::")[-1]
    m = None
    for m2 in re.finditer(r"^[ \t]*(pub(\([a-z]+\))?\s+)?(const\s+)?fn\s+%s\b" % re.escape(short), text[:pos], re.M):
        m = m2
    if m is None:
        raise Undecided("cannot locate header of fn %s in extracted text" % name)
    return m.start()


def splice(text, metas, contracts, unit_name):
    """returns (verus_text_of_items, fn_infos)"""
    fns = [m for m in metas if m["kind"] == "fn"]
    # locate entry markers
    located = []
    for m in fns:
        mk = "__rws_pt!(entry_%s);" % m["tag"]
        pos = text.find(mk)
        if pos < 0:
            raise Undecided("entry marker of %s lost" % m["name"])
        located.append((pos, m))
    located.sort(key=lambda x: x[0])
    # header start offsets are computed on the unmodified text; segments are then rewritten back to front
    starts = [_find_fn_start(text, pos, m["name"]) for pos, m in located]
    for idx in range(len(located) - 1, -1, -1):
        pos, m = located[idx]
        end = starts[idx + 1] if idx + 1 < len(located) else len(text)
        seg_start = starts[idx]
        seg = text[seg_start:end]
        c = contracts.get(m["name"])
        seg = _splice_fn(seg, m, c)
        text = text[:seg_start] + seg + text[end:]
    # remove unused markers
    text = re.sub(r"^[ \t]*__rws_pt!\([A-Za-z0-9_]+\);[ \t]*\n", "", text, flags=re.M)
    left = re.findall(r"__rws_(?:pt|loop|iter)!\([^)]*\)", text)
    # generated index loops (R-ENUM / R-FIND) without a contract get the obvious termination measure
    text = re.sub(r"while (__rws_(?:i|fi)\d+) < (__rws_(?:v|fv)\d+)\.len\(\) \{(\s*)__rws_loop!\(\d+\);[ \t]*\n",
                  lambda mo: "while %s < %s.len()\n    invariant %s <= %s.len(),\n    decreases %s.len() - %s\n{%s" % (
                      mo.group(1), mo.group(2), mo.group(1), mo.group(2), mo.group(2), mo.group(1), mo.group(3)), text)
    # for-loops without a contract: drop the iterator marker (terminated by the loop marker of the same ordinal)
    text = re.sub(r"__rws_iter!\(\s*(\d+),\s*(.*?)\)(\s*\{\s*)__rws_loop!\(\1\);[ \t]*\n", r"\2\3", text, flags=re.S)
    text = re.sub(r"^[ \t]*__rws_loop!\(\d+\);[ \t]*\n", "", text, flags=re.M)
    if "__rws_iter!" in text or "__rws_loop!" in text or "__rws_pt!" in text:
        raise Undecided("extraction markers left in generated text of unit %s" % unit_name)
    return text


def _indent(s, n):
    pad = " " * n
    return "".join(pad + l.strip() + "\n" for l in s.strip("\n").split("\n") if l.strip())


def _splice_fn(seg, m, c):
    tag = m["tag"]
    entry = "__rws_pt!(entry_%s);" % tag
    epos = seg.find(entry)
    header = seg[:epos]
    body = seg[epos + len(entry):]
    resname = c["resname"] if c else "res"
    # header: `... -> __RwsRet<T> {`
    if m["has_ret"]:
        mm = re.search(r"->\s*__RwsRet<(.*)>\s*\{\s*$", header, re.S)
        if not mm:
            raise Undecided("return type marker of %s lost" % m["name"])
        ret = mm.group(1).strip()
        header_wo = header[:mm.start()]
        ret_txt = "-> (%s: %s)" % (resname, ret)
    else:
        mm = re.search(r"\{\s*$", header)
        header_wo = header[:mm.start()]
        ret_txt = ""
    clauses = ""
    entry_txt = ""
    attrs = ""
    if c:
        if c["requires"].strip():
            clauses += "    requires\n" + _indent(c["requires"], 8)
        if c["ensures"].strip():
            clauses += "    ensures\n" + _indent(c["ensures"], 8)
        if c["returns"].strip():
            clauses += "    returns\n" + _indent(c["returns"], 8)
        if c["decreases"].strip():
            clauses += "    decreases " + c["decreases"].strip() + "\n"
        for a in c["attr"]:
            attrs += "#[%s]\n" % a
    if m["mode"] == "assume":
        attrs += "#[verifier::external_body]\n"
    # place attrs before the fn line
    header_wo = header_wo.rstrip() + " "
    fn_line_start = header_wo.rfind("\n", 0, header_wo.rfind("fn ")) + 1
    header_new = (header_wo[:fn_line_start] + "// @@FN %s\n" % m["name"] + attrs + header_wo[fn_line_start:] + ret_txt
                  + "\n" + clauses + "{\n")
    if c and m["mode"] != "assume":
        # marker splices (the entry marker is handled like any other)
        at = dict(c["at"])
        if "entry" in at:
            entry_txt = at.pop("entry")
        for mk, txt in at.items():
            if mk.startswith("~"):
                # glob anchor: the block is spliced at EVERY marker matching the pattern (possibly none)
                rx = re.escape(mk[1:].strip()).replace(r"\*", "[A-Za-z0-9_]*")
                pat = re.compile(r"^[ \t]*__rws_pt!\(%s\);[ \t]*\n" % rx, re.M)
                body = pat.sub(lambda _m: txt, body)
                continue
            pat = re.compile(r"^[ \t]*__rws_pt!\(%s\);[ \t]*\n" % re.escape(mk), re.M)
            if not pat.search(body):
                raise Undecided("LOST-ANCHOR: marker %s not found in %s" % (mk, m["name"]))
            body = pat.sub(lambda _m: txt, body, count=1)
        for k, lp in c["loops"].items():
            # for-loops: name the iterator
            itpat = re.compile(r"__rws_iter!\(\s*%d,\s*(.*?)\)(\s*\{\s*__rws_loop!\(%d\);)" % (k, k), re.S)
            if lp.get("iter"):
                if not itpat.search(body):
                    raise Undecided("LOST-ANCHOR: for-loop %d not found in %s" % (k, m["name"]))
                body = itpat.sub(lambda mo: "%s: %s%s" % (lp["iter"], mo.group(1), mo.group(2)), body, count=1)
            else:
                body = itpat.sub(lambda mo: "%s%s" % (mo.group(1), mo.group(2)), body, count=1)
            lpat = re.compile(r"\{\s*__rws_loop!\(%d\);[ \t]*\n" % k)
            if not lpat.search(body):
                raise Undecided("LOST-ANCHOR: loop %d not found in %s" % (k, m["name"]))
            hdr = "\n"
            if lp.get("invariant_except_break", "").strip():
                hdr += "    invariant_except_break\n" + _indent(lp["invariant_except_break"], 8)
            if lp.get("invariant", "").strip():
                hdr += "    invariant\n" + _indent(lp["invariant"], 8)
            if lp.get("ensures", "").strip():
                hdr += "    ensures\n" + _indent(lp["ensures"], 8)
            if lp.get("decreases", "").strip():
                hdr += "    decreases " + lp["decreases"].strip() + "\n"
            hdr += "{\n" + lp.get("body", "")
            body = lpat.sub(lambda _m: hdr, body, count=1)
    return header_new + entry_txt + body


def compose(unit, workdir):
    """unit: dict(name, preludes, specs, sources, contracts) -> (path of .rs, info dict)"""
    os.makedirs(workdir, exist_ok=True)
    name = unit["name"]
    all_text = []
    metas = []
    for src_rel, items in unit["sources"]:
        t, m = run_rwsx(src_rel, items, unit.get("world", ()))
        all_text.append(t)
        metas.extend(m)
    pre = "\n\n".join(all_text)
    formatted = rustfmt(pre, workdir, name)
    contracts = {}
    for cf in unit.get("contracts", []):
        contracts.update(parse_contracts(os.path.join(VERIF, cf)))
    items_text = splice(formatted, metas, contracts, name)
    parts = ["// GENERATED by /verif/check from /repo working tree; do not edit.\n"
             "#![allow(unused_imports, unused_variables, unused_mut, dead_code, unused_assignments, non_snake_case, unused_parens, non_upper_case_globals, unused_braces, unreachable_code)]\n"
             "use vstd::prelude::*;\n"]
    for u in unit.get("uses", []):
        parts.append(u + "\n")
    parts.append("verus! {\n")
    for p in unit.get("preludes", []) + unit.get("specs", []):
        parts.append("// ---- %s ----\n" % p)
        parts.append(open(os.path.join(VERIF, p)).read())
        parts.append("\n")
    parts.append("// ---- extracted from /repo (rwsx) ----\n")
    parts.append(items_text)
    # R-CLONE: derived Clone on non-Copy structs has no Verus specification; it is structural, so an assumed impl says r == *self
    for mm in re.finditer(r"#\[derive\(([^)]*)\)\]\s*pub struct (\w+)", items_text):
        if "Clone" in mm.group(1) and "Copy" not in mm.group(1):
            parts.append("\nimpl RwsClone for %s {\n    #[verifier::external_body]\n    fn rws_clone(&self) -> %s { self.clone() }\n}\n" % (mm.group(2), mm.group(2)))
    parts.append("\n} // verus!\nfn main() {}\n")
    out = os.path.join(workdir, name + ".rs")
    text = "".join(parts)
    open(out, "w").write(text)
    # function line ranges in the generated file
    lines = text.split("\n")
    ranges = []
    cur = None
    extracted_from = None
    for i, l in enumerate(lines, 1):
        if l.startswith("// ---- extracted from /repo"):
            extracted_from = i
        mm = re.match(r"\s*// @@FN (.*)$", l)
        if mm:
            if cur:
                cur["end"] = i - 1
            cur = {"fn": mm.group(1), "start": i, "end": len(lines)}
            ranges.append(cur)
    info = {"file": out, "metas": metas, "ranges": ranges, "extracted_from": extracted_from, "contracts": contracts,
            "text": text}
    return out, info
