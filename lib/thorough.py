"""Thorough tier (on top of everything the quick tier does):

1. solver stability: every unit of the property is verified again under two other Z3 random seeds and a halved resource
   limit; a pass under ANY configuration is sound, so instability is reported in the evidence and never turned into a verdict;
2. shim conformance: the assumed std / file-ext contracts (split, split_once, trim, parse, replace, to_string, UTF-8 length,
   chars(), Cursor::read_until / read_to_end, read_file_partially, ...) are tested against the real functions on boundary
   and seeded random inputs (testing of the ASSUMPTIONS; reported separately, never counted as proof).  A failing
   conformance test makes the check undecided (exit 2): the trusted base is wrong;
3. exploration of the real code by the property's native falsifier routines with the seed VERIF_SEED (complements the proof
   where the proof stops at an assumed contract); a failing input that is not a listed known case is a VIOLATION.
"""
import os
import subprocess
import time

import driver
import falsify_run


def run(pid, prop, results, seed):
    extra = {}
    # 1. stability
    stab = {}
    for r in results:
        path = r["file"]
        workdir = os.path.dirname(path)
        per = []
        for cfg in ({"seed": 17}, {"seed": 4242}, {"rlimit": 5}):
            cmd = ["verus", path, "--output-json", "--error-format=json", "--multiple-errors", "100", "--num-threads", "4"]
            if "seed" in cfg:
                cmd += ["--smt-option", "smt.random_seed=%d" % (cfg["seed"] + seed)]
            if "rlimit" in cfg:
                cmd += ["--rlimit", str(cfg["rlimit"])]
            t0 = time.time()
            p = subprocess.run(cmd, cwd=workdir, capture_output=True, text=True)
            import json as _j
            try:
                out = _j.loads(p.stdout)
                vr = out.get("verification-results", {})
                errs = vr.get("errors")
            except Exception:
                errs = None
            # canaries are expected to fail: compare with the number of canaries
            per.append({"config": cfg, "errors": errs, "expected_canary_errors": len(r["canaries"]), "wall_s": round(time.time() - t0, 1)})
        stab[r["unit"]] = per
    extra["stability"] = stab
    # 2. shim conformance
    rc, hits = falsify_run._run(["search", "shims", str(seed + 1)])
    extra["shim_conformance"] = {"mismatches": [h for h in hits], "routine": "falsify shims (executable twins of the assumed specs vs std / file-ext)"}
    if hits:
        raise driver.Undecided("shim conformance test failed (an assumed contract is wrong): %s" % hits[0])
    # 2b. second back end (only where a loop-free full-domain harness exists: the Base64 alphabet of C18)
    if prop.get("kani"):
        import kani_backend
        k = kani_backend.run()
        extra["second_back_end"] = k
        if k.get("status") == "failed":
            extra["falsifier_violation"] = {"routine": "kani", "case": "c18_table", "function": "Base64::convert_number_to_base64_char",
                                            "input": "see output", "observed": k.get("output_tail", "")[-1500:]}
            return extra
    # 3. exploration by the falsifier
    fz = prop.get("falsifier")
    if fz:
        class F:  # minimal stand-in for a failure record
            pass
        h = falsify_run.search(pid, fz, F(), {})
        extra["falsifier_exploration"] = {"routines": fz, "hit": h}
        if h:
            extra["falsifier_violation"] = h
    return extra
