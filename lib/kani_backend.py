"""Second back end (thorough tier, property C18): a loop-free, full-domain Kani / CBMC harness on the real function
Base64::convert_number_to_base64_char.  The harness text (kani/base64_table.rs) is appended to a scratch copy of
/repo's src/core/base64/mod.rs under the build directory; /repo is never touched.  A success is a complete proof of the
64-entry table by a solver other than Z3 (it is reported separately and never counted among the Verus obligations); a
failure is a violation with Kani's output attached; anything else (tool missing, timeout, build problem) is recorded and
changes nothing."""
import os
import re
import shutil
import subprocess
import time

import driver

HARNESS = "number_to_char_is_rfc4648"


def run(timeout=900):
    repo = driver.REPO
    work = os.path.join(driver.BUILD, "kani-c18")
    shutil.rmtree(work, ignore_errors=True)
    os.makedirs(work)
    p = subprocess.run(["rsync", "-a", "--exclude", "target", "--exclude", ".git", repo + "/", work + "/"], capture_output=True, text=True)
    if p.returncode != 0:
        return {"status": "not-run", "reason": "copy failed: " + p.stderr[-300:]}
    src = os.path.join(work, "src", "core", "base64", "mod.rs")
    if not os.path.exists(src):
        return {"status": "not-run", "reason": "LOST-ANCHOR: src/core/base64/mod.rs"}
    with open(src, "a") as f:
        f.write(open(os.path.join(driver.VERIF, "kani", "base64_table.rs")).read())
    env = dict(os.environ, CARGO_NET_OFFLINE="true")
    t0 = time.time()
    try:
        p = subprocess.run(["cargo", "kani", "-Z", "stubbing", "--harness", HARNESS], cwd=work, capture_output=True, text=True, env=env, timeout=timeout)
        out = p.stdout + p.stderr
    except subprocess.TimeoutExpired:
        shutil.rmtree(work, ignore_errors=True)
        return {"status": "not-run", "reason": "timeout after %d s" % timeout}
    except FileNotFoundError:
        shutil.rmtree(work, ignore_errors=True)
        return {"status": "not-run", "reason": "cargo kani not installed"}
    wall = round(time.time() - t0, 1)
    shutil.rmtree(work, ignore_errors=True)
    m = re.search(r"\*\* (\d+) of (\d+) failed", out)
    res = {"back_end": "kani 0.68 / CBMC (cargo kani -Z stubbing --harness %s)" % HARNESS, "wall_s": wall,
           "harness": "Base64::convert_number_to_base64_char(any u8) == RFC 4648 table 1 / Err above 63; loop-free, full domain: complete, not bounded",
           "stub": "alloc::fmt::format (error text only)" if "fmt::format" in out or "Stub" in out else "alloc::fmt::format (requested)",
           "checks": int(m.group(2)) if m else None, "failed": int(m.group(1)) if m else None}
    if "VERIFICATION:- SUCCESSFUL" in out and m and m.group(1) == "0":
        res["status"] = "proved"
    elif "VERIFICATION:- FAILED" in out:
        res["status"] = "failed"
        res["output_tail"] = out[-3000:]
    else:
        res["status"] = "not-run"
        res["reason"] = out[-600:]
    return res
