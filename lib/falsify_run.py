"""Build and run the native falsifier against /repo's current sources."""
import json
import os
import re
import shutil
import subprocess

from compose import VERIF, REPO

FDIR = os.path.join(os.environ.get("RWS_BUILD_DIR") or os.path.join(VERIF, "build"), "falsify")


def build():
    os.makedirs(os.path.join(FDIR, "src"), exist_ok=True)
    main = open(os.path.join(REPO, "src", "main.rs")).read()
    mods = re.findall(r"^\s*pub mod (\w+);", main, re.M)
    out = ["// GENERATED: the real modules of /repo/src, by path\n#![allow(warnings)]\n"]
    for m in mods:
        p = os.path.join(REPO, "src", m, "mod.rs")
        if not os.path.exists(p):
            p = os.path.join(REPO, "src", m + ".rs")
        out.append('#[path = "%s"] pub mod %s;\n' % (p, m))
    out.append('#[path = "%s"] mod harness;\n' % os.path.join(VERIF, "falsify", "src", "harness.rs"))
    out.append("fn main() { let a: Vec<String> = std::env::args().skip(1).collect(); std::process::exit(harness::dispatch(&a)); }\n")
    new = "".join(out)
    mp = os.path.join(FDIR, "src", "main.rs")
    if not os.path.exists(mp) or open(mp).read() != new:
        open(mp, "w").write(new)
    cargo = open(os.path.join(REPO, "Cargo.toml")).read()
    new_cargo = cargo + "\n[workspace]\n\n[profile.dev]\nopt-level = 2\ndebug = false\noverflow-checks = true\ndebug-assertions = true\n"
    cp = os.path.join(FDIR, "Cargo.toml")
    if not os.path.exists(cp) or open(cp).read() != new_cargo:
        open(cp, "w").write(new_cargo)
    lock = os.path.join(REPO, "Cargo.lock")
    if not os.path.exists(lock):
        lock = "/repo/Cargo.lock"      # scratch worktrees do not carry the (untracked) lock file
    shutil.copy(lock, os.path.join(FDIR, "Cargo.lock"))
    env = dict(os.environ, CARGO_NET_OFFLINE="true")
    p = subprocess.run(["cargo", "build", "--offline", "--quiet"], cwd=FDIR, env=env, capture_output=True, text=True)
    if p.returncode != 0:
        raise RuntimeError("falsifier build failed: " + p.stderr[-1500:])
    return os.path.join(FDIR, "target", "debug", "rws")


def _run(args, cwd=None):
    exe = build()
    p = subprocess.run([exe] + args, capture_output=True, text=True, timeout=600, cwd=cwd or REPO)
    hits = []
    for l in p.stdout.split("\n"):
        if l.startswith("{"):
            try:
                hits.append(json.loads(l))
            except Exception:
                pass
    return p.returncode, hits


def search(pid, routine, failure, rep):
    seed = int(os.environ.get("VERIF_SEED", "0") or 0) + 1
    hits = []
    for rt in (routine if isinstance(routine, list) else [routine]):
        rc, hh = _run(["search", rt, str(seed)])
        for h in hh:
            h["routine"] = rt
        hits += hh
    import units
    known_cases = units.PROPS.get(pid, {}).get("known_cases", [])
    # a known case is either a whole case name or "case|<text that the observation starts with>" (one specific input)
    def is_known(h):
        for k in known_cases:
            if "|" in k:
                c, pre = k.split("|", 1)
                if h.get("case") == c and h.get("observed", "").startswith(pre):
                    return True
            elif h.get("case") == k:
                return True
        return False
    known_seen = {}
    for h in hits:
        if is_known(h):
            known_seen.setdefault(h.get("case"), h)
    if known_seen:
        # a listed finding that only the exploration can observe is announced like the obligation-based ones (once per case)
        notes = {}
        try:
            for l in open(os.path.join(os.path.dirname(os.path.dirname(os.path.abspath(__file__))), "known_findings.txt")):
                if l.startswith("known: property=%s case=" % pid):
                    rest = l.split("case=", 1)[1].strip()
                    cname, _, text = rest.partition(" ")
                    notes[cname.split("/")[-1]] = text
        except Exception:
            pass
        for cname, h in known_seen.items():
            if cname in notes and not os.environ.get("RWS_QUIET_KNOWN_CASES"):
                print("KNOWN-FINDING: property=%s falsifier case %s/%s (input %s) -- %s" % (pid, h.get("routine"), cname, json.dumps(h.get("input"))[:120], notes[cname]))
    hits = [h for h in hits if not is_known(h)]
    prefixes = units.PROPS.get(pid, {}).get("case_prefixes")
    if prefixes:
        hits = [h for h in hits if any(h.get("case", "").startswith(p) for p in prefixes)]
    if hits:
        h = hits[0]
        h["replay_args"] = ["replay", h["routine"], h["case"], h["input"]]
        return h
    return None


def rerun(pid, w):
    """returns True when the recorded input NO LONGER fails"""
    rc, hits = _run(w["replay_args"])
    if rc == 2:
        # routine without a dedicated replay entry: run its search again and look for the same case and input
        rc2, all_hits = _run(["search", w["replay_args"][1], str(int(os.environ.get("VERIF_SEED", "0") or 0) + 1)])
        hits = [h for h in all_hits if h.get("case") == w.get("case") and h.get("input") == w.get("input")]
        rc = 1 if hits else 0
    for h in hits:
        print("REPLAYED on real code: %s" % json.dumps(h)[:800])
    return rc == 0
