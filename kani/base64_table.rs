
// ---- appended by /verif (lib/kani_backend.py) to a SCRATCH COPY of src/core/base64/mod.rs; never to /repo ----
// Second back end for property C18: the 64-entry alphabet, value -> character, over the FULL domain of the argument (every u8):
// a loop-free harness (the three character ranges unwind to a fixed length), so a success is a complete proof by CBMC, not a
// bounded one.  `format!` (error text only) is stubbed: its content plays no role and it dominates CBMC's cost.
#[cfg(kani)]
mod rws_kani_table {
    use super::Base64;
    fn fmt_stub(_args: core::fmt::Arguments<'_>) -> String { String::new() }
    // RFC 4648 table 1, written independently
    fn rfc(n: u8) -> char {
        if n < 26 { (b'A' + n) as char } else if n < 52 { (b'a' + (n - 26)) as char } else if n < 62 { (b'0' + (n - 52)) as char } else if n == 62 { '+' } else { '/' }
    }
    #[kani::proof]
    #[kani::unwind(30)]
    #[kani::stub(alloc::fmt::format, fmt_stub)]
    fn number_to_char_is_rfc4648() {
        let n: u8 = kani::any();
        let r = Base64::convert_number_to_base64_char(n);
        if n < 64 { assert!(r == Ok(rfc(n))); } else { assert!(r.is_err()); }
    }
}
